(* C10 part 2 proofs: with the repaired restart logic every event cascade of a program accepted by
   cascade_cert_ok ends within phi(state) steps - instances with several heads (fork / merge /
   wait-for-heads), actionable heads that win or lose; with the unchanged logic it does not. *)
From Coq Require Import List Arith Bool Lia.
From NG Require Import V2.Term V2.Term_proofs V2.Cascade.
Import ListNotations.

Definition starts_cost (prog : program) (certs : list fcert) (l : list (flowid * bool)) : nat :=
  list_sum (map (fun fa => 1 + newpot prog certs (fst fa)) l).

Lemma starts_cost_app : forall prog certs a b,
  starts_cost prog certs (a ++ b) = starts_cost prog certs a + starts_cost prog certs b.
Proof. intros. unfold starts_cost. rewrite map_app, list_sum_app. reflexivity. Qed.

Lemma exec_cont_cost : forall prog certs f es o pos cs e pos' cs' st ni,
  exec_elem es o pos cs e = Cont pos' cs' st ni ->
  (match st with Some ga => 1 + newpot prog certs (fst ga) | None => 0 end) +
  (if ni then 1 + newpot prog certs f else 0) <= ecost prog certs f e /\
  (forall g, st = Some (g, true) -> e = EStart g true).
Proof.
  intros prog certs f es o pos cs e pos' cs' st ni H.
  destruct o; [| |simpl in H; discriminate];
    destruct e; simpl in H;
    repeat match type of H with
           | context [match ?x with _ => _ end] => destruct x eqn:?; try discriminate
           end; inversion H; subst; simpl; (split; [lia|]); intros g Hg; try discriminate;
    inversion Hg; subst; reflexivity.
Qed.

Lemma exec_cont_pos : forall es o pos cs e pos' cs' st ni,
  exec_elem es o pos cs e = Cont pos' cs' st ni -> 1 <= pos'.
Proof.
  intros es o pos cs e pos' cs' st ni H.
  destruct o; [| |simpl in H; discriminate];
    destruct e; simpl in H;
    repeat match type of H with
           | context [match ?x with _ => _ end] => destruct x eqn:?; try discriminate
           end; inversion H; subst; lia.
Qed.

Lemma exec_stop_kinds : forall es o pos cs e s,
  exec_elem es o pos cs e = Stop s ->
  match s with
  | Blocked p => p = pos /\ is_stop e = true
  | Forked p ts => p = pos /\ exists ls, e = EFork ls /\ all_some (map (label_pos es) ls) = Some ts
  | Ended => e = EReturn
  | OutOfFuel => False
  | _ => True
  end.
Proof.
  intros es o pos cs e s H.
  destruct o; destruct e; simpl in H;
    repeat match type of H with
           | context [match ?x with _ => _ end] => destruct x eqn:?; try discriminate
           end; inversion H; subst; simpl; auto; eauto.
Qed.

Lemma wat_lt : forall w len p, p < len -> wat w len p = nth p w 0.
Proof. intros. unfold wat. destruct (Nat.ltb_spec p len); [reflexivity|lia]. Qed.
Lemma wat_ge : forall w len p, len <= p -> wat w len p = 0.
Proof. intros. unfold wat. destruct (Nat.ltb_spec p len); [lia|reflexivity]. Qed.

(* what the weight check says about one cascade step *)
Lemma check_w_step : forall prog certs f es ct p e q s,
  check_w prog certs f es ct = true -> nth_error es p = Some e ->
  In (q, s) (succ_cfg true es (f_stk ct) p) ->
  1 + ecost prog certs f e + wat (f_w ct) (length es) q <= wat (f_w ct) (length es) p.
Proof.
  intros prog certs f es ct p e q s Hc Hn Hin.
  assert (Hlt : p < length es) by (apply nth_error_Some; congruence).
  unfold check_w in Hc. rewrite forallb_forall in Hc.
  assert (Hi : In p (seq 0 (length es))) by (apply in_seq; lia).
  specialize (Hc p Hi). rewrite Hn in Hc. apply andb_true_iff in Hc. destruct Hc as [Hc _].
  rewrite forallb_forall in Hc.
  specialize (Hc _ Hin). apply Nat.leb_le in Hc. simpl in Hc. simpl. lia.
Qed.


(* what check_clean says *)
Lemma check_clean_at : forall es ct p, check_clean es ct = true -> p < length es ->
  (nth p (f_clean ct) false = true ->
     (match nth_error es p with
      | Some (EWaitInt true) => Nat.eqb p 0
      | Some (EBlock BAction) => false
      | Some (EFork _) => forallb (fun qs => Nat.ltb (fst qs) (length es) && nth (fst qs) (f_noend ct) false)
                                  (succ_cfg true es (f_stk ct) p)
      | _ => true
      end = true) /\
     forallb (fun qs => Nat.leb (length es) (fst qs) || nth (fst qs) (f_clean ct) false)
             (succ_cfg true es (f_stk ct) p) = true) /\
  (nth p (f_noend ct) false = true ->
     (match nth_error es p with Some EReturn => false | _ => true end = true) /\
     forallb (fun qs => Nat.ltb (fst qs) (length es) && nth (fst qs) (f_noend ct) false)
             (succ_cfg true es (f_stk ct) p) = true).
Proof.
  intros es ct p Hc Hp. unfold check_clean in Hc. rewrite forallb_forall in Hc.
  assert (Hi : In p (seq 0 (length es))) by (apply in_seq; lia).
  specialize (Hc p Hi). apply andb_true_iff in Hc. destruct Hc as [HA HB]. split.
  - intros Hcl. rewrite Hcl in HA. simpl in HA. apply andb_true_iff in HA. assumption.
  - intros Hne. rewrite Hne in HB. simpl in HB. apply andb_true_iff in HB. assumption.
Qed.

Lemma clean_step : forall es ct p q s, check_clean es ct = true -> p < length es ->
  nth p (f_clean ct) false = true -> In (q, s) (succ_cfg true es (f_stk ct) p) -> q < length es ->
  nth q (f_clean ct) false = true.
Proof.
  intros es ct p q s Hc Hp Hcl Hin Hq.
  destruct (check_clean_at es ct p Hc Hp) as [HA _]. destruct (HA Hcl) as [_ H2].
  rewrite forallb_forall in H2. specialize (H2 _ Hin). simpl in H2.
  apply orb_true_iff in H2. destruct H2 as [H2|H2]; [apply Nat.leb_le in H2; lia|assumption].
Qed.

Lemma noend_step : forall es ct p q s, check_clean es ct = true -> p < length es ->
  nth p (f_noend ct) false = true -> In (q, s) (succ_cfg true es (f_stk ct) p) ->
  q < length es /\ nth q (f_noend ct) false = true.
Proof.
  intros es ct p q s Hc Hp Hne Hin.
  destruct (check_clean_at es ct p Hc Hp) as [_ HB]. destruct (HB Hne) as [_ H2].
  rewrite forallb_forall in H2. specialize (H2 _ Hin). simpl in H2.
  apply andb_true_iff in H2. destruct H2 as [H2 H3]. apply Nat.ltb_lt in H2. auto.
Qed.

Lemma noend_not_return : forall es ct p, check_clean es ct = true ->
  nth p (f_noend ct) false = true -> nth_error es p = Some EReturn -> False.
Proof.
  intros es ct p Hc Hne Hn. assert (Hp : p < length es) by (apply nth_error_Some; congruence).
  destruct (check_clean_at es ct p Hc Hp) as [_ HB]. destruct (HB Hne) as [H1 _]. rewrite Hn in H1. discriminate.
Qed.

Lemma clean_elem : forall es ct p e, check_clean es ct = true ->
  nth p (f_clean ct) false = true -> nth_error es p = Some e ->
  (e = EWaitInt true -> p = 0) /\ e <> EBlock BAction /\
  (forall ls q s, e = EFork ls -> In (q, s) (succ_cfg true es (f_stk ct) p) ->
                  q < length es /\ nth q (f_noend ct) false = true).
Proof.
  intros es ct p e Hc Hcl Hn. assert (Hp : p < length es) by (apply nth_error_Some; congruence).
  destruct (check_clean_at es ct p Hc Hp) as [HA _]. destruct (HA Hcl) as [H1 _]. rewrite Hn in H1.
  split; [|split].
  - intros ->. apply Nat.eqb_eq in H1. assumption.
  - intros ->. discriminate.
  - intros ls q s -> Hin. rewrite forallb_forall in H1. specialize (H1 _ Hin). simpl in H1.
    apply andb_true_iff in H1. destruct H1 as [H1 H2]. apply Nat.ltb_lt in H1. auto.
Qed.

Lemma conts_in_succ : forall ti es stk p e s q s',
  nth_error es p = Some e -> stk_at stk p = Some s -> In (q, s') (conts es s p e) ->
  In (q, s') (succ_cfg ti es stk p).
Proof. intros. unfold succ_cfg. rewrite H, H0. apply in_or_app. left. assumption. Qed.

Lemma resumes_in_succ : forall es stk p e s qs,
  nth_error es p = Some e -> stk_at stk p = Some s -> wakes e = true -> In qs (resumes es s p e) ->
  In qs (succ_cfg true es stk p).
Proof.
  intros es stk p e s qs Hn Hs Hw Hin. unfold succ_cfg. rewrite Hn, Hs. apply in_or_app. right.
  simpl. rewrite Hw. assumption.
Qed.

(* stack consistency of the resume points *)
Lemma resumes_stk : forall ti es r stk p e s q s',
  check_cert ti es r stk = true -> nth_error es p = Some e -> stk_at stk p = Some s ->
  In (q, s') (resumes es s p e) -> q < length es -> stk_at stk q = Some s'.
Proof.
  intros ti es r stk p e s q s' Hc Hn Hs Hin Hq.
  assert (Hp : p < length es) by (apply nth_error_Some; congruence).
  pose proof (check_cert_pos ti es r stk p Hc Hp) as Hcp. unfold check_pos in Hcp. rewrite Hn, Hs in Hcp.
  apply andb_true_iff in Hcp. destruct Hcp as [_ Hok]. rewrite forallb_forall in Hok.
  assert (Hin2 : In (q, s') (conts es s p e ++ resumes es s p e)) by (apply in_or_app; right; assumption).
  specialize (Hok _ Hin2). simpl in Hok. unfold stk_ok in Hok.
  apply orb_true_iff in Hok. destruct Hok as [Hok|Hok]; [apply Nat.leb_le in Hok; lia|].
  destruct (stk_at stk q) as [s2|]; [|discriminate]. apply eqb_labels_eq in Hok. congruence.
Qed.

Lemma resumes_same_stack : forall es s p e q s', In (q, s') (resumes es s p e) -> s' = s /\ 1 <= q.
Proof.
  intros es s p e q s' H. destruct e; simpl in H; try contradiction.
  - destruct k; simpl in H;
      repeat match goal with
             | H : _ \/ _ |- _ => destruct H as [H|H]
             | H : (_, _) = (_, _) |- _ => inversion H; subst; clear H
             | H : False |- _ => contradiction
             end; try (split; [reflexivity|lia]);
      unfold catch_resume in H; destruct s as [|l s0]; try contradiction;
      destruct (label_pos es l); simpl in H; try contradiction; destruct H as [H|[]]; inversion H; subst; split; auto; lia.
  - destruct H as [H|H]; [inversion H; subst; split; [reflexivity|lia]|].
    unfold catch_resume in H; destruct s as [|l s0]; try contradiction;
      destruct (label_pos es l); simpl in H; try contradiction; destruct H as [H|[]]; inversion H; subst; split; auto; lia.
  - destruct H as [H|[]]. inversion H; subst. split; [reflexivity|lia].
  - apply in_flat_map in H. destruct H as [l [_ H]]. destruct (label_pos es l); simpl in H; try contradiction.
    destruct H as [H|[]]. inversion H; subst. split; [reflexivity|lia].
Qed.

Lemma fork_resumes : forall es s p ls ts i,
  all_some (map (label_pos es) ls) = Some ts -> In i ts -> In (S i, s) (resumes es s p (EFork ls)).
Proof.
  intros es s p ls. simpl. induction ls as [|l ls IH]; intros ts i Ha Hin; simpl in Ha.
  - inversion Ha; subst. destruct Hin.
  - destruct (label_pos es l) as [i0|] eqn:Hl; [|discriminate].
    destruct (all_some (map (label_pos es) ls)) as [ts0|] eqn:Hr; [|discriminate].
    inversion Ha; subst. simpl. rewrite Hl. simpl. destruct Hin as [->|Hin]; [left; reflexivity|].
    right. eapply IH; eauto.
Qed.

Lemma fork_cost_ts : forall es w ls ts,
  all_some (map (label_pos es) ls) = Some ts ->
  list_sum (map (fun i => 1 + wat w (length es) (S i)) ts) = fork_cost es w ls.
Proof.
  intros es w. unfold fork_cost. induction ls as [|l ls IH]; intros ts Ha; simpl in Ha.
  - inversion Ha; reflexivity.
  - destruct (label_pos es l) as [i0|] eqn:Hl; [|discriminate].
    destruct (all_some (map (label_pos es) ls)) as [ts0|] eqn:Hr; [|discriminate].
    inversion Ha; subst. specialize (IH ts0 eq_refl). cbn [map list_sum fold_right] in *.
    unfold list_sum in *. rewrite Hl. lia.
Qed.

Lemma check_w_fork : forall prog certs f es ct p ls,
  check_w prog certs f es ct = true -> nth_error es p = Some (EFork ls) ->
  1 + fork_cost es (f_w ct) ls <= wat (f_w ct) (length es) p.
Proof.
  intros prog certs f es ct p ls Hc Hn.
  assert (Hlt : p < length es) by (apply nth_error_Some; congruence).
  unfold check_w in Hc. rewrite forallb_forall in Hc.
  assert (Hi : In p (seq 0 (length es))) by (apply in_seq; lia).
  specialize (Hc p Hi). rewrite Hn in Hc. apply andb_true_iff in Hc. destruct Hc as [_ Hc].
  apply Nat.leb_le in Hc. assumption.
Qed.

Section SlidePot.
  Variables (prog : program) (certs : list fcert) (f : flowid) (es : list elem) (ct : fcert).
  Hypothesis Hprog : nth_error prog f = Some es.
  Hypothesis Hcert : check_cert true es (f_rank ct) (f_stk ct) = true.
  Hypothesis Hw : check_w prog certs f es ct = true.
  Hypothesis Hclean : check_clean es ct = true.

  Local Notation len := (length es).
  Local Notation w := (f_w ct).
  Local Notation cl := (f_clean ct).
  Local Notation ne := (f_noend ct).

  Definition endpot (s : stop) : nat :=
    match s with Blocked p | Forked p _ => wat w len p | _ => 0 end.

  Lemma slide_pot : forall fuel orc k pos cs starts ni,
    (pos < len -> stk_at (f_stk ct) pos = Some cs) ->
    (pos < len -> rank_at (f_rank ct) pos < fuel) -> 0 < fuel ->
    let res := slide_fuel fuel es orc k pos cs starts ni in
    s_stop res <> OutOfFuel /\
    (exists new, s_starts res = starts ++ new /\
       (forall g, In (g, true) new -> activatable prog g = true) /\
       starts_cost prog certs new + (if s_newinst res && negb ni then 1 + newpot prog certs f else 0)
       + endpot (s_stop res) <= wat w len pos) /\
    (forall p, s_stop res = Blocked p \/ (exists ts, s_stop res = Forked p ts) ->
       p < len /\ stk_at (f_stk ct) p = Some (s_catch res) /\
       ((pos < len -> nth pos cl false = true) -> nth p cl false = true) /\
       (pos < len /\ nth pos ne false = true -> nth p ne false = true) /\
       (1 <= pos -> 1 <= p)) /\
    (forall p, s_stop res = Blocked p -> exists e, nth_error es p = Some e /\ is_stop e = true) /\
    (forall p ts, s_stop res = Forked p ts ->
       exists ls, nth_error es p = Some (EFork ls) /\ all_some (map (label_pos es) ls) = Some ts) /\
    (pos < len /\ nth pos ne false = true -> s_stop res <> Ended).
  Proof.
    induction fuel as [|fuel IH]; intros orc k pos cs starts ni Hcs Hrk Hpos; [lia|].
    simpl. destruct (nth_error es pos) as [e|] eqn:Hnth.
    2:{ simpl. assert (Hge : len <= pos) by (apply nth_error_None; assumption).
        split; [discriminate|]. split.
        { exists []. rewrite app_nil_r. split; [reflexivity|]. split; [intros g []|].
          rewrite andb_negb_r. unfold starts_cost. simpl. lia. }
        split; [intros p [Hp|[ts Hp]]; discriminate|].
        split; [intros p Hp; discriminate|].
        split; [intros p ts Hp; discriminate|].
        intros [Hlt _]. lia. }
    assert (Hlt : pos < len) by (apply nth_error_Some; congruence).
    destruct (exec_elem es (orc k) pos cs e) as [pos' cs' st ni'|s] eqn:Hex.
    - (* continue *)
      destruct (cert_step true es (f_rank ct) (f_stk ct) (orc k) pos cs e pos' cs' st ni' Hcert Hnth (Hcs Hlt) Hex)
        as [Hdec [Hle Hstk']].
      pose proof (exec_cont_in_conts _ _ _ _ _ _ _ _ _ Hex) as Hinc.
      pose proof (conts_in_succ true _ _ _ _ _ _ _ Hnth (Hcs Hlt) Hinc) as Hins.
      pose proof (check_w_step _ _ _ _ _ _ _ _ _ Hw Hnth Hins) as Hwstep.
      destruct (exec_cont_cost prog certs f _ _ _ _ _ _ _ _ _ Hex) as [Hcost Hact].
      specialize (Hrk Hlt).
      assert (Hrk' : pos' < len -> rank_at (f_rank ct) pos' < fuel).
      { intros Hp'. rewrite Nat.min_l in Hdec by lia. lia. }
      assert (Hfuel : 0 < fuel) by lia.
      specialize (IH orc (S k) pos' cs'
                     (match st with Some x => starts ++ [x] | None => starts end) (ni || ni') Hstk' Hrk' Hfuel).
      cbv zeta in IH. destruct IH as [I1 [[new [Hs [Hact' Hc]]] [I3 [I4 [I5 I6]]]]].
      split; [assumption|]. split.
      + exists (match st with Some x => [x] | None => [] end ++ new). split; [|split].
        * rewrite Hs. destruct st; [rewrite <- app_assoc; reflexivity | reflexivity].
        * intros g Hg. apply in_app_or in Hg. destruct Hg as [Hg|Hg]; [|apply Hact'; assumption].
          destruct st as [[g0 a0]|]; [|destruct Hg]. destruct Hg as [Hg|[]]. inversion Hg; subst.
          specialize (Hact g eq_refl). subst e.
          unfold activatable. apply existsb_exists. exists es. split; [eapply nth_error_In; eassumption|].
          apply existsb_exists. exists (EStart g true). split; [eapply nth_error_In; eassumption|].
          apply Nat.eqb_refl.
        * rewrite starts_cost_app.
          assert (Hst : starts_cost prog certs (match st with Some x => [x] | None => [] end)
                        = match st with Some ga => 1 + newpot prog certs (fst ga) | None => 0 end).
          { destruct st; unfold starts_cost; simpl; lia. }
          rewrite Hst.
          set (R := slide_fuel fuel es orc (S k) pos' cs'
                               (match st with Some x => starts ++ [x] | None => starts end) (ni || ni')) in *.
          destruct (s_newinst R), ni, ni'; simpl in *; lia.
      + split; [|split; [assumption|split; [assumption|]]].
        * intros p Hp. destruct (I3 p Hp) as [J1 [J2 [J3 [J4 J5]]]].
          split; [assumption|]. split; [assumption|]. split; [|split].
          -- intros Hcl. apply J3. intros Hp'.
             exact (clean_step es ct pos pos' cs' Hclean Hlt (Hcl Hlt) Hins Hp').
          -- intros [_ Hne]. apply J4. exact (noend_step es ct pos pos' cs' Hclean Hlt Hne Hins).
          -- intros _. apply J5. eapply exec_cont_pos; eassumption.
        * intros [_ Hne]. apply I6. exact (noend_step es ct pos pos' cs' Hclean Hlt Hne Hins).
    - (* stop *)
      simpl. pose proof (exec_stop_kinds _ _ _ _ _ _ Hex) as Hk.
      split; [destruct s; try discriminate; contradiction|].
      split.
      { exists []. rewrite app_nil_r. split; [reflexivity|]. split; [intros g []|].
        rewrite andb_negb_r. unfold starts_cost. simpl.
        destruct s; simpl; try lia; destruct Hk as [Hk _]; subst; lia. }
      split.
      { intros p [Hp|[ts Hp]]; subst s; destruct Hk as [Hk1 Hk2]; subst p;
          (split; [assumption|]; split; [apply Hcs; assumption|]; split; [intros Hcl; apply Hcl; assumption|];
           split; [intros [_ Hne]; assumption|auto]). }
      split.
      { intros p Hp. subst s. destruct Hk as [Hk1 Hk2]. subst p. exists e. auto. }
      split.
      { intros p ts Hp. subst s. destruct Hk as [Hk1 [ls [Hk2 Hk3]]]. subst p e. exists ls. auto. }
      intros [_ Hne] Hs. subst s. subst e. eapply noend_not_return; eauto.
  Qed.
End SlidePot.

(* ------------------------------------------------------------------------------------------ *)
(* unpacking cascade_cert_ok *)

Lemma forallb_i_nth : forall A (f : nat -> A -> bool) l i k a,
  forallb_i f l i = true -> nth_error l k = Some a -> f (i + k) a = true.
Proof.
  induction l as [|x l IH]; intros i k a H Hn; [destruct k; discriminate|].
  simpl in H. apply andb_true_iff in H. destruct H as [H1 H2].
  destruct k as [|k]; simpl in Hn.
  - inversion Hn; subst. rewrite Nat.add_0_r. assumption.
  - replace (i + S k) with (S i + k) by lia. eapply IH; eauto.
Qed.

Record flow_ok (prog : program) (certs : list fcert) (f : flowid) (es : list elem) (ct : fcert) : Prop := {
  fo_cert : nth_error certs f = Some ct;
  fo_head : exists tl, es = EWaitInt true :: tl;
  fo_stk0 : stk_at (f_stk ct) 0 = Some [];
  fo_check : check_cert true es (f_rank ct) (f_stk ct) = true;
  fo_w : check_w prog certs f es ct = true;
  fo_clean : check_clean es ct = true;
  fo_act : activatable prog f = true -> 1 < length es -> nth 1 (f_clean ct) false = true
}.

Lemma cert_ok_flow : forall prog certs f es,
  cascade_cert_ok prog certs = true -> nth_error prog f = Some es ->
  exists ct, flow_ok prog certs f es ct.
Proof.
  intros prog certs f es H Hn. unfold cascade_cert_ok in H.
  apply andb_true_iff in H. destruct H as [_ H].
  pose proof (forallb_i_nth _ _ _ 0 f es H Hn) as Hf. simpl in Hf.
  destruct (nth_error certs f) as [ct|] eqn:Hc; [|discriminate].
  repeat (apply andb_true_iff in Hf; let H' := fresh "H" in destruct Hf as [Hf H']).
  exists ct. constructor; auto.
  - destruct es as [|e tl]; [discriminate|]. destruct e; try discriminate. destruct started_making; try discriminate. eauto.
  - destruct (stk_at (f_stk ct) 0) as [[|]|]; try discriminate. reflexivity.
  - intros Ha Hl. rewrite Ha in H0. simpl in H0. apply orb_true_iff in H0. destruct H0 as [H0|H0]; [assumption|].
    apply Nat.leb_le in H0. lia.
Qed.

(* ------------------------------------------------------------------------------------------ *)
(* well-formed states *)

Definition quiet (es : list elem) (h : chead) : bool :=
  match nth_error es (h_pos h) with
  | Some (EWaitInt true) => Nat.eqb (h_pos h) 0
  | Some (EBlock BAction) => false
  | Some (EBlock BMatch) | Some EWaitHeads => h_inert h
  | _ => true
  end.

Section Inv.
  Variables (prog : program) (certs : list fcert).

  (* sa = the instance is activated and has not been STARTED yet *)
  Definition hwf (es : list elem) (ct : fcert) (sa forked : bool) (h : chead) : Prop :=
    (h_inert h = false -> forall q, In q (h_alts h) ->
       1 <= q /\ (q < length es -> stk_at (f_stk ct) q = Some (h_catch h)) /\
       (sa = true -> (q < length es -> nth q (f_clean ct) false = true) /\
                     (forked = true -> q < length es /\ nth q (f_noend ct) false = true))) /\
    (sa = true -> quiet es h = true).

  Definition sa_of (c : cinst) : bool := negb (started c) && c_act c.

  Definition iwf (c : cinst) : Prop :=
    (c_act c = true -> activatable prog (c_flow c) = true) /\
    (c_forked c = false -> length (c_heads c) <= 1) /\
    (listening c = true ->
     exists es ct, nth_error prog (c_flow c) = Some es /\ flow_ok prog certs (c_flow c) es ct /\
                   Forall (hwf es ct (sa_of c) (c_forked c)) (c_heads c)).

  Definition ewf (e : cev) : Prop :=
    match e with CStart g true => activatable prog g = true | _ => True end.

  Definition swf (st : cstate) : Prop :=
    Forall iwf (c_insts st) /\ Forall ewf (c_queue st).

  Definition qcost (l : list cev) : nat := list_sum (map (ev_cost prog certs) l).

  Lemma qcost_app : forall a b, qcost (a ++ b) = qcost a + qcost b.
  Proof. intros. unfold qcost. rewrite map_app, list_sum_app. reflexivity. Qed.

  Lemma qcost_starts : forall l,
    qcost (map (fun fa : flowid * bool => CStart (fst fa) (snd fa)) l) = starts_cost prog certs l.
  Proof.
    induction l as [|a l IH]; [reflexivity|]. unfold qcost, starts_cost in *. simpl. rewrite IH. reflexivity.
  Qed.

  Lemma ewf_starts : forall l, (forall g, In (g, true) l -> activatable prog g = true) ->
    Forall ewf (map (fun fa : flowid * bool => CStart (fst fa) (snd fa)) l).
  Proof.
    intros l H. apply Forall_forall. intros e He. apply in_map_iff in He. destruct He as [[g a] [He Hin]].
    subst e. simpl. destruct a; [apply H; assumption | exact I].
  Qed.

  Lemma hwf_weaken : forall es ct sa sa' fk h, (sa' = true -> sa = true) -> hwf es ct sa fk h -> hwf es ct sa' fk h.
  Proof.
    intros es ct sa sa' fk h Himp [H1 H2]. split.
    - intros Hi q Hq. destruct (H1 Hi q Hq) as [A [B C]]. split; [assumption|]. split; [assumption|].
      intros Hs. apply C. apply Himp. assumption.
    - intros Hs. apply H2. apply Himp. assumption.
  Qed.
End Inv.

Section Steps.
  Variables (prog : program) (certs : list fcert).
  Hypothesis Hok : cascade_cert_ok prog certs = true.

  Local Notation iwf := (iwf prog certs).
  Local Notation ewf := (ewf prog).
  Local Notation qcost := (qcost prog certs).
  Local Notation ipot := (ipot prog certs).

  Lemma ewf_start_if : forall b f a, (a = true -> activatable prog f = true) -> Forall ewf (start_if b f a).
  Proof.
    intros b f a H. destruct b; simpl; [|constructor]. constructor; [|constructor].
    simpl. destruct a; [apply H; reflexivity | exact I].
  Qed.

  Lemma ewf_note_if : forall b, Forall ewf (note_if b).
  Proof. intros []; simpl; repeat constructor. Qed.

  Lemma qcost_note_if : forall b, qcost (note_if b) = if b then 1 else 0.
  Proof. intros []; reflexivity. Qed.

  Lemma qcost_start_if : forall b f a, qcost (start_if b f a) = if b then 1 + newpot prog certs f else 0.
  Proof. intros [] f a; unfold Cascade_proofs.qcost; simpl; lia. Qed.

  Lemma qcost_note : qcost [CNote] = 1. Proof. reflexivity. Qed.

  Lemma wakes_movable_stop : forall e, is_stop e = true ->
    match e with EBlock BMatch | EWaitHeads => true | _ => false end = false -> wakes e = true.
  Proof. intros e H Hn. destruct e; simpl in *; try discriminate; auto. destruct k; auto; discriminate. Qed.

  Lemma waits_quiet_inert : forall es h, head_waits es h = true -> quiet es h = true -> h_inert h = true.
  Proof.
    intros es h Hw Hq. unfold head_waits in Hw. unfold quiet in Hq.
    apply andb_true_iff in Hw. destruct Hw as [Hp Hw]. apply negb_true_iff in Hp.
    destruct (nth_error es (h_pos h)) as [e|]; [|discriminate].
    destruct e; try discriminate.
    - destruct k; try discriminate. assumption.
    - destruct started_making; try discriminate. congruence.
    - assumption.
  Qed.

  Lemma list_max_le_all : forall l n, (forall x, In x l -> x <= n) -> list_max l <= n.
  Proof. intros l n H. apply list_max_le. apply Forall_forall. assumption. Qed.

  (* the potential of a head that comes to rest on a wakeable stop element *)
  Lemma alts_pot : forall f es ct p e s,
    flow_ok prog certs f es ct -> nth_error es p = Some e -> is_stop e = true -> wakes e = true ->
    stk_at (f_stk ct) p = Some s ->
    1 + list_max (map (wat (f_w ct) (length es)) (map fst (resumes es s p e))) <= wat (f_w ct) (length es) p.
  Proof.
    intros f es ct p e s Hf Hn Hs Hw Hst.
    assert (Hall : forall qs, In qs (resumes es s p e) ->
                     1 + wat (f_w ct) (length es) (fst qs) <= wat (f_w ct) (length es) p).
    { intros [q s'] Hin. pose proof (resumes_in_succ es (f_stk ct) p e s (q, s') Hn Hst Hw Hin) as Hin2.
      pose proof (check_w_step prog certs f es ct p e q s' (fo_w _ _ _ _ _ Hf) Hn Hin2). simpl. lia. }
    assert (Hne : In (S p, s) (resumes es s p e)).
    { destruct e; simpl in Hs; try discriminate; simpl; [destruct k|..]; simpl; auto. }
    pose proof (Hall _ Hne) as H1. simpl in H1.
    assert (Hm : list_max (map (wat (f_w ct) (length es)) (map fst (resumes es s p e))) <= wat (f_w ct) (length es) p - 1).
    { apply list_max_le_all. intros x Hx. apply in_map_iff in Hx. destruct Hx as [q [Hq Hin]].
      apply in_map_iff in Hin. destruct Hin as [qs [Hqs Hin]]. subst. specialize (Hall _ Hin). lia. }
    lia.
  Qed.

  Definition good_bound (c : cinst) (ct : fcert) (len q : nat) : nat :=
    2 + (if started c then 0 else 1) + list_sum (map (hpot (f_w ct) len) (c_heads c)) + (1 + wat (f_w ct) len q) +
    (if c_act c && negb (c_restarted c) && started c then 1 + newpot prog certs (c_flow c) else 0).

  (* advancing a movable head (taken out of its instance c) from one of its resume points: the
     instance stays well-formed, pays for everything it emits, and the potential drops by >= 1 *)
  Lemma run_head_pot : forall c hd q es ct o,
    nth_error prog (c_flow c) = Some es -> flow_ok prog certs (c_flow c) es ct ->
    listening c = true ->
    (c_act c = true -> activatable prog (c_flow c) = true) ->
    (c_forked c = false -> c_heads c = []) ->
    Forall (hwf es ct (sa_of c) (c_forked c)) (c_heads c) ->
    hwf es ct (sa_of c) (c_forked c) hd -> h_inert hd = false -> In q (h_alts hd) ->
    exists ro, run_head true es o c hd q = Some ro /\ iwf (r_inst ro) /\
               Forall ewf (r_right ro) /\ Forall ewf (r_left ro) /\
               ipot (r_inst ro) + qcost (r_right ro) + qcost (r_left ro) + 1 <= good_bound c ct (length es) q.
  Proof.
    intros c hd q es ct o Hprog Hf Hl Hactv Hnf Hothers [Hhd1 Hhd2] Hmov Hq.
    destruct (Hhd1 Hmov q Hq) as [Hq1 [Hqstk Hqsa]].
    pose proof (fo_cert _ _ _ _ _ Hf) as Hct.
    assert (Hs2 : q < length es -> rank_at (f_rank ct) q < length es + 1).
    { intros Hlt. pose proof (cert_rank_le true es _ _ _ _ (fo_check _ _ _ _ _ Hf) Hlt (Hqstk Hlt)). lia. }
    assert (Hs3 : 0 < length es + 1) by lia.
    pose proof (slide_pot prog certs (c_flow c) es ct Hprog (fo_check _ _ _ _ _ Hf) (fo_w _ _ _ _ _ Hf)
                          (fo_clean _ _ _ _ _ Hf) (length es + 1) o 0 q (h_catch hd) [] false Hqstk Hs2 Hs3) as HS.
    cbv zeta in HS. fold (slide (length es + 1) es o q (h_catch hd)) in HS.
    destruct HS as [Hno [[new [Hnew [Hnact Hcost]]] [Hstop [Hblk [Hfrk Hnoend]]]]].
    simpl in Hnew. rewrite andb_true_r in Hcost.
    unfold run_head, good_bound.
    set (r := slide (length es + 1) es o q (h_catch hd)) in *.
    rewrite Hnew.
    assert (Hqc : qcost (map (fun fa : flowid * bool => CStart (fst fa) (snd fa)) new) = starts_cost prog certs new)
      by apply qcost_starts.
    assert (Hewf_new : Forall ewf (map (fun fa : flowid * bool => CStart (fst fa) (snd fa)) new))
      by (apply ewf_starts; assumption).
    assert (Hewf_self : forall b, Forall ewf (start_if b (c_flow c) (c_act c)))
      by (intros b; apply ewf_start_if; assumption).
    (* facts about the start of the slide for a not yet started activated instance *)
    assert (Hsa_clean : sa_of c = true -> q < length es -> nth q (f_clean ct) false = true)
      by (intros H1 H2; apply (proj1 (Hqsa H1)); assumption).
    assert (Hsa_ne : sa_of c = true -> c_forked c = true -> q < length es /\ nth q (f_noend ct) false = true)
      by (intros H1 H2; apply (proj2 (Hqsa H1)); assumption).
    unfold listening in Hl.
    destruct (s_stop r) as [p|p ts| | |p|] eqn:Hstop_r.
    - (* Blocked p *)
      destruct (Hstop p (or_introl eq_refl)) as [Hp [Hstkp [Hclp [Hnep Hp1]]]].
      specialize (Hp1 Hq1).
      destruct (Hblk p eq_refl) as [e [He Hse]].
      rewrite He.
      set (inert := match e with EBlock BMatch | EWaitHeads => true | _ => false end) in *.
      set (hd' := {| h_pos := p; h_catch := s_catch r; h_inert := inert;
                     h_alts := map fst (resumes es (s_catch r) p e) |}) in *.
      set (becomes := negb (started c) && forallb (head_waits es) (hd' :: c_heads c)) in *.
      eexists; split; [reflexivity|]. cbn [r_inst r_right r_left].
      (* the new head *)
      assert (Hhpot : hpot (f_w ct) (length es) hd' <= wat (f_w ct) (length es) p).
      { unfold hpot. cbn [hd' h_inert h_alts]. destruct inert eqn:Hin; [lia|].
        eapply alts_pot; eauto. apply wakes_movable_stop; assumption. }
      assert (Hquiet : sa_of c = true -> quiet es hd' = true).
      { intros Hsa. unfold quiet. cbn [hd' h_pos h_inert]. rewrite He.
        assert (Hcp : nth p (f_clean ct) false = true) by (apply Hclp; intros Hl0; apply Hsa_clean; assumption).
        destruct (clean_elem es ct p e (fo_clean _ _ _ _ _ Hf) Hcp He) as [C1 [C2 _]].
        destruct e as [k|b| | | | | | | | | |]; simpl in Hse; try discriminate.
        - destruct k; unfold inert; simpl; try reflexivity. exfalso; apply C2; reflexivity.
        - destruct b; [specialize (C1 eq_refl); lia | reflexivity].
        - reflexivity. }
      assert (Hhwf : forall sa', (sa' = true -> sa_of c = true) -> hwf es ct sa' (c_forked c) hd').
      { intros sa' Himp. split.
        - cbn [hd' h_inert h_alts h_catch]. intros Hin q' Hq'.
          apply in_map_iff in Hq'. destruct Hq' as [[q2 s2] [Heq Hin2]]. simpl in Heq. subst q2.
          destruct (resumes_same_stack _ _ _ _ _ _ Hin2) as [-> Hge].
          assert (Hwk : wakes e = true) by (apply wakes_movable_stop; assumption).
          pose proof (resumes_in_succ es (f_stk ct) p e (s_catch r) _ He Hstkp Hwk Hin2) as Hsucc.
          split; [assumption|]. split.
          + intros Hlt. exact (resumes_stk true es (f_rank ct) (f_stk ct) p e (s_catch r) q' (s_catch r) (fo_check _ _ _ _ _ Hf) He Hstkp Hin2 Hlt).
          + intros Hsa'. pose proof (Himp Hsa') as Hsa. split.
            * intros Hlt.
              exact (clean_step es ct p q' (s_catch r) (fo_clean _ _ _ _ _ Hf) Hp (Hclp (fun Hl0 => Hsa_clean Hsa Hl0)) Hsucc Hlt).
            * intros Hfk. destruct (Hsa_ne Hsa Hfk) as [N1 N2].
              exact (noend_step es ct p q' (s_catch r) (fo_clean _ _ _ _ _ Hf) Hp (Hnep (conj N1 N2)) Hsucc).
        - intros Hsa'. apply Hquiet. apply Himp. assumption. }
      assert (Hsa' : forall st', (st' = CStarted \/ st' = c_status c) ->
                 (negb (match st' with CStarted => true | _ => false end) && c_act c = true -> sa_of c = true)).
      { intros st' [H0|H0]; subst st'; simpl; [discriminate|]. unfold sa_of, started. auto. }
      split; [|split; [|split]].
      + (* iwf *)
        split; [cbn; assumption|]. split.
        { cbn [c_forked c_heads]. intros Hfk. rewrite (Hnf Hfk). simpl. lia. }
        intros _. cbn [c_flow]. exists es, ct. split; [assumption|]. split; [assumption|].
        cbn [c_heads c_forked]. unfold sa_of, started. cbn [c_status c_act].
        assert (Himp : negb (match (if becomes then CStarted else c_status c) with CStarted => true | _ => false end) && c_act c = true -> sa_of c = true).
        { destruct becomes; [exact (Hsa' CStarted (or_introl eq_refl)) | exact (Hsa' (c_status c) (or_intror eq_refl))]. }
        constructor; [apply Hhwf; assumption|].
        eapply Forall_impl; [|exact Hothers]. intros h Hh. eapply hwf_weaken; [|exact Hh]. assumption.
      + apply Forall_app. split; [assumption|apply ewf_note_if].
      + apply Hewf_self.
      + (* potential *)
        rewrite qcost_app, Hqc, qcost_note_if, qcost_start_if.
        unfold Cascade.ipot, listening, started. cbn [c_status c_flow c_heads c_act c_restarted].
        rewrite Hprog, Hct. cbn [map list_sum fold_right]. unfold list_sum in *.
        simpl in Hcost.
        (* when the instance becomes STARTED and is activated, all its heads are inert *)
        assert (Hallinert : becomes = true -> c_act c = true ->
                  existsb (fun h => negb (h_inert h)) (hd' :: c_heads c) = false).
        { intros Hb Ha. unfold becomes in Hb. apply andb_true_iff in Hb. destruct Hb as [Hb1 Hb2].
          assert (Hsa : sa_of c = true) by (unfold sa_of; rewrite Hb1, Ha; reflexivity).
          rewrite forallb_forall in Hb2.
          destruct (existsb (fun h => negb (h_inert h)) (hd' :: c_heads c)) eqn:Hex; [|reflexivity].
          apply existsb_exists in Hex. destruct Hex as [h [Hin Hni]].
          assert (Hqh : quiet es h = true).
          { destruct Hin as [<-|Hin]; [apply Hquiet; assumption|].
            rewrite Forall_forall in Hothers. apply (proj2 (Hothers h Hin)). assumption. }
          rewrite (waits_quiet_inert es h (Hb2 h Hin) Hqh) in Hni. discriminate. }
        destruct becomes eqn:Hbec.
        * unfold becomes in Hbec. apply andb_true_iff in Hbec. destruct Hbec as [Hb1 _].
          unfold started in Hb1. destruct (c_status c) eqn:Hcs; try discriminate.
          destruct (c_act c) eqn:Ha.
          -- rewrite (Hallinert eq_refl eq_refl). rewrite andb_false_r.
             destruct (c_restarted c), (s_newinst r); simpl in *; lia.
          -- destruct (c_restarted c), (s_newinst r); simpl in *; lia.
        * destruct (c_status c) eqn:Hcs; try discriminate;
            destruct (c_act c), (c_restarted c), (s_newinst r);
            destruct (existsb (fun h => negb (h_inert h)) (hd' :: c_heads c)); simpl in *; lia.
    - (* Forked p ts *)
      destruct (Hstop p (or_intror (ex_intro _ ts eq_refl))) as [Hp [Hstkp [Hclp [Hnep Hp1]]]].
      destruct (Hfrk p ts eq_refl) as [ls [He Hts]].
      set (news := map (fun i => {| h_pos := p; h_catch := s_catch r; h_inert := false; h_alts := [S i] |}) ts) in *.
      eexists; split; [reflexivity|]. cbn [r_inst r_right r_left].
      assert (Hsum : list_sum (map (hpot (f_w ct) (length es)) news) + 1 <= wat (f_w ct) (length es) p).
      { pose proof (check_w_fork prog certs (c_flow c) es ct p ls (fo_w _ _ _ _ _ Hf) He) as Hfc.
        rewrite <- (fork_cost_ts es (f_w ct) ls ts Hts) in Hfc.
        assert (Heq : map (hpot (f_w ct) (length es)) news = map (fun i => 1 + wat (f_w ct) (length es) (S i)) ts).
        { unfold news. rewrite map_map. apply map_ext. intros i. unfold hpot. simpl. lia. }
        rewrite Heq. lia. }
      assert (Hnews : Forall (hwf es ct (sa_of c) true) news).
      { apply Forall_forall. intros h Hh. unfold news in Hh. apply in_map_iff in Hh. destruct Hh as [i [<- Hi]].
        pose proof (fork_resumes es (s_catch r) p ls ts i Hts Hi) as Hres.
        pose proof (resumes_in_succ es (f_stk ct) p (EFork ls) (s_catch r) _ He Hstkp eq_refl Hres) as Hsucc.
        split.
        - cbn [h_inert h_alts h_catch]. intros _ q' [<-|[]]. split; [lia|]. split.
          + intros Hlt. exact (resumes_stk true es (f_rank ct) (f_stk ct) p (EFork ls) (s_catch r) (S i) (s_catch r)
                                           (fo_check _ _ _ _ _ Hf) He Hstkp Hres Hlt).
          + intros Hsa.
            assert (Hcp : nth p (f_clean ct) false = true) by (apply Hclp; intros Hl0; apply Hsa_clean; assumption).
            destruct (clean_elem es ct p (EFork ls) (fo_clean _ _ _ _ _ Hf) Hcp He) as [_ [_ C3]].
            split.
            * intros Hlt. exact (clean_step es ct p (S i) (s_catch r) (fo_clean _ _ _ _ _ Hf) Hp Hcp Hsucc Hlt).
            * intros _. exact (C3 ls (S i) (s_catch r) eq_refl Hsucc).
        - intros _. unfold quiet. cbn [h_pos]. rewrite He. reflexivity. }
      split; [|split; [|split]].
      + split; [cbn; assumption|]. split; [cbn; discriminate|].
        intros _. cbn [c_flow]. exists es, ct. split; [assumption|]. split; [assumption|].
        cbn [c_heads c_forked]. unfold sa_of, started. cbn [c_status c_act]. fold (started c). fold (sa_of c).
        apply Forall_app. split; [assumption|].
        destruct (c_forked c) eqn:Hfk; [assumption|]. rewrite (Hnf eq_refl). constructor.
      + assumption.
      + apply Hewf_self.
      + rewrite Hqc, qcost_start_if.
        unfold Cascade.ipot, listening, started. cbn [c_status c_flow c_heads c_act c_restarted].
        rewrite Hprog, Hct. rewrite map_app, list_sum_app. unfold list_sum in *. simpl in Hcost.
        destruct (c_status c) eqn:Hcs; try discriminate;
          destruct (c_act c), (c_restarted c), (s_newinst r);
          destruct (existsb (fun h => negb (h_inert h)) (news ++ c_heads c)); simpl in *; lia.
    - (* Ended *)
      destruct (negb (started c) && c_act c) eqn:Hg.
      + (* immediate-finish guard: only possible for an instance that never forked *)
        assert (Hsa : sa_of c = true) by exact Hg.
        assert (Hnofork : c_forked c = false).
        { destruct (c_forked c) eqn:Hfk; [|reflexivity]. exfalso.
          destruct (Hsa_ne Hsa eq_refl) as [N1 N2]. apply (Hnoend (conj N1 N2)). reflexivity. }
        eexists; split; [reflexivity|]. cbn [r_inst r_right r_left].
        split; [|split; [|split]].
        * split; [cbn; assumption|]. split; [cbn; intros _; rewrite (Hnf Hnofork); simpl; lia|].
          intros _. cbn [c_flow]. exists es, ct. split; [assumption|]. split; [assumption|].
          cbn [c_heads]. rewrite (Hnf Hnofork). constructor.
        * apply Forall_app. split; [assumption|repeat constructor].
        * apply Hewf_self.
        * rewrite qcost_app, Hqc, qcost_note, qcost_start_if.
          unfold Cascade.ipot, listening, started in *. cbn [c_status c_flow c_heads c_act c_restarted].
          rewrite Hprog, Hct. rewrite (Hnf Hnofork). simpl in Hcost. unfold list_sum. simpl.
          destruct (c_status c); try discriminate; destruct (c_act c), (c_restarted c), (s_newinst r); simpl in *; try discriminate; lia.
      + eexists; split; [reflexivity|]. cbn [r_inst r_right r_left].
        split; [|split; [|split]].
        * split; [cbn; assumption|]. split; [cbn; intros _; lia|]. cbn. discriminate.
        * apply Forall_app. split; [assumption|apply Forall_app; split; [apply ewf_note_if|repeat constructor]].
        * apply Forall_app; split; apply Hewf_self.
        * rewrite !qcost_app, Hqc, qcost_note, qcost_note_if, !qcost_start_if.
          unfold Cascade.ipot, listening, dead_inst, started in *. cbn [c_status]. simpl in Hcost.
          assert (0 <= list_sum (map (hpot (f_w ct) (length es)) (c_heads c))) by lia.
          destruct (c_status c); try discriminate; destruct (c_act c), (c_restarted c), (s_newinst r); simpl in *; try discriminate; lia.
    - (* Aborted *)
      eexists; split; [reflexivity|]. cbn [r_inst r_right r_left fail_inst].
      split; [|split; [|split]].
      + split; [cbn; assumption|]. split; [cbn; intros _; lia|]. cbn. discriminate.
      + apply Forall_app. split; [assumption|repeat constructor].
      + apply Forall_app; split; apply Hewf_self.
      + rewrite !qcost_app, Hqc, !qcost_start_if.
        unfold Cascade.ipot, listening, dead_inst, guard_ok, started in *. cbn [c_status]. simpl in Hcost.
        destruct (c_status c); try discriminate; destruct (c_act c), (c_restarted c), (s_newinst r); simpl in *; try discriminate;
          unfold Cascade_proofs.qcost; simpl; lia.
    - (* Raised *)
      eexists; split; [reflexivity|]. cbn [r_inst r_right r_left fail_inst].
      split; [|split; [|split]].
      + split; [cbn; assumption|]. split; [cbn; intros _; lia|]. cbn. discriminate.
      + apply Forall_app. split; [assumption|repeat constructor].
      + apply Forall_app; split; apply Hewf_self.
      + rewrite !qcost_app, Hqc, !qcost_start_if.
        unfold Cascade.ipot, listening, dead_inst, guard_ok, started in *. cbn [c_status]. simpl in Hcost.
        destruct (c_status c); try discriminate; destruct (c_act c), (c_restarted c), (s_newinst r); simpl in *; try discriminate;
          unfold Cascade_proofs.qcost; simpl; lia.
    - exfalso. apply Hno. reflexivity.
  Qed.

  Lemma sum_set_nth : forall (f : cinst -> nat) l i a b,
    nth_error l i = Some a -> list_sum (map f (set_nth l i b)) + f a = list_sum (map f l) + f b.
  Proof.
    induction l as [|x l IH]; intros i a b H; [destruct i; discriminate|].
    destruct i as [|i]; simpl in *.
    - inversion H; subst. lia.
    - specialize (IH i a b H). lia.
  Qed.

  Lemma Forall_set_nth : forall (P : cinst -> Prop) l i b, Forall P l -> P b -> Forall P (set_nth l i b).
  Proof.
    induction l as [|x l IH]; intros i b Hl Hb; [constructor|].
    inversion Hl; subst. destruct i; simpl; constructor; auto.
  Qed.

  Local Notation swf := (swf prog certs).
  Local Notation phi := (phi prog certs).

  Definition good (c : cinst) (ro : rout) : Prop :=
    iwf (r_inst ro) /\ Forall ewf (r_right ro) /\ Forall ewf (r_left ro) /\
    ipot (r_inst ro) + qcost (r_right ro) + qcost (r_left ro) + 1 <= ipot c.

  Lemma apply_good : forall st i c ro,
    swf st -> nth_error (c_insts st) i = Some c -> good c ro ->
    swf (apply_rout st i ro) /\ phi (apply_rout st i ro) + 1 <= phi st.
  Proof.
    intros st i c ro [Hi Hq] Hn [G1 [G2 [G3 G4]]]. split.
    - split; simpl.
      + apply Forall_set_nth; assumption.
      + apply Forall_app. split; [assumption|]. apply Forall_app. split; assumption.
    - unfold Cascade.phi. simpl.
      pose proof (sum_set_nth ipot (c_insts st) i c (r_inst ro) Hn) as Hs.
      change (list_sum (map (ev_cost prog certs) (r_left ro ++ c_queue st ++ r_right ro)))
        with (qcost (r_left ro ++ c_queue st ++ r_right ro)).
      rewrite !qcost_app.
      change (list_sum (map (ev_cost prog certs) (c_queue st))) with (qcost (c_queue st)).
      lia.
  Qed.

  (* list facts about removing / filtering heads *)
  Lemma remove_nth_sum : forall (f : chead -> nat) l j h,
    nth_error l j = Some h -> list_sum (map f l) = f h + list_sum (map f (remove_nth l j)).
  Proof.
    induction l as [|x l IH]; intros j h H; [destruct j; discriminate|].
    destruct j as [|j]; simpl in *.
    - inversion H; subst. reflexivity.
    - rewrite (IH j h H). lia.
  Qed.

  Lemma remove_nth_incl : forall A (l : list A) j x, In x (remove_nth l j) -> In x l.
  Proof.
    induction l as [|y l IH]; intros j x H; [destruct j; destruct H|].
    destruct j; simpl in *; [right; assumption|]. destruct H as [H|H]; [left; assumption|right; eapply IH; eauto].
  Qed.

  Lemma remove_nth_length : forall A (l : list A) j h, nth_error l j = Some h -> length l = S (length (remove_nth l j)).
  Proof.
    induction l as [|y l IH]; intros j h H; [destruct j; discriminate|].
    destruct j; simpl in *; [reflexivity|]. rewrite (IH j h H). reflexivity.
  Qed.

  Definition keep_filter (keep : nat -> bool) (l : list chead) : list chead :=
    map snd (filter (fun kh => keep (fst kh)) (combine (seq 0 (length l)) l)).

  Lemma keep_filter_gen : forall (f : chead -> nat) keep l n,
    let r := map snd (filter (fun kh : nat * chead => keep (fst kh)) (combine (seq n (length l)) l)) in
    list_sum (map f r) <= list_sum (map f l) /\ length r <= length l /\ (forall x, In x r -> In x l).
  Proof.
    intros f keep. induction l as [|h l IH]; intros n; simpl; [repeat split; auto; intros x []|].
    destruct (IH (S n)) as [A [B C]]. destruct (keep n); simpl; repeat split; try lia.
    - intros x [Hx|Hx]; [left; assumption|right; apply C; assumption].
    - intros x Hx. right. apply C. assumption.
  Qed.

  (* the premises of run_head_pot for a movable head j of a well-formed instance, after some of the
     other heads were removed *)
  Lemma head_good : forall c j hd q es ct o others,
    iwf c -> listening c = true -> nth_error prog (c_flow c) = Some es -> flow_ok prog certs (c_flow c) es ct ->
    nth_error (c_heads c) j = Some hd -> h_inert hd = false -> In q (h_alts hd) ->
    (forall x, In x others -> In x (remove_nth (c_heads c) j)) ->
    list_sum (map (hpot (f_w ct) (length es)) others) <= list_sum (map (hpot (f_w ct) (length es)) (remove_nth (c_heads c) j)) ->
    length others <= length (remove_nth (c_heads c) j) ->
    exists ro, run_head true es o (with_heads c others) hd q = Some ro /\ good c ro.
  Proof.
    intros c j hd q es ct o others [Hactv [Hnf Hwf]] Hl Hprog Hf Hj Hmov Hq Hincl Hsum Hlen.
    destruct (Hwf Hl) as [es' [ct' [Hp' [Hf' Hall]]]].
    rewrite Hprog in Hp'. inversion Hp'; subst es'. clear Hp'.
    assert (ct' = ct) by (pose proof (fo_cert _ _ _ _ _ Hf); pose proof (fo_cert _ _ _ _ _ Hf'); congruence). subst ct'.
    rewrite Forall_forall in Hall.
    assert (Hhd : hwf es ct (sa_of c) (c_forked c) hd) by (apply Hall; eapply nth_error_In; eauto).
    assert (Hoth : Forall (hwf es ct (sa_of (with_heads c others)) (c_forked (with_heads c others))) (c_heads (with_heads c others))).
    { apply Forall_forall. intros x Hx. apply Hall. eapply remove_nth_incl. apply Hincl. assumption. }
    assert (Hnf' : c_forked (with_heads c others) = false -> c_heads (with_heads c others) = []).
    { cbn. intros Hfk. specialize (Hnf Hfk). pose proof (remove_nth_length _ _ _ _ Hj) as Hlj.
      destruct others; [reflexivity|]. simpl in Hlen. lia. }
    destruct (run_head_pot (with_heads c others) hd q es ct o Hprog Hf Hl Hactv Hnf' Hoth Hhd Hmov Hq)
      as [ro [Hr [G1 [G2 [G3 G4]]]]].
    exists ro. split; [assumption|]. split; [assumption|]. split; [assumption|]. split; [assumption|].
    eapply Nat.le_trans; [exact G4|]. unfold good_bound. cbn [with_heads c_heads c_act c_restarted c_flow started c_status].
    fold (started c).
    pose proof (fo_cert _ _ _ _ _ Hf) as Hct.
    unfold Cascade.ipot. rewrite Hl, Hprog, Hct.
    rewrite (remove_nth_sum (hpot (f_w ct) (length es)) (c_heads c) j hd Hj).
    assert (Hh : 1 + wat (f_w ct) (length es) q <= hpot (f_w ct) (length es) hd).
    { unfold hpot. rewrite Hmov.
      assert (wat (f_w ct) (length es) q <= list_max (map (wat (f_w ct) (length es)) (h_alts hd))).
      { assert (Hin : In (wat (f_w ct) (length es) q) (map (wat (f_w ct) (length es)) (h_alts hd))) by (apply in_map; assumption).
        revert Hin. generalize (map (wat (f_w ct) (length es)) (h_alts hd)) (wat (f_w ct) (length es) q). clear.
        induction l as [|x l IH]; intros n Hin; [destruct Hin|]. destruct Hin as [Hx|H]; simpl; [subst; lia|]. specialize (IH n H). lia. }
      lia. }
    assert (Hex : existsb (fun h => negb (h_inert h)) (c_heads c) = true).
    { apply existsb_exists. exists hd. split; [eapply nth_error_In; eauto|]. rewrite Hmov. reflexivity. }
    rewrite Hex, andb_true_r. change (started (with_heads c others)) with (started c). lia.
  Qed.

  (* removing heads from a well-formed instance *)
  Lemma subheads_iwf : forall c others,
    iwf c -> (forall x, In x others -> In x (c_heads c)) -> length others <= length (c_heads c) ->
    iwf (with_heads c others).
  Proof.
    intros c others [Ha [Hnf Hw]] Hincl Hlen. split; [exact Ha|]. split.
    - cbn. intros Hfk. specialize (Hnf Hfk). lia.
    - intros Hl. destruct (Hw Hl) as [es [ct [Hp [Hf Hall]]]]. exists es, ct. split; [exact Hp|]. split; [exact Hf|].
      cbn [with_heads c_heads c_forked]. change (sa_of (with_heads c others)) with (sa_of c).
      rewrite Forall_forall in *. intros x Hx. apply Hall. apply Hincl. assumption.
  Qed.

  Lemma ipot_listening : forall c es ct, listening c = true ->
    nth_error prog (c_flow c) = Some es -> nth_error certs (c_flow c) = Some ct ->
    ipot c = 2 + (if started c then 0 else 1) + list_sum (map (hpot (f_w ct) (length es)) (c_heads c)) +
             (if c_act c && negb (c_restarted c) && started c && existsb (fun h => negb (h_inert h)) (c_heads c)
              then 1 + newpot prog certs (c_flow c) else 0).
  Proof. intros c es ct Hl Hp Hc. unfold Cascade.ipot. rewrite Hl, Hp, Hc. lia. Qed.

  Lemma hpot_movable : forall w len h, h_inert h = false -> 1 <= hpot w len h.
  Proof. intros w len h H. unfold hpot. rewrite H. lia. Qed.

  (* dropping a movable head *)
  Lemma drop_good : forall c j hd others,
    iwf c -> listening c = true -> nth_error (c_heads c) j = Some hd -> h_inert hd = false ->
    (forall x, In x others -> In x (remove_nth (c_heads c) j)) ->
    (forall f : chead -> nat, list_sum (map f others) <= list_sum (map f (remove_nth (c_heads c) j))) ->
    length others <= length (remove_nth (c_heads c) j) ->
    good c {| r_inst := with_heads c others; r_right := []; r_left := [] |}.
  Proof.
    intros c j hd others Hc Hl Hj Hmov Hincl Hsum Hlen. unfold good. cbn [r_inst r_right r_left].
    pose proof (remove_nth_length _ _ _ _ Hj) as Hlj.
    split; [apply subheads_iwf; [assumption| |lia]|].
    { intros x Hx. eapply remove_nth_incl. apply Hincl. assumption. }
    split; [constructor|]. split; [constructor|].
    destruct Hc as [Ha [Hnf Hw]]. destruct (Hw Hl) as [es [ct [Hp [Hf Hall]]]].
    pose proof (fo_cert _ _ _ _ _ Hf) as Hct.
    rewrite (ipot_listening c es ct Hl Hp Hct).
    rewrite (ipot_listening (with_heads c others) es ct Hl Hp Hct).
    cbn [with_heads c_heads c_act c_restarted c_flow]. change (started (with_heads c others)) with (started c).
    rewrite (remove_nth_sum (hpot (f_w ct) (length es)) (c_heads c) j hd Hj).
    pose proof (hpot_movable (f_w ct) (length es) hd Hmov).
    pose proof (Hsum (hpot (f_w ct) (length es))).
    assert (Hex : existsb (fun h => negb (h_inert h)) (c_heads c) = true).
    { apply existsb_exists. exists hd. split; [eapply nth_error_In; eauto|]. rewrite Hmov. reflexivity. }
    rewrite Hex, andb_true_r. unfold Cascade_proofs.qcost. simpl.
    destruct (c_act c && negb (c_restarted c) && started c);
      destruct (existsb (fun h => negb (h_inert h)) others); simpl; lia.
  Qed.

  Lemma kill_good : forall c, iwf c -> listening c = true -> good c (kill_inst c).
  Proof.
    intros c [Ha [Hnf Hw]] Hl. unfold good, kill_inst. cbn [r_inst r_right r_left].
    split; [split; [cbn; assumption|split; [cbn; intros _; lia|cbn; discriminate]]|].
    split; [repeat constructor|]. split; [constructor|].
    unfold Cascade.ipot at 1. unfold listening at 1. cbn [dead_inst c_status].
    unfold Cascade.ipot. rewrite Hl. unfold Cascade_proofs.qcost. simpl. lia.
  Qed.

  (* the flow fails by itself with a movable head: restart only if allowed and paid for *)
  Lemma fail_good : forall c j hd may,
    iwf c -> listening c = true -> nth_error (c_heads c) j = Some hd -> h_inert hd = false ->
    (may = true -> c_act c = true -> started c = true) ->
    good c (fail_inst c may false (c_restarted c)).
  Proof.
    intros c j hd may [Ha [Hnf Hw]] Hl Hj Hmov Hmay.
    destruct (Hw Hl) as [es [ct [Hp [Hf Hall]]]].
    pose proof (fo_cert _ _ _ _ _ Hf) as Hct.
    unfold good, fail_inst. cbn [r_inst r_right r_left].
    split; [split; [cbn; assumption|split; [cbn; intros _; lia|cbn; discriminate]]|].
    split; [repeat constructor|]. split; [apply ewf_start_if; assumption|].
    unfold Cascade.ipot at 1. unfold listening at 1. cbn [dead_inst c_status].
    rewrite qcost_start_if. rewrite (ipot_listening c es ct Hl Hp Hct).
    rewrite (remove_nth_sum (hpot (f_w ct) (length es)) (c_heads c) j hd Hj).
    pose proof (hpot_movable (f_w ct) (length es) hd Hmov).
    assert (Hex : existsb (fun h => negb (h_inert h)) (c_heads c) = true).
    { apply existsb_exists. exists hd. split; [eapply nth_error_In; eauto|]. rewrite Hmov. reflexivity. }
    rewrite Hex, andb_true_r. unfold Cascade_proofs.qcost. simpl.
    destruct (c_act c) eqn:Hact, (c_restarted c), may; simpl; try lia;
      rewrite (Hmay eq_refl eq_refl); simpl; lia.
  Qed.

  Lemma inst_iwf : forall st i c, swf st -> nth_error (c_insts st) i = Some c -> iwf c.
  Proof. intros st i c [Hs _] Hn. rewrite Forall_forall in Hs. apply Hs. eapply nth_error_In; eauto. Qed.

  Lemma flow_of : forall c, iwf c -> listening c = true ->
    forall es, nth_error prog (c_flow c) = Some es -> exists ct, flow_ok prog certs (c_flow c) es ct.
  Proof.
    intros c [_ [_ Hw]] Hl es Hp. destruct (Hw Hl) as [es' [ct [Hp' [Hf _]]]].
    rewrite Hp in Hp'. inversion Hp'; subst. eauto.
  Qed.

  (* every reaction of a head keeps the state well-formed and does not increase the potential;
     `strict`: if the head exists, is movable and the reaction is not RIgnore, it decreases *)
  Ltac same_state st Hs :=
    exists st; split; [reflexivity|split; [exact Hs|split; [lia|intros; congruence]]].

  Lemma react_head_ok : forall orc keep rc st i j,
    swf st -> exists st', react_head true prog orc keep rc st i j = COk st' /\ swf st' /\ phi st' <= phi st /\
      (forall c hd es, nth_error (c_insts st) i = Some c -> nth_error (c_heads c) j = Some hd ->
                       nth_error prog (c_flow c) = Some es -> movable c hd = true ->
                       rc <> RIgnore -> phi st' + 1 <= phi st).
  Proof.
    intros orc keep rc st i j Hs. unfold react_head.
    destruct (nth_error (c_insts st) i) as [c|] eqn:Hn.
    2:{ same_state st Hs. }
    pose proof (inst_iwf st i c Hs Hn) as Hc.
    assert (Hkill : forall (Hl : listening c = true),
              exists st', COk (apply_rout st i (kill_inst c)) = COk st' /\ swf st' /\ phi st' + 1 <= phi st).
    { intros Hl. destruct (apply_good st i c _ Hs Hn (kill_good c Hc Hl)) as [A B]. eauto. }
    destruct rc.
    - same_state st Hs.
    - (* RAdvance *)
      destruct (nth_error (c_heads c) j) as [hd|] eqn:Hj.
      2:{ same_state st Hs. }
      destruct (nth_error prog (c_flow c)) as [es|] eqn:Hp.
      2:{ same_state st Hs. }
      destruct (movable c hd) eqn:Hm.
      2:{ same_state st Hs. }
      unfold movable in Hm. apply andb_true_iff in Hm. destruct Hm as [Hl Hmov]. apply negb_true_iff in Hmov.
      destruct (flow_of c Hc Hl es Hp) as [ct Hf].
      set (others := remove_nth (c_heads c) j) in *.
      set (others' := match nth_error es (h_pos hd) with
                      | Some (EBlock BMerge) => map snd (filter (fun kh : nat * chead => keep (fst kh)) (combine (seq 0 (length others)) others))
                      | _ => others
                      end).
      assert (Ho : (forall x, In x others' -> In x others) /\
                   (forall f : chead -> nat, list_sum (map f others') <= list_sum (map f others)) /\
                   length others' <= length others).
      { unfold others'. destruct (nth_error es (h_pos hd)) as [[[]| | | | | | | | | | |]|]; try (repeat split; auto; fail).
        split; [|split].
        - intros x Hx. exact (proj2 (proj2 (keep_filter_gen (fun _ => 0) keep others 0)) x Hx).
        - intros f0. exact (proj1 (keep_filter_gen f0 keep others 0)).
        - exact (proj1 (proj2 (keep_filter_gen (fun _ => 0) keep others 0))). }
      destruct Ho as [Ho1 [Ho2 Ho3]].
      destruct (nth_error (h_alts hd) 0) as [q|] eqn:Hq.
      + assert (Hqin : In q (h_alts hd)) by (eapply nth_error_In; eauto).
        destruct (head_good c j hd q es ct (orc (c_tick st)) others' Hc Hl Hp Hf Hj Hmov Hqin Ho1 (Ho2 _) Ho3) as [ro [Hr Hg]].
        fold others'. rewrite Hr. destruct (apply_good st i c ro Hs Hn Hg) as [A B].
        eexists; split; [reflexivity|]. split; [exact A|]. split; [lia|]. intros; lia.
      + fold others'.
        destruct (apply_good st i c _ Hs Hn (drop_good c j hd others Hc Hl Hj Hmov (fun x H => H) (fun f => le_n _) (le_n _))) as [A B].
        eexists; split; [reflexivity|]. split; [exact A|]. split; [lia|]. intros; lia.
    - (* RFail *)
      destruct (nth_error (c_heads c) j) as [hd|] eqn:Hj.
      2:{ same_state st Hs. }
      destruct (nth_error prog (c_flow c)) as [es|] eqn:Hp.
      2:{ same_state st Hs. }
      destruct (movable c hd) eqn:Hm.
      2:{ same_state st Hs. }
      unfold movable in Hm. apply andb_true_iff in Hm. destruct Hm as [Hl Hmov]. apply negb_true_iff in Hmov.
      destruct (flow_of c Hc Hl es Hp) as [ct Hf].
      set (others := remove_nth (c_heads c) j) in *.
      set (others' := match nth_error es (h_pos hd) with
                      | Some (EBlock BMerge) => map snd (filter (fun kh : nat * chead => keep (fst kh)) (combine (seq 0 (length others)) others))
                      | _ => others
                      end).
      assert (Ho : (forall x, In x others' -> In x others) /\
                   (forall f : chead -> nat, list_sum (map f others') <= list_sum (map f others)) /\
                   length others' <= length others).
      { unfold others'. destruct (nth_error es (h_pos hd)) as [[[]| | | | | | | | | | |]|]; try (repeat split; auto; fail).
        split; [|split].
        - intros x Hx. exact (proj2 (proj2 (keep_filter_gen (fun _ => 0) keep others 0)) x Hx).
        - intros f0. exact (proj1 (keep_filter_gen f0 keep others 0)).
        - exact (proj1 (proj2 (keep_filter_gen (fun _ => 0) keep others 0))). }
      destruct Ho as [Ho1 [Ho2 Ho3]].
      destruct (nth_error (h_alts hd) 1) as [q|] eqn:Hq.
      + assert (Hqin : In q (h_alts hd)) by (eapply nth_error_In; eauto).
        destruct (head_good c j hd q es ct (orc (c_tick st)) others' Hc Hl Hp Hf Hj Hmov Hqin Ho1 (Ho2 _) Ho3) as [ro [Hr Hg]].
        fold others'. rewrite Hr. destruct (apply_good st i c ro Hs Hn Hg) as [A B].
        eexists; split; [reflexivity|]. split; [exact A|]. split; [lia|]. intros; lia.
      + assert (Hg : good c (fail_inst c (guard_ok true c) false (c_restarted c))).
        { eapply (fail_good c j hd); eauto. }
        destruct (apply_good st i c _ Hs Hn Hg) as [A B].
        eexists; split; [reflexivity|]. split; [exact A|]. split; [lia|]. intros; lia.
    - (* RKill *)
      destruct (listening c) eqn:Hl.
      + destruct (Hkill eq_refl) as [st' [E [A B]]]. exists st'. split; [assumption|]. split; [assumption|]. split; [lia|]. intros; lia.
      + exists st. split; [reflexivity|]. split; [exact Hs|]. split; [lia|].
        intros c0 hd0 es0 H1 H2 H3 H4. inversion H1; subst c0.
        unfold movable in H4. rewrite Hl in H4. discriminate.
  Qed.

  Lemma react_all_ok : forall orc keep react idx st,
    swf st -> exists st', react_all true prog orc keep react idx st = COk st' /\ swf st' /\ phi st' <= phi st.
  Proof.
    intros orc keep react. induction idx as [|[i j] idx IH]; intros st Hs; simpl.
    - exists st; auto.
    - destruct (react_head_ok orc (keep (c_tick st)) (react i j) st i j Hs) as [st1 [H1 [S1 [P1 _]]]]. rewrite H1.
      destruct (IH st1 S1) as [st2 [H2 [S2 P2]]]. exists st2. split; [assumption|]. split; [assumption|lia].
  Qed.

  Lemma find_in_heads_spec : forall p es c hs j k,
    find_in_heads p es c hs j = Some k ->
    exists hd e, nth_error hs (k - j) = Some hd /\ j <= k /\ movable c hd = true /\
                 nth_error es (h_pos hd) = Some e /\ p e = true.
  Proof.
    induction hs as [|h hs IH]; intros j k H; simpl in H; [discriminate|].
    destruct (movable c h && match nth_error es (h_pos h) with Some e => p e | None => false end) eqn:Hb.
    - inversion H; subst. rewrite Nat.sub_diag. apply andb_true_iff in Hb. destruct Hb as [Hb1 Hb2].
      destruct (nth_error es (h_pos h)) as [e|] eqn:He; [|discriminate]. exists h, e. repeat split; auto.
    - destruct (IH (S j) k H) as [hd [e [Hn [Hle [Hm [He Hp]]]]]]. exists hd, e.
      split; [|repeat split; auto; lia]. replace (k - j) with (S (k - S j)) by lia. exact Hn.
  Qed.

  Lemma find_head_spec : forall p l i a j,
    find_head p prog l i = Some (a, j) ->
    exists c es hd e, nth_error l (a - i) = Some c /\ i <= a /\ nth_error prog (c_flow c) = Some es /\
      nth_error (c_heads c) j = Some hd /\ movable c hd = true /\ nth_error es (h_pos hd) = Some e /\ p e = true.
  Proof.
    induction l as [|c l IH]; intros i a j H; simpl in H; [discriminate|].
    destruct (nth_error prog (c_flow c)) as [es|] eqn:Hp.
    - destruct (find_in_heads p es c (c_heads c) 0) as [k|] eqn:Hf.
      + inversion H; subst. rewrite Nat.sub_diag.
        destruct (find_in_heads_spec _ _ _ _ _ _ Hf) as [hd [e [Hn [_ [Hm [He Hpe]]]]]]. rewrite Nat.sub_0_r in Hn.
        exists c, es, hd, e. repeat split; auto.
      + destruct (IH (S i) a j H) as [c' [es' [hd [e [Hn [Hle R]]]]]]. exists c', es', hd, e.
        split; [|split; [lia|exact R]]. replace (a - i) with (S (a - S i)) by lia. exact Hn.
    - destruct (IH (S i) a j H) as [c' [es' [hd [e [Hn [Hle R]]]]]]. exists c', es', hd, e.
      split; [|split; [lia|exact R]]. replace (a - i) with (S (a - S i)) by lia. exact Hn.
  Qed.

  Lemma fresh_iwf : forall f a es, nth_error prog f = Some es -> (a = true -> activatable prog f = true) -> iwf (fresh f a).
  Proof.
    intros f a es Hes Ha. split; [simpl; assumption|]. split; [cbn; intros _; lia|].
    intros _. cbn [fresh c_flow c_heads c_forked].
    destruct (cert_ok_flow prog certs f es Hok Hes) as [ct Hf].
    exists es, ct. split; [assumption|]. split; [assumption|].
    constructor; [|constructor]. split.
    - cbn [h_inert h_alts h_catch]. intros _ q [<-|[]]. split; [lia|]. split.
      + intros Hlt. destruct (fo_head _ _ _ _ _ Hf) as [tl Htl].
        pose proof (resumes_stk true es (f_rank ct) (f_stk ct) 0 (EWaitInt true) [] 1 [] (fo_check _ _ _ _ _ Hf)) as R.
        apply R; [subst es; reflexivity | apply (fo_stk0 _ _ _ _ _ Hf) | left; reflexivity | assumption].
      + intros Hsa. unfold sa_of in Hsa. cbn in Hsa. split.
        * intros Hlt. apply (fo_act _ _ _ _ _ Hf); [apply Ha; destruct a; [reflexivity|discriminate]|assumption].
        * discriminate.
    - intros _. unfold quiet. cbn [h_pos]. destruct (fo_head _ _ _ _ _ Hf) as [tl Htl]. subst es. reflexivity.
  Qed.

  Lemma fresh_pot : forall f a es, nth_error prog f = Some es -> ipot (fresh f a) = newpot prog certs f.
  Proof.
    intros f a es Hes. destruct (cert_ok_flow prog certs f es Hok Hes) as [ct Hf].
    pose proof (fo_cert _ _ _ _ _ Hf) as Hct.
    unfold Cascade.ipot, newpot. cbn [fresh listening started c_status c_flow c_heads c_act c_restarted].
    rewrite Hes, Hct. unfold hpot. simpl. destruct a; simpl; lia.
  Qed.

  Lemma outer_head_dec : forall orc keep cr st i j c es hd e,
    swf st -> nth_error (c_insts st) i = Some c -> nth_error prog (c_flow c) = Some es ->
    nth_error (c_heads c) j = Some hd -> movable c hd = true -> nth_error es (h_pos hd) = Some e ->
    exists st', outer_head true prog orc keep cr st i j = COk st' /\ swf st' /\ phi st' + 1 <= phi st.
  Proof.
    intros orc keep cr st i j c es hd e Hs Hn Hp Hj Hm He. unfold outer_head. destruct cr.
    - destruct (react_head_ok orc keep RAdvance st i j Hs) as [st' [H1 [H2 [H3 H4]]]].
      exists st'. split; [assumption|]. split; [assumption|]. eapply H4; eauto. discriminate.
    - rewrite Hn, Hj, Hp, He.
      pose proof (inst_iwf st i c Hs Hn) as Hc.
      pose proof Hm as Hm'. unfold movable in Hm'. apply andb_true_iff in Hm'. destruct Hm' as [Hl Hmov]. apply negb_true_iff in Hmov.
      destruct (flow_of c Hc Hl es Hp) as [ct Hf].
      assert (Hdrop : exists st', COk (apply_rout st i {| r_inst := with_heads c (remove_nth (c_heads c) j); r_right := []; r_left := [] |}) = COk st' /\
                                   swf st' /\ phi st' + 1 <= phi st).
      { destruct (apply_good st i c _ Hs Hn (drop_good c j hd (remove_nth (c_heads c) j) Hc Hl Hj Hmov (fun x H => H) (fun f => le_n _) (le_n _))) as [A B].
        eauto. }
      destruct e as [[]| | | | | | | | | | |]; try exact Hdrop.
      destruct (nth_error (h_alts hd) 1) as [q|] eqn:Hq.
      + assert (Hqin : In q (h_alts hd)) by (eapply nth_error_In; eauto).
        destruct (head_good c j hd q es ct (orc (c_tick st)) (remove_nth (c_heads c) j) Hc Hl Hp Hf Hj Hmov Hqin (fun x H => H) (le_n _) (le_n _)) as [ro [Hr Hg]].
        rewrite Hr. destruct (apply_good st i c ro Hs Hn Hg) as [A B]. eauto.
      + (* aborted with the default restart: the instance had been started (side condition 2) *)
        assert (Hst : c_act c = true -> started c = true).
        { intros Hact. destruct (started c) eqn:Hsd; [reflexivity|]. exfalso.
          destruct Hc as [_ [_ Hw]]. destruct (Hw Hl) as [es' [ct' [Hp' [_ Hall]]]].
          rewrite Hp in Hp'. inversion Hp'; subst es'.
          rewrite Forall_forall in Hall. destruct (Hall hd (nth_error_In _ _ Hj)) as [_ Hqt].
          assert (Hsa : sa_of c = true) by (unfold sa_of; rewrite Hsd, Hact; reflexivity).
          specialize (Hqt Hsa). unfold quiet in Hqt. rewrite He in Hqt. discriminate. }
        assert (Hg : good c (fail_inst c true false (c_restarted c))) by (eapply fail_good; eauto).
        destruct (apply_good st i c _ Hs Hn Hg) as [A B]. eauto.
  Qed.

  (* one step of the cascade strictly decreases the potential *)
  Lemma step_dec : forall o st,
    swf st ->
    step true prog o st = None \/
    exists st', step true prog o st = Some (COk st') /\ swf st' /\ phi st' + 1 <= phi st.
  Proof.
    intros o st Hs. unfold step.
    destruct (find_head is_pending prog (c_insts st) 0) as [[i j]|] eqn:Hpend.
    { right. destruct (find_head_spec _ _ _ _ _ Hpend) as [c [es [hd [e [Hn [_ [Hp [Hj [Hm [He _]]]]]]]]]].
      rewrite Nat.sub_0_r in Hn.
      destruct (react_head_ok (o_orc o) (o_keep o (c_tick st)) RAdvance st i j Hs) as [st' [H1 [H2 [H3 H4]]]].
      exists st'. rewrite H1. split; [reflexivity|]. split; [assumption|]. eapply H4; eauto. discriminate. }
    destruct (c_queue st) as [|ev q] eqn:Hq.
    - destruct (find_head is_outer prog (c_insts st) 0) as [[i j]|] eqn:Hf; [|left; reflexivity]. right.
      destruct (find_head_spec _ _ _ _ _ Hf) as [c [es [hd [e [Hn [_ [Hp [Hj [Hm [He _]]]]]]]]]].
      rewrite Nat.sub_0_r in Hn.
      destruct (outer_head_dec (o_orc o) (o_keep o (c_tick st)) (o_conflict o (c_tick st)) st i j c es hd e Hs Hn Hp Hj Hm He)
        as [st' [H1 [H2 H3]]].
      exists st'. rewrite H1. auto.
    - right. destruct Hs as [Hi Hqw]. rewrite Hq in Hqw. inversion Hqw as [|x l Hev Hq']; subst.
      destruct ev as [f a|].
      + destruct (nth_error prog f) as [es|] eqn:Hes.
        * set (st1 := {| c_insts := c_insts st ++ [fresh f a]; c_queue := q; c_tick := S (c_tick st) |}).
          assert (Hs1 : swf st1).
          { split; simpl; [|assumption]. apply Forall_app. split; [assumption|]. constructor; [|constructor].
            eapply fresh_iwf; eauto. intros ->. exact Hev. }
          assert (Hn : nth_error (c_insts st1) (length (c_insts st)) = Some (fresh f a)).
          { simpl. rewrite nth_error_app2 by lia. rewrite Nat.sub_diag. reflexivity. }
          destruct (react_head_ok (o_orc o) (o_keep o (c_tick st)) RAdvance st1 (length (c_insts st)) 0 Hs1) as [st' [H1 [H2 [H3 H4]]]].
          exists st'. split; [rewrite H1; reflexivity|]. split; [assumption|].
          assert (Hdec : phi st' + 1 <= phi st1).
          { eapply H4; [exact Hn|reflexivity|exact Hes|reflexivity|discriminate]. }
          assert (Hp1 : phi st1 + 1 = phi st).
          { unfold Cascade.phi. cbn [st1 c_insts c_queue]. rewrite Hq, map_app, list_sum_app.
            cbn [map list_sum fold_right ev_cost]. rewrite (fresh_pot f a es Hes). unfold list_sum. lia. }
          lia.
        * eexists. split; [reflexivity|]. split; [split; simpl; assumption|].
          unfold Cascade.phi. simpl. rewrite Hq. simpl. lia.
      + set (st1 := {| c_insts := c_insts st; c_queue := q; c_tick := S (c_tick st) |}).
        assert (Hs1 : swf st1) by (split; simpl; assumption).
        destruct (react_all_ok (o_orc o) (o_keep o) (o_react o (c_tick st)) (all_heads st) st1 Hs1) as [st' [H1 [H2 H3]]].
        exists st'. split; [rewrite H1; reflexivity|]. split; [assumption|].
        assert (Hp1 : phi st1 + 1 = phi st) by (unfold Cascade.phi; simpl; rewrite Hq; simpl; lia).
        lia.
  Qed.

  (* MAIN: with the repaired restart logic the cascade of a well-formed state ends within phi steps *)
  Theorem cascade_terminates : forall o fuel st,
    swf st -> phi st <= fuel ->
    exists st', cascade true prog o fuel st = COk st' /\ swf st' /\ step true prog o st' = None.
  Proof.
    intros o. induction fuel as [|fuel IH]; intros st Hs Hp.
    - destruct (step_dec o st Hs) as [Hn|[st' [H1 [H2 H3]]]].
      + exists st. simpl. rewrite Hn. auto.
      + lia.
    - destruct (step_dec o st Hs) as [Hn|[st' [H1 [H2 H3]]]].
      + exists st. simpl. rewrite Hn. auto.
      + simpl. rewrite H1. apply IH; [assumption|lia].
  Qed.
End Steps.

(* ------------------------------------------------------------------------------------------ *)
(* the bound in terms of program size, number of live instances and live heads *)

Definition live (st : cstate) : nat := length (filter listening (c_insts st)).
Definition live_heads (st : cstate) : nat :=
  list_sum (map (fun c => if listening c then length (c_heads c) else 0) (c_insts st)).

Lemma list_max_nth : forall l p, nth p l 0 <= list_max l.
Proof.
  induction l as [|x l IH]; intros p; destruct p; simpl; try lia.
  specialize (IH p). lia.
Qed.

Lemma list_max_in : forall l x, In x l -> x <= list_max l.
Proof.
  induction l as [|y l IH]; intros x H; [destruct H|]. simpl. destruct H as [->|H]; [lia|].
  specialize (IH x H). lia.
Qed.

Lemma wat_le_max : forall w len p, wat w len p <= list_max w.
Proof. intros. unfold wat. destruct (Nat.ltb p len); [apply list_max_nth|lia]. Qed.

Lemma flow_cost_le : forall prog certs f es, nth_error prog f = Some es ->
  flow_cost prog certs f + 3 <= max_flow_cost prog certs.
Proof.
  intros prog certs f es H. unfold max_flow_cost.
  assert (Hin : In (flow_cost prog certs f) (map (flow_cost prog certs) (seq 0 (length prog)))).
  { apply in_map. apply in_seq. split; [lia|]. simpl. apply nth_error_Some. congruence. }
  pose proof (list_max_in _ _ Hin). lia.
Qed.

Lemma hpot_le : forall w len h, hpot w len h <= 1 + list_max w.
Proof.
  intros w len h. unfold hpot. destruct (h_inert h); [lia|].
  assert (list_max (map (wat w len) (h_alts h)) <= list_max w).
  { apply list_max_le. apply Forall_forall. intros x Hx. apply in_map_iff in Hx. destruct Hx as [q [<- _]]. apply wat_le_max. }
  lia.
Qed.

Lemma ipot_le : forall prog certs c,
  ipot prog certs c <= if listening c then (1 + length (c_heads c)) * max_flow_cost prog certs else 0.
Proof.
  intros prog certs c. unfold ipot. destruct (listening c); [|lia].
  destruct (nth_error prog (c_flow c)) as [es|] eqn:He; [|unfold max_flow_cost; destruct (started c); lia].
  destruct (nth_error certs (c_flow c)) as [ct|] eqn:Hc; [|unfold max_flow_cost; destruct (started c); lia].
  pose proof (flow_cost_le prog certs (c_flow c) es He) as Hf. unfold flow_cost in Hf. rewrite He, Hc in Hf.
  assert (Hs : list_sum (map (hpot (f_w ct) (length es)) (c_heads c)) <= length (c_heads c) * (1 + list_max (f_w ct))).
  { induction (c_heads c) as [|h l IH]; simpl; [lia|]. pose proof (hpot_le (f_w ct) (length es) h). lia. }
  set (M := max_flow_cost prog certs) in *.
  assert (1 + list_max (f_w ct) <= M) by lia.
  assert (length (c_heads c) * (1 + list_max (f_w ct)) <= length (c_heads c) * M) by (apply Nat.mul_le_mono_l; assumption).
  destruct (started c), (c_act c && negb (c_restarted c)), (existsb (fun h => negb (h_inert h)) (c_heads c)); simpl; lia.
Qed.

Lemma ev_cost_le : forall prog certs e, ev_cost prog certs e <= max_flow_cost prog certs.
Proof.
  intros prog certs [g a|]; simpl; [|unfold max_flow_cost; lia].
  unfold newpot. destruct (nth_error prog g) as [es|] eqn:He; [|unfold max_flow_cost; lia].
  destruct (nth_error certs g) as [ct|] eqn:Hc; [|unfold max_flow_cost; lia].
  pose proof (flow_cost_le prog certs g es He) as Hf. unfold flow_cost, newpot in Hf. rewrite He, Hc in Hf. lia.
Qed.

Lemma phi_le_bound : forall prog certs st,
  phi prog certs st <= rtc_bound prog certs (live_heads st) (live st) (length (c_queue st)).
Proof.
  intros prog certs st. unfold phi, rtc_bound, live, live_heads.
  set (M := max_flow_cost prog certs).
  assert (H1 : list_sum (map (ipot prog certs) (c_insts st)) <=
               (list_sum (map (fun c => if listening c then length (c_heads c) else 0) (c_insts st)) +
                length (filter listening (c_insts st))) * M).
  { induction (c_insts st) as [|c l IH]; simpl; [lia|].
    pose proof (ipot_le prog certs c) as Hc. fold M in Hc. destruct (listening c); simpl; lia. }
  assert (H2 : list_sum (map (ev_cost prog certs) (c_queue st)) <= length (c_queue st) * M).
  { induction (c_queue st) as [|e l IH]; simpl; [lia|]. pose proof (ev_cost_le prog certs e). fold M in H. lia. }
  lia.
Qed.

Theorem rtc_bound_thm : forall prog certs,
  cascade_cert_ok prog certs = true ->
  forall o st, swf prog certs st ->
  exists st', cascade true prog o (rtc_bound prog certs (live_heads st) (live st) (length (c_queue st))) st = COk st' /\
              step true prog o st' = None.
Proof.
  intros prog certs Hok o st Hs.
  destruct (cascade_terminates prog certs Hok o _ st Hs (phi_le_bound prog certs st)) as [st' [H1 [_ H2]]].
  eauto.
Qed.

(* a decidable version of well-formedness, for examples *)
Definition hwfb (es : list elem) (ct : fcert) (sa fk : bool) (h : chead) : bool :=
  (h_inert h ||
   forallb (fun q => Nat.leb 1 q &&
                     (Nat.leb (length es) q || match stk_at (f_stk ct) q with Some s => eqb_labels s (h_catch h) | None => false end) &&
                     (negb sa || ((Nat.leb (length es) q || nth q (f_clean ct) false) &&
                                  (negb fk || (Nat.ltb q (length es) && nth q (f_noend ct) false)))))
           (h_alts h)) &&
  (negb sa || quiet es h).

Definition iwfb (prog : program) (certs : list fcert) (c : cinst) : bool :=
  (negb (c_act c) || activatable prog (c_flow c)) &&
  (c_forked c || Nat.leb (length (c_heads c)) 1) &&
  (negb (listening c) ||
   match nth_error prog (c_flow c), nth_error certs (c_flow c) with
   | Some es, Some ct => forallb (hwfb es ct (sa_of c) (c_forked c)) (c_heads c)
   | _, _ => false
   end).

Definition swfb (prog : program) (certs : list fcert) (st : cstate) : bool :=
  forallb (iwfb prog certs) (c_insts st) &&
  forallb (fun e => match e with CStart g true => activatable prog g | _ => true end) (c_queue st).

Lemma hwfb_sound : forall es ct sa fk h, hwfb es ct sa fk h = true -> hwf es ct sa fk h.
Proof.
  intros es ct sa fk h H. unfold hwfb in H. apply andb_true_iff in H. destruct H as [H1 H2]. split.
  - intros Hi q Hq. rewrite Hi, orb_false_l in H1. rewrite forallb_forall in H1. specialize (H1 q Hq).
    apply andb_true_iff in H1. destruct H1 as [H1 H3]. apply andb_true_iff in H1. destruct H1 as [Ha Hb].
    apply Nat.leb_le in Ha. split; [assumption|]. split.
    + intros Hlt. apply orb_true_iff in Hb. destruct Hb as [Hb|Hb]; [apply Nat.leb_le in Hb; lia|].
      destruct (stk_at (f_stk ct) q) as [s|]; [|discriminate]. apply eqb_labels_eq in Hb. congruence.
    + intros Hsa. rewrite Hsa in H3. simpl in H3. apply andb_true_iff in H3. destruct H3 as [Hc Hd]. split.
      * intros Hlt. apply orb_true_iff in Hc. destruct Hc as [Hc|Hc]; [apply Nat.leb_le in Hc; lia|assumption].
      * intros Hfk. rewrite Hfk in Hd. simpl in Hd. apply andb_true_iff in Hd. destruct Hd as [Hd1 Hd2].
        apply Nat.ltb_lt in Hd1. auto.
  - intros Hsa. rewrite Hsa in H2. simpl in H2. assumption.
Qed.

Lemma swfb_sound : forall prog certs st,
  cascade_cert_ok prog certs = true -> swfb prog certs st = true -> swf prog certs st.
Proof.
  intros prog certs st Hok H. unfold swfb in H. apply andb_true_iff in H. destruct H as [H1 H2].
  rewrite forallb_forall in H1, H2. split; apply Forall_forall.
  - intros c Hc. specialize (H1 c Hc). unfold iwfb in H1. apply andb_true_iff in H1. destruct H1 as [H1 Hb].
    apply andb_true_iff in H1. destruct H1 as [Ha Hf].
    split; [|split].
    + intros Hact. rewrite Hact in Ha. simpl in Ha. assumption.
    + intros Hfk. rewrite Hfk in Hf. simpl in Hf. apply Nat.leb_le in Hf. assumption.
    + intros Hl. rewrite Hl in Hb. simpl in Hb.
      destruct (nth_error prog (c_flow c)) as [es|] eqn:He; [|discriminate].
      destruct (nth_error certs (c_flow c)) as [ct|] eqn:Hct; [|discriminate].
      destruct (cert_ok_flow prog certs (c_flow c) es Hok He) as [ct' Hfo].
      assert (ct' = ct) by (pose proof (fo_cert _ _ _ _ _ Hfo); congruence). subst ct'.
      exists es, ct. split; [reflexivity|]. split; [assumption|].
      apply Forall_forall. intros h Hh. rewrite forallb_forall in Hb. apply hwfb_sound. apply Hb. assumption.
  - intros e He. specialize (H2 e He). destruct e as [g [|]|]; simpl; auto.
Qed.

(* ------------------------------------------------------------------------------------------ *)
(* the unchanged restart logic: an activated flow that aborts at once keeps the cascade busy forever *)

Definition f4_main : cinst := mk_inst 0 [mk_head 3] CStarting false.
Definition f4_dead : cinst :=
  {| c_flow := 1; c_heads := []; c_status := CDead; c_act := true; c_restarted := true; c_forked := false |}.
Definition f4_after_send (k : nat) (q : list cev) (tick : nat) : cstate :=
  {| c_insts := f4_main :: repeat f4_dead k; c_queue := CStart 1 true :: q; c_tick := tick |}.

Lemma find_head_dead : forall p k i, find_head p f4_prog (repeat f4_dead k) i = None.
Proof. induction k as [|k IH]; intros i; simpl; [reflexivity|]. apply IH. Qed.

Lemma set_nth_app_last : forall A (l : list A) a b, set_nth (l ++ [a]) (length l) b = l ++ [b].
Proof. induction l as [|x l IH]; intros a b; simpl; [reflexivity|]. rewrite IH. reflexivity. Qed.

Lemma repeat_snoc : forall A (x : A) k, repeat x k ++ [x] = repeat x (S k).
Proof. induction k as [|k IH]; simpl; [reflexivity|]. rewrite IH. reflexivity. Qed.

Lemma f4_spins : forall n k q tick,
  cascade false f4_prog eager n (f4_after_send k q tick) = COut.
Proof.
  induction n as [|n IH]; intros k q tick.
  - unfold f4_after_send. simpl cascade. unfold step. cbn [c_insts c_queue].
    simpl find_head. rewrite find_head_dead. reflexivity.
  - unfold f4_after_send. simpl cascade. unfold step. cbn [c_insts c_queue c_tick].
    simpl find_head. rewrite find_head_dead.
    change (nth_error f4_prog 1) with (Some [EWaitInt true; EAbort]). cbv iota beta.
    unfold react_head. cbn [c_insts].
    replace (nth_error ((f4_main :: repeat f4_dead k) ++ [fresh 1 true]) (length (f4_main :: repeat f4_dead k)))
      with (Some (fresh 1 true)) by (rewrite nth_error_app2 by lia; rewrite Nat.sub_diag; reflexivity).
    cbv iota beta.
    change (nth_error (c_heads (fresh 1 true)) 0) with (Some {| h_pos := 0; h_catch := []; h_inert := false; h_alts := [1] |}).
    change (nth_error f4_prog (c_flow (fresh 1 true))) with (Some [EWaitInt true; EAbort]).
    cbv iota beta.
    match goal with |- context [apply_rout ?st ?i ?ro] => idtac | _ => idtac end.
    cbn [movable fresh listening c_status h_inert negb andb c_heads remove_nth h_pos nth_error h_alts c_tick].
    match goal with |- context [run_head false ?es ?o ?c ?hd ?q] =>
      replace (run_head false es o c hd q) with
        (Some {| r_inst := f4_dead; r_right := [CNote]; r_left := [CStart 1 true] |}) by reflexivity end.
    cbv iota beta. unfold apply_rout. cbn [r_inst r_right r_left c_insts c_queue c_tick].
    rewrite set_nth_app_last. cbn [app]. rewrite repeat_snoc.
    apply (IH (S k) (q ++ [CNote]) _).
Qed.

Theorem activated_abort_refuted :
  cascade_guardedb f4_prog = true /\
  (forall n, cascade false f4_prog eager n (f4_after_send 0 [] 0) = COut) /\
  (exists st', cascade true f4_prog eager 20 (f4_after_send 0 [] 0) = COk st').
Proof.
  split; [vm_compute; reflexivity|]. split.
  - intros n. apply f4_spins.
  - eexists. vm_compute. reflexivity.
Qed.

(* the hypotheses of rtc_bound_thm are inhabited: the state right after `activate a` was sent,
   and a state of the or-group program with two resting heads, one of them woken *)
Example rtc_bound_inhabited :
  let certs := compute_certs f4_prog 3 in
  let st := f4_after_send 0 [] 0 in
  cascade_cert_ok f4_prog certs = true /\ swfb f4_prog certs st = true.
Proof. vm_compute. split; reflexivity. Qed.

Definition f6_state : cstate :=
  {| c_insts := [ {| c_flow := 0;
                     c_heads := [ {| h_pos := 7; h_catch := [0]; h_inert := true; h_alts := [8; 10] |};
                                  {| h_pos := 4; h_catch := [0]; h_inert := false; h_alts := [5; 10] |} ];
                     c_status := CStarted; c_act := false; c_restarted := false; c_forked := true |} ];
     c_queue := [CNote]; c_tick := 0 |}.

Example rtc_bound_inhabited_fork :
  let certs := compute_certs f6_prog 2 in
  cascade_cert_ok f6_prog certs = true /\ swfb f6_prog certs f6_state = true /\
  match cascade true f6_prog eager (rtc_bound f6_prog certs (live_heads f6_state) (live f6_state) 1) f6_state with
  | COk st => map (fun c => (map h_pos (c_heads c), c_status c)) (c_insts st) = [([], CDead)]
  | _ => False
  end.
Proof. vm_compute. repeat split. Qed.
