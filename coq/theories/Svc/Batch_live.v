(* C19 - liveness of the batching transition system under weak fairness.
   (1) every step strictly decreases a measure (so no schedule can make infinitely many steps),
   (2) in a reachable state where some request has not returned, some label is enabled,
   (3) a weakly fair infinite schedule (a label that is enabled is eventually taken or
       disabled: timers eventually expire, the model eventually answers, every runnable task
       eventually runs) therefore reaches a state where every request has returned its own
       embedding.  Real time is not modelled. *)
From Coq Require Import List Bool Arith Lia.
From NG Require Import Svc.EmbCache Svc.EmbCache_proofs Svc.Batch Svc.Batch_proofs.
Import ListNotations.

Fixpoint sumf {A : Type} (f : A -> nat) (l : list A) : nat :=
  match l with
  | [] => 0
  | x :: r => f x + sumf f r
  end.

Lemma sumf_app : forall A (f : A -> nat) l1 l2, sumf f (l1 ++ l2) = sumf f l1 + sumf f l2.
Proof. induction l1 as [|a l1 IH]; intros l2; simpl; [reflexivity|]. rewrite IH. lia. Qed.

Lemma sumf_upd : forall A (f : A -> nat) l i x y,
  nth_error l i = Some x -> sumf f (upd l i y) + f x = sumf f l + f y.
Proof.
  induction l as [|a l IH]; intros [|i] x y H; simpl in *; try discriminate.
  - inversion H. subst. lia.
  - pose proof (IH i x y H). lia.
Qed.

Lemma sumf_le_length : forall A (f : A -> nat) l, (forall x, f x <= 1) -> sumf f l <= length l.
Proof. induction l as [|a l IH]; intros Hf; simpl; [lia|]. pose proof (Hf a). pose proof (IH Hf). lia. Qed.

Lemma sumf_map : forall A B (g : A -> B) (f : B -> nat) l, sumf f (map g l) = sumf (fun x => f (g x)) l.
Proof. induction l as [|a l IH]; simpl; [reflexivity|]. rewrite IH. reflexivity. Qed.

Lemma sumf_ext : forall A (f g : A -> nat) l, (forall x, f x = g x) -> sumf f l = sumf g l.
Proof. induction l as [|a l IH]; intros H; simpl; [reflexivity|]. rewrite H, IH by assumption. reflexivity. Qed.

Lemma lex_lt_1 : forall A A' B B' N, A' < A -> B' <= N -> A' * S N + B' < A * S N + B.
Proof. intros. nia. Qed.

Lemma lex_lt_2 : forall A A' B B' N, A' <= A -> B' < B -> A' * S N + B' < A * S N + B.
Proof. intros. nia. Qed.

Section Live.
  Variables text key vec : Type.
  Variable text_eq_dec : forall a b : text, {a = b} + {a <> b}.
  Variable key_eq_dec : forall a b : key, {a = b} + {a <> b}.
  Variable kg : text -> key.
  Variable emb : text -> vec.
  Variable max_batch_size : nat.
  Variable cmode : cache_mode.
  Variable P : text -> Prop.
  Hypothesis Hmax : 1 <= max_batch_size.
  Hypothesis Hinj : inj_on kg P.

  Notation state := (state text key vec).
  Notation rpc := (rpc vec).
  Notation bpc := (bpc text vec).
  Notation step := (step text_eq_dec key_eq_dec kg emb max_batch_size cmode).
  Notation enabled := (enabled text_eq_dec key_eq_dec kg emb max_batch_size cmode).
  Notation run := (run text_eq_dec key_eq_dec kg emb max_batch_size cmode).
  Notation Inv := (Inv text key vec text_eq_dec key_eq_dec kg emb cmode P).
  Notation consistent := (consistent key_eq_dec kg emb P).

  (* ---- the measure ---------------------------------------------------------------------- *)
  Definition rw (r : text * rpc) : nat :=
    match snd r with
    | RInit | RWaitSub _ => 6
    | RWaitFin _ _ => 1
    | _ => 0
    end.

  Definition runf (r : text * rpc) : nat :=
    match snd r with
    | RInit | RWaitSub true => 1
    | _ => 0
    end.

  Definition bw (b : bpc) : nat :=
    match b with
    | BInit => 4
    | BHold _ false => 3
    | BHold _ true => 2
    | BModel _ _ _ _ => 1
    | _ => 0
    end.

  Definition Am (s : state) : nat := sumf rw (reqs s) + sumf bw (batches s).
  Definition Bm (s : state) : nat := sumf runf (reqs s).
  Definition measure (s : state) : nat := Am s * S (length (reqs s)) + Bm s.

  Lemma runf_le1 : forall r, runf r <= 1.
  Proof. intros [t p]. unfold runf. simpl. destruct p as [|[]| | | |]; lia. Qed.

  Lemma Bm_le : forall s, Bm s <= length (reqs s).
  Proof. intros s. apply sumf_le_length. apply runf_le1. Qed.

  Lemma rw_wake : forall (rs : list (text * rpc)), sumf rw (map wake rs) = sumf rw rs.
  Proof.
    intros rs. rewrite sumf_map. apply sumf_ext. intros [t p]. destruct p; reflexivity.
  Qed.

  Lemma finish_measure : forall (s : state) k ev ids embs b,
    nth_error (batches s) k = Some b -> 1 <= bw b ->
    sumf rw (reqs (finish s k ev ids embs)) = sumf rw (reqs s) /\
    reqs (finish s k ev ids embs) = reqs s /\
    sumf bw (batches (finish s k ev ids embs)) < sumf bw (batches s).
  Proof.
    intros s k ev ids embs b Hk Hb. unfold finish.
    destruct (assign ids embs (req_results s)); [destruct ev|]; simpl; repeat split; try reflexivity.
    - pose proof (sumf_upd _ bw (batches s) k b BDone Hk). simpl in *. lia.
    - pose proof (sumf_upd _ bw (batches s) k b BError Hk). simpl in *. lia.
    - pose proof (sumf_upd _ bw (batches s) k b BError Hk). simpl in *. lia.
  Qed.

  Ltac upd_facts Hi :=
    repeat match goal with
           | |- context [upd ?l ?i ?y] =>
               lazymatch goal with
               | _ : sumf rw (upd l i y) + _ = _ |- _ => fail
               | _ => pose proof (sumf_upd _ rw l i _ y Hi); pose proof (sumf_upd _ runf l i _ y Hi)
               end
           end.

  (* every step: the number of tasks is unchanged and (Am, Bm) decreases lexicographically *)
  Lemma step_measure_cases : forall l s s', step l s = Some s' ->
    length (reqs s') = length (reqs s) /\
    (Am s' < Am s \/ (Am s' <= Am s /\ Bm s' < Bm s)).
  Proof.
    intros l s s' Hs.
    assert (Hlen : length (reqs s') = length (reqs s)).
    { pose proof (step_texts text key vec text_eq_dec key_eq_dec kg emb max_batch_size cmode l s s' Hs) as Ht.
      apply (f_equal (@length text)) in Ht. rewrite !map_length in Ht. exact Ht. }
    split; [exact Hlen|]. clear Hlen.
    destruct l as [i|k|k|k]; simpl in Hs.
    - destruct (nth_error (reqs s) i) as [[t p]|] eqn:Hi; [|discriminate].
      assert (He : forall p0, p = p0 -> rw (t, p0) = 6 -> runf (t, p0) = 1 ->
                   Am (req_enter max_batch_size s i t) < Am s \/
                   (Am (req_enter max_batch_size s i t) <= Am s /\ Bm (req_enter max_batch_size s i t) < Bm s)).
      { intros p0 -> Hrw Hrun. unfold req_enter, fetch, set_req, Am, Bm.
        repeat match goal with
               | |- context [if ?b then _ else _] => destruct b
               | |- context [match ?x with _ => _ end] => destruct x
               end; simpl;
        match goal with
        | |- context [upd (reqs s) i ?y] =>
            pose proof (sumf_upd _ rw (reqs s) i _ y Hi); pose proof (sumf_upd _ runf (reqs s) i _ y Hi)
        end; rewrite ?sumf_app; unfold rw, runf in *; simpl in *; lia. }
      destruct p as [|w|rid k|r| |]; try discriminate.
      + inversion Hs. subst. apply (He RInit); reflexivity.
      + destruct w; [|discriminate]. inversion Hs. subst. apply (He (RWaitSub true)); reflexivity.
      + destruct (memb k (finished_set s)); [|discriminate]. inversion Hs. left.
        unfold fetch, set_req, Am. destruct (dict_get (req_results s) rid); simpl;
        match goal with
        | |- context [upd (reqs s) i ?y] => pose proof (sumf_upd _ rw (reqs s) i _ y Hi)
        end; unfold rw in *; simpl in *; lia.
    - destruct (nth_error (batches s) k) as [b|] eqn:Hk; [|discriminate].
      destruct b as [|f fired|ev items c u| |]; try discriminate.
      + inversion Hs. left. unfold Am, set_batch. simpl.
        destruct (cur_full s);
        match goal with
        | |- context [upd (batches s) k ?y] => pose proof (sumf_upd _ bw (batches s) k _ y Hk)
        end; simpl in *; lia.
      + destruct (fired || memb f (full_set s)); [|discriminate]. inversion Hs. left.
        unfold collect, Am.
        destruct (begin_call text_eq_dec key_eq_dec kg cmode s (map snd (req_queue s))) as [c u].
        destruct (needs_model cmode u).
        * simpl. rewrite rw_wake.
          pose proof (sumf_upd _ bw (batches s) k _ (BModel (cur_finished s) (req_queue s) c u) Hk).
          simpl in *. destruct fired; lia.
        * destruct (end_call _ _ _ _ _ _ _ _ _) as [embs st].
          match goal with
          | |- context [finish ?s1 k ?ev ?ids ?embs] =>
              destruct (finish_measure s1 k ev ids embs (BHold f fired)) as [H1 [H2 H3]];
                [exact Hk|destruct fired; simpl; lia|]
          end.
          rewrite H1. simpl in *. rewrite rw_wake. lia.
    - destruct (nth_error (batches s) k) as [b|] eqn:Hk; [|discriminate].
      destruct b as [|f fired|ev items c u| |]; try discriminate.
      destruct fired; [discriminate|]. inversion Hs. left. unfold Am, set_batch. simpl.
      pose proof (sumf_upd _ bw (batches s) k _ (BHold f true) Hk). simpl in *. lia.
    - destruct (nth_error (batches s) k) as [b|] eqn:Hk; [|discriminate].
      destruct b as [|f fired|ev items c u| |]; try discriminate.
      destruct (end_call _ _ _ _ _ _ _ _ _) as [embs st]. inversion Hs. left. unfold Am.
      destruct (finish_measure (with_store s st) k ev (map fst items) embs (BModel ev items c u)) as [H1 [H2 H3]];
        [exact Hk|simpl; lia|].
      rewrite H1. simpl in *. lia.
  Qed.

  Theorem step_decreases : forall l s s', step l s = Some s' -> measure s' < measure s.
  Proof.
    intros l s s' Hs. destruct (step_measure_cases l s s' Hs) as [Hlen [H|[H1 H2]]]; unfold measure; rewrite Hlen.
    - apply lex_lt_1; [exact H|]. rewrite <- Hlen. apply Bm_le.
    - apply lex_lt_2; assumption.
  Qed.

  (* ---- progress: an unfinished reachable state has an enabled label --------------------- *)
  Lemma forallb_false : forall A (f : A -> bool) l, forallb f l = false -> exists x, In x l /\ f x = false.
  Proof.
    induction l as [|a l IH]; intros H; simpl in H; [discriminate|].
    destruct (f a) eqn:E.
    - destruct (IH H) as [x [Hin Hx]]. exists x. split; [right; assumption|assumption].
    - exists a. split; [left; reflexivity|assumption].
  Qed.

  Lemma presubmit_enabled : forall s k, Inv s -> cur_finished s = Some k ->
    exists l, enabled l s = true.
  Proof.
    intros s k HI Hc. destruct (iv_cur _ _ _ _ _ _ _ _ _ _ HI k Hc) as [b [Hb Hp]].
    destruct b as [|f fired| | |]; try destruct Hp.
    - exists (LBatch k). unfold Batch.enabled. simpl. rewrite Hb. reflexivity.
    - destruct fired.
      + exists (LBatch k). unfold Batch.enabled. simpl. rewrite Hb. reflexivity.
      + exists (LTimer k). unfold Batch.enabled. simpl. rewrite Hb. reflexivity.
  Qed.

  Theorem progress : forall s, Inv s -> all_done s = false -> exists l, enabled l s = true.
  Proof.
    intros s HI Hnd. unfold all_done in Hnd. apply forallb_false in Hnd.
    destruct Hnd as [[t p] [Hin Hf]]. apply In_nth_error in Hin. destruct Hin as [i Hi].
    destruct p as [|w|rid k|r| |].
    - exists (LReq i). unfold Batch.enabled. simpl. rewrite Hi. reflexivity.
    - destruct w.
      + exists (LReq i). unfold Batch.enabled. simpl. rewrite Hi. reflexivity.
      + pose proof (iv_blocked _ _ _ _ _ _ _ _ _ _ HI i t Hi) as Hb.
        destruct (cur_finished s) as [k|] eqn:Hc; [|congruence].
        eapply presubmit_enabled; eassumption.
    - destruct (iv_wait _ _ _ _ _ _ _ _ _ _ HI i t rid k Hi) as [_ [[_ Hc]|[[ev [items [c [u [Hb _]]]]]|[Hfin _]]]].
      + eapply presubmit_enabled; eassumption.
      + exists (LModel k). unfold Batch.enabled. simpl. rewrite Hb.
        destruct (end_call _ _ _ _ _ _ _ _ _). reflexivity.
      + exists (LReq i). unfold Batch.enabled. simpl. rewrite Hi.
        apply memb_In in Hfin. rewrite Hfin. reflexivity.
    - simpl in Hf. discriminate Hf.
    - destruct (iv_ok _ _ _ _ _ _ _ _ _ _ HI i t _ Hi) as [[] _].
    - destruct (iv_ok _ _ _ _ _ _ _ _ _ _ HI i t _ Hi) as [[] _].
  Qed.

  (* ---- infinite schedules ------------------------------------------------------------------ *)
  (* weak fairness: a label that is enabled is eventually taken or disabled *)
  Definition weakly_fair (sched : nat -> label) (s0 : state) : Prop :=
    forall n l, enabled l (run sched s0 n) = true ->
      exists m, n <= m /\ (enabled l (run sched s0 m) = false \/ sched m = l).

  Lemma run_S : forall sched s0 n,
    run sched s0 (S n) = step_or_stay text_eq_dec key_eq_dec kg emb max_batch_size cmode (sched n) (run sched s0 n).
  Proof. reflexivity. Qed.

  Lemma Inv_run : forall sched s0 n, Inv s0 -> Inv (run sched s0 n).
  Proof.
    intros sched s0 n HI. induction n as [|n IH]; [exact HI|].
    rewrite run_S. unfold step_or_stay. destruct (step (sched n) (run sched s0 n)) as [s'|] eqn:Hs; [|exact IH].
    eapply Inv_step; eassumption.
  Qed.

  Lemma measure_run_S : forall sched s0 n, measure (run sched s0 (S n)) <= measure (run sched s0 n).
  Proof.
    intros. rewrite run_S. unfold step_or_stay.
    destruct (step (sched n) (run sched s0 n)) as [s'|] eqn:Hs; [|lia].
    apply step_decreases in Hs. lia.
  Qed.

  Lemma measure_run_mono : forall sched s0 n m, n <= m -> measure (run sched s0 m) <= measure (run sched s0 n).
  Proof.
    intros sched s0 n m H. induction H as [|m H IH]; [lia|].
    pose proof (measure_run_S sched s0 m). lia.
  Qed.

  (* under weak fairness an enabled label forces an effective step *)
  Lemma fair_effective : forall sched s0, weakly_fair sched s0 ->
    forall n l, enabled l (run sched s0 n) = true ->
    exists m, n <= m /\ enabled (sched m) (run sched s0 m) = true.
  Proof.
    intros sched s0 Hf n l Hen. destruct (Hf n l Hen) as [m [Hle Hm]].
    remember (m - n) as d eqn:Hd. revert n Hen Hle Hd.
    induction d as [|d IH]; intros n Hen Hle Hd.
    - assert (m = n) by lia. subst m. destruct Hm as [Hm|Hm]; [congruence|].
      exists n. split; [lia|]. rewrite Hm. exact Hen.
    - destruct (enabled (sched n) (run sched s0 n)) eqn:E.
      + exists n. split; [lia|exact E].
      + assert (Hst : run sched s0 (S n) = run sched s0 n).
        { rewrite run_S. unfold step_or_stay. unfold Batch.enabled in E.
          destruct (step (sched n) (run sched s0 n)); [discriminate|reflexivity]. }
        destruct (IH (S n)) as [m' [Hle' Hm']]; [rewrite Hst; exact Hen|lia|lia|].
        exists m'. split; [lia|exact Hm'].
  Qed.

  Lemma live_aux : forall sched s0, Inv s0 -> weakly_fair sched s0 ->
    forall N n, measure (run sched s0 n) <= N -> exists m, n <= m /\ all_done (run sched s0 m) = true.
  Proof.
    intros sched s0 HI Hf. induction N as [|N IH]; intros n HN.
    - destruct (all_done (run sched s0 n)) eqn:Hd; [exists n; split; [lia|exact Hd]|].
      destruct (progress _ (Inv_run sched s0 n HI) Hd) as [l Hen].
      destruct (fair_effective sched s0 Hf n l Hen) as [m [Hle Hm]].
      unfold Batch.enabled in Hm. destruct (step (sched m) (run sched s0 m)) as [s'|] eqn:Hs; [|discriminate].
      apply step_decreases in Hs. pose proof (measure_run_mono sched s0 n m Hle). lia.
    - destruct (all_done (run sched s0 n)) eqn:Hd; [exists n; split; [lia|exact Hd]|].
      destruct (progress _ (Inv_run sched s0 n HI) Hd) as [l Hen].
      destruct (fair_effective sched s0 Hf n l Hen) as [m [Hle Hm]].
      unfold Batch.enabled in Hm. destruct (step (sched m) (run sched s0 m)) as [s'|] eqn:Hs; [|discriminate].
      assert (Hrun : run sched s0 (S m) = s').
      { rewrite run_S. unfold step_or_stay. rewrite Hs. reflexivity. }
      apply step_decreases in Hs. pose proof (measure_run_mono sched s0 n m Hle).
      destruct (IH (S m)) as [m' [Hle' Hd']]; [rewrite Hrun; lia|].
      exists m'. split; [lia|exact Hd'].
  Qed.

  Lemma run_texts : forall sched s0 n, map fst (reqs (run sched s0 n)) = map fst (reqs s0).
  Proof.
    intros sched s0 n. induction n as [|n IH]; [reflexivity|].
    rewrite run_S. unfold step_or_stay. destruct (step (sched n) (run sched s0 n)) as [s'|] eqn:Hs; [|exact IH].
    rewrite <- IH. eapply step_texts. eassumption.
  Qed.

  (* C19_batch_liveness *)
  Theorem batch_liveness : forall texts st sched,
    Forall P texts -> consistent st -> weakly_fair sched (init texts st) ->
    exists m, forall i t, nth_error texts i = Some t ->
      nth_error (reqs (run sched (init texts st) m)) i = Some (t, RDone (Some (emb t))).
  Proof.
    intros texts st sched HP Hc Hf.
    assert (HI : Inv (init texts st)) by (apply Inv_init; assumption).
    destruct (live_aux sched (init texts st) HI Hf _ 0 (le_n _)) as [m [_ Hd]].
    exists m. intros i t Hi.
    pose proof (run_texts sched (init texts st) m) as Ht.
    rewrite (init_texts text key vec) in Ht.
    assert (Hi' : nth_error (map fst (reqs (run sched (init texts st) m))) i = Some t) by (rewrite Ht; exact Hi).
    rewrite nth_error_map in Hi'.
    destruct (nth_error (reqs (run sched (init texts st) m)) i) as [[t0 p]|] eqn:Hn; simpl in Hi'; [|discriminate].
    inversion Hi'. subst t0.
    unfold all_done in Hd. rewrite forallb_forall in Hd.
    pose proof (Hd _ (nth_error_In _ _ Hn)) as Hp. destruct p; simpl in Hp; try discriminate.
    destruct (iv_ok _ _ _ _ _ _ _ _ _ _ (Inv_run sched _ m HI) i t _ Hn) as [Hok _]. simpl in Hok. subst r.
    reflexivity.
  Qed.

End Live.
