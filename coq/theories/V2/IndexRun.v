(* C09 - executable instance of V2/Index.v for the correspondence check (harness/c09.py).

   A case is one run_to_completion of the real interpreter (or initialize_state +
   the start of `main`): the program-table rows the run touched, the abstract snapshot of
   the real State before, the list of mutations the traced code performed, the snapshot
   after.  `check_seg` replays the mutations on the model and compares the result with the
   real snapshot by plain equality (dict orders included).
   `check_quiescent` / `check_exact` evaluate the quiescence predicate and the from-scratch
   scan on snapshots of the real State. *)
From Coq Require Import NArith List Bool.
From NG Require Import V2.Index.
Import ListNotations.
Open Scope N_scope.

Definition table := list (uid * list (N * elem)).

Definition prog_of (t : table) : uid -> N -> option elem :=
  fun f p => match aget N.eqb t f with
             | Some row => aget N.eqb row p
             | None => None
             end.

Fixpoint list_eqb {A} (eqb : A -> A -> bool) (a b : list A) : bool :=
  match a, b with
  | [], [] => true
  | x :: a', y :: b' => eqb x y && list_eqb eqb a' b'
  | _, _ => false
  end.

Definition head_eqb (a b : head) : bool :=
  N.eqb (h_pos a) (h_pos b) && hstatus_eqb (h_st a) (h_st b).

Definition inst_eqb (a b : inst) : bool :=
  fstatus_eqb (i_st a) (i_st b)
  && list_eqb (fun p q => N.eqb (fst p) (fst q) && head_eqb (snd p) (snd q)) (i_heads a) (i_heads b).

Definition state_eqb (a b : state) : bool :=
  list_eqb (fun p q => N.eqb (fst p) (fst q) && inst_eqb (snd p) (snd q)) (insts a) (insts b)
  && list_eqb (fun p q => N.eqb (fst p) (fst q) && list_eqb key_eqb (snd p) (snd q)) (index a) (index b)
  && list_eqb (fun p q => key_eqb (fst p) (fst q) && N.eqb (snd p) (snd q)) (rev a) (rev b).

Definition seg := (table * state * list op * state)%type.

Definition check_seg (c : seg) : bool :=
  let '(t, s0, ops, s1) := c in
  match run (prog_of t) s0 ops with
  | Ok s' => state_eqb s' s1
  | Fail _ => false
  end.

(* diagnostics for a failing case: Some (i, code) = operation i is not a step of the model;
   None = all operations are steps (then the final state differs from the snapshot) *)
Definition diag_seg (c : seg) : option (N * N) * option state :=
  let '(t, s0, ops, s1) := c in
  match run_diag (prog_of t) s0 ops 0 with
  | Some d => (Some d, None)
  | None => match run (prog_of t) s0 ops with Ok s' => (None, Some s') | Fail _ => (None, None) end
  end.

(* ---------------------------------------------------------------- exactness, decided *)

Definition count_key (k : key) (l : list key) : nat :=
  List.length (filter (key_eqb k) l).

Definition exactb (prog : uid -> N -> option elem) (s : state) : bool :=
  (* no stale entry, no duplicate, reverse map agrees *)
  forallb (fun p => forallb (fun k => Nat.eqb (count_key k (snd p)) 1
                                      && scanb prog s (fst p) k
                                      && match rev_get s k with
                                         | Some n => N.eqb n (fst p)
                                         | None => false
                                         end) (snd p)) (index s)
  (* no missed head *)
  && forallb (fun p => if is_listening (i_st (snd p))
                       then forallb (fun q => match rel_of prog (fst p) (snd q) with
                                              | Some n => existsb (key_eqb (fst p, fst q)) (ix_get s n)
                                              | None => true
                                              end) (i_heads (snd p))
                       else true) (insts s)
  (* reverse map has nothing else *)
  && forallb (fun p => existsb (key_eqb (fst p)) (ix_get s (snd p))) (rev s).

Definition check_quiescent (c : table * snapshot) : bool :=
  quiescentb (prog_of (fst c)) (snd c).

Definition check_exact (c : table * snapshot) : bool :=
  exactb (prog_of (fst c)) (sn_state (snd c)).

Definition check_snap (c : table * snapshot) : bool := check_quiescent c && check_exact c.

(* ---------------------------------------------------------------- sanity *)

(* flow `main`: 0 match StartFlow(key 1) ; 1 fork ; 3 match A(key 2) ; 6 match B(key 3) *)
Definition t0 : table := [(1, [(0, EMatch 1); (1, EOther); (2, EOther); (3, EMatch 2); (4, EOther);
                                (5, EOther); (6, EMatch 3); (7, EMerge); (8, EAction)])].

Definition ops0 : list op :=
  [ OResetInsts;
    ONewInst 1 FWaiting 10 (mkH 0 HActive) true true;
    OSetPos 1 10 1 Fire;
    OInstStatus 1 FStarting;
    OSetStatus 1 10 HInactive Fire;
    OForkHead 1 11 (mkH 0 HActive) true true 2 Fire;
    OForkHead 1 12 (mkH 0 HActive) true true 5 Fire;
    OSetPos 1 11 3 Fire;
    OSetPos 1 12 6 Fire;
    OInstStatus 1 FStarted ].

Example run_ops0 :
  run (prog_of t0) empty_state ops0
  = Ok (mkS [(1, mkI FStarted [(10, mkH 1 HInactive); (11, mkH 3 HActive); (12, mkH 6 HActive)])]
            [(1, []); (2, [(1, 11)]); (3, [(1, 12)])]
            [((1, 11), 2); ((1, 12), 3)]).
Proof. vm_compute. reflexivity. Qed.

(* event A: head 11 moves on to the merge, wins, the fork parent continues, children go *)
Definition ops1 : list op :=
  [ OSetPos 1 11 4 Fire; OSetPos 1 11 7 Fire; OSetStatus 1 11 HMerging Fire;
    OSetStatus 1 11 HInactive Fire;
    OSetPos 1 10 7 Fire; OSetStatus 1 10 HActive Fire;
    OSetStatus 1 11 HInactive NoFire; ODelHead 1 11;
    OSetStatus 1 12 HInactive Fire; ODelHead 1 12;
    OSetPos 1 10 8 Fire ].

Example run_ops1 :
  match run (prog_of t0) empty_state (ops0 ++ ops1) with
  | Ok s => exactb (prog_of t0) s && state_eqb s (mkS [(1, mkI FStarted [(10, mkH 8 HActive)])]
                                                  [(1, []); (2, []); (3, [])] [])
  | Fail _ => false
  end = true.
Proof. vm_compute. reflexivity. Qed.

(* heads.clear() without the explicit removal is not a step of the model *)
Example clear_without_removal_rejected :
  run (prog_of t0) empty_state (ops0 ++ [OClearHeads 1 []]) = Fail E_STALE.
Proof. vm_compute. reflexivity. Qed.

Example clear_with_removal_ok :
  match run (prog_of t0) empty_state (ops0 ++ [OClearHeads 1 [10; 11; 12]; OInstStatus 1 FStopped]) with
  | Ok s => exactb (prog_of t0) s
  | Fail _ => false
  end = true.
Proof. vm_compute. reflexivity. Qed.

(* a setter that changes the value without invoking the callback is not a step *)
Example silent_setter_rejected :
  run (prog_of t0) empty_state (ops0 ++ [OSetStatus 1 11 HInactive NoFire]) = Fail E_FIRE.
Proof. vm_compute. reflexivity. Qed.

(* a fork head without callbacks is not a step *)
Example fork_without_callbacks_rejected :
  run (prog_of t0) empty_state (ops0 ++ [OForkHead 1 13 (mkH 0 HActive) false false 3 NoFire]) = Fail E_NO_CALLBACK.
Proof. vm_compute. reflexivity. Qed.

