(* V2/Life_count.v - the reference count of activated flows.

   E s r  = number of child-list entries of LIVE instances (listening or stopping) that refer to r.
   For a reference instance r (activated, linked to a parent of another flow) that is still
   activated after an operation, `activated r - E r` is unchanged by _abort_flow / _finish_flow
   (except for the one explicit decrement of a top-level deactivation of r itself): every
   instance that ends gives back exactly its own entries. *)
From Coq Require Import ZArith NArith List Bool Lia.
From NG Require Import V2.Life V2.Life_proofs V2.Life_scope.
Import ListNotations.
Open Scope N_scope.

Definition occ (c : uid) (l : list uid) : Z := Z.of_nat (count_occ N.eq_dec l c).

Definition contrib (c : uid) (i : inst) : Z :=
  if live (i_status i) then occ c (i_children i) else 0%Z.

Fixpoint Esum (c : uid) (l : list (uid * inst)) : Z :=
  match l with
  | [] => 0%Z
  | (_, i) :: l' => (contrib c i + Esum c l')%Z
  end.

Definition E (s : st) (c : uid) : Z := Esum c (flows s).

Definition act (s : st) (c : uid) : Z :=
  match getf s c with Some i => i_activated i | None => 0%Z end.

Lemma occ_nonneg : forall c l, (0 <= occ c l)%Z.
Proof. intros; unfold occ; apply Nat2Z.is_nonneg. Qed.

Lemma occ_app : forall c l1 l2, occ c (l1 ++ l2) = (occ c l1 + occ c l2)%Z.
Proof. intros; unfold occ. rewrite count_occ_app, Nat2Z.inj_add. reflexivity. Qed.

Lemma occ_cons : forall c x l, occ c (x :: l) = ((if N.eqb x c then 1 else 0) + occ c l)%Z.
Proof.
  intros; unfold occ; simpl. destruct (N.eq_dec x c) as [->|Hne].
  - rewrite N.eqb_refl. generalize (count_occ N.eq_dec l c). intros n. lia.
  - destruct (N.eqb x c) eqn:Eq; [apply N.eqb_eq in Eq; contradiction|]. reflexivity.
Qed.

Lemma Esum_upd : forall c x i' l i, get x l = Some i ->
  Esum c (upd x i' l) = (Esum c l - contrib c i + contrib c i')%Z.
Proof.
  induction l as [|[k v] l IH]; simpl; intros i H; try discriminate.
  destruct (N.eqb x k) eqn:Ek; simpl.
  - inversion H; subst. lia.
  - rewrite (IH _ H). lia.
Qed.

Lemma E_setf : forall s x i i' c, getf s x = Some i ->
  E (setf s x i') c = (E s c - contrib c i + contrib c i')%Z.
Proof. intros; unfold E, setf; simpl. apply Esum_upd; auto. Qed.

Lemma E_flows : forall s s' c, flows s' = flows s -> E s' c = E s c.
Proof. intros s s' c H; unfold E; rewrite H; auto. Qed.

Lemma act_flows : forall s s' c, flows s' = flows s -> act s' c = act s c.
Proof. intros s s' c H; unfold act, getf; rewrite H; auto. Qed.

Lemma E_modf_same : forall s x g c,
  (forall i, i_status (g i) = i_status i /\ i_children (g i) = i_children i) ->
  E (modf s x g) c = E s c.
Proof.
  intros s x g c Hg. unfold modf. destruct (getf s x) as [i|] eqn:Ex; auto.
  rewrite (E_setf _ _ _ _ _ Ex). unfold contrib. destruct (Hg i) as (-> & ->). lia.
Qed.

Lemma act_setf_other : forall s x i' c, x <> c -> act (setf s x i') c = act s c.
Proof. intros; unfold act. rewrite getf_setf_other; auto. Qed.

Lemma act_modf_other : forall s x g c, x <> c -> act (modf s x g) c = act s c.
Proof. intros; unfold modf. destruct (getf s x); auto. apply act_setf_other; auto. Qed.

Lemma act_modf_keep : forall s x g c, (forall i, i_activated (g i) = i_activated i) ->
  act (modf s x g) c = act s c.
Proof.
  intros s x g c Hg. destruct (N.eq_dec x c) as [->|Hne]; [|apply act_modf_other; auto].
  unfold modf, act. destruct (getf s c) as [i|] eqn:Ec; [|rewrite Ec; auto].
  rewrite (getf_setf_same _ _ _ _ Ec). auto.
Qed.

(* a reference instance: linked to a parent of ANOTHER flow (static) *)
Definition refshape (s : st) (r : uid) : Prop :=
  exists i p pi, getf s r = Some i /\ i_parent i = Some p /\ getf s p = Some pi /\ i_flow pi <> i_flow i.

Lemma refshape_static : forall (R A : uid -> Prop) s s' r, Srel R A s s' -> refshape s r -> refshape s' r.
Proof.
  intros R A s s' r S (i & p & pi & Ei & Hp & Epi & Hfl).
  destruct (srel_fwd _ _ _ _ _ _ S Ei) as (i' & Ei' & (F1 & P1 & _)).
  destruct (srel_fwd _ _ _ _ _ _ S Epi) as (pi' & Epi' & (F2 & _)).
  exists i', p, pi'. repeat split; auto; congruence.
Qed.

Lemma refshape_back : forall (R A : uid -> Prop) s s' r, Srel R A s s' -> refshape s' r -> refshape s r.
Proof.
  intros R A s s' r S (i' & p & pi' & Ei' & Hp & Epi' & Hfl).
  destruct (srel_bwd _ _ _ _ _ _ S Ei') as (i & Ei & (F1 & P1 & _)).
  destruct (srel_bwd _ _ _ _ _ _ S Epi') as (pi & Epi & (F2 & _)).
  exists i, p, pi. repeat split; auto; congruence.
Qed.

Lemma refshape_isref : forall s r i, refshape s r -> getf s r = Some i -> (0 < i_activated i)%Z ->
  is_ref_activated s i = Ok true /\ is_child_activated s i = false.
Proof.
  intros s r i (i0 & p & pi & Ei & Hp & Epi & Hfl) E Hpos. rewrite Ei in E; inversion E; subst i0.
  unfold is_ref_activated, is_child_activated. rewrite Hp, Epi.
  apply Z.ltb_lt in Hpos. rewrite Hpos. simpl.
  destruct (N.eqb (i_flow i) (i_flow pi)) eqn:Eq; auto.
  apply N.eqb_eq in Eq. congruence.
Qed.

Lemma act0_stable : forall (R A : uid -> Prop) s s' c, Srel R A s s' -> act s c = 0%Z -> act s' c = 0%Z.
Proof.
  intros R A s s' c S H. unfold act in *. destruct (getf s c) as [i|] eqn:Ec.
  - destruct (srel_fwd _ _ _ _ _ _ S Ec) as (i' & Ec' & (_ & _ & _ & _ & _ & _ & _ & Hz & _)).
    rewrite Ec'. apply Hz; auto.
  - rewrite (srel_none _ _ _ _ _ S Ec). auto.
Qed.

Lemma act_pos_le : forall (R A : uid -> Prop) s s' c, Srel R A s s' -> (0 < act s' c)%Z -> (act s' c <= act s c)%Z.
Proof.
  intros R A s s' c S H. unfold act in *. destruct (getf s' c) as [i'|] eqn:Ec'; [|lia].
  destruct (srel_bwd _ _ _ _ _ _ S Ec') as (i & Ec & (_ & _ & _ & _ & _ & _ & _ & (_ & Hm & _) & _)).
  rewrite Ec. auto.
Qed.

Lemma act_pos_back : forall (R A : uid -> Prop) s s' c, Srel R A s s' -> (0 < act s' c)%Z -> act s c <> 0%Z.
Proof. intros R A s s' c S H Hz. rewrite (act0_stable _ _ _ _ _ S Hz) in H. lia. Qed.

(* a child-list entry only disappears for an instance whose count is 0 *)
Definition Urel (s s' : st) : Prop :=
  forall x i i' c, getf s x = Some i -> getf s' x = Some i' ->
    count_occ N.eq_dec (i_children i') c <> count_occ N.eq_dec (i_children i) c -> act s' c = 0%Z.

Lemma urel_refl : forall s, Urel s s.
Proof. intros s x i i' c E E' H. rewrite E in E'. inversion E'; subst. contradiction. Qed.

Lemma urel_trans : forall s1 s2 s3, SrelT s1 s2 -> SrelT s2 s3 -> Urel s1 s2 -> Urel s2 s3 -> Urel s1 s3.
Proof.
  intros s1 s2 s3 S1 S2 U1 U2 x i1 i3 c E1 E3 H.
  destruct (srel_fwd _ _ _ _ _ _ S1 E1) as (i2 & E2 & _).
  destruct (Nat.eq_dec (count_occ N.eq_dec (i_children i2) c) (count_occ N.eq_dec (i_children i1) c)) as [Heq|Hne].
  - eapply U2; eauto. congruence.
  - eapply act0_stable; eauto.
Qed.

Lemma urel_flows : forall s s', flows s' = flows s -> Urel s s'.
Proof.
  intros s s' H x i i' c E E' Hc. unfold getf in *. rewrite H in E'. rewrite E in E'. inversion E'; subst. contradiction.
Qed.

Lemma urel_modf_same : forall s x g, (forall i, i_children (g i) = i_children i) -> Urel s (modf s x g).
Proof.
  intros s x g Hg y i i' c E E' Hc. unfold modf in E'. destruct (getf s x) as [xi|] eqn:Ex.
  - destruct (N.eq_dec x y) as [<-|Hne].
    + rewrite (getf_setf_same _ _ _ _ Ex) in E'. inversion E'; subst. rewrite Ex in E. inversion E; subst.
      rewrite Hg in Hc. contradiction.
    + rewrite getf_setf_other in E'; auto. rewrite E in E'. inversion E'; subst. contradiction.
  - rewrite E in E'. inversion E'; subst. contradiction.
Qed.

Lemma urel_unlink : forall s f s', unlink s f = Ok s' -> Urel s s'.
Proof.
  unfold unlink; intros s f s' H. destruct (getf s f) as [fi|] eqn:Ef; try discriminate.
  destruct (i_activated fi =? 0)%Z eqn:Ez; [|inversion H; apply urel_refl].
  destruct (i_parent fi) as [p|]; [|inversion H; apply urel_refl].
  destruct (getf s p) as [pi|] eqn:Ep; [|inversion H; apply urel_refl].
  destruct (remove1 f (i_children pi)) as [l|] eqn:El; inversion H; subst.
  intros y i i' c E E' Hc. apply Z.eqb_eq in Ez.
  destruct (N.eq_dec p y) as [<-|Hne].
  - rewrite (getf_setf_same _ _ _ _ Ep) in E'. inversion E'; subst. rewrite Ep in E. inversion E; subst. simpl in Hc.
    destruct (N.eq_dec c f) as [->|Hcf].
    + unfold act. destruct (N.eq_dec p f) as [->|Hpf].
      * rewrite (getf_setf_same _ _ _ _ Ep). rewrite Ef in Ep. inversion Ep; subst. auto.
      * rewrite getf_setf_other; auto. rewrite Ef. auto.
    + exfalso. apply Hc. eapply remove1_count_other; eauto.
  - rewrite getf_setf_other in E'; auto. rewrite E in E'. inversion E'; subst. contradiction.
Qed.

Lemma remove1_some_in : forall x l r, remove1 x l = Some r -> In x l.
Proof.
  induction l as [|y l IH]; simpl; intros r H; try discriminate.
  destruct (N.eqb x y) eqn:Ey; [apply N.eqb_eq in Ey; auto|].
  destruct (remove1 x l); try discriminate. right; eapply IH; eauto.
Qed.

(* the effect of a call on the count of the reference instances that stay activated *)
Definition CS (s : st) (f : uid) (d : bool) (s' : st) : Prop :=
  Urel s s' /\
  forall r, refshape s r -> (0 < act s' r)%Z ->
    (act s' r - E s' r = act s r - E s r - (if N.eqb f r && d then 1 else 0))%Z.

Lemma unlink_E_other : forall s f s' r, unlink s f = Ok s' -> r <> f -> E s' r = E s r /\ act s' r = act s r.
Proof.
  unfold unlink; intros s f s' r H Hne. destruct (getf s f) as [fi|] eqn:Ef; try discriminate.
  destruct (i_activated fi =? 0)%Z; [|inversion H; auto].
  destruct (i_parent fi) as [p|]; [|inversion H; auto].
  destruct (getf s p) as [pi|] eqn:Ep; [|inversion H; auto].
  destruct (remove1 f (i_children pi)) as [l|] eqn:El; inversion H; subst. split.
  - rewrite (E_setf _ _ _ _ _ Ep). unfold contrib; simpl.
    destruct (live (i_status pi)); try lia. unfold occ. rewrite (remove1_count_other _ _ _ _ El Hne). lia.
  - unfold act. destruct (N.eq_dec p r) as [->|Hpr].
    + rewrite (getf_setf_same _ _ _ _ Ep), Ep. auto.
    + rewrite getf_setf_other; auto.
Qed.

Lemma unlink_noop_activated : forall s f s' fi, unlink s f = Ok s' -> getf s f = Some fi ->
  i_activated fi <> 0%Z -> s' = s.
Proof.
  unfold unlink; intros s f s' fi H E Hne. rewrite E in H.
  destruct (i_activated fi =? 0)%Z eqn:Ez; [apply Z.eqb_eq in Ez; contradiction|inversion H; auto].
Qed.

Lemma restart_E_act : forall s f d s' r, restart s f d = Ok s' -> E s' r = E s r /\ act s' r = act s r.
Proof.
  unfold restart; intros s f d s' r H. destruct (getf s f) as [fi|]; try discriminate.
  destruct (negb d && (0 <? i_activated fi)%Z && negb (i_nis fi)); [|inversion H; auto].
  apply bind_ok in H. destruct H as (src & _ & H). inversion H; subst. split.
  - rewrite E_modf_same; [apply E_flows; reflexivity|]. intros i; simpl; auto.
  - rewrite act_modf_keep; [apply act_flows; reflexivity|]. intros i; simpl; auto.
Qed.

Lemma restart_urel : forall s f d s', restart s f d = Ok s' -> Urel s s'.
Proof.
  unfold restart; intros s f d s' H. destruct (getf s f) as [fi|]; try discriminate.
  destruct (negb d && (0 <? i_activated fi)%Z && negb (i_nis fi)); [|inversion H; apply urel_refl].
  apply bind_ok in H. destruct H as (src & _ & H). inversion H; subst.
  intros y i i' c E0 E' Hc.
  assert (U : Urel (emit1 s (ERestart f src (i_activated fi))) (modf (emit1 s (ERestart f src (i_activated fi))) f (set_nis true))).
  { apply urel_modf_same. intros; simpl; auto. }
  eapply U; eauto.
Qed.

(* a live instance that ends: E loses exactly its entries *)
Lemma E_retire : forall s f fi v r, getf s f = Some fi -> live (i_status fi) = true -> live v = false ->
  E (modf s f (set_status v)) r = (E s r - occ r (i_children fi))%Z /\ act (modf s f (set_status v)) r = act s r.
Proof.
  intros s f fi v r Ef Hl Hv. split.
  - rewrite (modf_some _ _ _ _ Ef), (E_setf _ _ _ _ _ Ef). unfold contrib; simpl. rewrite Hl, Hv. lia.
  - apply act_modf_keep. intros; simpl; auto.
Qed.

Section Pass4.
  Variable rk : uid -> nat.
  Variable ab : st -> uid -> bool -> res st.
  Hypothesis Hab1 : forall (R A : uid -> Prop) s c d s',
    ranked rk s -> closed R s -> owns R A s -> R c -> ab s c d = Ok s' -> Srel R A s s'.
  Hypothesis Hab4 : forall s c d s', ranked rk s -> ab s c d = Ok s' -> CS s c d s'.

  Lemma ab_srelT : forall s c d s', ranked rk s -> ab s c d = Ok s' -> SrelT s s'.
  Proof. intros. eapply (Hab1 anyR anyA); eauto using anyR_closed, anyA_owns; exact I. Qed.

  Lemma pos_mid : forall s0 s' r, SrelT s0 s' -> (0 < act s' r)%Z -> (0 < act s0 r)%Z.
  Proof. intros s0 s' r S H. pose proof (act_pos_le _ _ _ _ _ S H). lia. Qed.

  Lemma abort_children_cs : forall l s s',
    ranked rk s -> abort_children ab l s = Ok s' ->
    SrelT s s' /\ Urel s s' /\
    forall r, refshape s r -> (0 < act s' r)%Z ->
      (act s' r - E s' r = act s r - E s r - occ r l)%Z.
  Proof.
    induction l as [|c l IH]; simpl; intros s s' Hr H.
    - inversion H; subst. split; [apply Srel_refl|split; [apply urel_refl|]]. intros; unfold occ; simpl; lia.
    - destruct (getf s c) as [ci|] eqn:Ec.
      + destruct (is_child_activated s ci) eqn:Eca.
        * destruct (IH _ _ Hr H) as (S & U & K). split; auto. split; auto.
          intros r Hrs Hpos. rewrite (K r Hrs Hpos), occ_cons.
          destruct (N.eqb c r) eqn:Ecr; try lia. apply N.eqb_eq in Ecr; subst c. exfalso.
          assert (Hposc : (0 < i_activated ci)%Z).
          { unfold is_child_activated in Eca. destruct (0 <? i_activated ci)%Z eqn:Ez; [apply Z.ltb_lt in Ez; auto|discriminate]. }
          destruct (refshape_isref _ _ _ Hrs Ec Hposc) as (_ & Hn). congruence.
        * bind_inv H.
          pose proof (ab_srelT _ _ _ _ Hr Hb) as S0.
          destruct (Hab4 _ _ _ _ Hr Hb) as (U0 & K0).
          destruct (IH _ _ (srel_ranked _ _ _ _ _ S0 Hr) H) as (S1 & U1 & K1).
          split; [eapply Srel_trans; eauto|]. split; [apply (urel_trans s s0 s'); auto|].
          intros r Hrs Hpos.
          assert (Hrs0 : refshape s0 r) by (eapply refshape_static; eauto).
          pose proof (pos_mid _ _ _ S1 Hpos) as Hpos0.
          rewrite (K1 r Hrs0 Hpos), (K0 r Hrs Hpos0), occ_cons. rewrite andb_true_r. lia.
      + destruct (IH _ _ Hr H) as (S & U & K). split; auto. split; auto.
        intros r Hrs Hpos. rewrite (K r Hrs Hpos), occ_cons.
        destruct (N.eqb c r) eqn:Ecr; try lia. apply N.eqb_eq in Ecr; subst c.
        destruct Hrs as (i & _ & _ & Ei & _). congruence.
  Qed.

  Lemma modf_act0_cs : forall s c r, c <> r ->
    E (modf s c (set_activated 0%Z)) r = E s r /\ act (modf s c (set_activated 0%Z)) r = act s r.
  Proof.
    intros s c r Hne. split.
    - apply E_modf_same. intros; simpl; auto.
    - apply act_modf_other; auto.
  Qed.

  Lemma abort_same_cs : forall fid l s s',
    ranked rk s -> abort_same ab fid l s = Ok s' ->
    SrelT s s' /\ Urel s s' /\
    forall r, refshape s r -> (0 < act s' r)%Z -> (act s' r - E s' r = act s r - E s r)%Z.
  Proof.
    induction l as [|c l IH]; simpl; intros s s' Hr H.
    - inversion H; subst. split; [apply Srel_refl|split; [apply urel_refl|]]. intros; lia.
    - destruct (getf s c) as [ci|] eqn:Ec; try discriminate.
      destruct (N.eqb (i_flow ci) fid); [|eapply IH; eauto].
      bind_inv H.
      pose proof (ab_srelT _ _ _ _ Hr Hb) as S0.
      destruct (Hab4 _ _ _ _ Hr Hb) as (U0 & K0).
      set (t := modf s0 c (set_activated 0%Z)) in *.
      assert (St : SrelT s0 t) by (apply modf_srel_activated0; exact I).
      assert (Ut : Urel s0 t) by (apply urel_modf_same; intros; simpl; auto).
      assert (S0t : SrelT s t) by (eapply Srel_trans; eauto).
      destruct (IH _ _ (srel_ranked _ _ _ _ _ S0t Hr) H) as (S1 & U1 & K1).
      split; [eapply Srel_trans; eauto|].
      assert (U0t : Urel s t) by (apply (urel_trans s s0 t); auto).
      split; [apply (urel_trans s t s'); auto|].
      intros r Hrs Hpos.
      assert (Hcr : c <> r).
      { intros ->. pose proof (pos_mid _ _ _ S1 Hpos) as Hp. unfold t, act, modf in Hp.
        destruct (srel_fwd _ _ _ _ _ _ S0 Ec) as (ci0 & Ec0 & _). rewrite Ec0 in Hp.
        rewrite (getf_setf_same _ _ _ _ Ec0) in Hp. simpl in Hp. lia. }
      assert (Hrst : refshape t r) by (eapply refshape_static; eauto).
      pose proof (pos_mid _ _ _ S1 Hpos) as Hpost.
      destruct (modf_act0_cs s0 c r Hcr) as (Et & At). fold t in Et, At.
      assert (Hpos0 : (0 < act s0 r)%Z) by lia.
      rewrite (K1 r Hrst Hpos), Et, At, (K0 r Hrs Hpos0).
      destruct (N.eqb c r) eqn:Ecr; [apply N.eqb_eq in Ecr; contradiction|]. simpl. lia.
  Qed.

  Lemma deactivate_cs : forall s f d s1 b,
    ranked rk s -> deactivate ab s f d = Ok (s1, b) ->
    SrelT s s1 /\ Urel s s1 /\
    forall r, refshape s r -> (0 < act s1 r)%Z ->
      (act s1 r - E s1 r = act s r - E s r - (if N.eqb f r && d then 1 else 0))%Z.
  Proof.
    intros s f d s1 b Hr H.
    assert (S : SrelT s s1).
    { eapply (deactivate_srel rk ab Hab1 anyR anyA); eauto using anyR_closed, anyA_owns; exact I. }
    split; auto.
    unfold deactivate in H. destruct (getf s f) as [i|] eqn:Ef; try discriminate.
    apply bind_ok in H. destruct H as (isref & Hisref & H).
    destruct isref.
    - destruct d; [|discriminate].
      assert (Hpos : (0 < i_activated i)%Z).
      { unfold is_ref_activated in Hisref.
        destruct (0 <? i_activated i)%Z eqn:Ez; [apply Z.ltb_lt in Ez; auto|discriminate]. }
      set (sm := modf s f (set_activated (i_activated i - 1)%Z)) in *.
      assert (Sm : SrelT s sm).
      { unfold sm. rewrite (modf_some _ _ _ _ Ef). apply srel_set_activated; unfold anyR; auto. }
      assert (Um : Urel s sm) by (apply urel_modf_same; intros; simpl; auto).
      assert (Em : forall r, E sm r = E s r) by (intros; apply E_modf_same; intros; simpl; auto).
      assert (Am : forall r, act sm r = (act s r - (if N.eqb f r then 1 else 0))%Z).
      { intros r. destruct (N.eqb f r) eqn:Efr.
        - apply N.eqb_eq in Efr; subst r. unfold sm, act. rewrite (modf_some _ _ _ _ Ef), (getf_setf_same _ _ _ _ Ef), Ef. simpl. lia.
        - apply N.eqb_neq in Efr. unfold sm. rewrite act_modf_other; auto. lia. }
      destruct (i_activated i - 1 =? 0)%Z eqn:Ez.
      + bind_inv H. inversion H; subst.
        destruct (abort_same_cs _ _ _ _ (srel_ranked _ _ _ _ _ Sm Hr) Hb) as (S1 & U1 & K1).
        split; [apply (urel_trans s sm s1); auto|].
        intros r Hrs Hpos1.
        assert (Hrsm : refshape sm r) by (eapply refshape_static; eauto).
        rewrite (K1 r Hrsm Hpos1), Em, Am. rewrite andb_true_r. lia.
      + inversion H; subst. split; auto.
        intros r Hrs Hpos1. rewrite Em, Am, andb_true_r. lia.
    - inversion H; subst. split; [apply urel_refl|].
      intros r Hrs Hpos1.
      destruct (N.eqb f r && d) eqn:Efd; [|lia]. exfalso.
      apply andb_prop in Efd. destruct Efd as (Efr & ->). apply N.eqb_eq in Efr; subst r.
      unfold act in Hpos1. rewrite Ef in Hpos1.
      destruct (refshape_isref _ _ _ Hrs Ef Hpos1) as (Hx & _). congruence.
  Qed.

  (* after the common prologue: the count is off by the entries of f itself, which f gives back
     when it ends *)
  Lemma prologue_cs : forall skip s f d s3 go,
    ranked rk s -> prologue ab skip s f d = Ok (s3, go) ->
    SrelT s s3 /\ Urel s s3 /\
    forall r, refshape s r -> (0 < act s3 r)%Z ->
      (act s3 r - E s3 r = act s r - E s r - (if N.eqb f r && d then 1 else 0)
                           - (if go then match getf s3 f with Some i3 => occ r (i_children i3) | None => 0 end else 0))%Z.
  Proof.
    unfold prologue; intros skip s f d s3 go Hr H.
    apply bind_ok in H. destruct H as ([s1 b] & Hd & H). simpl in H.
    destruct (deactivate_cs _ _ _ _ _ Hr Hd) as (S1 & U1 & K1).
    assert (Hr1 : ranked rk s1) by (eapply srel_ranked; eauto).
    destruct b.
    2:{ inversion H; subst. split; auto. split; auto. intros r Hrs Hp. rewrite (K1 r Hrs Hp). lia. }
    destruct (getf s1 f) as [i1|] eqn:E1; try discriminate.
    destruct (skip (i_status i1)).
    { inversion H; subst. split; auto. split; auto. intros r Hrs Hp. rewrite (K1 r Hrs Hp). lia. }
    bind_inv H.
    destruct (abort_children_cs _ _ _ Hr1 Hb) as (S2 & U2 & K2).
    destruct (abort_children_self rk ab Hab1 (i_children i1) s1 s0 f i1) as (i2 & E2 & _); auto.
    { apply Forall_forall. intros c Hin. eapply Hr1; eauto. }
    rewrite E2 in H. bind_inv H. inversion H; subst.
    assert (Hfl : flows s3 = flows s0) by (eapply stop_actions_flows; eauto).
    assert (S3 : SrelT s0 s3) by (eapply stop_actions_srel; eauto; intros; exact I).
    assert (U3 : Urel s0 s3) by (apply urel_flows; auto).
    assert (S02 : SrelT s s0) by (eapply Srel_trans; eauto).
    split; [eapply Srel_trans; eauto|].
    assert (U02 : Urel s s0) by (apply (urel_trans s s1 s0); auto).
    split; [apply (urel_trans s s0 s3); auto|].
    intros r Hrs Hp3.
    assert (Hp0 : (0 < act s0 r)%Z) by (rewrite <- (act_flows _ _ r Hfl); auto).
    assert (Hrs1 : refshape s1 r) by (eapply refshape_static; eauto).
    pose proof (pos_mid _ _ _ S2 Hp0) as Hp1.
    rewrite (E_flows _ _ r Hfl), (act_flows _ _ r Hfl), (K2 r Hrs1 Hp0), (K1 r Hrs Hp1).
    unfold getf. rewrite Hfl. fold (getf s0 f). rewrite E2.
    (* the entries of a surviving r in f's list are those of the snapshot *)
    assert (Hocc : occ r (i_children i2) = occ r (i_children i1)).
    { unfold occ. f_equal.
      destruct (Nat.eq_dec (count_occ N.eq_dec (i_children i2) r) (count_occ N.eq_dec (i_children i1) r)) as [Heq|Hne]; auto.
      exfalso. specialize (U2 _ _ _ r E1 E2 Hne). lia. }
    rewrite Hocc. lia.
  Qed.
End Pass4.

Lemma epilogue_abort_urel : forall s3 f d s' i3,
  getf s3 f = Some i3 -> live (i_status i3) = true -> epilogue_abort s3 f d = Ok s' ->
  SrelT s3 s' /\ Urel s3 s'.
Proof.
  unfold epilogue_abort; intros s3 f d s' i3 E3 Hl H. bind_inv H.
  set (s5 := emit1 (modf s f (set_status FStopped)) (EFailed f)) in *.
  pose proof (restart_urel _ _ _ _ H) as Ur.
  pose proof (urel_unlink _ _ _ Hb) as Uu.
  destruct (unlink_getf_fields _ _ _ _ _ Hb E3) as (i4 & E4 & _ & Ha4 & _ & _ & Hs4).
  assert (Us : Urel s (modf s f (set_status FStopped))) by (apply urel_modf_same; intros; simpl; auto).
  assert (Su : SrelT s3 s) by (eapply srel_unlink; eauto; exact I).
  assert (Ss : SrelT s (modf s f (set_status FStopped))).
  { eapply modf_srel_status; eauto. exact I. left; split; auto. congruence. }
  assert (S5 : SrelT (modf s f (set_status FStopped)) s5).
  { apply srel_emit with (e := EFailed f); simpl; auto. exact I. discriminate. }
  assert (Sr : SrelT s5 s') by (eapply restart_srel; eauto; exact I).
  assert (U5 : Urel (modf s f (set_status FStopped)) s5) by (apply urel_flows; reflexivity).
  assert (S35 : SrelT s3 s5) by (eapply Srel_trans; [exact Su|eapply Srel_trans; eauto]).
  assert (U35 : Urel s3 s5).
  { assert (Ss5 : SrelT s s5) by (eapply Srel_trans; eauto).
    assert (Us5 : Urel s s5) by (apply (urel_trans s (modf s f (set_status FStopped)) s5); auto).
    apply (urel_trans s3 s s5); auto. }
  split; [eapply Srel_trans; eauto|apply (urel_trans s3 s5 s'); auto].
Qed.

Lemma epilogue_abort_cs : forall rk s3 f d s' i3 r,
  ranked rk s3 -> getf s3 f = Some i3 -> live (i_status i3) = true ->
  epilogue_abort s3 f d = Ok s' -> (0 < act s' r)%Z ->
  Urel s3 s' /\ E s' r = (E s3 r - occ r (i_children i3))%Z /\ act s' r = act s3 r.
Proof.
  unfold epilogue_abort; intros rk s3 f d s' i3 r Hr E3 Hl H Hp. bind_inv H.
  set (s5 := emit1 (modf s f (set_status FStopped)) (EFailed f)) in *.
  destruct (restart_E_act _ _ _ _ r H) as (Er & Ar).
  pose proof (restart_urel _ _ _ _ H) as Ur.
  pose proof (urel_unlink _ _ _ Hb) as Uu.
  destruct (unlink_getf_fields _ _ _ _ _ Hb E3) as (i4 & E4 & _ & Ha4 & _ & _ & Hs4).
  assert (Us : Urel s (modf s f (set_status FStopped))) by (apply urel_modf_same; intros; simpl; auto).
  assert (Su : SrelT s3 s) by (eapply srel_unlink; eauto; exact I).
  assert (Ss : SrelT s (modf s f (set_status FStopped))).
  { eapply modf_srel_status; eauto. exact I. left; split; auto. congruence. }
  assert (S5 : SrelT (modf s f (set_status FStopped)) s5).
  { apply srel_emit with (e := EFailed f); simpl; auto. exact I. discriminate. }
  assert (Sr : SrelT s5 s') by (eapply restart_srel; eauto; exact I).
  assert (U5 : Urel (modf s f (set_status FStopped)) s5) by (apply urel_flows; reflexivity).
  split.
  - eapply urel_trans; [exact Su| |exact Uu|].
    + eapply Srel_trans; [exact Ss|eapply Srel_trans; eauto].
    + eapply urel_trans; [exact Ss|eapply Srel_trans; eauto|exact Us|].
      eapply urel_trans; eauto.
  - (* is f itself r? then r keeps its count > 0 and unlink is a no-op *)
    assert (Hs5 : E s5 r = E (modf s f (set_status FStopped)) r /\ act s5 r = act (modf s f (set_status FStopped)) r).
    { split; [apply E_flows|apply act_flows]; reflexivity. }
    destruct Hs5 as (E5 & A5).
    assert (Hl4 : live (i_status i4) = true) by congruence.
    destruct (E_retire s f i4 FStopped r E4 Hl4 eq_refl) as (Eret & Aret).
    rewrite Er, Ar, E5, A5, Eret, Aret.
    destruct (N.eq_dec r f) as [->|Hne].
    + (* r = f survives: activated <> 0, so unlink did nothing *)
      assert (Hact3 : i_activated i3 <> 0%Z).
      { rewrite Ar, A5, Aret in Hp. unfold act in Hp. rewrite E4 in Hp. lia. }
      rewrite (unlink_noop_activated _ _ _ _ Hb E3 Hact3) in *.
      rewrite E3 in E4. inversion E4; subst. auto.
    + destruct (unlink_E_other _ _ _ r Hb Hne) as (Eu & Au). rewrite Eu, Au. split; auto.
      (* children of f are not changed by unlink: f is not its own parent (ranked) *)
      assert (Hch : i_children i4 = i_children i3).
      { unfold unlink in Hb. rewrite E3 in Hb.
        destruct (i_activated i3 =? 0)%Z; [|inversion Hb; subst; rewrite E3 in E4; inversion E4; auto].
        destruct (i_parent i3) as [p|] eqn:Ep; [|inversion Hb; subst; rewrite E3 in E4; inversion E4; auto].
        destruct (getf s3 p) as [pi|] eqn:Epi; [|inversion Hb; subst; rewrite E3 in E4; inversion E4; auto].
        destruct (remove1 f (i_children pi)) as [l|] eqn:El; inversion Hb; subst.
        destruct (N.eq_dec p f) as [->|Hpf].
        - exfalso. rewrite E3 in Epi. inversion Epi as [Hpi]. rewrite <- Hpi in El.
          pose proof (remove1_some_in _ _ _ El) as Hin.
          specialize (Hr _ _ _ E3 Hin). lia.
        - rewrite getf_setf_other in E4; auto. rewrite E3 in E4. inversion E4; auto. }
      rewrite Hch. auto.
Qed.


Theorem abort_cs : forall rk n s f d s', ranked rk s -> abort n s f d = Ok s' -> CS s f d s'.
Proof.
  induction n as [|n IH]; simpl; intros s f d s' Hr H; try discriminate.
  apply bind_ok in H. destruct H as ([s3 go] & Hp & H). simpl in H.
  destruct (prologue_cs rk (abort n) (abort_srel rk n) IH _ _ _ _ _ _ Hr Hp) as (S3 & U3 & K3).
  destruct go.
  - destruct (prologue_srel rk (abort n) (abort_srel rk n) anyR anyA _ _ _ _ _ _ Hr (anyR_closed s) (anyA_owns anyR s) I Hp)
      as (_ & Hgo).
    destruct (Hgo eq_refl) as (i3 & E3 & Hsk).
    pose proof (skip_abort_live _ Hsk) as Hl3.
    destruct (epilogue_abort_urel _ _ _ _ _ E3 Hl3 H) as (Se & Ue).
    split; [apply (urel_trans s s3 s'); auto|].
    intros r Hrs Hpos.
    destruct (epilogue_abort_cs rk _ _ _ _ _ r (srel_ranked _ _ _ _ _ S3 Hr) E3 Hl3 H Hpos) as (_ & Ee & Ae).
    assert (Hp3 : (0 < act s3 r)%Z) by lia.
    specialize (K3 r Hrs Hp3). rewrite E3 in K3. rewrite Ee, Ae. lia.
  - inversion H; subst. split; auto.
    intros r Hrs Hpos. specialize (K3 r Hrs Hpos). lia.
Qed.

Theorem abort_top_cs : forall rk b n s f d s', ranked rk s -> abort_top b n s f d = Ok s' -> CS s f d s'.
Proof.
  destruct n as [|n]; simpl; intros s f d s' Hr H; try discriminate.
  apply bind_ok in H. destruct H as ([s3 go] & Hp & H). simpl in H.
  destruct (prologue_cs rk (abort n) (abort_srel rk n) (abort_cs rk n) _ _ _ _ _ _ Hr Hp) as (S3 & U3 & K3).
  destruct go.
  - destruct (prologue_srel rk (abort n) (abort_srel rk n) anyR anyA _ _ _ _ _ _ Hr (anyR_closed s) (anyA_owns anyR s) I Hp)
      as (_ & Hgo).
    destruct (Hgo eq_refl) as (i3 & E3 & Hsk).
    pose proof (skip_abort_live _ Hsk) as Hl3.
    destruct (epilogue_abort_urel _ _ _ _ _ E3 Hl3 H) as (Se & Ue).
    split; [apply (urel_trans s s3 s'); auto|].
    intros r Hrs Hpos.
    destruct (epilogue_abort_cs rk _ _ _ _ _ r (srel_ranked _ _ _ _ _ S3 Hr) E3 Hl3 H Hpos) as (_ & Ee & Ae).
    assert (Hp3 : (0 < act s3 r)%Z) by lia.
    specialize (K3 r Hrs Hp3). rewrite E3 in K3. rewrite Ee, Ae. lia.
  - inversion H; subst. split; auto.
    intros r Hrs Hpos. specialize (K3 r Hrs Hpos). lia.
Qed.

Lemma epilogue_finish_urel : forall s3 f d s' i3,
  getf s3 f = Some i3 -> listening (i_status i3) = true -> epilogue_finish s3 f d = Ok s' ->
  SrelT s3 s' /\ Urel s3 s'.
Proof.
  unfold epilogue_finish; intros s3 f d s' i3 E3 Hl H. rewrite E3 in H.
  destruct (N.eqb (i_flow i3) main_id).
  - inversion H; subst. split.
    + eapply modf_srel_status; eauto. exact I.
    + apply urel_modf_same; intros; simpl; auto.
  - bind_inv H.
    set (sa := modf s3 f (set_status FFinished)) in *.
    assert (Sa : SrelT s3 sa) by (eapply modf_srel_status; eauto; exact I).
    assert (Ua : Urel s3 sa) by (apply urel_modf_same; intros; simpl; auto).
    assert (Su : SrelT sa s) by (eapply srel_unlink; eauto; exact I).
    pose proof (urel_unlink _ _ _ Hb) as Uu.
    assert (Se : SrelT s (emit1 s (EFinished f))).
    { apply srel_emit with (e := EFinished f); simpl; auto. exact I. discriminate. }
    assert (Ue : Urel s (emit1 s (EFinished f))) by (apply urel_flows; reflexivity).
    assert (Sr : SrelT (emit1 s (EFinished f)) s') by (eapply restart_srel; eauto; exact I).
    pose proof (restart_urel _ _ _ _ H) as Ur.
    assert (S1 : SrelT s3 s) by (eapply Srel_trans; eauto).
    assert (U1 : Urel s3 s) by (apply (urel_trans s3 sa s); auto).
    assert (S2 : SrelT s s') by (eapply Srel_trans; eauto).
    assert (U2 : Urel s s') by (apply (urel_trans s (emit1 s (EFinished f)) s'); auto).
    split; [eapply Srel_trans; eauto|apply (urel_trans s3 s s'); auto].
Qed.

Lemma epilogue_finish_cs : forall rk s3 f d s' i3 r,
  ranked rk s3 -> getf s3 f = Some i3 -> listening (i_status i3) = true -> i_flow i3 <> main_id ->
  epilogue_finish s3 f d = Ok s' -> (0 < act s' r)%Z ->
  E s' r = (E s3 r - occ r (i_children i3))%Z /\ act s' r = act s3 r.
Proof.
  unfold epilogue_finish; intros rk s3 f d s' i3 r Hr E3 Hl Hm H Hp. rewrite E3 in H.
  destruct (N.eqb (i_flow i3) main_id) eqn:Em; [apply N.eqb_eq in Em; contradiction|].
  bind_inv H.
  set (sa := modf s3 f (set_status FFinished)) in *.
  assert (Hlv : live (i_status i3) = true) by (unfold live; rewrite Hl; auto).
  destruct (E_retire s3 f i3 FFinished r E3 Hlv eq_refl) as (Ea & Aa). fold sa in Ea, Aa.
  assert (Ea3 : getf sa f = Some (set_status FFinished i3)).
  { unfold sa. rewrite (modf_some _ _ _ _ E3). eapply getf_setf_same; eauto. }
  destruct (restart_E_act _ _ _ _ r H) as (Er & Ar).
  assert (Ee : E (emit1 s (EFinished f)) r = E s r /\ act (emit1 s (EFinished f)) r = act s r).
  { split; [apply E_flows|apply act_flows]; reflexivity. }
  destruct Ee as (Ee & Ae).
  rewrite Er, Ar, Ee, Ae.
  destruct (N.eq_dec r f) as [->|Hne].
  - assert (Hact3 : i_activated (set_status FFinished i3) <> 0%Z).
    { simpl. rewrite Ar, Ae in Hp.
      destruct (unlink_getf_fields _ _ _ _ _ Hb Ea3) as (i4 & E4 & _ & Ha4 & _).
      unfold act in Hp. rewrite E4 in Hp. simpl in Ha4. lia. }
    rewrite (unlink_noop_activated _ _ _ _ Hb Ea3 Hact3). auto.
  - destruct (unlink_E_other _ _ _ r Hb Hne) as (Eu & Au). rewrite Eu, Au. auto.
Qed.

(* _finish_flow of an instance other than the main flow *)
Theorem finish_cs : forall rk n s f d s' i,
  ranked rk s -> getf s f = Some i -> i_flow i <> main_id -> finish n s f d = Ok s' -> CS s f d s'.
Proof.
  unfold finish; intros rk n s f d s' i Hr Ef Hm H.
  apply bind_ok in H. destruct H as ([s3 go] & Hp & H). simpl in H.
  destruct (prologue_cs rk (abort n) (abort_srel rk n) (abort_cs rk n) _ _ _ _ _ _ Hr Hp) as (S3 & U3 & K3).
  destruct go.
  - destruct (prologue_srel rk (abort n) (abort_srel rk n) anyR anyA _ _ _ _ _ _ Hr (anyR_closed s) (anyA_owns anyR s) I Hp)
      as (_ & Hgo).
    destruct (Hgo eq_refl) as (i3 & E3 & Hsk).
    pose proof (skip_finish_listening _ Hsk) as Hl3.
    destruct (epilogue_finish_urel _ _ _ _ _ E3 Hl3 H) as (Se & Ue).
    split; [apply (urel_trans s s3 s'); auto|].
    intros r Hrs Hpos.
    assert (Hm3 : i_flow i3 <> main_id).
    { destruct (srel_fwd _ _ _ _ _ _ S3 Ef) as (i3' & E3' & (Hf & _)). rewrite E3 in E3'. inversion E3'; subst. congruence. }
    destruct (epilogue_finish_cs rk _ _ _ _ _ r (srel_ranked _ _ _ _ _ S3 Hr) E3 Hl3 Hm3 H Hpos) as (Ee & Ae).
    assert (Hp3 : (0 < act s3 r)%Z) by lia.
    specialize (K3 r Hrs Hp3). rewrite E3 in K3. rewrite Ee, Ae. lia.
  - inversion H; subst. split; auto.
    intros r Hrs Hpos. specialize (K3 r Hrs Hpos). lia.
Qed.
