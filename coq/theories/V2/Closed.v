(* C12 (Colang 2.x) - the closedness checker `closedb`.
     labels_okb      every Goto / ForkHead / CatchPatternFailure / Break / Continue label is
                     defined by a Label element of the same flow (anywhere, reachable or not)
     no_compositeb   no composite element left
     merges_okb      every MergeHeads names the fork uid of a ForkHead of the same flow
     loop_exits_okb  no Break / Continue is left without the label of its loop
     explore         exhaustive exploration of the head-token semantics of ClosedAst.v from the
                     flow start (worklist + visited set, fuelled; running out of fuel = false):
                     no label lookup fails, no scope is re-opened or unknown, the failure
                     handler stack never underflows, and the flow end is only reached with
                     every scope closed.
   Definitions only; soundness is proved in Closed_proofs.v. *)
From Coq Require Import List String Bool Arith.
From NG Require Import V2.ClosedAst.
Import ListNotations.
Open Scope string_scope.

Inductive outcome := Next (cs : list config) | Fail (x : err).

Definition jump_to (es : list elem) (l : string) (sc ct : list string) : option config :=
  match lbl es l with Some k => Some (S k, sc, ct) | None => None end.

Fixpoint fork_targets (es : list elem) (ls : list string) (sc ct : list string) : outcome :=
  match ls with
  | [] => Next []
  | l :: r => match jump_to es l sc ct with
              | None => Fail (XLabel l)
              | Some c => match fork_targets es r sc ct with
                          | Next cs => Next (c :: cs)
                          | Fail x => Fail x
                          end
              end
  end.

Definition step_fn (es : list elem) (c : config) : outcome :=
  let '(p, sc, ct) := c in
  let next := (S p, sc, ct) in
  match nth_error es p with
  | None => match sc with [] => Next [] | _ => Fail (XScopeLeftOpen sc) end
  | Some e =>
    match e with
    | ELabel _ | EMerge _ | EWait | EPlain _ => Next [next]
    | EBreak None | EContinue None => Fail XNoLoopTarget
    | EGoto l c => match jump_to es l sc ct with
                   | None => Fail (XLabel l)
                   | Some t => Next (t :: if c then [next] else [])
                   end
    | EFork _ ls => fork_targets es ls sc ct
    | ECatch (Some l) => Next [(S p, sc, l :: ct)]
    | ECatch None => match ct with [] => Fail XCatchEmpty | _ :: ct' => Next [(S p, sc, ct')] end
    | EBreak (Some l) | EContinue (Some l) =>
        match jump_to es l sc ct with None => Fail (XLabel l) | Some t => Next [t] end
    | EBegin n => if mem n sc then Fail (XScopeReopened n) else Next [(S p, n :: sc, ct)]
    | EEnd n => if mem n sc then Next [(S p, remove_s n sc, ct)] else Fail (XScopeUnknown n)
    | EAbort => match ct with
                | [] => Next []
                | l :: _ => match jump_to es l sc ct with None => Fail (XLabel l) | Some t => Next [t] end
                end
    | EReturn => Next [(List.length es, sc, ct)]
    | EBlock => match ct with
                | [] => Next [next]
                | l :: _ => match jump_to es l sc ct with
                            | None => Fail (XLabel l)
                            | Some t => Next [next; t]
                            end
                end
    | EComposite w => Fail (XComposite w)
    end
  end.

Definition list_eqb := fun (a b : list string) => if list_eq_dec string_dec a b then true else false.
Definition config_eqb (a b : config) : bool :=
  let '(p, sc, ct) := a in let '(q, sd, cu) := b in
  Nat.eqb p q && list_eqb sc sd && list_eqb ct cu.
Definition memc (c : config) (l : list config) : bool := existsb (config_eqb c) l.

Inductive verdict := VOk | VFuel | VErr (c : config) (x : err).

Fixpoint explore (fuel : nat) (es : list elem) (todo visited : list config) : verdict :=
  match fuel with
  | O => VFuel
  | S f =>
    match todo with
    | [] => VOk
    | c :: rest =>
      if memc c visited then explore f es rest visited
      else match step_fn es c with
           | Fail x => VErr c x
           | Next cs => explore f es (cs ++ rest) (c :: visited)
           end
    end
  end.

Definition fuel_for (es : list elem) : nat := 64 * (List.length es + 2).

Definition scope_verdict (es : list elem) : verdict := explore (fuel_for es) es [init] [].
Definition scopes_okb (es : list elem) : bool :=
  match scope_verdict es with VOk => true | _ => false end.

Definition definedb (es : list elem) (l : string) : bool :=
  match lbl es l with Some _ => true | None => false end.

Definition elem_labels (e : elem) : list string :=
  match e with
  | EGoto l _ => [l]
  | EFork _ ls => ls
  | ECatch (Some l) | EBreak (Some l) | EContinue (Some l) => [l]
  | _ => []
  end.

Definition labels_okb (es : list elem) : bool :=
  forallb (fun e => forallb (definedb es) (elem_labels e)) es.

Definition no_compositeb (es : list elem) : bool :=
  forallb (fun e => match e with EComposite _ => false | _ => true end) es.

Definition has_fork (es : list elem) (u : string) : bool :=
  existsb (fun e => match e with EFork v _ => String.eqb u v | _ => false end) es.

Definition merges_okb (es : list elem) : bool :=
  forallb (fun e => match e with EMerge u => has_fork es u | _ => true end) es.

(* every Break / Continue carries the label of its loop (reachable or not) *)
Definition loop_exits_okb (es : list elem) : bool :=
  forallb (fun e => match e with EBreak None | EContinue None => false | _ => true end) es.

Definition closedb (es : list elem) : bool :=
  labels_okb es && no_compositeb es && merges_okb es && loop_exits_okb es && scopes_okb es.

(* diagnosis for replay files *)
Inductive diag := DClosed | DLabels | DComposite | DMerge | DLoopExit | DScope (v : verdict).
Definition closed_diag (es : list elem) : diag :=
  if negb (labels_okb es) then DLabels
  else if negb (no_compositeb es) then DComposite
  else if negb (merges_okb es) then DMerge
  else if negb (loop_exits_okb es) then DLoopExit
  else match scope_verdict es with VOk => DClosed | v => DScope v end.

(* ---- sanity: the shape _expand_when_stmt_element emits for `when E / else` (one case) ---- *)
Definition when_else (fixed : bool) : list elem :=
  [ ELabel "begin"; EGoto "end" true;
    EBegin "s"; EFork "c" ["init_a"];
    ELabel "init_a"; ECatch (Some "fail_a"); EFork "g" ["grp_a0"];
    ELabel "grp_a0"; EBlock; EGoto "case_a" false;
    ELabel "case_a"; EMerge "c"; ECatch None; EEnd "s"; EPlain "SpecOp"; EGoto "when_end" false;
    ELabel "fail_a"; EWait; ECatch None; EGoto "else" false;
    ELabel "else"; EWait ] ++ (if fixed then [EEnd "s"] else []) ++
  [ EGoto "else_stmt" false; ELabel "else_stmt"; EPlain "SpecOp";
    ELabel "when_end"; EGoto "begin" false; ELabel "end" ].

Example when_else_in_loop_unfixed : closedb (when_else false) = false.
Proof. vm_compute. reflexivity. Qed.
Example when_else_in_loop_unfixed_diag :
  exists c, closed_diag (when_else false) = DScope (VErr c (XScopeLeftOpen ["s"])).
Proof. eexists. vm_compute. reflexivity. Qed.
Example when_else_in_loop_fixed : closedb (when_else true) = true.
Proof. vm_compute. reflexivity. Qed.
