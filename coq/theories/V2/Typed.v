(* C12 (Colang 2.x) - a typing discipline for expanded flows, used to PROVE (rather than check per
   program) that the modelled expansions are closed.

   `G l st` declares the state (open scopes, failure-handler stack) of a head that arrives behind
   label l.  `typed G c es c'` is one linear pass over the element list: c / c' are the state
   before / after (None = not reachable by falling through: after an unconditional jump, a fork,
   abort, return).  Every jump is checked against the declaration of its target label, every
   label against the state falling into it.  Soundness (Typed_proofs.v): a flow typed from
   ([], []) whose end state has no open scope never fails, in the head-token semantics of
   ClosedAst.v, along any path.  Definitions only. *)
From Coq Require Import List String Bool Arith.
From NG Require Import V2.ClosedAst.
Import ListNotations.
Open Scope string_scope.
Open Scope list_scope.

Definition state := (list string * list string)%type.

Definition steps_over (e : elem) : bool :=
  match e with EMerge _ | EWait | EPlain _ => true | _ => false end.

Definition is_label (e : elem) : bool := match e with ELabel _ => true | _ => false end.

Section Typing.
  Variable G : string -> state -> Prop.

  Inductive tr : option state -> elem -> option state -> Prop :=
  | T_dead e : is_label e = false -> tr None e None
  | T_label_dead l st : G l st -> tr None (ELabel l) (Some st)
  | T_label l st : G l st -> tr (Some st) (ELabel l) (Some st)
  | T_over e st : steps_over e = true -> tr (Some st) e (Some st)
  | T_goto l c st : G l st -> tr (Some st) (EGoto l c) (if c then Some st else None)
  | T_fork u ls st : (forall l, In l ls -> G l st) -> tr (Some st) (EFork u ls) None
  | T_push l sc ct : tr (Some (sc, ct)) (ECatch (Some l)) (Some (sc, l :: ct))
  | T_pop l sc ct : tr (Some (sc, l :: ct)) (ECatch None) (Some (sc, ct))
  | T_break l st : G l st -> tr (Some st) (EBreak (Some l)) None
  | T_continue l st : G l st -> tr (Some st) (EContinue (Some l)) None
  | T_begin n sc ct : mem n sc = false -> tr (Some (sc, ct)) (EBegin n) (Some (n :: sc, ct))
  | T_end n sc ct : mem n sc = true -> tr (Some (sc, ct)) (EEnd n) (Some (remove_s n sc, ct))
  | T_abort_top sc : tr (Some (sc, [])) EAbort None
  | T_abort l sc ct : G l (sc, l :: ct) -> tr (Some (sc, l :: ct)) EAbort None
  | T_return ct : tr (Some ([], ct)) EReturn None
  | T_block_top sc : tr (Some (sc, [])) EBlock (Some (sc, []))
  | T_block l sc ct : G l (sc, l :: ct) -> tr (Some (sc, l :: ct)) EBlock (Some (sc, l :: ct)).

  Inductive typed : option state -> list elem -> option state -> Prop :=
  | typed_nil c : typed c [] c
  | typed_cons c e c1 es c2 : tr c e c1 -> typed c1 es c2 -> typed c (e :: es) c2.

  (* the end of the flow may be reached by falling through only with every scope closed *)
  Definition end_ok (c : option state) : Prop :=
    match c with None => True | Some (sc, _) => sc = [] end.
End Typing.
