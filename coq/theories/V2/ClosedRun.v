(* C12 (Colang 2.x) - entry points evaluated inside Coq by harness/c12.py on the real expanded
   elements of every compiled flow. *)
From Coq Require Import List String Bool.
From NG Require Import V2.ClosedAst V2.Closed.
Import ListNotations.

Definition check_closed (es : list elem) : bool := closedb es.
