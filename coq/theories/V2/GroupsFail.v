(* C07 - the failure side of the group protocol and `when` statements with several cases.

   Source: expansion.py _expand_when_stmt_element, _expand_await_element, _expand_match_element
   (failure labels), statemachine.py (a head whose `match $ref.Finished` sees the Failed event of
   that flow instance jumps to its innermost CatchPatternFailure label; Abort jumps to the next
   enclosing one, or aborts the flow when there is none).

   What the expansions emit on the failure side:
     and-fork of an alternative (members m_1..m_k), failure label:  MergeHeads(and-fork); Abort
         -> ONE failed member kills the whole alternative and hands over to the enclosing handler
     `when` case c with alternatives g_1..g_n, failure label of the case:
         WaitForHeads(n); Goto else            -> the case has failed when ALL n alternatives failed
     `when` statement with cases c_1..c_m, else label:  WaitForHeads(m); Abort (or the else body)
                                               -> the statement fails when ALL m cases failed
     await / match with an or-fork over n alternatives, failure label:  WaitForHeads(n); Abort
     await / match with a single alternative: its failure aborts directly (no WaitForHeads)
   WaitForHeads(n) is evaluated by a head that arrives there (Groups.v).

   Events now have two readings per atom:  mt a e  = the flow instance of atom a finishes in step e,
   fl a e = it fails (is stopped / aborts) in step e.  A head that has matched no longer listens,
   a dead alternative has no heads left. *)
From Coq Require Import List Bool Arith.
From NG Require Import V2.Dnf V2.Groups.
Import ListNotations.

Inductive foutcome :=
| FoErr                                  (* the expansion raised / ill-formed statement *)
| FoNever                                (* neither completed nor failed after all the events *)
| FoDone (n : nat) (cases : list nat)    (* completed in step n; the body of one of `cases` runs *)
| FoFail (n : nat).                      (* failed in step n (else branch / flow aborted) *)

Inductive fres := RNone | RDone (cases : list nat) | RFail.

Section GroupsFail.
  Variables A E : Type.
  Variables mt fl : A -> E -> bool.

  (* ---------- compile ---------- *)
  (* one case: or-fork?, its alternatives, the WaitForHeads number of its failure handler
     (None = the handler has no WaitForHeads) *)
  Record cprog := mkC { cp_fork : bool; cp_branches : list (branch A); cp_fail_wait : option nat }.
  (* the statement: its cases and the WaitForHeads number at the else label *)
  Record fprog := mkF { fp_cases : list cprog; fp_else_wait : option nat }.

  Definition cprog_of (p : prog A) : cprog :=
    match p with
    | PSingle b => mkC false [b] None
    | POr bs => mkC true bs (Some (length bs))
    end.

  Definition fcompile (st : stmt) (fs : list (formula A)) : option fprog :=
    match st, fs with
    | SWhen, _ =>
        bind (mapM (fun f => bind (compile SWhen f) (fun p => Some (cprog_of p))) fs)
             (fun cs => Some (mkF cs (Some (length cs))))
    | _, [f] => bind (compile st f) (fun p => Some (mkF [cprog_of p] None))
    | _, _ => None      (* match / await take exactly one group *)
    end.

  (* ---------- state ---------- *)
  Inductive astate :=
  | ALive (hs : list (head A)) (need : nat)
  | ADead.                                   (* a member failed: the alternative's heads are merged away *)

  Record cstate := mkCS { cs_alts : list astate; cs_fail_wait : option nat }.

  Inductive fstate :=
  | FActive (cs : list cstate) (els : option nat)
  | FDone
  | FFailed.

  Definition init_alt (b : branch A) : astate :=
    ALive (b_heads (init_branch b)) (b_need (init_branch b)).
  Definition init_case (c : cprog) : cstate := mkCS (map init_alt (cp_branches c)) (cp_fail_wait c).
  Definition finit (p : fprog) : fstate := FActive (map init_case (fp_cases p)) (fp_else_wait p).

  Definition head_fails (e : E) (h : head A) : bool :=
    match h with HMatch a => fl a e | HWait => false end.

  (* the alternative dies in this step *)
  Definition alt_fails (e : E) (a : astate) : bool :=
    match a with ALive hs _ => existsb (head_fails e) hs | ADead => false end.

  Definition alt_next (e : E) (a : astate) : astate :=
    match a with
    | ALive hs n => if existsb (head_fails e) hs then ADead else ALive (map (adv_head mt e) hs) n
    | ADead => ADead
    end.

  Definition alt_passes (e : E) (a : astate) : bool :=
    match a with
    | ALive hs n =>
        negb (existsb (head_fails e) hs)
        && existsb (head_moves mt e) hs
        && (n <=? length (filter is_wait (map (adv_head mt e) hs)))
    | ADead => false
    end.

  Definition is_dead (a : astate) : bool := match a with ADead => true | _ => false end.

  (* WaitForHeads(n) with k heads on it; no WaitForHeads = the first arriving head goes on *)
  Definition wait_ok (o : option nat) (k : nat) : bool :=
    match o with Some n => n <=? k | None => 1 <=? k end.

  Definition case_next (e : E) (c : cstate) : cstate :=
    mkCS (map (alt_next e) (cs_alts c)) (cs_fail_wait c).
  Definition case_passes (e : E) (c : cstate) : bool := existsb (alt_passes e) (cs_alts c).
  Definition case_failed (c : cstate) : bool :=
    wait_ok (cs_fail_wait c) (length (filter is_dead (cs_alts c))).

  Fixpoint iw_from {X} (g : X -> bool) (k : nat) (l : list X) : list nat :=
    match l with
    | [] => []
    | x :: xs => if g x then k :: iw_from g (S k) xs else iw_from g (S k) xs
    end.
  (* 0-based indices of the elements satisfying g *)
  Definition indices_where {X} (g : X -> bool) (l : list X) : list nat := iw_from g 0 l.

  Definition fdeliver (s : fstate) (e : E) : fstate * fres :=
    match s with
    | FActive cs els =>
        match indices_where (case_passes e) cs with
        | [] =>
            let cs' := map (case_next e) cs in
            if existsb (fun c => existsb (alt_fails e) (cs_alts c)) cs
               && wait_ok els (length (filter case_failed cs'))
            then (FFailed, RFail)
            else (FActive cs' els, RNone)
        | w => (FDone, RDone w)
        end
    | FDone => (FDone, RNone)
    | FFailed => (FFailed, RNone)
    end.

  Fixpoint frun_from (s : fstate) (evs : list E) (k : nat) : foutcome :=
    match evs with
    | [] => FoNever
    | e :: r =>
        match fdeliver s e with
        | (_, RDone w) => FoDone (S k) w
        | (_, RFail) => FoFail (S k)
        | (s', RNone) => frun_from s' r (S k)
        end
    end.

  Definition frun (st : stmt) (fs : list (formula A)) (evs : list E) : foutcome :=
    match fcompile st fs with
    | None => FoErr
    | Some p => frun_from (finit p) evs 0
    end.

  (* ---------- specification ---------- *)
  (* what happened to atom a: the first event that finishes or fails it decides
     (Some true = finished, Some false = failed, None = still running) *)
  Fixpoint status (p : list E) (a : A) : option bool :=
    match p with
    | [] => None
    | e :: r => if fl a e then Some false else if mt a e then Some true else status r a
    end.

  Definition is_fin (p : list E) (a : A) : bool :=
    match status p a with Some true => true | _ => false end.
  Definition not_failed (p : list E) (a : A) : bool :=
    match status p a with Some false => false | _ => true end.

  (* after the events p: the cases whose formula holds of the finished members; failed iff no
     case can hold any more even if every member that has not failed finishes *)
  Definition fspec_at (fs : list (formula A)) (p : list E) : fres :=
    match indices_where (eval (is_fin p)) fs with
    | [] => if forallb (fun f => negb (eval (not_failed p) f)) fs then RFail else RNone
    | w => RDone w
    end.

  Fixpoint fspec_from (fs : list (formula A)) (p r : list E) (k : nat) : foutcome :=
    match r with
    | [] => FoNever
    | e :: r' =>
        match fspec_at fs (p ++ [e]) with
        | RDone w => FoDone (S k) w
        | RFail => FoFail (S k)
        | RNone => fspec_from fs (p ++ [e]) r' (S k)
        end
    end.

  (* the first step at which a case holds (then: which cases) or no case can hold any more *)
  Definition fspec (fs : list (formula A)) (evs : list E) : foutcome := fspec_from fs [] evs 0.

End GroupsFail.

Arguments mkC {A} cp_fork cp_branches cp_fail_wait.
Arguments mkF {A} fp_cases fp_else_wait.
Arguments cp_fork {A} c.
Arguments cp_branches {A} c.
Arguments cp_fail_wait {A} c.
Arguments fp_cases {A} f.
Arguments fp_else_wait {A} f.
Arguments cprog_of {A} p.
Arguments fcompile {A} st fs.
Arguments ALive {A} hs need.
Arguments ADead {A}.
Arguments mkCS {A} cs_alts cs_fail_wait.
Arguments cs_alts {A} c.
Arguments cs_fail_wait {A} c.
Arguments FActive {A} cs els.
Arguments FDone {A}.
Arguments FFailed {A}.
Arguments init_alt {A} b.
Arguments init_case {A} c.
Arguments finit {A} p.
Arguments head_fails {A E} fl e h.
Arguments alt_fails {A E} fl e a.
Arguments alt_next {A E} mt fl e a.
Arguments alt_passes {A E} mt fl e a.
Arguments is_dead {A} a.
Arguments case_next {A E} mt fl e c.
Arguments case_passes {A E} mt fl e c.
Arguments case_failed {A} c.
Arguments fdeliver {A E} mt fl s e.
Arguments frun_from {A E} mt fl s evs k.
Arguments frun {A E} mt fl st fs evs.
Arguments status {A E} mt fl p a.
Arguments is_fin {A E} mt fl p a.
Arguments not_failed {A E} mt fl p a.
Arguments fspec_at {A E} mt fl fs p.
Arguments fspec_from {A E} mt fl fs p r k.
Arguments fspec {A E} mt fl fs evs.

(* sanity: events are (flow, finishes?) pairs *)
Definition ex_mt (a : nat) (e : nat * bool) : bool := Nat.eqb a (fst e) && snd e.
Definition ex_fl (a : nat) (e : nat * bool) : bool := Nat.eqb a (fst e) && negb (snd e).

(* when f0 or f1 ... or when f2 : stop f0, stop f2, f1 finishes -> case 0 *)
Example frun_ex1 :
  frun ex_mt ex_fl SWhen [Or [Atom 0; Atom 1]; Atom 2] [(0, false); (2, false); (1, true)] = FoDone 3 [0]
  /\ fspec ex_mt ex_fl [Or [Atom 0; Atom 1]; Atom 2] [(0, false); (2, false); (1, true)] = FoDone 3 [0].
Proof. split; reflexivity. Qed.

(* ... stop f0, f1, f2 -> fails exactly when the last one is stopped *)
Example frun_ex2 :
  frun ex_mt ex_fl SWhen [Or [Atom 0; Atom 1]; Atom 2] [(0, false); (1, false); (2, false); (2, true)] = FoFail 3.
Proof. reflexivity. Qed.

(* await (f0 and f1) or f2 : f0 finishes, f1 is stopped (alternative dead), f2 finishes *)
Example frun_ex3 :
  frun ex_mt ex_fl SAwait [Or [And [Atom 0; Atom 1]; Atom 2]] [(0, true); (1, false); (1, true); (2, true)] = FoDone 4 [0].
Proof. reflexivity. Qed.

Example fcompile_ex :
  fcompile SWhen [Or [Atom 0; Atom 1]; Atom 2]
  = Some (mkF [mkC true [BMatch 0; BMatch 1] (Some 2); mkC true [BMatch 2] (Some 1)] (Some 2)).
Proof. reflexivity. Qed.
