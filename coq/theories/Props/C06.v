(* C06 - placeholder while the correspondence is being set up *)
From Coq Require Import ZArith NArith List Bool.
From NG Require Import V2.Life.
Theorem C06_placeholder : listening FStarted = true.
Proof. exact eq_refl. Qed.
Print Assumptions C06_placeholder.
