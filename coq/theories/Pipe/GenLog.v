(* Pipe/GenLog.v - executable model of
   nemoguardrails/logging/processing_log.py::compute_generation_log
   as a fold over (timing-free) processing-log entries.

   What is modelled: activated rails (type, name, decisions, executed actions with the tasks of
   their LLM calls, `stop`), the "current rail" / "current action" cursors of the Python loop,
   the Python exceptions of the loop (attribute access on None, empty log) as `None`.
   Not modelled: timestamps, durations, token statistics (out of scope of C16).
   Constants (`ignored_actions`, `ignored_flows`, `generation_flows`, the rail marker events,
   the stop rule, the re-typing rule) come from Gen/C16Consts.v, i.e. from the current source. *)
From Coq Require Import String List Bool Arith.
From NG Require Import Gen.C16Consts.
Import ListNotations.
Open Scope string_scope.

(* one element of `next_steps` of a "step" entry: StartInternalSystemAction / BotIntent / other *)
Inductive sitem := SAct (a : string) | SIntent (i : string) | SOther.

(* a processing-log entry: {"type": "step"} / {"type": "event"} / {"type": "llm_call_info"}.
   For events `arg` is flow_id (rail markers) or action_name (action events), "" otherwise. *)
Inductive pentry :=
| PStep (flow : string) (items : list sitem)
| PEvent (ty arg : string)
| PLlm (task : string).

Record xaction := mkX { xa_name : string; xa_llm : list string }.
Record arail := mkR { ar_type : string; ar_name : string; ar_decisions : list string;
                      ar_actions : list xaction; ar_stop : bool }.

Definition mem (s : string) (l : list string) : bool := existsb (String.eqb s) l.
Arguments mem : simpl never.

(* Working state.  `g_rails` is REVERSED (head = the rail appended last), and inside a rail
   the decisions, the actions and the llm tasks are reversed too; `finalize` restores the order.
   `activated_rail is not None` <-> g_active (it is then the head of g_rails: the variable is
   only ever assigned the rail just appended).  `executed_action` = head action of the rail at
   depth d (g_action = Some d): it is always the action appended last to its rail. *)
Record gstate := mkG { g_rails : list arail; g_active : bool; g_action : option nat }.

Definition g_init : gstate := mkG [] false None.

Fixpoint upd_nth {A} (n : nat) (f : A -> A) (l : list A) : list A :=
  match l, n with
  | [], _ => []
  | x :: r, O => f x :: r
  | x :: r, S m => x :: upd_nth m f r
  end.

Definition new_rail (ty name : string) : arail := mkR ty name [] [] false.

Definition rail_type_of_flow (f : string) : string :=
  if mem f generation_flows then "generation" else "dialog".

Definition push_rail (r : arail) (st : gstate) : gstate :=
  mkG (r :: g_rails st) true (option_map S (g_action st)).

Definition add_decision (d : string) (r : arail) : arail :=
  mkR (ar_type r) (ar_name r) (d :: ar_decisions r) (ar_actions r) (ar_stop r).

Definition add_item (r : arail) (it : sitem) : arail :=
  match it with
  | SAct a => if mem a ignored_actions then r else add_decision ("execute " ++ a) r
  | SIntent i => add_decision i r
  | SOther => r
  end.

Definition add_items (items : list sitem) (r : arail) : arail := fold_left add_item items r.

Definition on_head (f : arail -> arail) (st : gstate) : gstate :=
  mkG (upd_nth 0 f (g_rails st)) (g_active st) (g_action st).

(* a "step" entry *)
Definition g_step (flow : string) (items : list sitem) (st : gstate) : option gstate :=
  let fresh := push_rail (new_rail (rail_type_of_flow flow) flow) st in
  if g_active st then
    match g_rails st with
    | [] => None
    | r :: _ =>
      if String.eqb (ar_type r) "dialog" && negb (String.eqb (ar_name r) flow) then
        if mem flow ignored_flows then Some st else Some (on_head (add_items items) fresh)
      else Some (on_head (add_items items) st)
    end
  else if mem flow ignored_flows then Some st
  else Some (on_head (add_items items) fresh).

Definition add_action (a : string) (r : arail) : arail :=
  mkR (ar_type r) (ar_name r) (ar_decisions r) (mkX a [] :: ar_actions r) (ar_stop r).

Definition add_llm (task : string) (r : arail) : arail :=
  match ar_actions r with
  | [] => r
  | x :: xs => mkR (ar_type r) (ar_name r) (ar_decisions r) (mkX (xa_name x) (task :: xa_llm x) :: xs) (ar_stop r)
  end.

(* an "event" entry *)
Definition g_event (ty arg : string) (st : gstate) : option gstate :=
  if String.eqb ty ev_start_input_rail then Some (push_rail (new_rail "input" arg) st)
  else if String.eqb ty ev_start_output_rail then Some (push_rail (new_rail "output" arg) st)
  else if String.eqb ty "StartInternalSystemAction" then
    if mem arg ignored_actions then Some st
    else if g_active st then Some (mkG (upd_nth 0 (add_action arg) (g_rails st)) true (Some 0))
    else None                                   (* activated_rail.executed_actions on None *)
  else if String.eqb ty "InternalSystemActionFinished" then
    if mem arg ignored_actions then Some st
    else match g_action st with
         | Some _ => Some (mkG (g_rails st) (g_active st) None)
         | None => None                         (* executed_action.finished_at on None *)
         end
  else if mem ty ev_rail_finished then
    if g_active st then Some (mkG (g_rails st) false (g_action st))
    else None                                   (* activated_rail.finished_at on None *)
  else Some st.

Definition g_llm (task : string) (st : gstate) : option gstate :=
  match g_action st with
  | Some d => Some (mkG (upd_nth d (add_llm task) (g_rails st)) (g_active st) (g_action st))
  | None => None                                (* executed_action.llm_calls on None *)
  end.

Definition g_entry (e : pentry) (st : gstate) : option gstate :=
  match e with
  | PStep flow items => g_step flow items st
  | PEvent ty arg => g_event ty arg st
  | PLlm task => g_llm task st
  end.

Fixpoint g_run (l : list pentry) (st : gstate) : option gstate :=
  match l with
  | [] => Some st
  | e :: r => match g_entry e st with Some st' => g_run r st' | None => None end
  end.

(* after the loop: the rail still open took a `stop` *)
Definition mark_stop (r : arail) : arail :=
  if mem (ar_type r) stop_types
  then mkR (ar_type r) (ar_name r) (stop_decision :: ar_decisions r) (ar_actions r) true
  else r.

Definition retype (r : arail) : arail :=
  if String.eqb (ar_name r) retype_name then
    match ar_actions r with
    | [x] => match xa_llm x with
             | [t] => if String.eqb t retype_task
                      then mkR retype_to (ar_name r) (ar_decisions r) (ar_actions r) (ar_stop r) else r
             | _ => r
             end
    | _ => r
    end
  else r.

Definition unrev_action (x : xaction) : xaction := mkX (xa_name x) (rev (xa_llm x)).
Definition unrev_rail (r : arail) : arail :=
  mkR (ar_type r) (ar_name r) (rev (ar_decisions r)) (rev (map unrev_action (ar_actions r))) (ar_stop r).

Definition finalize (st : gstate) : list arail :=
  let rs := if g_active st then upd_nth 0 mark_stop (g_rails st) else g_rails st in
  rev (map (fun r => unrev_rail (retype r)) rs).

(* compute_generation_log(processing_log).activated_rails ; None = the Python call raises *)
Definition gen_log (l : list pentry) : option (list arail) :=
  match l with
  | [] => None                                  (* processing_log[-1] on an empty list *)
  | _ => option_map finalize (g_run l g_init)
  end.

(* ---------- sanity ---------- *)
Example gen_log_blocked_input :
  gen_log [PEvent "UtteranceUserActionFinished" "";
           PStep "process user input" [SOther; SAct "create_event"];
           PEvent "StartInputRails" "";
           PEvent "StartInputRail" "r0";
           PStep "r0" [SAct "check"];
           PEvent "StartInternalSystemAction" "check";
           PEvent "InternalSystemActionFinished" "check";
           PStep "r0" [SIntent "refuse to respond"];
           PEvent "Listen" ""]
  = Some [mkR "input" "r0" ["execute check"; "refuse to respond"; "stop"] [mkX "check" []] true].
Proof. vm_compute. reflexivity. Qed.

Example gen_log_general_retyped :
  gen_log [PStep "generate user intent" [SAct "generate_user_intent"];
           PEvent "StartInternalSystemAction" "generate_user_intent";
           PLlm "general";
           PEvent "InternalSystemActionFinished" "generate_user_intent"]
  = Some [mkR "generation" "generate user intent" ["execute generate_user_intent"]
              [mkX "generate_user_intent" ["general"]] false].
Proof. vm_compute. reflexivity. Qed.

Example gen_log_raises : gen_log [PLlm "x"] = None /\ gen_log [] = None.
Proof. split; reflexivity. Qed.
