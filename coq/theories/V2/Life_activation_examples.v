(* V2/Life_activation_examples.v - a run that exercises every clause: two activators of one
   flow, the instance ends by itself and is restarted, the activators end one after the other. *)
From Coq Require Import ZArith NArith List Bool Lia.
From NG Require Import V2.Life V2.Life_proofs V2.Life_scope V2.Life_count V2.Life_activation V2.Life_examples.
Import ListNotations.
Open Scope N_scope.

Definition all_match : uid -> bool := fun _ => true.
Definition rk20 (x : uid) : nat := (20 - N.to_nat x)%nat.

Definition a_init : st := mkSt [ (1, ex_i 0 FStarted None [] [] 1%Z) ] [] [].

Definition a_run : list aop :=
  [ AStart all_match (mkSfev 1 2 (Some 1) 0%Z);      (* main starts p (2) *)
    AAdvance 2 FStarted;
    AStart all_match (mkSfev 3 5 (Some 2) 1%Z);      (* p activates flow 3: reference instance 5, count 1 *)
    AAdvance 5 FStarted;
    AStart all_match (mkSfev 2 3 (Some 1) 0%Z);      (* main starts q (3) *)
    AAdvance 3 FStarted;
    AStart all_match (mkSfev 3 6 (Some 3) 1%Z);      (* q activates flow 3 too: count 2, no new instance *)
    AFinish 5;                                       (* the instance ends by itself: restart emitted *)
    AStart all_match (mkSfev 3 7 (Some 5) 2%Z);      (* the restart is processed: instance 7 under 5 *)
    AAdvance 7 FStarted;
    AAbort 2 true;                                   (* first activator ends: count 1, 7 keeps running *)
    AFinish 3 ].                                     (* last activator ends: count 0, 7 stopped *)

Lemma a_init_inv : Inv a_init.
Proof.
  split.
  - unfold nodupk; simpl. repeat constructor; simpl; tauto.
  - intros x i c E Hin. unfold getf in E; simpl in E. destruct (N.eqb x 1); inversion E; subst. simpl in Hin. tauto.
  - intros x i p E Hp. unfold getf in E; simpl in E. destruct (N.eqb x 1); inversion E; subst. simpl in Hp. discriminate.
  - intros r (i & p & pi & E & Hp & _). unfold getf in E; simpl in E. destruct (N.eqb r 1); inversion E; subst. simpl in Hp. discriminate.
  - exists rk20. apply ranked_b_sound. vm_compute. reflexivity.
Qed.

Ltac step_ok :=
  let s1 := fresh "s1" in let H := fresh "H" in
  cbn [aoks]; intros s1 H; vm_compute in H; inversion H; subst s1; clear H; split.

Ltac wfs_now := exists rk20; apply ranked_b_sound; vm_compute; reflexivity.

Ltac start_ok :=
  split; [reflexivity|split; [unfold ev_wf; intros p pi Hs Hg Hf; vm_compute in Hs; inversion Hs; subst p; vm_compute in Hg; inversion Hg; subst pi; vm_compute in Hf; try (exfalso; apply Hf; reflexivity); vm_compute; auto|wfs_now]].

Lemma a_run_ok : aoks true 5 a_run a_init.
Proof.
  unfold a_run.
  step_ok; [start_ok|]. step_ok; [exact I|]. step_ok; [start_ok|]. step_ok; [exact I|].
  step_ok; [start_ok|]. step_ok; [exact I|]. step_ok; [start_ok|].
  step_ok; [unfold aok; intros i Hi; vm_compute in Hi; inversion Hi; subst; vm_compute; discriminate|].
  step_ok; [start_ok|]. step_ok; [exact I|]. step_ok; [exact I|].
  step_ok; [unfold aok; intros i Hi; vm_compute in Hi; inversion Hi; subst; vm_compute; discriminate|].
  cbn [aoks]. exact I.
Qed.

Example a_run_result :
  exists s', arun true 5 a_run a_init = Ok s' /\ Inv s' /\
    act s' 5 = 0%Z /\ lst s' 5 = false /\ lst s' 7 = false /\ lst s' 1 = true /\
    out s' = [EStarted 5; EFinished 5; ERestart 5 5 2%Z; EFailed 2; EFailed 7; EFinished 3].
Proof.
  eexists. split; [vm_compute; reflexivity|]. split.
  - eapply arun_inv; [apply a_init_inv| |apply a_run_ok]. vm_compute. reflexivity.
  - vm_compute. repeat split.
Qed.

(* after the first six operations + the second activation: count 2 = two entries of live activators *)
Example a_count_two :
  exists s', arun true 5 (firstn 7 a_run) a_init = Ok s' /\ act s' 5 = 2%Z /\ E s' 5 = 2%Z.
Proof. eexists. split; [vm_compute; reflexivity|]. vm_compute. auto. Qed.

(* An EXPLICIT deactivation (`deactivate X`, StopFlow(.., deactivate=True): a top-level _abort_flow with
   deactivate_flow=True on the reference instance) decrements the count but leaves the entry of the
   activator in place: the counting invariant does not survive it.  This is why the invariant theorem
   is about flows that END, as the property text is. *)
Lemma aoks_firstn : forall rel fuel k l s, aoks rel fuel l s -> aoks rel fuel (firstn k l) s.
Proof.
  induction k as [|k IH]; intros l s H; [exact I|].
  destruct l as [|o l]; [exact I|]. simpl in *.
  intros s1 H1. destruct (H _ H1) as (Ho & Hr). split; auto.
Qed.

Definition explicit_deactivation_breaks_count : Prop :=
  exists s s', Inv s /\ abort 5 s 5 true = Ok s' /\ refshape s' 5 /\ act s' 5 = 1%Z /\ E s' 5 = 2%Z.

Theorem explicit_deactivation_witness : explicit_deactivation_breaks_count.
Proof.
  assert (H7 : exists s, arun true 5 (firstn 7 a_run) a_init = Ok s) by (eexists; vm_compute; reflexivity).
  destruct H7 as (s & Hs).
  assert (HI : Inv s).
  { eapply arun_inv; [apply a_init_inv|exact Hs|]. apply aoks_firstn. apply a_run_ok. }
  vm_compute in Hs. inversion Hs; subst s. clear Hs.
  eexists. eexists. split; [exact HI|]. split; [vm_compute; reflexivity|].
  split; [|vm_compute; auto].
  eexists. exists 2. eexists. vm_compute. repeat split. discriminate.
Qed.
