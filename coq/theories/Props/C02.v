(* C02 - Output rails gate every LLM-generated bot message, in every turn.
   Property theorems only; every proof is `exact <lemma>`; Print Assumptions beneath each.

   Same models as C01 (Pipe/TurnV1.v, Pipe/TurnV2.v) with the persistent flags explicit:
   Colang 1.0 `$skip_output_rails` (one-shot skip for predefined messages), Colang 2.x global
   `$output_rails_in_progress`.  External behaviour (rail actions, LLM, parsers, dialog policy,
   predefined messages) is universally quantified.

   Colang 2.x: the SHIPPED guardrails.co does not reset `$output_rails_in_progress` when the
   awaited `output rails` flow fails (a rail aborts): `C02_v2_flag_refuted` keeps the witness on
   the faithful model (fixd = false).  The main theorems are about the model of the CURRENT
   file, `current_fixd` being computed by the checker from Gen/C01Flows.v:
   `C02_T_v2_flag_reset_on_failure` holds only for the repaired file
   (fixes/C02-output-rails-flag.patch). *)
From Coq Require Import List String Bool Arith ZArith.
From NG Require Import Pipe.Rails Pipe.Rails_proofs Pipe.TurnV1 Pipe.TurnV1_proofs Pipe.TurnV2 Pipe.TurnV2_proofs
                       Pipe.Gates_proofs Pipe.FlowCheck Pipe.FlowCheck_proofs Gen.C01Flows Pipe.Flows_proofs
                       Pipe.FlowsV2fix_proofs Pipe.FlowsOut_proofs Pipe.Gates_examples.
Import ListNotations.
Open Scope string_scope.
Open Scope list_scope.

(* ------------------------------------------------------------------ Colang 1.0 *)

(* C02_all_checked / C02_reject_hidden / C02_rewrite_returned in one statement (`out_gate`):
   from a state with the skip flag clear, either the turn has no LLM-generated bot message, or
   it has exactly one, `m`, and: the events after it are the output-rail calls `run_rails`
   produces from `m` over the WHOLE configured list (in order, each rail shown the rewrites of
   its predecessors, stopping at a rejection), followed by
     - the utterance of the FINAL text `m'` (reply = [m'], nothing else uttered) when all passed;
     - the refusal (or the rail exception) when a rail rejected: the reply is the refusal /
       exception and the only utterance is the refusal - neither `m` nor the text shown to the
       rejecting rail is uttered. *)
Theorem C02_all_checked :
  forall vf llm post_general intent_step next_of predefined msg_of refusal cf st u,
    skip st = false ->
    out_gate vf refusal cf st
      (snd (fst (turn_v1 vf llm post_general intent_step next_of predefined msg_of refusal cf st u)))
      (snd (turn_v1 vf llm post_general intent_step next_of predefined msg_of refusal cf st u)).
Proof. exact v1_out_gate. Qed.
Print Assumptions C02_all_checked.

(* the declarative reading of `run_rails` used above *)
Theorem C02_run_rails_meaning :
  forall v s rs c t tr c' res,
    run_rails v s rs c t = (tr, c', res) ->
    exists calls, tr = map (mk s) calls /\ chain v c t rs calls /\ c' = c + List.length calls /\
                  rres_ok v c t rs calls res.
Proof. exact run_rails_shape. Qed.
Print Assumptions C02_run_rails_meaning.

(* C02_reject_hidden: a rejected message is not in the reply; the refusal is *)
Theorem C02_reject_hidden :
  forall vf llm post_general intent_step next_of predefined msg_of refusal cf st u a m trO r x tail c',
    skip st = false ->
    let T := turn_v1 vf llm post_general intent_step next_of predefined msg_of refusal cf st u in
    snd (fst T) = a ++ TBot FromLLM m :: trO ++ tail ->
    Forall (fun e => is_from_llm e = false) a ->
    run_rails (vf (tidx st)) SOut (orails cf) (n_rail_calls a) m = (trO, c', Blocked r x) ->
    snd T = (if exceptions cf then RExc SOut r else RMsg [refusal]) /\
    emitted (snd (fst T)) = (if exceptions cf then [] else [refusal]).
Proof. exact v1_reject_hidden. Qed.
Print Assumptions C02_reject_hidden.

(* C02_rewrite_returned: when all rails pass, the reply is the text as rewritten by the rails *)
Theorem C02_rewrite_returned :
  forall vf llm post_general intent_step next_of predefined msg_of refusal cf st u a m trO m' tail c',
    skip st = false ->
    let T := turn_v1 vf llm post_general intent_step next_of predefined msg_of refusal cf st u in
    snd (fst T) = a ++ TBot FromLLM m :: trO ++ tail ->
    Forall (fun e => is_from_llm e = false) a ->
    run_rails (vf (tidx st)) SOut (orails cf) (n_rail_calls a) m = (trO, c', Passed m') ->
    snd T = RMsg [m'] /\ emitted (snd (fst T)) = [m'] /\
    m' = final_text (vf (tidx st)) (n_rail_calls a) m (orails cf).
Proof. exact v1_rewrite_returned. Qed.
Print Assumptions C02_rewrite_returned.

(* C02_flag_invariant (1.0): $skip_output_rails is false at every turn boundary, for every
   verdict history, LLM and dialog policy *)
Theorem C02_flag_invariant :
  forall vf llm post_general intent_step next_of predefined msg_of refusal cf us st,
    skip st = false ->
    Forall (fun r => skip (fst (fst r)) = false)
           (conv_v1 vf llm post_general intent_step next_of predefined msg_of refusal cf st us).
Proof. exact v1_flag_invariant. Qed.
Print Assumptions C02_flag_invariant.

(* C02_later_turns (1.0): in every state a conversation can reach - whatever was blocked,
   rewritten or refused before - a bot message is checked exactly as in a fresh conversation *)
Theorem C02_later_turns :
  forall vf llm post_general intent_step next_of predefined msg_of refusal cf st c m,
    reachable vf llm post_general intent_step next_of predefined msg_of refusal cf st ->
    let r := process_bot vf refusal cf st c m in
    let r0 := process_bot vf refusal cf (fresh_at (tidx st)) c m in
    snd (fst (fst r)) = snd (fst (fst r0)) /\ snd (fst r) = snd (fst r0) /\ snd r = snd r0.
Proof. exact v1_later_turns. Qed.
Print Assumptions C02_later_turns.

(* generation options are per call: in a conversation whose calls each bring their own options
   (e.g. output rails switched off for ONE call), the skip flag stays clear and every call that
   does not disable a category runs it in full - input rails in order over the whole list, the
   LLM-generated message through the whole output list - whatever the earlier calls disabled *)
Theorem C02_options_per_call :
  forall vf llm post_general intent_step next_of predefined msg_of refusal cf ous st,
    skip st = false ->
    Forall (fun sou => let '(s, o, u) := sou in
              let T := turn_v1_opts vf llm post_general intent_step next_of predefined msg_of refusal cf o s u in
              skip s = false /\
              (o_in o = true -> ordered_calls (vf (tidx s)) u (irails cf) (rail_calls SIn (snd (fst T)))) /\
              (o_out o = true -> orails (eff cf o) = orails cf /\
                                 out_gate vf refusal (eff cf o) s (snd (fst T)) (snd T)))
           (states_before_opts vf llm post_general intent_step next_of predefined msg_of refusal cf st ous).
Proof. exact v1_gates_with_options. Qed.
Print Assumptions C02_options_per_call.

(* ------------------------------------------------------------------ Colang 2.x *)

(* the shipped file: a 3-turn conversation with one output rail that rejects at turn 1; after
   turn 1 the flag is True and at turn 2 the LLM message is uttered with ZERO output-rail calls *)
Theorem C02_v2_flag_refuted :
  exists vf llm value_of refusal_in refusal_out cf us,
    map (fun r => (orip (fst (fst r)), n_rail_calls (snd (fst r)), snd r))
        (conv_v2 false vf llm value_of refusal_in refusal_out cf init_state2 us)
    = [(false, 1, RMsg ["m"]); (true, 1, RMsg [refusal_out]); (true, 0, RMsg ["m"])] /\
    orails2 cf <> [].
Proof. exact v2_flag_refuted. Qed.
Print Assumptions C02_v2_flag_refuted.

(* (T) the CURRENT guardrails.co resets the flag on every path of `run output rails`, including
   the failure of the awaited `output rails` flow *)
Theorem C02_T_v2_flag_reset_on_failure : current_fixd = true.
Proof. exact current_file_resets_flag. Qed.
Print Assumptions C02_T_v2_flag_reset_on_failure.

(* C02_flag_invariant (2.x, model of the current file) *)
Theorem C02_v2_flag_invariant :
  forall vf llm value_of refusal_in refusal_out cf us st,
    orip st = false ->
    Forall (fun r => orip (fst (fst r)) = false)
           (conv_v2 current_fixd vf llm value_of refusal_in refusal_out cf st us).
Proof. exact v2_flag_invariant_current. Qed.
Print Assumptions C02_v2_flag_invariant.

(* C02_all_checked (2.x): with the flag clear at the start of the turn, the LLM-generated bot
   message passes the whole `output rails` list in order before it is uttered; a rejection
   hides it (reply = refusal / exception) *)
Theorem C02_v2_all_checked :
  forall vf llm value_of refusal_in refusal_out cf st u,
    orip st = false ->
    out_gate2 vf refusal_out cf st u
      (snd (fst (turn_v2 current_fixd vf llm value_of refusal_in refusal_out cf st u)))
      (snd (turn_v2 current_fixd vf llm value_of refusal_in refusal_out cf st u)).
Proof. exact (v2_out_gate current_fixd). Qed.
Print Assumptions C02_v2_all_checked.

(* C02_later_turns (2.x, model of the current file) *)
Theorem C02_v2_later_turns :
  forall vf llm value_of refusal_in refusal_out cf st c pv m,
    reachable2 vf llm value_of refusal_in refusal_out cf st ->
    let r := bot_say true vf refusal_out cf st c pv m in
    let r0 := bot_say true vf refusal_out cf (fresh2_at (tidx2 st)) c pv m in
    snd (fst (fst r)) = snd (fst (fst r0)) /\ snd (fst r) = snd (fst r0) /\ snd r = snd r0.
Proof. exact v2_later_turns. Qed.
Print Assumptions C02_v2_later_turns.

(* ------------------------------------------------------------------ (T) the shipped flows *)

(* llm_flows.co `process bot message`, as compiled from the current source: every path to the
   creation of StartUtteranceBotAction passes `do run output rails`, unless no output rails are
   configured, the generation options disable them, or $skip_output_rails is set; on that
   branch the flag is reset before the utterance; the utterance is $bot_message *)
Theorem C02_T_output_gate :
  output_gate_ok v1_process_bot_message = true /\
  (forall p k, path v1_process_bot_message 0 p k ->
               is_create "StartUtteranceBotAction" (elem_at v1_process_bot_message k) = true ->
               passes v1_process_bot_message (is_flow "run output rails") out_excused p) /\
  (forall p k, path v1_process_bot_message skip_branch_entry p k ->
               is_create "StartUtteranceBotAction" (elem_at v1_process_bot_message k) = true ->
               passes v1_process_bot_message (is_set "skip_output_rails" "False") (fun _ => false) p).
Proof. exact (conj output_gate_checked (conj output_gate_dominates skip_flag_reset_dominates)). Qed.
Print Assumptions C02_T_output_gate.

Theorem C02_T_output_loop :
  forall (n : nat) i0, exists fuel,
    lrun out_loop v1_run_output_rails (Z.of_nat n) fuel 0 i0 [] = Some (zseq 0 n).
Proof. exact out_loop_visits. Qed.
Print Assumptions C02_T_output_loop.

(* library rail `self check output` (flows.v1.co and flows.co, as translated from the current
   source): a rejection reaches `stop` / `abort` on EVERY path, with and without
   enable_rails_exceptions - so that the rails loop does not run on to StartUtteranceBotAction
   (1.0) and `_bot_say` does not go on to UtteranceBotAction (2.x) with the rejected text.
   False for the shipped flows (stop/abort only under the `else`); true with
   fixes/C02-selfcheck-output-stop.patch *)
Theorem C02_T_self_check_output_stops :
  reject_stops_ok v1_self_check_output [] = true /\
  v2_reject_aborts v2lib_self_check_output "not $allowed" = true.
Proof. exact (conj self_check_output_stops v2_self_check_output_aborts). Qed.
Print Assumptions C02_T_self_check_output_stops.

(* guardrails.co: `_bot_say` awaits `run output rails $text` before UtteranceBotAction(script=$text)
   unless the in-progress flag is set; `run output rails` awaits `output rails $output_text` *)
Theorem C02_T_v2_gates :
  v2_bot_say_ok v2_bot_say = true /\
  v2_run_rails_ok v2_run_output_rails "$output_rails_exist" "output rails" "$output_text" = true.
Proof. exact (conj (proj1 (proj2 v2_gates_checked)) (proj2 (proj2 (proj2 v2_gates_checked)))). Qed.
Print Assumptions C02_T_v2_gates.

(* ------------------------------------------------------------------ non-vacuity *)

(* 4 turns, two output rails: block at turn 1, rewrite at turn 2, both rails called at turn 3 *)
Theorem C02_example_conversation : ex_c02_statement.
Proof. exact ex_c02. Qed.
Print Assumptions C02_example_conversation.

(* a predefined message sets and resets the skip flag within its turn *)
Theorem C02_example_predefined : ex_predef_statement.
Proof. exact ex_predef. Qed.
Print Assumptions C02_example_predefined.

(* Colang 2, repaired model: the conversation of C02_v2_flag_refuted keeps the flag clear and
   checks the bot message of every turn (the hypotheses of C02_v2_flag_invariant are inhabited) *)
Theorem C02_example_v2_repaired :
  map (fun r => (orip (fst (fst r)), n_rail_calls (snd (fst r)), snd r))
      (conv_v2 true f3_vf (fun _ _ _ => "m") (fun o => o) "ri" "ro"
               (mkCfg2 [] [7] false) init_state2 ["a"; "b"; "c"])
  = [(false, 1, RMsg ["m"]); (false, 1, RMsg ["ro"]); (false, 1, RMsg ["m"])].
Proof. exact v2_flag_repaired_witness. Qed.
Print Assumptions C02_example_v2_repaired.
