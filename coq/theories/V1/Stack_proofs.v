(* V1.Stack_proofs - the simulation for programs WITH subflow calls: `do` pushes an interrupted
   caller, the resume loop of compute_next_state unwinds the stack of flow states in whatever
   order they sit in State.flow_states. *)
From Coq Require Import ZArith QArith List String Bool Lia.
From NG Require Import V1.Expr V1.Elems V1.Slide V1.Interp V1.Structured V1.Interp_proofs
                       V1.Code_proofs V1.Slide_proofs V1.Sim_proofs.
Import ListNotations.
Open Scope list_scope.
Open Scope Z_scope.

(* ------------------------------------------------------------------ exec = lexec + calls *)

Section Decomp.
  Variable subs : list (string * list stmt).

  (* what exec does with the result of the frame-local run *)
  Definition after_local (m : nat) (lr : lres) (r : xres) : Prop :=
    match lr with
    | LWait w k c u => r = XWait w k [] c u
    | LEnd c u => r = XEnd c u
    | LExc => r = XExc
    | LFuel => False
    | LCallR name k c u =>
        exists rest k', k = KSeq rest k' /\
          r = match lookup name subs with
              | None => XExc
              | Some body =>
                  match exec subs m c u body KDone with
                  | XEnd c' u' => exec subs m c' u' rest k'
                  | XWait w kw stk c' u' => XWait w kw (stk ++ [KSeq rest k']) c' u'
                  | r' => r'
                  end
              end
    end.

  Lemma exec_decomp : forall n c u blk k r,
    exec subs n c u blk k = r -> r <> XFuel ->
    exists m, (m < n)%nat /\ after_local m (lexec n c u blk k) r.
  Proof.
    induction n as [|n IH]; intros c u blk k r Hr Hnf; [simpl in Hr; congruence|].
    assert (Hlift : forall c' u' blk' k', exec subs n c' u' blk' k' = r ->
              exists m, (m < S n)%nat /\ after_local m (lexec n c' u' blk' k') r).
    { intros c' u' blk' k' H. destruct (IH _ _ _ _ _ H Hnf) as (m & Hm & Ha). exists m. split; [lia|exact Ha]. }
    destruct blk as [|s rest].
    - simpl in Hr |- *. destruct k; [exists n; split; [lia|exact (eq_sym Hr)]| |]; apply Hlift; exact Hr.
    - destruct s; simpl in Hr |- *.
      + exists n. split; [lia|exact (eq_sym Hr)].
      + exists n. split; [lia|exact (eq_sym Hr)].
      + exists n. split; [lia|exact (eq_sym Hr)].
      + destruct (eval c e); [apply Hlift; exact Hr|exists n; split; [lia|exact (eq_sym Hr)]].
      + destruct (eval c c0) as [v|]; [apply Hlift; exact Hr|exists n; split; [lia|exact (eq_sym Hr)]].
      + destruct (eval c c0) as [v|]; [|exists n; split; [lia|exact (eq_sym Hr)]].
        destruct (truthy v); apply Hlift; exact Hr.
      + destruct (unwind k) as [[[cnd b] k']|]; [apply Hlift; exact Hr|exists n; split; [lia|exact (eq_sym Hr)]].
      + destruct (unwind k) as [[[cnd b] k']|]; [apply Hlift; exact Hr|exists n; split; [lia|exact (eq_sym Hr)]].
      + exists n. split; [lia|]. exists rest, k. split; [reflexivity|exact (eq_sym Hr)].
  Qed.
End Decomp.

(* ------------------------------------------------------------------ lists of flow states *)

Lemma list_set_length : forall {A} (l : list A) i a, List.length (list_set l i a) = List.length l.
Proof. induction l; intros [|i] x; simpl; auto. Qed.

Lemma list_set_nth_same : forall {A} (l : list A) i a, (i < List.length l)%nat ->
  nth_error (list_set l i a) i = Some a.
Proof. induction l; intros [|i] x H; simpl in *; try lia; [reflexivity|apply IHl; lia]. Qed.

Lemma list_set_nth_other : forall {A} (l : list A) i j a, i <> j ->
  nth_error (list_set l i a) j = nth_error l j.
Proof. induction l; intros [|i] [|j] x H; simpl; auto; try congruence. Qed.

Lemma list_set_app_l : forall {A} (l m : list A) i a, (i < List.length l)%nat ->
  list_set (l ++ m) i a = list_set l i a ++ m.
Proof. induction l; intros m [|i] x H; simpl in *; try lia; [reflexivity|f_equal; apply IHl; lia]. Qed.

Lemma list_set_map : forall {A B} (g : A -> B) (l : list A) i a, (i < List.length l)%nat ->
  (forall x, nth_error l i = Some x -> g a = g x) ->
  map g (list_set l i a) = map g l.
Proof.
  induction l; intros [|i] x H Hg; simpl in *; try lia.
  - f_equal. apply Hg. reflexivity.
  - f_equal. apply IHl; [lia|exact Hg].
Qed.

Lemma list_set_in : forall {A} (l : list A) i a x, In x (list_set l i a) ->
  x = a \/ exists j, j <> i /\ nth_error l j = Some x.
Proof.
  induction l; intros [|i] y x H; simpl in H; try contradiction.
  - destruct H as [H|H]; [left; auto|].
    right. destruct (In_nth_error _ _ H) as (j & Hj). exists (S j). split; [lia|exact Hj].
  - destruct H as [H|H].
    + right. exists 0%nat. split; [lia|subst; reflexivity].
    + destruct (IHl _ _ _ H) as [E|(j & Hj & Hn)]; [left; exact E|].
      right. exists (S j). split; [lia|exact Hn].
Qed.

Lemma find_uid_in : forall l g, NoDup (map f_uid l) -> In g l -> find_uid l (f_uid g) = Some g.
Proof.
  induction l as [|x l IH]; intros g Hnd Hin; [contradiction|].
  inversion Hnd as [|? ? Hnotin Hnd']; subst. simpl. destruct Hin as [E|Hin].
  - subst. rewrite N.eqb_refl. reflexivity.
  - destruct (N.eqb (f_uid x) (f_uid g)) eqn:E.
    + apply N.eqb_eq in E. exfalso. apply Hnotin. rewrite E. apply in_map. exact Hin.
    + apply IH; assumption.
Qed.

Lemma find_uid_none : forall l u, ~ In u (map f_uid l) -> find_uid l u = None.
Proof.
  induction l as [|x l IH]; intros u H; [reflexivity|]. simpl in *.
  destruct (N.eqb (f_uid x) u) eqn:E; [apply N.eqb_eq in E; exfalso; apply H; left; exact E|].
  apply IH. intros Hin. apply H. right. exact Hin.
Qed.

Lemma NoDup_app_snoc_uid : forall (l : list N) (x : N), NoDup l -> ~ In x l -> NoDup (l ++ [x]).
Proof.
  induction l as [|a l IH]; intros x Hnd Hni; simpl.
  - constructor; [intros []|constructor].
  - inversion Hnd; subst. constructor.
    + intros Hin. apply in_app_or in Hin. destruct Hin as [Hin|[E|[]]]; [contradiction|].
      subst. apply Hni. left; reflexivity.
    + apply IH; [assumption|]. intros Hin. apply Hni. right; exact Hin.
Qed.

Lemma NoDup_app_bounds : forall (l1 l2 : list N) (n : N),
  NoDup l1 -> NoDup l2 -> (forall x, In x l1 -> (x < n)%N) -> (forall y, In y l2 -> (n <= y)%N) ->
  NoDup (l1 ++ l2).
Proof.
  induction l1 as [|a l1 IH]; intros l2 n H1 H2 Hb1 Hb2; simpl; [exact H2|].
  inversion H1; subst. constructor.
  - intros Hin. apply in_app_or in Hin. destruct Hin as [Hin|Hin]; [contradiction|].
    specialize (Hb1 a (or_introl eq_refl)). specialize (Hb2 a Hin). lia.
  - apply (IH l2 n); auto. intros x Hx. apply Hb1. right; exact Hx.
Qed.

Lemma NoDup_app_sym_bounds : forall (l1 l2 : list N) (n : N),
  NoDup l1 -> NoDup l2 -> (forall x, In x l2 -> (x < n)%N) -> (forall y, In y l1 -> (n <= y)%N) ->
  NoDup (rev l1 ++ l2).
Proof.
  intros l1 l2 n H1 H2 Hb2 Hb1.
  assert (G : forall (a b : list N), NoDup a -> NoDup b -> (forall x, In x a -> ~ In x b) -> NoDup (a ++ b)).
  { induction a as [|x a IH]; intros b Ha Hb Hd; simpl; [exact Hb|]. inversion Ha; subst. constructor.
    - intros Hin. apply in_app_or in Hin. destruct Hin; [contradiction|]. apply (Hd x); [left; reflexivity|assumption].
    - apply IH; auto. intros y Hy. apply Hd. right; exact Hy. }
  apply G; [apply NoDup_rev; exact H1|exact H2|].
  intros x Hx Hx2. apply in_rev in Hx. specialize (Hb1 x Hx). specialize (Hb2 x Hx2). lia.
Qed.

Lemma last_default : forall {A} (l : list A) d d', l <> [] -> last l d = last l d'.
Proof.
  induction l as [|x l IH]; intros d d' H; [congruence|]. destruct l as [|y l]; [reflexivity|].
  change (last (y :: l) d = last (y :: l) d'). apply IH. discriminate.
Qed.

Lemma last_cons_default : forall {A} (x : A) l d, last (x :: l) d = last l x.
Proof. intros A x l d. destruct l as [|y l]; [reflexivity|]. change (last (y :: l) d = last (y :: l) x). apply last_default. discriminate. Qed.

Lemma last_app_cons : forall {A} (l : list A) x m d, last (l ++ x :: m) d = last (x :: m) d.
Proof.
  induction l as [|y l IH]; intros x m d; [reflexivity|].
  simpl app. destruct (l ++ x :: m) eqn:E; [destruct l; discriminate|]. rewrite <- E.
  change (last (y :: l ++ x :: m) d) with (match l ++ x :: m with [] => y | _ => last (l ++ x :: m) d end).
  rewrite E. rewrite <- E. apply IH.
Qed.

Lemma NoDup_map_filter : forall {A B} (g : A -> B) (P : A -> bool) (l : list A),
  NoDup (map g l) -> NoDup (map g (filter P l)).
Proof.
  induction l as [|x l IH]; intros H; simpl in *; [constructor|]. inversion H; subst.
  destruct (P x); simpl; [constructor|]; auto.
  intros Hin. apply in_map_iff in Hin. destruct Hin as (y & E & Hy). apply filter_In in Hy. destruct Hy as [Hy _].
  match goal with Hn : ~ In _ _ |- _ => apply Hn end. rewrite <- E. apply in_map. exact Hy.
Qed.

Lemma NoDup_mid : forall {A} (a m b : list A),
  NoDup (a ++ b) -> NoDup m -> (forall x, In x m -> ~ In x (a ++ b)) -> NoDup (a ++ m ++ b).
Proof.
  induction a as [|x a IH]; intros m b Hab Hm Hd; simpl in *.
  - revert Hd. induction m as [|y m IHm]; intros Hd; simpl; [exact Hab|]. inversion Hm; subst. constructor.
    + intros Hin. apply in_app_or in Hin. destruct Hin as [Hin|Hin]; [contradiction|]. apply (Hd y); [left; reflexivity|exact Hin].
    + apply IHm; auto. intros z Hz. apply Hd. right; exact Hz.
  - inversion Hab; subst. constructor.
    + intros Hin. apply in_app_or in Hin. destruct Hin as [Hin|Hin].
      * match goal with Hn : ~ In x (a ++ b) |- _ => apply Hn end. apply in_or_app. left; exact Hin.
      * apply in_app_or in Hin. destruct Hin as [Hin|Hin].
        -- apply (Hd x Hin). left; reflexivity.
        -- match goal with Hn : ~ In x (a ++ b) |- _ => apply Hn end. apply in_or_app. right; exact Hin.
    + apply IH; auto. intros z Hz Hin. apply (Hd z Hz). right; exact Hin.
Qed.

Lemma list_set_mid : forall {A} (a b : list A) x y, list_set (a ++ x :: b) (List.length a) y = a ++ y :: b.
Proof. induction a as [|z a IH]; intros b x y; simpl; [reflexivity|]. f_equal. apply IH. Qed.

Lemma nth_error_mid : forall {A} (a b : list A) x, nth_error (a ++ x :: b) (List.length a) = Some x.
Proof. induction a as [|z a IH]; intros b x; simpl; [reflexivity|]. apply IH. Qed.

Lemma xres_fuel_dec : forall r : xres, r = XFuel \/ r <> XFuel.
Proof. intros [| | |]; try (right; congruence). left; reflexivity. Qed.

Lemma has_flow_app : forall l m fl, has_flow (l ++ m) fl = has_flow l fl || has_flow m fl.
Proof. intros. unfold has_flow. apply existsb_app. Qed.

Lemma has_flow_map : forall l l' fl, map f_flow l = map f_flow l' -> has_flow l fl = has_flow l' fl.
Proof.
  induction l as [|x l IH]; intros [|y l'] fl H; simpl in *; try discriminate; [reflexivity|].
  inversion H. rewrite H1. f_equal. apply IH. assumption.
Qed.

(* "eventually": for all sufficiently large fuel *)
Definition evl {A} (g : nat -> res A) (r : res A) : Prop := exists F, forall f, (F <= f)%nat -> g f = r.

Lemma evl_const : forall {A} (r : res A), evl (fun _ => r) r.
Proof. intros. exists 0%nat. intros; reflexivity. Qed.

Lemma evl_bind : forall {A B} (g : nat -> res A) (h : A -> nat -> res B) a r,
  evl g (Ok a) -> evl (h a) r -> evl (fun f => bind (g f) (fun x => h x f)) r.
Proof.
  intros A B g h a r (F1 & H1) (F2 & H2). exists (Nat.max F1 F2). intros f Hf.
  rewrite H1 by lia. simpl. apply H2. lia.
Qed.

Lemma evl_bind_exc : forall {A B} (g : nat -> res A) (h : A -> nat -> res B),
  evl g Exc -> evl (fun f => bind (g f) (fun x => h x f)) Exc.
Proof. intros A B g h (F1 & H1). exists F1. intros f Hf. rewrite H1 by lia. reflexivity. Qed.

Lemma evl_ext : forall {A} (g g' : nat -> res A) r F0,
  (forall f, (F0 <= f)%nat -> g f = g' f) -> evl g' r -> evl g r.
Proof.
  intros A g g' r F0 He (F & H). exists (Nat.max F0 F). intros f Hf. rewrite He by lia. apply H. lia.
Qed.

Lemma evl_S : forall {A} (g : nat -> res A) r, evl g r -> evl (fun f => g (S f)) r.
Proof. intros A g r (F & H). exists F. intros f Hf. apply H. lia. Qed.

Lemma evl_pred : forall {A} (g : nat -> res A) r, evl (fun f => g (S f)) r -> evl g r.
Proof.
  intros A g r (F & H). exists (S F). intros f Hf. destruct f as [|f]; [lia|]. apply H. lia.
Qed.

(* ------------------------------------------------------------------ one program *)

Section ProgS.
  Variable p : prog.
  Variable o : opts.
  Hypothesis Hwf : wf_prog p = true.
  Hypothesis Hmark : o_mark o = true.
  Hypothesis Hguard : o_guard o = true.

  Let cs : configs := compile_prog p.

  (* the body of a flow of the program *)
  Definition flow_body (fl : string) : option (list stmt) := lookup fl (all_flows p).

  Definition code (b : list stmt) : list elem := compile_block None b.

  Definition cfg_of (fl : string) (b : list stmt) : flow_config :=
    mk_config fl (code b) (negb (String.eqb fl (p_id p))).

  Lemma wf_parts :
    (exists i0 rest0, p_main p = SUser i0 :: rest0 /\ wf_block false rest0 = true) /\
    Forall (fun nb => snd nb <> [] /\ wf_block false (snd nb) = true) (p_subs p) /\
    ~ In (p_id p) (map fst (p_subs p)).
  Proof.
    pose proof Hwf as W. unfold wf_prog in W.
    apply andb_true_iff in W. destruct W as [W W4].
    apply andb_true_iff in W. destruct W as [W W3].
    apply andb_true_iff in W. destruct W as [W1 W2].
    split; [|split].
    - destruct (p_main p) as [|s rest0]; [discriminate|]. destruct s; try discriminate.
      exists intent, rest0. split; [reflexivity|]. simpl in W2. exact W2.
    - apply Forall_forall. intros nb Hin. rewrite forallb_forall in W3. specialize (W3 _ Hin).
      apply andb_true_iff in W3. destruct W3 as [Wa Wb]. split; [|exact Wb].
      destruct (snd nb); [discriminate|congruence].
    - simpl in W4. apply andb_true_iff in W4. destruct W4 as [W4 _]. apply negb_true_iff in W4.
      intros Hin. unfold string_in in W4.
      assert (existsb (String.eqb (p_id p)) (map fst (p_subs p)) = true).
      { apply existsb_exists. exists (p_id p). split; [exact Hin|apply String.eqb_refl]. }
      congruence.
  Qed.

  Lemma lookup_in : forall {A} k (l : list (string * A)) v, lookup k l = Some v -> In (k, v) l.
  Proof.
    induction l as [|[k' v'] l IH]; intros v H; simpl in *; [discriminate|].
    destruct (String.eqb k k') eqn:E.
    - inversion H; subst. apply String.eqb_eq in E. subst. left; reflexivity.
    - right. apply IH. exact H.
  Qed.

  Lemma flow_body_wf : forall fl b, flow_body fl = Some b -> wf_block false b = true /\ 0 < zlen (code b).
  Proof.
    intros fl b H. unfold flow_body, all_flows in H. simpl in H.
    destruct wf_parts as ((i0 & rest0 & Em & Hr) & Hs & _).
    destruct (String.eqb fl (p_id p)).
    - inversion H; subst b. rewrite Em. split; [simpl; exact Hr|].
      unfold code. simpl compile_block. rewrite zlen_cons.
      pose proof (zlen_nonneg (compile_block None rest0)). lia.
    - apply lookup_in in H. rewrite Forall_forall in Hs. destruct (Hs _ H) as [Hne Hb]. simpl in *.
      split; [exact Hb|]. unfold code. rewrite compile_block_length.
      destruct b as [|s r]; [congruence|]. rewrite bsize_cons.
      pose proof (size_pos s). pose proof (bsize_nonneg r). lia.
  Qed.

  Lemma find_cfg : forall fl b, flow_body fl = Some b -> find_config cs fl = Some (cfg_of fl b).
  Proof.
    intros fl b H. unfold flow_body, all_flows in H. simpl in H. unfold cs, compile_prog, cfg_of. simpl.
    rewrite (String.eqb_sym (p_id p) fl). destruct (String.eqb fl (p_id p)) eqn:E.
    - inversion H; subst. apply String.eqb_eq in E. subst fl. reflexivity.
    - simpl. clear - H. induction (p_subs p) as [|[k v] l IH]; simpl in *; [discriminate|].
      rewrite (String.eqb_sym k fl). destruct (String.eqb fl k) eqn:E2.
      + inversion H; subst. apply String.eqb_eq in E2. subst. reflexivity.
      + apply IH. exact H.
  Qed.

  Lemma find_cfg_none : forall fl, flow_body fl = None -> find_config cs fl = None.
  Proof.
    intros fl H. unfold flow_body, all_flows in H. simpl in H. unfold cs, compile_prog. simpl.
    rewrite (String.eqb_sym (p_id p) fl). destruct (String.eqb fl (p_id p)); [discriminate|].
    clear - H. induction (p_subs p) as [|[k v] l IH]; simpl in *; [reflexivity|].
    rewrite (String.eqb_sym k fl). destruct (String.eqb fl k); [discriminate|]. apply IH. exact H.
  Qed.

  Lemma main_body : flow_body (p_id p) = Some (p_main p).
  Proof. unfold flow_body, all_flows. simpl. rewrite String.eqb_refl. reflexivity. Qed.

  (* ---------------------------------------------------------------- frames and chains *)

  Definition active_at (fs : fstate) (w : wait) (kw : kont) : Prop :=
    f_status fs = Active /\ f_intby fs = None /\
    exists b lp, flow_body (f_flow fs) = Some b /\ instr (code b) (f_head fs) = Some (elem_of_wait w) /\
                 wf_wait w /\ kmatch (code b) kw (f_head fs + 1) lp.

  Definition interrupted_at (fs : fstate) (k : kont) (u : N) : Prop :=
    f_status fs = Interrupted /\ f_intby fs = Some u /\
    exists b lp, flow_body (f_flow fs) = Some b /\ kmatch (code b) k (f_head fs) lp.

  (* chain l w kw stk top: l = [f0; f1; ...; fm], f0 waits on w with continuation kw, f(i+1) is
     interrupted by fi with continuation stk[i]; top = uid of fm *)
  Inductive chain : list fstate -> wait -> kont -> list kont -> N -> Prop :=
  | chain_one : forall f0 w kw, active_at f0 w kw -> chain [f0] w kw [] (f_uid f0)
  | chain_snoc : forall l fi w kw stk ki top,
      chain l w kw stk top -> interrupted_at fi ki top ->
      chain (l ++ [fi]) w kw (stk ++ [ki]) (f_uid fi).

  Lemma chain_nonempty : forall l w kw stk top, chain l w kw stk top -> l <> [].
  Proof. induction 1; [discriminate|]. destruct l; discriminate. Qed.

  Lemma chain_last : forall l x w kw stk top,
    chain (l ++ [x]) w kw stk top ->
    top = f_uid x /\
    ((l = [] /\ stk = [] /\ active_at x w kw) \/
     (exists stk0 ki top0, stk = stk0 ++ [ki] /\ chain l w kw stk0 top0 /\ interrupted_at x ki top0)).
  Proof.
    intros l x w kw stk top H. inversion H; subst.
    - destruct l; [|destruct l; discriminate]. simpl in *. inversion H0; subst. split; [reflexivity|].
      left. auto.
    - match goal with E : _ ++ [_] = _ ++ [_] |- _ => apply app_inj_tail in E; destruct E; subst end.
      split; [reflexivity|]. right. do 3 eexists. split; [reflexivity|]. split; eassumption.
  Qed.

  Lemma chain_last_head : forall l x w kw stk top, chain (l ++ [x]) w kw stk top -> 0 <= f_head x.
  Proof.
    intros l x w kw stk top H. destruct (chain_last _ _ _ _ _ _ H) as (_ & [(_ & _ & Ha)|(stk0 & ki & top0 & _ & _ & Hi)]).
    - destruct Ha as (_ & _ & b & lp & _ & Hi & _). apply instr_lt in Hi. lia.
    - destruct Hi as (_ & _ & b & lp & _ & Hk). apply kmatch_range in Hk. lia.
  Qed.

  Lemma chain_last_flow : forall l x w kw stk top, chain (l ++ [x]) w kw stk top ->
    exists b, flow_body (f_flow x) = Some b.
  Proof.
    intros l x w kw stk top H. destruct (chain_last _ _ _ _ _ _ H) as (_ & [(_ & _ & Ha)|(stk0 & ki & top0 & _ & _ & Hi)]).
    - destruct Ha as (_ & _ & b & lp & Hb & _). eauto.
    - destruct Hi as (_ & _ & b & lp & Hb & _). eauto.
  Qed.

  (* ---------------------------------------------------------------- states *)

  Definition end_state (s : state) (c u : ctx) (n : N) : state :=
    {| st_ctx := c; st_fss := st_fss s; st_next := st_next s; st_by := st_by s; st_prio := st_prio s;
       st_upd := u; st_uid := n |}.

  Definition wait_state (s : state) (c u : ctx) (n : N) (pushed : list fstate) (w : wait) (u0 : N) : state :=
    if actionable w
    then {| st_ctx := c; st_fss := st_fss s ++ pushed; st_next := Some (elem_of_wait w); st_by := Some u0;
            st_prio := Qred (1 * 1); st_upd := u; st_uid := n |}
    else {| st_ctx := c; st_fss := st_fss s ++ pushed; st_next := st_next s; st_by := st_by s;
            st_prio := st_prio s; st_upd := u; st_uid := n |}.

  Definition first_uid (l : list fstate) (d : N) : N := match l with x :: _ => f_uid x | [] => d end.

  Lemma first_uid_app : forall l m d, l <> [] -> first_uid (l ++ m) d = first_uid l d.
  Proof. intros [|x l] m d H; [congruence|reflexivity]. Qed.

  Definition post_g (r : xres) (s : state) (fs : fstate) (res : res (state * fstate)) : Prop :=
    match r with
    | XEnd c' u' => exists h n', res = Ok (end_state s c' u' n', fs_head fs h) /\ h < 0 /\ (st_uid s <= n')%N
    | XWait w kw stk c' u' =>
        exists pushed fs' n',
          res = Ok (wait_state s c' u' n' pushed w (first_uid (pushed ++ [fs']) 0%N), fs') /\
          chain (pushed ++ [fs']) w kw stk (f_uid fs) /\
          f_uid fs' = f_uid fs /\ f_flow fs' = f_flow fs /\
          (st_uid s <= n')%N /\
          Forall (fun f => (st_uid s <= f_uid f < n')%N) pushed /\ NoDup (map f_uid pushed)
    | XExc => res = Exc
    | XFuel => False
    end.

  Lemma wait_state_nil : forall s c u w u0,
    (if actionable w then st_set_next (st_set_ctx s c u) (Some (elem_of_wait w)) (Some u0) (Qred (1 * 1))
     else st_set_ctx s c u) = wait_state s c u (st_uid s) [] w u0.
  Proof.
    intros. unfold wait_state. rewrite app_nil_r. destruct (actionable w); destruct s; reflexivity.
  Qed.

  Lemma wait_state_push : forall s c u n l w u0 x,
    st_push (wait_state s c u n l w u0) x = wait_state s c u n (l ++ [x]) w u0.
  Proof.
    intros. unfold wait_state, st_push, st_set_fss. destruct (actionable w); simpl; rewrite <- app_assoc; reflexivity.
  Qed.

  Lemma wait_state_next : forall s c u n l w u0, st_next s = None ->
    st_next (wait_state s c u n l w u0) = if actionable w then Some (elem_of_wait w) else None.
  Proof. intros. unfold wait_state. destruct (actionable w); simpl; auto. Qed.

  Lemma wait_state_fss : forall s c u n l w u0, st_fss (wait_state s c u n l w u0) = st_fss s ++ l.
  Proof. intros. unfold wait_state. destruct (actionable w); reflexivity. Qed.

  Lemma wait_state_ctx : forall s c u n l w u0,
    st_ctx (wait_state s c u n l w u0) = c /\ st_upd (wait_state s c u n l w u0) = u /\
    st_uid (wait_state s c u n l w u0) = n.
  Proof. intros. unfold wait_state. destruct (actionable w); auto. Qed.

  (* the second _record_next_step of _call_subflow never changes anything *)
  Lemma second_record_noop : forall s c u n l w u0 x b,
    st_next s = None ->
    flow_body (f_flow x) = Some b -> instr (code b) (f_head x) = Some (elem_of_wait w) -> wf_wait w ->
    record_next_step (wait_state s c u n l w u0) x (cfg_of (f_flow x) b) 1 = Ok (wait_state s c u n l w u0).
  Proof.
    intros s c u n l w u0 x b Hn Hb Hi Hw.
    pose proof (instr_lt _ _ _ Hi) as Hrg.
    pose proof (instr_pyidx _ _ _ (proj1 Hrg) Hi) as Hpy.
    unfold record_next_step, wait_state. destruct (actionable w) eqn:Ea; cbn [st_next st_prio].
    - reflexivity.
    - rewrite Hn. cbn [orb]. change (fc_elems (cfg_of (f_flow x) b)) with (code b). rewrite Hpy. cbn [of_opt bind].
      rewrite (is_actionable_wait _ Hw), Ea. reflexivity.
  Qed.

  Lemma sws_gen : forall n c u blk k r,
    exec (all_flows p) n c u blk k = r -> r <> XFuel ->
    forall b pc lp s fs,
      flow_body (f_flow fs) = Some b ->
      code_at (code b) pc (compile_block (rel lp pc) blk) ->
      wf_block (inl lp) blk = true ->
      kmatch (code b) k (pc + bsize blk) lp ->
      st_ctx s = c -> st_upd s = u -> st_next s = None ->
      f_head fs = pc -> f_status fs = Active -> f_intby fs = None ->
      exists res, post_g r s fs res /\ evl (fun f => sws o f cs s fs) res.
  Proof.
    induction n as [n IH] using lt_wf_ind.
    intros c u blk k r Hr Hnf b pc lp s fs Hb Hcode Hwfb Hk Hc Hu Hn Hh Hst Hib.
    destruct (exec_decomp _ _ _ _ _ _ _ Hr Hnf) as (m & Hm & Hal).
    destruct (flow_body_wf _ _ Hb) as (Hwfbody & Hlen).
    remember (lexec n c u blk k) as lr eqn:Elr. symmetry in Elr.
    assert (Hlnf : lr <> LFuel) by (intros E; rewrite E in Hal; exact Hal).
    destruct (lexec_slide (code b) n c u blk k lr pc lp Elr Hlnf Hcode Hwfb Hk Hlen) as (sr & Hpost & F & HF).
    assert (Hun : forall f, sws o (S f) cs s fs =
      match slide f (code b) pc c u with
      | SFuel => Fuel | SErr => Exc | SNone => Exc
      | SOk h c1 u1 =>
          let s1 := st_set_ctx s c1 u1 in
          let fs1 := fs_head fs h in
          if h >=? 0 then
            bind (of_opt (pyidx (code b) h)) (fun el =>
            match el with
            | LFlow name =>
                let sub := new_fstate (st_uid s1) name 0 in
                let s2 := st_bump_uid s1 in
                let fs2 := fs_head fs1 (h + 1) in
                bind (sws o f cs s2 sub) (fun r0 =>
                let '(s3, sub') := r0 in
                if f_head sub' <? 0 then sws o f cs s3 fs2
                else
                  let fs3 := fs_intby (fs_status fs2 Interrupted) (Some (f_uid sub')) in
                  let s4 := st_push s3 sub' in
                  bind (of_opt (find_config cs (f_flow sub'))) (fun scfg =>
                  bind (if o_guard o && negb (status_eqb (f_status sub') Active) then Ok s4
                        else record_next_step s4 sub' scfg 1) (fun s5 =>
                  Ok (s5, fs3))))
            | _ => bind (record_next_step s1 fs1 (cfg_of (f_flow fs) b) 1) (fun s2 => Ok (s2, fs1))
            end)
          else Ok (s1, fs1)
      end).
    { intros f. rewrite sws_S, (find_cfg _ _ Hb). cbn [of_opt bind]. rewrite Hh, Hc, Hu. reflexivity. }
    clear Hr.
    destruct lr as [w k' c' u'|name kk c' u'|c' u'| |]; cbn [after_local slide_post] in Hal, Hpost; try contradiction.
    - (* blocks in this frame *)
      subst r. destruct Hpost as (pw & lp' & Esr & Hi & Hw & Hk').
      pose proof (instr_lt _ _ _ Hi) as Hrg.
      pose proof (instr_pyidx _ _ _ (proj1 Hrg) Hi) as Hpy.
      exists (Ok (wait_state s c' u' (st_uid s) [] w (f_uid fs), fs_head fs pw)). split.
      + unfold post_g. exists [], (fs_head fs pw), (st_uid s). simpl. repeat split; auto; try lia; try constructor.
        change (f_uid fs) with (f_uid (fs_head fs pw)). constructor.
        unfold active_at. simpl. repeat split; auto. exists b, lp'. repeat split; auto.
      + exists (S F). intros f Hf. destruct f as [|f]; [lia|]. rewrite Hun, (HF f) by lia. rewrite Esr. cbv zeta.
        replace (pw >=? 0) with true by (symmetry; apply Z.geb_le; lia).
        rewrite Hpy. cbn [of_opt bind].
        assert (Hrec : record_next_step (st_set_ctx s c' u') (fs_head fs pw) (cfg_of (f_flow fs) b) 1
                       = Ok (wait_state s c' u' (st_uid s) [] w (f_uid fs))).
        { rewrite (record_next_step_fresh _ _ _ _ (elem_of_wait w)); [|exact Hn|exact Hpy].
          rewrite (is_actionable_wait _ Hw). f_equal. apply wait_state_nil. }
        destruct w; cbn [elem_of_wait] in *; rewrite Hrec; reflexivity.
    - (* a call *)
      destruct Hal as (rest & k' & Ekk & Er). subst kk.
      destruct Hpost as (pw & lp' & rest' & k'' & Ekk & Esr & Hi & Hcrest & Hwrest & Hk'').
      inversion Ekk; subst rest' k''. clear Ekk.
      pose proof (instr_lt _ _ _ Hi) as Hrg.
      pose proof (instr_pyidx _ _ _ (proj1 Hrg) Hi) as Hpy.
      set (s1 := st_set_ctx s c' u') in *.
      set (sub := new_fstate (st_uid s1) name 0).
      set (s2 := st_bump_uid s1).
      set (fs2 := fs_head (fs_head fs pw) (pw + 1)).
      assert (Hun2 : forall f, (F <= f)%nat -> sws o (S f) cs s fs =
                bind (sws o f cs s2 sub) (fun r0 =>
                let '(s3, sub') := r0 in
                if f_head sub' <? 0 then sws o f cs s3 fs2
                else
                  let fs3 := fs_intby (fs_status fs2 Interrupted) (Some (f_uid sub')) in
                  let s4 := st_push s3 sub' in
                  bind (of_opt (find_config cs (f_flow sub'))) (fun scfg =>
                  bind (if o_guard o && negb (status_eqb (f_status sub') Active) then Ok s4
                        else record_next_step s4 sub' scfg 1) (fun s5 =>
                  Ok (s5, fs3))))).
      { intros f Hf. rewrite Hun, (HF f) by lia. rewrite Esr. cbv zeta.
        replace (pw >=? 0) with true by (symmetry; apply Z.geb_le; lia).
        rewrite Hpy. reflexivity. }
      change (lookup name (all_flows p)) with (flow_body name) in Er.
      destruct (flow_body name) as [body|] eqn:Ebody.
      2:{ (* unknown flow *)
        subst r. exists Exc. split; [reflexivity|].
        exists (S (S F)). intros f Hf. destruct f as [|[|f]]; try lia.
        rewrite Hun2 by lia. rewrite sws_S. change (f_flow sub) with name.
        rewrite (find_cfg_none _ Ebody). reflexivity. }
      destruct (flow_body_wf _ _ Ebody) as (Hwfsub & Hlensub).
      remember (exec (all_flows p) m c' u' body KDone) as r1 eqn:Er1. symmetry in Er1.
      assert (Hr1nf : r1 <> XFuel) by (intros E; subst r1; rewrite E in Er; congruence).
      assert (Hsubcode : code_at (code body) 0 (compile_block (rel None 0) body)) by apply code_at_whole.
      assert (Hsubk : kmatch (code body) KDone (0 + bsize body) None).
      { apply km_done. unfold code. rewrite compile_block_length. lia. }
      destruct (IH m Hm c' u' body KDone r1 Er1 Hr1nf body 0 None s2 sub
                   Ebody Hsubcode Hwfsub Hsubk eq_refl eq_refl Hn eq_refl eq_refl eq_refl)
        as (res1 & Hpost1 & Hev1).
      destruct r1 as [w kw stk1 c2 u2|c2 u2| |]; simpl in Hpost1; try contradiction.
      + (* the callee blocks *)
        subst r. destruct Hpost1 as (pushed1 & sub' & n2 & Eres1 & Hch1 & Hu1 & Hf1 & Hn2 & Hb1 & Hnd1).
        pose proof (chain_last_head _ _ _ _ _ _ Hch1) as Hhd.
        set (s3 := wait_state s2 c2 u2 n2 pushed1 w (first_uid (pushed1 ++ [sub']) 0%N)) in *.
        set (fs3 := fs_intby (fs_status fs2 Interrupted) (Some (f_uid sub'))).
        exists (Ok (wait_state s c2 u2 n2 (pushed1 ++ [sub']) w (first_uid ((pushed1 ++ [sub']) ++ [fs3]) 0%N), fs3)).
        split.
        * simpl. exists (pushed1 ++ [sub']), fs3, n2. split; [reflexivity|]. split; [|split; [reflexivity|split; [reflexivity|]]].
          -- change (f_uid fs) with (f_uid fs3).
             apply chain_snoc with (top := f_uid sub).
             ++ exact Hch1.
             ++ unfold interrupted_at, fs3. simpl. split; [reflexivity|]. split; [rewrite Hu1; reflexivity|].
                exists b, lp'. split; [exact Hb|]. apply km_seq; assumption.
          -- simpl in Hn2. split; [lia|]. split.
             ++ apply Forall_app. split.
                ** eapply Forall_impl; [|exact Hb1]. simpl. intros a Ha. lia.
                ** constructor; [|constructor]. rewrite Hu1. simpl. lia.
             ++ rewrite map_app. simpl. apply NoDup_app_snoc_uid; auto.
                intros Hin. rewrite in_map_iff in Hin. destruct Hin as (y & Ey & Hy).
                rewrite Forall_forall in Hb1. specialize (Hb1 _ Hy). rewrite Ey, Hu1 in Hb1. simpl in Hb1. lia.
        * destruct Hev1 as (F1 & HF1). exists (S (Nat.max F F1)). intros f Hf. destruct f as [|f]; [lia|].
          rewrite Hun2 by lia. rewrite (HF1 f) by lia. rewrite Eres1. cbn [bind]. cbv zeta.
          replace (f_head sub' <? 0) with false by (symmetry; apply Z.ltb_ge; exact Hhd).
          rewrite Hf1. change (f_flow sub) with name. rewrite (find_cfg _ _ Ebody). cbn [of_opt bind].
          fold s3. rewrite Hguard. cbn [andb].
          assert (Hnoop : (if negb (status_eqb (f_status sub') Active) then Ok (st_push s3 sub')
                           else record_next_step (st_push s3 sub') sub' (cfg_of name body) 1)
                          = Ok (st_push s3 sub')).
          { destruct (chain_last _ _ _ _ _ _ Hch1) as (_ & [(E1 & E2 & Ha)|(stk0 & ki & top0 & _ & _ & Hi3)]).
            - destruct Ha as (Hs' & _ & b' & lp2 & Hb' & Hi2 & Hw2 & _). rewrite Hs'. cbn [status_eqb negb].
              unfold s3. rewrite wait_state_push.
              rewrite Hf1 in Hb'. change (f_flow sub) with name in Hb'. rewrite Ebody in Hb'. inversion Hb'; subst b'.
              replace (cfg_of name body) with (cfg_of (f_flow sub') body) by (rewrite Hf1; reflexivity).
              apply second_record_noop; auto. rewrite Hf1. exact Ebody.
            - destruct Hi3 as (Hs' & _). rewrite Hs'. reflexivity. }
          rewrite Hnoop. cbn [bind]. unfold s3. rewrite wait_state_push.
          rewrite (first_uid_app (pushed1 ++ [sub']) [fs3]) by (destruct pushed1; discriminate). reflexivity.
      + (* the callee ran to its end: continue after the call *)
        destruct Hpost1 as (h1 & n2 & Eres1 & Hneg1 & Hn2).
        set (s3 := end_state s2 c2 u2 n2) in *.
        assert (Hrnf : r <> XFuel) by exact Hnf.
        assert (Hk2 : kmatch (code b) k' (pw + 1 + bsize rest) lp') by exact Hk''.
        destruct (IH m Hm c2 u2 rest k' r (eq_sym Er) Hrnf b (pw + 1) lp' s3 fs2
                     Hb Hcrest Hwrest Hk2 eq_refl eq_refl Hn eq_refl Hst Hib)
          as (res2 & Hpost2 & Hev2).
        exists res2. split.
        * destruct r as [w kw stk c3 u3|c3 u3| |]; simpl in Hpost2 |- *; try contradiction; auto.
          -- destruct Hpost2 as (pushed & fs' & n3 & Eres2 & Hch & Hu' & Hf' & Hn3 & Hbd & Hnd).
             exists pushed, fs', n3. simpl in Hn2, Hn3. repeat split; auto; try lia.
             eapply Forall_impl; [|exact Hbd]. simpl. intros a Ha. lia.
          -- destruct Hpost2 as (h & n3 & Eres2 & Hneg & Hn3). exists h, n3. simpl in Hn2, Hn3. repeat split; auto. lia.
        * destruct Hev1 as (F1 & HF1). destruct Hev2 as (F2 & HF2).
          exists (S (Nat.max F (Nat.max F1 F2))). intros f Hf. destruct f as [|f]; [lia|].
          rewrite Hun2 by lia. rewrite (HF1 f) by lia. rewrite Eres1. cbn [bind]. cbv zeta.
          replace (f_head (fs_head sub h1) <? 0) with true by (symmetry; apply Z.ltb_lt; simpl; lia).
          apply HF2. lia.
      + (* exception in the callee *)
        subst r res1. exists Exc. split; [reflexivity|].
        destruct Hev1 as (F1 & HF1). exists (S (Nat.max F F1)). intros f Hf. destruct f as [|f]; [lia|].
        rewrite Hun2 by lia. rewrite (HF1 f) by lia. reflexivity.
    - (* the body ends *)
      subst r. destruct Hpost as (h & Esr & Hneg).
      exists (Ok (end_state s c' u' (st_uid s), fs_head fs h)). split.
      + simpl. exists h, (st_uid s). repeat split; auto. lia.
      + exists (S F). intros f Hf. destruct f as [|f]; [lia|]. rewrite Hun, (HF f) by lia. rewrite Esr. cbv zeta.
        replace (h >=? 0) with false by (symmetry; rewrite Z.geb_leb; apply Z.leb_gt; lia).
        unfold end_state. destruct s; reflexivity.
    - (* exception *)
      subst r sr. exists Exc. split; [reflexivity|].
      exists (S F). intros f Hf. destruct f as [|f]; [lia|]. rewrite Hun, (HF f) by lia. reflexivity.
  Qed.

  (* ---------------------------------------------------------------- the resume loop *)

  (* the verdict of the resume loop on an interrupted flow state *)
  Definition verdict (l : list fstate) (x : fstate) : bool * bool :=
    match f_intby x with
    | None => (true, false)
    | Some u =>
        match find_uid l u with
        | Some g => (status_eqb (f_status g) Completed, status_eqb (f_status g) Aborted)
        | None => (false, false)
        end
    end.

  (* a flow state the resume loop leaves alone *)
  Definition quiet_fs (l : list fstate) (x : fstate) : Prop :=
    status_eqb (f_status x) Interrupted = false \/ verdict l x = (false, false).

  (* what the loop does to a flow state it picks up *)
  Definition process (f : nat) (s : state) (j : nat) (x : fstate) : res state :=
    let '(sr, sa) := verdict (st_fss s) x in
    if sr then
      let fs1 := fs_intby (fs_status x Active) None in
      bind (sws o f cs (st_set_fss s (list_set (st_fss s) j fs1)) fs1) (fun r =>
      let '(s2, fs2) := r in
      Ok (st_set_fss s2 (list_set (st_fss s2) j (if f_head fs2 <? 0 then fs_status fs2 Completed else fs2))))
    else if sa then Ok (st_set_fss s (list_set (st_fss s) j (fs_intby (fs_status x Aborted) None)))
    else Ok s.

  Lemma resume_pass_quiet_step : forall f s i ch x,
    nth_error (st_fss s) i = Some x -> quiet_fs (st_fss s) x ->
    resume_pass o (S f) cs s i ch = resume_pass o f cs s (S i) ch.
  Proof.
    intros f s i ch x Hn Hq. rewrite resume_pass_S, Hn.
    destruct Hq as [Hq|Hq].
    - rewrite Hq. reflexivity.
    - destruct (status_eqb (f_status x) Interrupted); [|reflexivity].
      unfold verdict in Hq. rewrite Hq. reflexivity.
  Qed.

  Lemma resume_pass_hit_step : forall f s i ch x,
    nth_error (st_fss s) i = Some x -> status_eqb (f_status x) Interrupted = true ->
    verdict (st_fss s) x <> (false, false) ->
    resume_pass o (S f) cs s i ch = bind (process f s i x) (fun s2 => resume_pass o f cs s2 (S i) true).
  Proof.
    intros f s i ch x Hn Hi Hv. rewrite resume_pass_S, Hn, Hi. unfold process.
    unfold verdict in *. destruct (f_intby x) as [u|].
    - destruct (find_uid (st_fss s) u) as [g|]; [|congruence].
      destruct (status_eqb (f_status g) Completed); cbv iota beta.
      + destruct (sws o f cs _ _) as [[s2 fs2]| |]; reflexivity.
      + destruct (status_eqb (f_status g) Aborted); [reflexivity|congruence].
    - cbv iota beta. destruct (sws o f cs _ _) as [[s2 fs2]| |]; reflexivity.
  Qed.

  (* all flow states from index i on are quiet *)
  Definition quiet_from (s : state) (i : nat) : Prop :=
    forall j x, (i <= j)%nat -> nth_error (st_fss s) j = Some x -> quiet_fs (st_fss s) x.

  Lemma resume_pass_quiet : forall s n i f ch,
    quiet_from s i -> (List.length (st_fss s) - i <= n)%nat -> (n < f)%nat ->
    resume_pass o f cs s i ch = Ok (s, ch).
  Proof.
    intros s. induction n as [|n IH]; intros i f ch Hq Hlen Hf.
    - destruct f as [|f]; [lia|]. rewrite resume_pass_S.
      destruct (nth_error (st_fss s) i) eqn:E; [|reflexivity].
      assert (i < List.length (st_fss s))%nat by (apply nth_error_Some; congruence). lia.
    - destruct f as [|f]; [lia|].
      destruct (nth_error (st_fss s) i) as [x|] eqn:E.
      + rewrite (resume_pass_quiet_step f s i ch x E (Hq i x (le_n _) E)).
        apply IH; [|lia|lia]. intros j y Hj. apply Hq. lia.
      + rewrite resume_pass_S, E. reflexivity.
  Qed.

  (* skipping the quiet flow states between i and j *)
  Lemma resume_pass_skip : forall s d i f ch,
    (forall j x, (i <= j < i + d)%nat -> nth_error (st_fss s) j = Some x -> quiet_fs (st_fss s) x) ->
    (i + d <= List.length (st_fss s))%nat ->
    resume_pass o (d + f) cs s i ch = resume_pass o f cs s (i + d) ch.
  Proof.
    intros s. induction d as [|d IH]; intros i f ch Hq Hlen.
    - simpl. replace (i + 0)%nat with i by lia. reflexivity.
    - destruct (nth_error (st_fss s) i) as [x|] eqn:E.
      2:{ apply nth_error_None in E. lia. }
      change (S d + f)%nat with (S (d + f)).
      rewrite (resume_pass_quiet_step (d + f) s i ch x E); [|apply (Hq i x); [lia|exact E]].
      rewrite IH; [f_equal; lia| |lia]. intros j y Hj. apply Hq. lia.
  Qed.

  (* the rest of the loop from position (i, ch) of a pass *)
  Definition finish (f1 f2 : nat) (s : state) (i : nat) (ch : bool) : res state :=
    bind (resume_pass o f1 cs s i ch) (fun r =>
    let '(s', ch') := r in if ch' then resume_loop o f2 cs s' else Ok s').

  Definition loops_to (s : state) (i : nat) (ch : bool) (r : res state) : Prop :=
    exists F, forall f1 f2, (F <= f1)%nat -> (F <= f2)%nat -> finish f1 f2 s i ch = r.

  Lemma resume_loop_finish : forall f s, resume_loop o (S f) cs s = finish (S f) f s 0 false.
  Proof. intros. rewrite resume_loop_S. reflexivity. Qed.

  Lemma loops_to_loop : forall s r, loops_to s 0 false r -> evl (fun f => resume_loop o f cs s) r.
  Proof.
    intros s r (F & H). exists (S F). intros f Hf. destruct f as [|f]; [lia|].
    rewrite resume_loop_finish. apply H; lia.
  Qed.

  Lemma loops_quiet : forall s i ch, quiet_from s 0 -> loops_to s i ch (Ok s).
  Proof.
    intros s i ch Hq. exists (List.length (st_fss s) + 2)%nat. intros f1 f2 H1 H2. unfold finish.
    rewrite (resume_pass_quiet s (List.length (st_fss s)) i f1 ch); [|intros j x _; apply Hq; lia|lia|lia].
    cbn [bind]. destruct ch; [|reflexivity].
    destruct f2 as [|f2]; [lia|]. rewrite resume_loop_finish. unfold finish.
    rewrite (resume_pass_quiet s (List.length (st_fss s)) 0 (S f2) false); [reflexivity|exact Hq|lia|lia].
  Qed.

  (* the loop picks up the only flow state that is not quiet, wherever it sits *)
  Lemma loops_step : forall s j x r i ch,
    nth_error (st_fss s) j = Some x ->
    status_eqb (f_status x) Interrupted = true -> verdict (st_fss s) x <> (false, false) ->
    (forall j' y, j' <> j -> nth_error (st_fss s) j' = Some y -> quiet_fs (st_fss s) y) ->
    ((j < i)%nat -> ch = true) ->
    (exists F, forall f1 f2, (F <= f1)%nat -> (F <= f2)%nat ->
       bind (process f1 s j x) (fun s2 => finish f1 f2 s2 (S j) true) = r) ->
    loops_to s i ch r.
  Proof.
    intros s j x r i ch Hn Hi Hv Hq Hch (F & HF).
    assert (Hjl : (j < List.length (st_fss s))%nat) by (apply nth_error_Some; congruence).
    exists (F + List.length (st_fss s) + 3)%nat. intros f1 f2 H1 H2.
    assert (Hfrom0 : forall g1 g2, (F + j + 1 <= g1)%nat -> (F <= g2)%nat -> finish g1 g2 s 0 false = r).
    { intros g1 g2 G1 G2. unfold finish.
      replace g1 with (j + (g1 - j))%nat by lia.
      rewrite (resume_pass_skip s j 0 (g1 - j) false); [|intros j' y Hj'; apply Hq; lia|lia].
      simpl plus. destruct (g1 - j)%nat as [|g] eqn:Eg; [lia|].
      rewrite (resume_pass_hit_step g s j false x Hn Hi Hv).
      specialize (HF g g2). unfold finish in HF.
      destruct (process g s j x) as [s2| |] eqn:Ep; cbn [bind] in *; apply HF; lia. }
    destruct (Nat.le_gt_cases i j) as [Hij|Hij].
    - (* the pass has not reached j yet *)
      unfold finish. replace f1 with ((j - i) + (f1 - (j - i)))%nat by lia.
      rewrite (resume_pass_skip s (j - i) i (f1 - (j - i)) ch); [|intros j' y Hj'; apply Hq; lia|lia].
      replace (i + (j - i))%nat with j by lia.
      destruct (f1 - (j - i))%nat as [|g] eqn:Eg; [lia|].
      rewrite (resume_pass_hit_step g s j ch x Hn Hi Hv).
      specialize (HF g f2). unfold finish in HF.
      destruct (process g s j x) as [s2| |] eqn:Ep; cbn [bind] in *; apply HF; lia.
    - (* the pass is already beyond j: it ends, and the next pass finds x *)
      rewrite (Hch Hij). unfold finish.
      rewrite (resume_pass_quiet s (List.length (st_fss s)) i f1 true); [|intros j' y Hj'; apply Hq; lia|lia|lia].
      cbn [bind]. destruct f2 as [|f2]; [lia|]. rewrite resume_loop_finish. apply Hfrom0; lia.
  Qed.

  (* ---------------------------------------------------------------- stacks, bottom-up view *)

  (* itail a tl ks: the callers above a flow state with uid a, innermost first *)
  Inductive itail : N -> list fstate -> list kont -> Prop :=
  | it_nil : forall a, itail a [] []
  | it_cons : forall a t k tl ks, interrupted_at t k a -> itail (f_uid t) tl ks -> itail a (t :: tl) (k :: ks).

  Fixpoint last_uid (a : N) (tl : list fstate) : N :=
    match tl with [] => a | t :: tl' => last_uid (f_uid t) tl' end.

  Lemma itail_snoc : forall a tl ks x k,
    itail a tl ks -> interrupted_at x k (last_uid a tl) -> itail a (tl ++ [x]) (ks ++ [k]).
  Proof.
    intros a tl ks x k H. induction H; intros Hx; simpl in *.
    - constructor; [exact Hx|constructor].
    - constructor; [assumption|]. apply IHitail. exact Hx.
  Qed.

  Lemma last_uid_snoc : forall a tl x, last_uid a (tl ++ [x]) = f_uid x.
  Proof. intros a tl. revert a. induction tl; intros a0 x; simpl; auto. Qed.

  Lemma chain_split : forall l w kw stk top,
    chain l w kw stk top ->
    exists f0 tl, l = f0 :: tl /\ active_at f0 w kw /\ itail (f_uid f0) tl stk /\ top = last_uid (f_uid f0) tl.
  Proof.
    induction 1.
    - exists f0, []. split; [reflexivity|]. split; [exact H|]. split; [constructor|reflexivity].
    - destruct IHchain as (f0 & tl & El & Ha & Hi & Et). subst l top.
      exists f0, (tl ++ [fi]). split; [reflexivity|]. split; [exact Ha|]. split.
      + apply itail_snoc; assumption.
      + rewrite last_uid_snoc. reflexivity.
  Qed.

  Lemma chain_app_itail : forall tl ks l w kw stk top,
    chain l w kw stk top -> itail top tl ks ->
    exists top', chain (l ++ tl) w kw (stk ++ ks) top'.
  Proof.
    induction tl as [|t tl IH]; intros ks l w kw stk top Hc Hi; inversion Hi; subst.
    - exists top. rewrite !app_nil_r. exact Hc.
    - destruct (IH ks0 (l ++ [t]) w kw (stk ++ [k]) (f_uid t)) as (top' & Hc').
      + apply chain_snoc with (top := top); assumption.
      + assumption.
      + exists top'. rewrite <- !app_assoc in Hc'. exact Hc'.
  Qed.

  Lemma itail_statuses : forall a tl ks, itail a tl ks -> Forall (fun t => f_status t = Interrupted) tl.
  Proof. induction 1; constructor; auto. destruct H as (Hs & _). exact Hs. Qed.

  Lemma itail_flows : forall a tl ks, itail a tl ks -> Forall (fun t => exists b, flow_body (f_flow t) = Some b) tl.
  Proof. induction 1; constructor; auto. destruct H as (_ & _ & b & lp & Hb & _). eauto. Qed.

  (* every caller is interrupted by a flow state that is the stack's next-lower one *)
  Lemma itail_links : forall a tl ks, itail a tl ks ->
    forall t, In t tl -> exists u, f_intby t = Some u /\ (u = a \/ exists t', In t' tl /\ f_uid t' = u).
  Proof.
    induction 1; intros x Hin; [contradiction|]. destruct Hin as [E|Hin].
    - subst x. destruct H as (_ & Hib & _). exists a. split; [exact Hib|left; reflexivity].
    - destruct (IHitail _ Hin) as (u & Hu & [E|(t' & Ht' & Eu)]).
      + exists u. split; [exact Hu|]. right. exists t. split; [left; reflexivity|auto].
      + exists u. split; [exact Hu|]. right. exists t'. split; [right; exact Ht'|exact Eu].
  Qed.

  (* ---------------------------------------------------------------- unwinding an aborted stack *)

  Definition same_meta (s s' : state) : Prop :=
    st_ctx s' = st_ctx s /\ st_upd s' = st_upd s /\ st_next s' = st_next s /\ st_by s' = st_by s /\
    st_prio s' = st_prio s /\ st_uid s' = st_uid s.

  Lemma nth_error_uid_inj : forall l j j' (x y : fstate),
    NoDup (map f_uid l) -> nth_error l j = Some x -> nth_error l j' = Some y -> f_uid x = f_uid y -> j = j'.
  Proof.
    intros l j j' x y Hnd Hx Hy E.
    assert (Hjx : nth_error (map f_uid l) j = Some (f_uid x)) by (rewrite nth_error_map, Hx; reflexivity).
    assert (Hjy : nth_error (map f_uid l) j' = Some (f_uid x)) by (rewrite nth_error_map, Hy, E; reflexivity).
    rewrite NoDup_nth_error in Hnd. apply Hnd; [|congruence].
    apply nth_error_Some. congruence.
  Qed.

  (* the callers other than the innermost one wait on a flow state that is itself interrupted *)
  Lemma tail_others_quiet : forall l a t k tl ks y,
    NoDup (map f_uid l) ->
    itail a (t :: tl) (k :: ks) ->
    (forall x, In x (t :: tl) -> In x l) ->
    In y tl -> quiet_fs l y.
  Proof.
    intros l a t k tl ks y Hnd Hit Hin Hy. right.
    inversion Hit; subst.
    match goal with H : itail (f_uid t) tl _ |- _ => pose proof (itail_links _ _ _ H y Hy) as Hl end.
    destruct Hl as (u & Hu & Hcase).
    assert (Ht' : exists t', In t' (t :: tl) /\ f_uid t' = u).
    { destruct Hcase as [E|(t' & Ht' & Eu)]; [exists t; split; [left; reflexivity|auto]|exists t'; split; [right; exact Ht'|exact Eu]]. }
    destruct Ht' as (t' & Ht' & Eu).
    unfold verdict. rewrite Hu, <- Eu, (find_uid_in l t' Hnd (Hin _ Ht')).
    pose proof (itail_statuses _ _ _ Hit) as Hst. rewrite Forall_forall in Hst. rewrite (Hst _ Ht'). reflexivity.
  Qed.

  Lemma in_list_set_same : forall {A} (l : list A) j a, (j < List.length l)%nat -> In a (list_set l j a).
  Proof.
    intros A l j a H. eapply nth_error_In. apply list_set_nth_same. exact H.
  Qed.

  Lemma in_list_set_other : forall {A} (l : list A) j a x i, i <> j -> nth_error l i = Some x -> In x (list_set l j a).
  Proof.
    intros A l j a x i Hne Hn. apply (nth_error_In _ i). rewrite list_set_nth_other by auto. exact Hn.
  Qed.

  Lemma abort_unwind : forall tl ks a s i ch,
    NoDup (map f_uid (st_fss s)) ->
    (exists A, In A (st_fss s) /\ f_uid A = a /\ f_status A = Aborted) ->
    itail a tl ks ->
    (forall t, In t tl -> In t (st_fss s)) ->
    (forall x, In x (st_fss s) -> dead x \/ In x tl) ->
    NoDup (map f_uid tl) -> ~ In a (map f_uid tl) ->
    (i = 0%nat \/ ch = true) ->
    exists s', loops_to s i ch (Ok s') /\ same_meta s s' /\
               map f_uid (st_fss s') = map f_uid (st_fss s) /\
               map f_flow (st_fss s') = map f_flow (st_fss s) /\
               Forall dead (st_fss s').
  Proof.
    induction tl as [|t tl IH]; intros ks a s i ch Hnd HA Hit Hin Hothers Hndt Hna Hich.
    - exists s. split; [|split; [|split; [|split]]].
      + apply loops_quiet. intros j x _ Hx. left.
        destruct (Hothers x (nth_error_In _ _ Hx)) as [[E|E]|[]]; rewrite E; reflexivity.
      + unfold same_meta. auto 10.
      + reflexivity.
      + reflexivity.
      + apply Forall_forall. intros x Hx. destruct (Hothers x Hx) as [Hd|[]]. exact Hd.
    - inversion Hit as [|? ? ? ? ks0 Hint Hit']; subst.
      destruct HA as (A & HAin & HAu & HAs).
      destruct Hint as (Hts & Htib & Htb).
      destruct (In_nth_error _ _ (Hin t (or_introl eq_refl))) as (j & Hj).
      assert (Hjl : (j < List.length (st_fss s))%nat) by (apply nth_error_Some; congruence).
      assert (Hv : verdict (st_fss s) t = (false, true)).
      { unfold verdict. rewrite Htib, <- HAu, (find_uid_in _ A Hnd HAin), HAs. reflexivity. }
      set (t' := fs_intby (fs_status t Aborted) None).
      set (s2 := st_set_fss s (list_set (st_fss s) j t')).
      assert (Hmap2 : map f_uid (st_fss s2) = map f_uid (st_fss s)).
      { simpl. apply list_set_map; [exact Hjl|]. intros x Hx. rewrite Hj in Hx. inversion Hx; subst. reflexivity. }
      assert (Hflow2 : map f_flow (st_fss s2) = map f_flow (st_fss s)).
      { simpl. apply list_set_map; [exact Hjl|]. intros x Hx. rewrite Hj in Hx. inversion Hx; subst. reflexivity. }
      inversion Hndt as [|? ? Htn Hndt']; subst.
      (* the rest of the stack, in the state where t is aborted *)
      destruct (IH ks0 (f_uid t) s2 (S j) true) as (s' & Hloop & Hmeta & Hmu & Hmf & Hdead).
      + rewrite Hmap2. exact Hnd.
      + exists t'. split; [apply in_list_set_same; exact Hjl|]. split; reflexivity.
      + exact Hit'.
      + intros x Hx. destruct (In_nth_error _ _ (Hin x (or_intror Hx))) as (jx & Hjx).
        apply (in_list_set_other _ j t' x jx); [|exact Hjx].
        intros E. subst jx. rewrite Hj in Hjx. inversion Hjx; subst x.
        apply Htn. apply in_map. exact Hx.
      + intros x Hx. simpl in Hx. destruct (list_set_in _ _ _ _ Hx) as [E|(jx & Hne & Hjx)].
        * subst x. left. right. reflexivity.
        * destruct (Hothers x (nth_error_In _ _ Hjx)) as [Hd|[E|Hx']]; [left; exact Hd| |right; exact Hx'].
          subst x. exfalso. apply Hne. apply (nth_error_uid_inj (st_fss s) jx j t t Hnd Hjx Hj eq_refl).
      + exact Hndt'.
      + exact Htn.
      + right; reflexivity.
      + exists s'. split; [|split; [|split; [|split]]].
        * apply (loops_step s j t (Ok s') i ch Hj).
          -- rewrite Hts. reflexivity.
          -- rewrite Hv. congruence.
          -- intros j' y Hne Hy.
             destruct (Hothers y (nth_error_In _ _ Hy)) as [[E|E]|[E|Hy']].
             ++ left. rewrite E. reflexivity.
             ++ left. rewrite E. reflexivity.
             ++ subst y. exfalso. apply Hne. apply (nth_error_uid_inj (st_fss s) j' j t t Hnd Hy Hj eq_refl).
             ++ apply (tail_others_quiet (st_fss s) (f_uid A) t k tl ks0 y Hnd Hit Hin Hy').
          -- intros Hlt. destruct Hich as [E|E]; [lia|exact E].
          -- destruct Hloop as (F & HF). exists F. intros f1 f2 H1 H2.
             unfold process. rewrite Hv. cbn [bind]. apply HF; assumption.
        * destruct Hmeta as (M1 & M2 & M3 & M4 & M5 & M6). unfold same_meta. simpl in *. auto 10.
        * rewrite Hmu. exact Hmap2.
        * rewrite Hmf. exact Hflow2.
        * exact Hdead.
  Qed.

  (* ---------------------------------------------------------------- a stack that waits *)

  (* the flow states of list L form a stack waiting on w (plus dead ones) *)
  Definition stack_in (L : list fstate) (w : wait) (kw : kont) (stk : list kont) : Prop :=
    exists f0 tl, active_at f0 w kw /\ itail (f_uid f0) tl stk /\
                  (forall x, In x (f0 :: tl) -> In x L) /\
                  (forall x, In x L -> dead x \/ In x (f0 :: tl)) /\
                  NoDup (map f_uid (f0 :: tl)) /\
                  f_flow (last tl f0) = p_id p.          (* the bottom of the stack is the dialog flow *)

  Lemma dead_not_interrupted : forall x, dead x -> status_eqb (f_status x) Interrupted = false.
  Proof. intros x [E|E]; rewrite E; reflexivity. Qed.

  Lemma stack_quiet : forall L w kw stk,
    NoDup (map f_uid L) -> stack_in L w kw stk -> forall x, In x L -> quiet_fs L x.
  Proof.
    intros L w kw stk Hnd (f0 & tl & Ha & Hit & Hsub & Hsup & Hndl & _) x Hx.
    destruct (Hsup x Hx) as [Hd|[E|Hin]].
    - left. apply dead_not_interrupted. exact Hd.
    - subst x. left. destruct Ha as (Hs & _). rewrite Hs. reflexivity.
    - right. destruct (itail_links _ _ _ Hit x Hin) as (u & Hu & Hcase).
      assert (Ht' : exists t', In t' (f0 :: tl) /\ f_uid t' = u /\ status_eqb (f_status t') Completed = false /\
                               status_eqb (f_status t') Aborted = false).
      { destruct Hcase as [E|(t' & Ht' & Eu)].
        - exists f0. split; [left; reflexivity|]. split; [auto|]. destruct Ha as (Hs & _). rewrite Hs. split; reflexivity.
        - exists t'. split; [right; exact Ht'|]. split; [exact Eu|].
          pose proof (itail_statuses _ _ _ Hit) as Hst. rewrite Forall_forall in Hst. rewrite (Hst _ Ht'). split; reflexivity. }
      destruct Ht' as (t' & Ht' & Eu & Hc & Hab).
      unfold verdict. rewrite Hu, <- Eu, (find_uid_in L t' Hnd (Hsub _ Ht')), Hc, Hab. reflexivity.
  Qed.

  Lemma chain_flows : forall l w kw stk top, chain l w kw stk top ->
    Forall (fun t => exists b, flow_body (f_flow t) = Some b) l.
  Proof.
    induction 1.
    - constructor; [|constructor]. destruct H as (_ & _ & b & lp & Hb & _). eauto.
    - apply Forall_app. split; [exact IHchain|]. constructor; [|constructor].
      destruct H0 as (_ & _ & b & lp & Hb & _). eauto.
  Qed.

  (* gluing the new top of the stack (what sws returned) onto the callers that were already there *)
  Lemma stack_glue : forall L pushed fs' w kw stk1 tl ks,
    chain (pushed ++ [fs']) w kw stk1 (f_uid fs') -> itail (f_uid fs') tl ks ->
    (forall x, In x L -> dead x \/ In x pushed \/ x = fs' \/ In x tl) ->
    (forall x, In x pushed \/ x = fs' \/ In x tl -> In x L) ->
    NoDup (map f_uid (pushed ++ fs' :: tl)) ->
    f_flow (last tl fs') = p_id p ->
    stack_in L w kw (stk1 ++ ks).
  Proof.
    intros L pushed fs' w kw stk1 tl ks Hch Hit Hsup Hsub Hnd Hbot.
    destruct (chain_app_itail _ _ _ _ _ _ _ Hch Hit) as (top' & Hch').
    destruct (chain_split _ _ _ _ _ Hch') as (f0 & tl0 & El & Ha & Hit0 & _).
    exists f0, tl0. split; [exact Ha|]. split; [exact Hit0|].
    assert (Heq : f0 :: tl0 = pushed ++ fs' :: tl) by (rewrite <- El, <- app_assoc; reflexivity).
    assert (Hlast : last tl0 f0 = last tl fs').
    { transitivity (last (f0 :: tl0) f0); [destruct tl0; reflexivity|]. rewrite Heq.
      rewrite last_app_cons. apply last_cons_default. }
    rewrite Heq. split; [|split; [|split; [exact Hnd|rewrite Hlast; exact Hbot]]].
    - intros x Hx. apply Hsub. apply in_app_or in Hx. destruct Hx as [Hx|[E|Hx]]; auto.
    - intros x Hx. destruct (Hsup x Hx) as [Hd|[Hp|[E|Ht]]]; [left; exact Hd| | |]; right; apply in_or_app.
      + left; exact Hp.
      + right; left; auto.
      + right; right; exact Ht.
  Qed.

  Lemma list_set_twice : forall {A} (l : list A) j a b, list_set (list_set l j a) j b = list_set l j b.
  Proof. induction l; intros [|j] x y; simpl; auto. f_equal. apply IHl. Qed.

  (* ---------------------------------------------------------------- resuming one caller *)

  Definition resumed_result (r1 : xres) (s : state) (j : nat) (t : fstate) (pr : res state) : Prop :=
    match r1 with
    | XEnd c' u' =>
        exists h n', pr = Ok (st_set_fss (end_state s c' u' n')
                               (list_set (st_fss s) j (fs_status (fs_head (fs_intby (fs_status t Active) None) h) Completed))) /\
                     h < 0 /\ (st_uid s <= n')%N
    | XWait w kw stk c' u' =>
        exists pushed fs' n',
          pr = Ok (st_set_fss (wait_state s c' u' n' pushed w (first_uid (pushed ++ [fs']) 0%N))
                              (list_set (st_fss s) j fs' ++ pushed)) /\
          chain (pushed ++ [fs']) w kw stk (f_uid t) /\ f_uid fs' = f_uid t /\ f_flow fs' = f_flow t /\
          (st_uid s <= n')%N /\ Forall (fun f => (st_uid s <= f_uid f < n')%N) pushed /\ NoDup (map f_uid pushed)
    | XExc => pr = Exc
    | XFuel => False
    end.

  Lemma process_resume : forall n s j t k1 a sa c u r1,
    nth_error (st_fss s) j = Some t -> verdict (st_fss s) t = (true, sa) ->
    interrupted_at t k1 a -> st_ctx s = c -> st_upd s = u -> st_next s = None ->
    exec (all_flows p) n c u [] k1 = r1 -> r1 <> XFuel ->
    exists pr, resumed_result r1 s j t pr /\ evl (fun g => process g s j t) pr.
  Proof.
    intros n s j t k1 a sa c u r1 Hj Hv Hint Hc Hu Hn Hr1 Hnf.
    destruct Hint as (Hts & Htib & b & lp & Hb & Hk).
    assert (Hjl : (j < List.length (st_fss s))%nat) by (apply nth_error_Some; congruence).
    set (fs1 := fs_intby (fs_status t Active) None).
    set (s1 := st_set_fss s (list_set (st_fss s) j fs1)).
    assert (H1 : code_at (code b) (f_head t) (compile_block (rel lp (f_head t)) [])).
    { simpl. apply code_at_nil. apply kmatch_range in Hk. exact Hk. }
    assert (H3 : kmatch (code b) k1 (f_head t + bsize []) lp).
    { simpl bsize. replace (f_head t + 0) with (f_head t) by lia. exact Hk. }
    destruct (sws_gen n c u [] k1 r1 Hr1 Hnf b (f_head t) lp s1 fs1 Hb H1 eq_refl H3 Hc Hu Hn eq_refl eq_refl eq_refl)
      as (res & Hpost & F & HF).
    assert (Hproc : forall g, process g s j t =
              bind (sws o g cs s1 fs1) (fun r =>
              let '(s2, fs2) := r in
              Ok (st_set_fss s2 (list_set (st_fss s2) j (if f_head fs2 <? 0 then fs_status fs2 Completed else fs2))))).
    { intros g. unfold process. rewrite Hv. reflexivity. }
    destruct r1 as [w kw stk c' u'|c' u'| |]; simpl in Hpost; try contradiction.
    - destruct Hpost as (pushed & fs' & n' & Eres & Hch & Hu' & Hf' & Hn' & Hbd & Hnd).
      pose proof (chain_last_head _ _ _ _ _ _ Hch) as Hhd.
      eexists. split.
      + simpl. exists pushed, fs', n'. split; [reflexivity|]. repeat split; auto.
      + exists F. intros g Hg. rewrite Hproc, (HF g Hg), Eres. cbn [bind].
        replace (f_head fs' <? 0) with false by (symmetry; apply Z.ltb_ge; exact Hhd).
        rewrite wait_state_fss. simpl st_fss. rewrite list_set_app_l by (rewrite list_set_length; exact Hjl).
        rewrite list_set_twice. f_equal. unfold wait_state. destruct (actionable w); reflexivity.
    - destruct Hpost as (h & n' & Eres & Hneg & Hn').
      eexists. split.
      + simpl. exists h, n'. split; [reflexivity|]. split; [exact Hneg|exact Hn'].
      + exists F. intros g Hg. rewrite Hproc, (HF g Hg), Eres. cbn [bind].
        replace (f_head (fs_head fs1 h) <? 0) with true by (symmetry; apply Z.ltb_lt; simpl; lia).
        simpl st_fss. rewrite list_set_twice. reflexivity.
    - subst res. exists Exc. split; [reflexivity|]. exists F. intros g Hg. rewrite Hproc, (HF g Hg). reflexivity.
  Qed.

  (* ---------------------------------------------------------------- unwinding a completed stack *)

  Definition fss_ok (s : state) : Prop :=
    NoDup (map f_uid (st_fss s)) /\
    Forall (fun x => (f_uid x < st_uid s)%N) (st_fss s) /\
    Forall (fun x => exists b, flow_body (f_flow x) = Some b) (st_fss s).

  Definition resume_stk (fuel : nat) (c u : ctx) (ks : list kont) : xres :=
    match ks with [] => XEnd c u | k1 :: ks' => resume (all_flows p) fuel c u k1 ks' end.

  Definition unwound (r : xres) (s : state) (i : nat) (ch : bool) : Prop :=
    match r with
    | XEnd c' u' => exists s', loops_to s i ch (Ok s') /\ st_ctx s' = c' /\ st_upd s' = u' /\ st_next s' = None /\
                               fss_ok s' /\ Forall dead (st_fss s')
    | XWait w kw stk c' u' =>
        exists s', loops_to s i ch (Ok s') /\ st_ctx s' = c' /\ st_upd s' = u' /\
                   st_next s' = (if actionable w then Some (elem_of_wait w) else None) /\
                   fss_ok s' /\ stack_in (st_fss s') w kw stk /\
                   (forall fl, has_flow (st_fss s) fl = true -> has_flow (st_fss s') fl = true)
    | XExc => loops_to s i ch Exc
    | XFuel => False
    end.

  Lemma resume_unwind : forall tl ks a s i ch fuel c u r,
    fss_ok s ->
    (exists A, In A (st_fss s) /\ f_uid A = a /\ f_status A = Completed) ->
    itail a tl ks ->
    (forall t, In t tl -> In t (st_fss s)) ->
    (forall x, In x (st_fss s) -> dead x \/ In x tl) ->
    NoDup (map f_uid tl) -> ~ In a (map f_uid tl) ->
    (forall d, tl <> [] -> f_flow (last tl d) = p_id p) ->
    st_ctx s = c -> st_upd s = u -> st_next s = None ->
    (i = 0%nat \/ ch = true) ->
    resume_stk fuel c u ks = r -> r <> XFuel ->
    unwound r s i ch.
  Proof.
    induction tl as [|t tl IH]; intros ks a s i ch fuel c u r Hok HA Hit Hin Hothers Hndt Hna Hbot Hc Hu Hn Hich Hr Hnf.
    - inversion Hit; subst. simpl. exists s.
      split; [|split; [reflexivity|split; [reflexivity|split; [exact Hn|split; [exact Hok|]]]]].
      + apply loops_quiet. intros j x _ Hx. left.
        destruct (Hothers x (nth_error_In _ _ Hx)) as [Hd|[]]. apply dead_not_interrupted. exact Hd.
      + apply Forall_forall. intros x Hx. destruct (Hothers x Hx) as [Hd|[]]. exact Hd.
    - revert Hr Hnf. inversion Hit as [|? ? k1 ? ks0 Hint Hit']; subst. intros Hr Hnf.
      destruct HA as (A & HAin & HAu & HAs). subst a.
      destruct Hok as (Hnd & Hbnd & Hflows).
      destruct (In_nth_error _ _ (Hin t (or_introl eq_refl))) as (j & Hj).
      assert (Hjl : (j < List.length (st_fss s))%nat) by (apply nth_error_Some; congruence).
      pose proof Hint as (Hts & Htib & Htb).
      assert (Hv : verdict (st_fss s) t = (true, false)).
      { unfold verdict. rewrite Htib, (find_uid_in _ A Hnd HAin), HAs. reflexivity. }
      simpl in Hndt. apply NoDup_cons_iff in Hndt. destruct Hndt as [Htn Hndt'].
      simpl in Hr. destruct fuel as [|f]; [simpl in Hr; congruence|].
      cbn [resume] in Hr.
      remember (exec (all_flows p) (S f) (st_ctx s) (st_upd s) [] k1) as r1 eqn:Er1. symmetry in Er1.
      assert (Hr1nf : r1 <> XFuel) by (intros E; rewrite E in Hr; congruence).
      destruct (process_resume (S f) s j t k1 (f_uid A) false _ _ r1 Hj Hv Hint eq_refl eq_refl Hn Er1 Hr1nf)
        as (pr & Hres & Hevp).
      (* the quietness of the other flow states and the loop step, common to all cases *)
      assert (Hstep : forall r', (exists F, forall f1 f2, (F <= f1)%nat -> (F <= f2)%nat ->
                          bind (process f1 s j t) (fun s2 => finish f1 f2 s2 (S j) true) = r') ->
                        loops_to s i ch r').
      { intros r' Hex. apply (loops_step s j t r' i ch Hj).
        - rewrite Hts. reflexivity.
        - rewrite Hv. congruence.
        - intros j' y Hne Hy.
          destruct (Hothers y (nth_error_In _ _ Hy)) as [Hd|[E|Hy']].
          + left. apply dead_not_interrupted. exact Hd.
          + subst y. exfalso. apply Hne. apply (nth_error_uid_inj (st_fss s) j' j t t Hnd Hy Hj eq_refl).
          + apply (tail_others_quiet (st_fss s) (f_uid A) t k1 tl ks0 y Hnd Hit Hin Hy').
        - intros Hlt. destruct Hich as [E|E]; [lia|exact E].
        - exact Hex. }
      destruct r1 as [w kw stk1 c' u'|c' u'| |]; simpl in Hres; try contradiction.
      + (* the resumed caller blocks: the stack is t's new top plus the remaining callers *)
        subst r. destruct Hres as (pushed & fs' & n' & Epr & Hch & Hu' & Hf' & Hn' & Hbd & Hndp).
        set (L := list_set (st_fss s) j fs' ++ pushed).
        set (s2 := st_set_fss (wait_state s c' u' n' pushed w (first_uid (pushed ++ [fs']) 0%N)) L) in *.
        assert (Hmapu : map f_uid (list_set (st_fss s) j fs') = map f_uid (st_fss s)).
        { apply list_set_map; [exact Hjl|]. intros x Hx. rewrite Hj in Hx. inversion Hx; subst. exact Hu'. }
        assert (Hmapf : map f_flow (list_set (st_fss s) j fs') = map f_flow (st_fss s)).
        { apply list_set_map; [exact Hjl|]. intros x Hx. rewrite Hj in Hx. inversion Hx; subst. exact Hf'. }
        assert (HndL : NoDup (map f_uid L)).
        { unfold L. rewrite map_app, Hmapu. apply (NoDup_app_bounds _ _ (st_uid s)); auto.
          - intros x Hx. apply in_map_iff in Hx. destruct Hx as (y & E & Hy). subst x.
            rewrite Forall_forall in Hbnd. apply Hbnd. exact Hy.
          - intros x Hx. apply in_map_iff in Hx. destruct Hx as (y & E & Hy). subst x.
            rewrite Forall_forall in Hbd. apply Hbd. exact Hy. }
        assert (Hstack : stack_in L w kw (stk1 ++ ks0)).
        { apply (stack_glue L pushed fs' w kw stk1 tl ks0).
          - rewrite Hu'. exact Hch.
          - rewrite Hu'. exact Hit'.
          - intros x Hx. unfold L in Hx. apply in_app_or in Hx. destruct Hx as [Hx|Hx]; [|right; left; exact Hx].
            destruct (list_set_in _ _ _ _ Hx) as [E|(jx & Hne & Hjx)]; [right; right; left; exact E|].
            destruct (Hothers x (nth_error_In _ _ Hjx)) as [Hd|[E|Hx']]; [left; exact Hd| |right; right; right; exact Hx'].
            subst x. exfalso. apply Hne. apply (nth_error_uid_inj (st_fss s) jx j t t Hnd Hjx Hj eq_refl).
          - intros x [Hx|[E|Hx]]; unfold L; apply in_or_app.
            + right; exact Hx.
            + left. subst x. apply in_list_set_same. exact Hjl.
            + left. destruct (In_nth_error _ _ (Hin x (or_intror Hx))) as (jx & Hjx).
              apply (in_list_set_other _ j fs' x jx); [|exact Hjx].
              intros E. subst jx. rewrite Hj in Hjx. inversion Hjx; subst x.
              apply Htn. apply in_map. exact Hx.
          - rewrite map_app. simpl map. rewrite Hu'.
            assert (Hnd2 : NoDup (f_uid t :: map f_uid tl)) by (constructor; assumption).
            rewrite <- (rev_involutive (map f_uid pushed)).
            apply NoDup_app_sym_bounds with (n := st_uid s); auto.
            + apply NoDup_rev. exact Hndp.
            + intros x Hx. destruct Hx as [E|Hx].
              * subst x. rewrite Forall_forall in Hbnd. apply Hbnd. apply (Hin t). left; reflexivity.
              * apply in_map_iff in Hx. destruct Hx as (y & E & Hy). subst x.
                rewrite Forall_forall in Hbnd. apply Hbnd. apply (Hin y). right; exact Hy.
            + intros x Hx. apply in_rev in Hx. apply in_map_iff in Hx. destruct Hx as (y & E & Hy). subst x.
              rewrite Forall_forall in Hbd. apply Hbd. exact Hy.
          - destruct tl as [|t2 tl2].
            + simpl. rewrite Hf'. apply (Hbot t). discriminate.
            + rewrite <- (Hbot fs'); [|discriminate]. reflexivity. }
        simpl. exists s2. split; [|split; [|split; [|split; [|split; [|split]]]]].
        * apply Hstep. destruct Hevp as (F & HF).
          assert (Hq : loops_to s2 (S j) true (Ok s2)).
          { apply loops_quiet. intros j' x _ Hx. apply (stack_quiet L w kw (stk1 ++ ks0) HndL Hstack).
            apply (nth_error_In _ _ Hx). }
          destruct Hq as (F2 & HF2). exists (Nat.max F F2). intros f1 f2 H1 H2.
          rewrite (HF f1) by lia. rewrite Epr. cbn [bind]. apply HF2; lia.
        * unfold s2, wait_state. destruct (actionable w); reflexivity.
        * unfold s2, wait_state. destruct (actionable w); reflexivity.
        * unfold s2, wait_state. destruct (actionable w); simpl; auto.
        * unfold fss_ok. replace (st_fss s2) with L by (unfold s2, wait_state; destruct (actionable w); reflexivity).
          replace (st_uid s2) with n' by (unfold s2, wait_state; destruct (actionable w); reflexivity).
          split; [exact HndL|]. split.
          -- unfold L. apply Forall_app. split.
             ++ apply Forall_forall. intros x Hx. destruct (list_set_in _ _ _ _ Hx) as [E|(jx & _ & Hjx)].
                ** subst x. rewrite Hu'. rewrite Forall_forall in Hbnd. specialize (Hbnd t (nth_error_In _ _ Hj)). lia.
                ** rewrite Forall_forall in Hbnd. specialize (Hbnd x (nth_error_In _ _ Hjx)). lia.
             ++ eapply Forall_impl; [|exact Hbd]. simpl. intros x Hx. lia.
          -- unfold L. apply Forall_app. split.
             ++ apply Forall_forall. intros x Hx. destruct (list_set_in _ _ _ _ Hx) as [E|(jx & _ & Hjx)].
                ** subst x. rewrite Hf'. rewrite Forall_forall in Hflows. apply (Hflows t (nth_error_In _ _ Hj)).
                ** rewrite Forall_forall in Hflows. apply (Hflows x (nth_error_In _ _ Hjx)).
             ++ pose proof (chain_flows _ _ _ _ _ Hch) as Hcf. apply Forall_app in Hcf. destruct Hcf as [Hcf _]. exact Hcf.
        * replace (st_fss s2) with L by (unfold s2, wait_state; destruct (actionable w); reflexivity). exact Hstack.
        * intros fl Hfl. replace (st_fss s2) with L by (unfold s2, wait_state; destruct (actionable w); reflexivity).
          unfold L. rewrite has_flow_app, (has_flow_map _ _ fl Hmapf), Hfl. reflexivity.
      + (* the resumed caller runs to its end: go on with its own caller *)
        destruct Hres as (h & n' & Epr & Hneg & Hn').
        set (tC := fs_status (fs_head (fs_intby (fs_status t Active) None) h) Completed) in *.
        set (s2 := st_set_fss (end_state s c' u' n') (list_set (st_fss s) j tC)) in *.
        assert (Hmapu : map f_uid (st_fss s2) = map f_uid (st_fss s)).
        { simpl. apply list_set_map; [exact Hjl|]. intros x Hx. rewrite Hj in Hx. inversion Hx; subst. reflexivity. }
        assert (Hmapf : map f_flow (st_fss s2) = map f_flow (st_fss s)).
        { simpl. apply list_set_map; [exact Hjl|]. intros x Hx. rewrite Hj in Hx. inversion Hx; subst. reflexivity. }
        assert (Hr' : resume_stk f c' u' ks0 = r) by (destruct ks0; exact Hr).
        assert (HIH : unwound r s2 (S j) true).
        { apply (IH ks0 (f_uid t) s2 (S j) true f c' u' r); auto.
          - unfold fss_ok. rewrite Hmapu. split; [exact Hnd|]. split.
            + simpl. apply Forall_forall. intros x Hx. destruct (list_set_in _ _ _ _ Hx) as [E|(jx & _ & Hjx)].
              * subst x. simpl. rewrite Forall_forall in Hbnd. specialize (Hbnd t (nth_error_In _ _ Hj)). lia.
              * rewrite Forall_forall in Hbnd. specialize (Hbnd x (nth_error_In _ _ Hjx)). lia.
            + simpl. apply Forall_forall. intros x Hx. destruct (list_set_in _ _ _ _ Hx) as [E|(jx & _ & Hjx)].
              * subst x. simpl. rewrite Forall_forall in Hflows. apply (Hflows t (nth_error_In _ _ Hj)).
              * rewrite Forall_forall in Hflows. apply (Hflows x (nth_error_In _ _ Hjx)).
          - exists tC. split; [apply in_list_set_same; exact Hjl|]. split; reflexivity.
          - intros x Hx. destruct (In_nth_error _ _ (Hin x (or_intror Hx))) as (jx & Hjx).
            apply (in_list_set_other _ j tC x jx); [|exact Hjx].
            intros E. subst jx. rewrite Hj in Hjx. inversion Hjx; subst x.
            apply Htn. apply in_map. exact Hx.
          - intros x Hx. simpl in Hx. destruct (list_set_in _ _ _ _ Hx) as [E|(jx & Hne & Hjx)].
            + subst x. left. left. reflexivity.
            + destruct (Hothers x (nth_error_In _ _ Hjx)) as [Hd|[E|Hx']]; [left; exact Hd| |right; exact Hx'].
              subst x. exfalso. apply Hne. apply (nth_error_uid_inj (st_fss s) jx j t t Hnd Hjx Hj eq_refl).
          - intros d Hne. rewrite <- (Hbot d); [|discriminate]. destruct tl; [congruence|reflexivity]. }
        assert (Hlift : forall r', loops_to s2 (S j) true r' -> loops_to s i ch r').
        { intros r' (F2 & HF2). apply Hstep. destruct Hevp as (F & HF). exists (Nat.max F F2). intros f1 f2 H1 H2.
          rewrite (HF f1) by lia. rewrite Epr. cbn [bind]. apply HF2; lia. }
        destruct r as [w kw stk c3 u3|c3 u3| |]; simpl in HIH |- *; try contradiction.
        * destruct HIH as (s' & Hl & H1 & H2 & H3 & H4 & H5 & H6). exists s'.
          split; [apply Hlift; exact Hl|]. split; [exact H1|]. split; [exact H2|]. split; [exact H3|].
          split; [exact H4|]. split; [exact H5|].
          intros fl Hfl. apply H6.
          transitivity (has_flow (st_fss s) fl); [apply (has_flow_map (st_fss s2) (st_fss s) fl Hmapf)|exact Hfl].
        * destruct HIH as (s' & Hl & H1 & H2 & H3 & H4 & H5). exists s'.
          split; [apply Hlift; exact Hl|]. split; [exact H1|]. split; [exact H2|]. split; [exact H3|].
          split; [exact H4|exact H5].
        * apply Hlift. exact HIH.
      + (* exception while resuming *)
        subst r pr. simpl. apply Hstep. destruct Hevp as (F & HF). exists F. intros f1 f2 H1 H2.
        rewrite (HF f1) by lia. reflexivity.
  Qed.

  (* ---------------------------------------------------------------- phase 1 on a list in any order *)

  Definition is_int (fs : fstate) : bool := status_eqb (f_status fs) Interrupted.
  Definition kept (l : list fstate) : list fstate := filter is_int l.

  Lemma phase1_app : forall f ev l1 l2 s ext,
    phase1 o f cs ev (l1 ++ l2) s ext =
    bind (phase1 o f cs ev l1 s ext) (fun r => let '(s1, e1) := r in phase1 o f cs ev l2 s1 e1).
  Proof.
    intros f ev. induction l1 as [|x l1 IH]; intros l2 s ext; [reflexivity|].
    simpl app. cbn [phase1].
    destruct (f_status x); try apply IH.
    destruct (find_config cs (f_flow x)) as [cfg|]; cbn [of_opt bind]; [|reflexivity].
    destruct (pyidx (fc_elems cfg) (f_head x)) as [hel|]; cbn [of_opt bind]; [|reflexivity].
    destruct (negb (string_in (event_type ev) (fc_triggers cfg))).
    - destruct (record_next_step (st_push s x) x cfg q09); cbn [bind]; [apply IH|reflexivity|reflexivity].
    - match goal with |- bind ?X _ = _ => destruct X as [mh| |] end; cbn [bind]; try reflexivity.
      match goal with |- match ?X with _ => _ end = _ => destruct X as [m|] end.
      + destruct (sws o f cs s (fs_head x m)) as [[s1 fs1]| |]; cbn [bind]; try reflexivity.
        destruct (f_head fs1 <? 0); apply IH.
      + match goal with |- (if ?X then _ else _) = _ => destruct X end; apply IH.
  Qed.

  Lemma phase1_inactive : forall f ev l s ext,
    Forall (fun fs => f_status fs <> Active) l ->
    phase1 o f cs ev l s ext = Ok (st_set_fss s (st_fss s ++ kept l), ext).
  Proof.
    intros f ev l. induction l as [|x l IH]; intros s ext H.
    - simpl. rewrite app_nil_r, st_set_fss_same. reflexivity.
    - inversion H as [|? ? Hx Hl]; subst. cbn [phase1]. unfold kept. cbn [filter]. unfold is_int at 1.
      destruct (f_status x) eqn:E; try congruence; cbn [status_eqb].
      + rewrite (IH _ _ Hl). unfold st_push, st_set_fss. simpl. rewrite <- app_assoc. reflexivity.
      + apply IH. exact Hl.
      + apply IH. exact Hl.
  Qed.

  (* phase 1 on the flow state that waits on statement w *)
  Lemma phase1_one : forall f ev fs w b s0,
    f_status fs = Active -> flow_body (f_flow fs) = Some b ->
    instr (code b) (f_head fs) = Some (elem_of_wait w) -> wf_wait w ->
    phase1 o f cs ev [fs] s0 false =
    if negb (string_in (event_type ev) default_triggers) then
      bind (record_next_step (st_push s0 fs) fs (cfg_of (f_flow fs) b) q09) (fun s1 => Ok (s1, false))
    else if wait_match w ev then
      bind (sws o f cs s0 (fs_head fs (f_head fs + 1))) (fun r =>
        let '(s1, fs1) := r in
        if f_head fs1 <? 0 then Ok (st_push s1 (fs_status fs1 Completed), false)
        else Ok (st_push s1 fs1, false))
    else if actionable w then Ok (st_push s0 (fs_status fs Aborted), false)
    else Ok (st_push s0 (fs_status fs Interrupted), false).
  Proof.
    intros f ev fs w b s0 Hst Hb Hi Hw.
    pose proof (instr_lt _ _ _ Hi) as Hrg.
    pose proof (instr_pyidx _ _ _ (proj1 Hrg) Hi) as Hpy.
    cbn [phase1]. rewrite Hst, (find_cfg _ _ Hb). cbn [of_opt bind].
    change (fc_elems (cfg_of (f_flow fs) b)) with (code b).
    rewrite Hpy. cbn [of_opt bind]. change (fc_triggers (cfg_of (f_flow fs) b)) with default_triggers.
    destruct (negb (string_in (event_type ev) default_triggers)).
    - destruct (record_next_step (st_push s0 fs) fs (cfg_of (f_flow fs) b) q09); reflexivity.
    - pose proof (is_match_wait w ev Hw) as Hm. pose proof (is_actionable_wait w Hw) as Ha.
      assert (Hz : (f_head fs + 1 =? 0) = false) by (apply Z.eqb_neq; lia).
      destruct w; cbn [elem_of_wait] in *; rewrite Hm; destruct (wait_match _ ev); cbn [bind];
        try rewrite Hz; try rewrite Ha; cbn [bind orb negb];
        try (destruct (sws o f cs s0 (fs_head fs (f_head fs + 1))) as [[s1 fs1]| |]; cbn [bind]; try reflexivity;
             destruct (f_head fs1 <? 0); reflexivity);
        try (simpl fc_interruptible; cbn [negb orb]; destruct (actionable _); reflexivity).
  Qed.

  (* ---------------------------------------------------------------- after the two loops over flows *)

  Lemma fs_intby_same : forall fs, f_intby fs = None -> fs_intby fs None = fs.
  Proof. intros [u fl h st ib] H; simpl in *; subst; reflexivity. Qed.

  Lemma assign_intby_id_g : forall s,
    (forall x, In x (st_fss s) -> is_int x = true -> f_intby x = None -> st_by s = None) ->
    assign_intby s = s.
  Proof.
    intros s H. unfold assign_intby.
    replace (map _ (st_fss s)) with (st_fss s); [apply st_set_fss_same|].
    assert (G : forall l, (forall x, In x l -> is_int x = true -> f_intby x = None -> st_by s = None) ->
                l = map (fun fs => if status_eqb (f_status fs) Interrupted &&
                                     match f_intby fs with None => true | Some _ => false end
                                   then fs_intby fs (st_by s) else fs) l).
    { induction l as [|x l IH]; intros Hl; [reflexivity|]. simpl. f_equal.
      - destruct (status_eqb (f_status x) Interrupted) eqn:E1; [|reflexivity].
        destruct (f_intby x) eqn:E2; [reflexivity|]. simpl.
        rewrite (Hl x (or_introl eq_refl) E1 E2). symmetry. apply fs_intby_same. exact E2.
      - apply IH. intros y Hy. apply Hl. right; exact Hy. }
    apply G. exact H.
  Qed.

  Lemma cns_tail_loop : forall f s,
    (forall x, In x (st_fss s) -> is_int x = true -> f_intby x = None -> st_by s = None) ->
    Forall (fun x => exists b, flow_body (f_flow x) = Some b) (st_fss s) ->
    cns_tail p o f s false = resume_loop o f cs s.
  Proof.
    intros f s Hai Hfl. unfold cns_tail. cbn [bind]. rewrite (assign_intby_id_g s Hai).
    destruct (decision_flow s) as [dfs|] eqn:Ed; [|reflexivity].
    apply decision_flow_in in Ed. rewrite Forall_forall in Hfl. destruct (Hfl _ Ed) as (b & Hb).
    fold cs. rewrite (find_cfg _ _ Hb). cbn [of_opt bind]. reflexivity.
  Qed.

  (* ---------------------------------------------------------------- where the running flow state sits *)

  Lemma stack_partition : forall L w k stk f0 tl,
    NoDup (map f_uid L) ->
    active_at f0 w k -> itail (f_uid f0) tl stk ->
    (forall x, In x (f0 :: tl) -> In x L) ->
    (forall x, In x L -> dead x \/ In x (f0 :: tl)) ->
    NoDup (map f_uid (f0 :: tl)) ->
    exists l1 l2, L = l1 ++ f0 :: l2 /\
      Forall (fun fs => f_status fs <> Active) l1 /\ Forall (fun fs => f_status fs <> Active) l2 /\
      (forall x, In x (kept l1 ++ kept l2) <-> In x tl) /\
      NoDup (map f_uid (kept l1 ++ kept l2)) /\
      ~ In (f_uid f0) (map f_uid (kept l1 ++ kept l2)).
  Proof.
    intros L w k stk f0 tl Hnd Ha Hit Hsub Hsup Hndl.
    destruct (in_split _ _ (Hsub f0 (or_introl eq_refl))) as (l1 & l2 & EL). subst L.
    assert (Hnd' : NoDup (map f_uid (l1 ++ l2)) /\ ~ In (f_uid f0) (map f_uid (l1 ++ l2))).
    { rewrite map_app in Hnd. simpl in Hnd. rewrite map_app. split.
      - apply NoDup_remove_1 in Hnd. exact Hnd.
      - apply NoDup_remove_2 in Hnd. exact Hnd. }
    destruct Hnd' as [Hnd12 Hf0].
    inversion Hndl as [|? ? Hf0tl Hndtl]; subst.
    pose proof (itail_statuses _ _ _ Hit) as Hst. rewrite Forall_forall in Hst.
    assert (Hel : forall x, In x (l1 ++ l2) -> dead x \/ In x tl).
    { intros x Hx. assert (HxL : In x (l1 ++ f0 :: l2)).
      { apply in_app_or in Hx. apply in_or_app. destruct Hx; [left|right; right]; assumption. }
      destruct (Hsup x HxL) as [Hd|[E|Ht]]; [left; exact Hd| |right; exact Ht].
      subst x. exfalso. apply Hf0. apply in_map. exact Hx. }
    assert (Hna : forall x, In x (l1 ++ l2) -> f_status x <> Active).
    { intros x Hx. destruct (Hel x Hx) as [[E|E]|Ht]; [rewrite E; discriminate|rewrite E; discriminate|].
      rewrite (Hst _ Ht). discriminate. }
    exists l1, l2. split; [reflexivity|]. split; [|split; [|split; [|split]]].
    - apply Forall_forall. intros x Hx. apply Hna. apply in_or_app. left; exact Hx.
    - apply Forall_forall. intros x Hx. apply Hna. apply in_or_app. right; exact Hx.
    - intros x. unfold kept. rewrite <- filter_app. rewrite filter_In. split.
      + intros [Hx Hi]. destruct (Hel x Hx) as [Hd|Ht]; [|exact Ht].
        unfold is_int in Hi. rewrite (dead_not_interrupted _ Hd) in Hi. discriminate.
      + intros Ht. split.
        * assert (HxL := Hsub x (or_intror Ht)). apply in_app_or in HxL. apply in_or_app.
          destruct HxL as [H|[E|H]]; [left; exact H| |right; exact H].
          subst x. exfalso. apply Hf0tl. apply in_map. exact Ht.
        * unfold is_int. rewrite (Hst _ Ht). reflexivity.
    - unfold kept. rewrite <- filter_app. apply NoDup_map_filter. exact Hnd12.
    - unfold kept. rewrite <- filter_app. intros Hin. apply Hf0.
      apply in_map_iff in Hin. destruct Hin as (y & E & Hy). apply filter_In in Hy. destruct Hy as [Hy _].
      rewrite <- E. apply in_map. exact Hy.
  Qed.

  (* the resume loop on a stack in which nothing is to be resumed *)
  Lemma resume_loop_noint_g : forall s w k stk f,
    NoDup (map f_uid (st_fss s)) -> stack_in (st_fss s) w k stk ->
    (List.length (st_fss s) + 2 < f)%nat ->
    resume_loop o f cs s = Ok s.
  Proof.
    intros s w k stk f Hnd Hst Hf.
    assert (Hq : quiet_from s 0).
    { intros j x _ Hx. apply (stack_quiet (st_fss s) w k stk Hnd Hst). apply (nth_error_In _ _ Hx). }
    destruct f as [|f]; [lia|]. rewrite resume_loop_finish. unfold finish.
    rewrite (resume_pass_quiet s (List.length (st_fss s)) 0 (S f) false Hq); [reflexivity|lia|lia].
  Qed.

  (* ---------------------------------------------------------------- the simulation relation *)

  Definition R_g (s : state) (sp : spec_state) : Prop :=
    st_ctx s = sp_ctx sp /\ st_upd s = sp_upd sp /\
    st_next s = option_map elem_of_wait (sp_next sp) /\
    (forall w, sp_next sp = Some w -> wf_wait w /\ actionable w = true) /\
    fss_ok s /\
    match sp_st sp with
    | Idle => Forall dead (st_fss s)
    | Run w k stk => stack_in (st_fss s) w k stk
    end.

  Definition res_rel_g (flat : nat -> res state) (spec : res spec_state) : Prop :=
    match spec with
    | Ok sp' => exists s', R_g s' sp' /\ evl flat (Ok s')
    | Exc => evl flat Exc
    | Fuel => True
    end.

  Lemma slide_stays_g : forall C f pc c u el,
    instr C pc = Some el -> slide_elem el pc c u = StStay -> slide (S f) C pc c u = SOk pc c u.
  Proof.
    intros C f pc c u el Hi He. unfold slide. simpl. destruct (instr_nth _ _ _ Hi) as [E1 E2].
    rewrite E1, E2, He. reflexivity.
  Qed.

  Lemma sws_at_wait_g : forall f s fs w b,
    flow_body (f_flow fs) = Some b -> instr (code b) (f_head fs) = Some (elem_of_wait w) ->
    sws o (S (S f)) cs s fs =
    bind (record_next_step (st_set_ctx s (st_ctx s) (st_upd s)) (fs_head fs (f_head fs)) (cfg_of (f_flow fs) b) 1)
         (fun s2 => Ok (s2, fs_head fs (f_head fs))).
  Proof.
    intros f s fs w b Hb Hi.
    pose proof (instr_lt _ _ _ Hi) as Hrg.
    pose proof (instr_pyidx _ _ _ (proj1 Hrg) Hi) as Hpy.
    rewrite sws_S, (find_cfg _ _ Hb). cbn [of_opt bind]. change (fc_elems (cfg_of (f_flow fs) b)) with (code b).
    rewrite (slide_stays_g _ f _ _ _ _ Hi (slide_elem_wait _ _ _ _)). cbv zeta.
    replace (f_head fs >=? 0) with true by (symmetry; apply Z.geb_le; lia).
    rewrite Hpy. cbn [of_opt bind]. destruct w; reflexivity.
  Qed.

  Section RunCtx.
    Variables (s : state) (w : wait) (k : kont) (stk : list kont) (f0 : fstate) (tl l1 l2 : list fstate).
    Variables (b0 : list stmt) (lp0 : option (Z * Z)).
    Hypothesis Hok : fss_ok s.
    Hypothesis Hst0 : f_status f0 = Active.
    Hypothesis Hib0 : f_intby f0 = None.
    Hypothesis Hb0 : flow_body (f_flow f0) = Some b0.
    Hypothesis Hi0 : instr (code b0) (f_head f0) = Some (elem_of_wait w).
    Hypothesis Hw : wf_wait w.
    Hypothesis Hk0 : kmatch (code b0) k (f_head f0 + 1) lp0.
    Hypothesis Hit : itail (f_uid f0) tl stk.
    Hypothesis Hsub : forall x, In x (f0 :: tl) -> In x (st_fss s).
    Hypothesis Hndl : NoDup (map f_uid (f0 :: tl)).
    Hypothesis Hbot : f_flow (last tl f0) = p_id p.
    Hypothesis EL : st_fss s = l1 ++ f0 :: l2.
    Hypothesis Hna1 : Forall (fun fs => f_status fs <> Active) l1.
    Hypothesis Hna2 : Forall (fun fs => f_status fs <> Active) l2.
    Hypothesis Hkept : forall x, In x (kept l1 ++ kept l2) <-> In x tl.
    Hypothesis Hndk : NoDup (map f_uid (kept l1 ++ kept l2)).
    Hypothesis Hf0k : ~ In (f_uid f0) (map f_uid (kept l1 ++ kept l2)).

    Let ns : state := new_state_of s.
    Let sA : state := st_set_fss ns (kept l1).

    Lemma phase1_split : forall f ev,
      phase1 o f cs ev (st_fss s) ns false =
      bind (phase1 o f cs ev [f0] sA false) (fun r =>
      let '(sB, e) := r in Ok (st_set_fss sB (st_fss sB ++ kept l2), e)).
    Proof.
      intros f ev. rewrite EL. change (l1 ++ f0 :: l2) with (l1 ++ [f0] ++ l2).
      rewrite phase1_app, (phase1_inactive _ _ _ _ _ Hna1). cbn [bind]. change (st_fss ns ++ kept l1) with (kept l1).
      fold sA. rewrite phase1_app.
      destruct (phase1 o f cs ev [f0] sA false) as [[sB e]| |]; cbn [bind]; try reflexivity.
      apply phase1_inactive. exact Hna2.
    Qed.

    (* the new list of flow states: the kept callers around what became of f0 *)
    Lemma mid_has_main : forall mid,
      (exists x, In x mid /\ f_flow x = f_flow f0) ->
      has_flow (kept l1 ++ mid ++ kept l2) (p_id p) = true.
    Proof.
      intros mid (x & Hx & Hfx). unfold has_flow. apply existsb_exists.
      destruct tl as [|t tl'] eqn:Etl.
      - exists x. split; [apply in_or_app; right; apply in_or_app; left; exact Hx|].
        simpl in Hbot. rewrite Hfx, Hbot. apply String.eqb_refl.
      - exists (last (t :: tl') f0). split; [|rewrite Hbot; apply String.eqb_refl].
        assert (Hin : In (last (t :: tl') f0) (t :: tl')).
        { clear. generalize t. induction tl' as [|y l IH]; intros t0; [left; reflexivity|].
          right. change (last (t0 :: y :: l) f0) with (last (y :: l) f0). apply IH. }
        apply Hkept in Hin. apply in_app_or in Hin. apply in_or_app.
        destruct Hin as [H|H]; [left; exact H|right; apply in_or_app; right; exact H].
    Qed.

    Lemma cns_from_phase1 : forall f ev sB,
      plain_event ev ->
      phase1 o f cs ev [f0] sA false = Ok (sB, false) ->
      has_flow (st_fss sB ++ kept l2) (p_id p) = true ->
      compute_next_state o f cs s ev = cns_tail p o f (st_set_fss sB (st_fss sB ++ kept l2)) false.
    Proof.
      intros f ev sB Hpl H1 Hmain. unfold cs. rewrite (cns_unfold p o f s ev Hpl). fold cs. fold ns.
      rewrite phase1_split, H1. cbn [bind]. unfold cs. rewrite phase2_present by exact Hmain. reflexivity.
    Qed.

    Lemma cns_from_phase1_exc : forall f ev,
      plain_event ev ->
      phase1 o f cs ev [f0] sA false = Exc ->
      compute_next_state o f cs s ev = Exc.
    Proof.
      intros f ev Hpl H1. unfold cs. rewrite (cns_unfold p o f s ev Hpl). fold cs. fold ns.
      rewrite phase1_split, H1. reflexivity.
    Qed.

    Lemma kept_props : forall x, In x (kept l1 ++ kept l2) ->
      (f_uid x < st_uid s)%N /\ (exists b, flow_body (f_flow x) = Some b) /\ In x tl.
    Proof.
      intros x Hx. apply Hkept in Hx. destruct Hok as (_ & Hbnd & Hfl).
      rewrite Forall_forall in Hbnd, Hfl. pose proof (Hsub x (or_intror Hx)) as HxL. auto.
    Qed.

    (* bookkeeping facts of the new list *)
    Lemma newlist_ok : forall mid n',
      NoDup (map f_uid mid) ->
      (forall x, In x mid -> f_uid x = f_uid f0 \/ (st_uid s <= f_uid x)%N) ->
      (forall x, In x mid -> (f_uid x < n')%N) ->
      (forall x, In x mid -> exists b, flow_body (f_flow x) = Some b) ->
      (st_uid s <= n')%N ->
      NoDup (map f_uid (kept l1 ++ mid ++ kept l2)) /\
      Forall (fun x => (f_uid x < n')%N) (kept l1 ++ mid ++ kept l2) /\
      Forall (fun x => exists b, flow_body (f_flow x) = Some b) (kept l1 ++ mid ++ kept l2).
    Proof.
      intros mid n' Hndm Huid Hbm Hfm Hn'.
      assert (Hk : forall x, In x (kept l1) \/ In x (kept l2) -> In x (kept l1 ++ kept l2)).
      { intros x [H|H]; apply in_or_app; auto. }
      split; [|split].
      - rewrite !map_app. apply NoDup_mid; [rewrite <- map_app; exact Hndk|exact Hndm|].
        intros u Hu Hin. rewrite <- map_app in Hin.
        apply in_map_iff in Hu. destruct Hu as (x & E & Hx). subst u.
        destruct (Huid x Hx) as [E|Hge].
        + rewrite E in Hin. exact (Hf0k Hin).
        + apply in_map_iff in Hin. destruct Hin as (y & E & Hy).
          destruct (kept_props y Hy) as (Hlt & _). rewrite E in Hlt. lia.
      - apply Forall_forall. intros x Hx. apply in_app_or in Hx. destruct Hx as [Hx|Hx].
        + destruct (kept_props x (Hk x (or_introl Hx))) as (Hlt & _). lia.
        + apply in_app_or in Hx. destruct Hx as [Hx|Hx]; [apply Hbm; exact Hx|].
          destruct (kept_props x (Hk x (or_intror Hx))) as (Hlt & _). lia.
      - apply Forall_forall. intros x Hx. apply in_app_or in Hx. destruct Hx as [Hx|Hx].
        + destruct (kept_props x (Hk x (or_introl Hx))) as (_ & Hf & _). exact Hf.
        + apply in_app_or in Hx. destruct Hx as [Hx|Hx]; [apply Hfm; exact Hx|].
          destruct (kept_props x (Hk x (or_intror Hx))) as (_ & Hf & _). exact Hf.
    Qed.

    (* an interrupted flow state of a stack always names who interrupted it *)
    Lemma stack_int_has_intby : forall L w' k' stk', stack_in L w' k' stk' ->
      forall x, In x L -> is_int x = true -> f_intby x <> None.
    Proof.
      intros L w' k' stk' (g0 & tl' & Ha & Hit' & _ & Hsup & _) x Hx Hi.
      destruct (Hsup x Hx) as [Hd|[E|Ht]].
      - unfold is_int in Hi. rewrite (dead_not_interrupted _ Hd) in Hi. discriminate.
      - subst x. destruct Ha as (Hs & _). unfold is_int in Hi. rewrite Hs in Hi. discriminate.
      - destruct (itail_links _ _ _ Hit' x Ht) as (u & Hu & _). congruence.
    Qed.

    Lemma kept_int_has_intby : forall x, In x (kept l1 ++ kept l2) -> f_intby x <> None.
    Proof.
      intros x Hx. apply Hkept in Hx. destruct (itail_links _ _ _ Hit x Hx) as (u & Hu & _). congruence.
    Qed.

    Lemma tl_uid_facts : NoDup (map f_uid tl) /\ ~ In (f_uid f0) (map f_uid tl) /\
                         (forall d, tl <> [] -> f_flow (last tl d) = p_id p).
    Proof.
      inversion Hndl; subst. split; [assumption|]. split; [assumption|].
      intros d Hne. rewrite (last_default tl d f0 Hne). exact Hbot.
    Qed.

    Lemma tl_in_kept : forall x, In x tl -> In x (kept l1 ++ kept l2).
    Proof. intros x Hx. apply Hkept. exact Hx. Qed.

    (* the stack is unchanged: the new list holds f0 (or an equal copy g0) and the kept callers *)
    Lemma stack_same : forall g0 mid,
      f_status g0 = Active -> f_intby g0 = None -> f_uid g0 = f_uid f0 -> f_flow g0 = f_flow f0 ->
      f_head g0 = f_head f0 -> mid = [g0] ->
      stack_in (kept l1 ++ mid ++ kept l2) w k stk.
    Proof.
      intros g0 mid Hs Hi Hu Hf Hh Emid. subst mid.
      exists g0, tl. split; [|split; [|split; [|split; [|split]]]].
      - unfold active_at. split; [exact Hs|]. split; [exact Hi|]. exists b0, lp0.
        rewrite Hf, Hh. repeat split; auto.
      - rewrite Hu. exact Hit.
      - intros x [E|Hx].
        + subst x. apply in_or_app. right. left. reflexivity.
        + apply tl_in_kept in Hx. apply in_app_or in Hx. apply in_or_app.
          destruct Hx as [H|H]; [left; exact H|right; right; exact H].
      - intros x Hx. right. apply in_app_or in Hx. destruct Hx as [Hx|[E|Hx]].
        + right. apply Hkept. apply in_or_app. left; exact Hx.
        + left. auto.
        + right. apply Hkept. apply in_or_app. right; exact Hx.
      - simpl. rewrite Hu. exact Hndl.
      - destruct tl as [|t tl'] eqn:E; [simpl in *; rewrite Hf; exact Hbot|].
        rewrite (last_default (t :: tl') g0 f0); [exact Hbot|discriminate].
    Qed.

    Lemma app_mid_assoc : forall {A} (a m b : list A), (a ++ m) ++ b = a ++ m ++ b.
    Proof. intros. rewrite <- app_assoc. reflexivity. Qed.

    (* ---- the event's type does not trigger flows: everything stays, the pending step is proposed again *)
    Lemma run_nontrigger_g : forall ev,
      plain_event ev ->
      string_in (event_type ev) default_triggers = false ->
      res_rel_g (fun f => compute_next_state o f cs s ev)
                (Ok {| sp_st := Run w k stk; sp_ctx := st_ctx s; sp_upd := [];
                       sp_next := if actionable w then Some w else None |}).
    Proof.
      intros ev Hpl Htr.
      pose proof (instr_lt _ _ _ Hi0) as Hrg.
      pose proof (instr_pyidx _ _ _ (proj1 Hrg) Hi0) as Hpy.
      set (sB := if actionable w
                 then st_set_next (st_push sA f0) (Some (elem_of_wait w)) (Some (f_uid f0))
                                  (Qred (fc_priority (cfg_of (f_flow f0) b0) * q09))
                 else st_push sA f0).
      assert (Hrec : record_next_step (st_push sA f0) f0 (cfg_of (f_flow f0) b0) q09 = Ok sB).
      { rewrite (record_next_step_fresh _ _ _ _ (elem_of_wait w)); [|reflexivity|exact Hpy].
        rewrite (is_actionable_wait _ Hw). reflexivity. }
      assert (HfB : st_fss sB = kept l1 ++ [f0]) by (unfold sB; destruct (actionable w); reflexivity).
      set (L := kept l1 ++ [f0] ++ kept l2).
      set (s' := st_set_fss sB (st_fss sB ++ kept l2)).
      assert (HL : st_fss s' = L) by (unfold s'; simpl; rewrite HfB; apply app_mid_assoc).
      destruct (newlist_ok [f0] (st_uid s)) as (HndL & HbL & HflL).
      { constructor; [intros []|constructor]. }
      { intros x [E|[]]. subst x. left; reflexivity. }
      { intros x [E|[]]. subst x. destruct Hok as (_ & Hb & _). rewrite Forall_forall in Hb.
        apply Hb. apply Hsub. left; reflexivity. }
      { intros x [E|[]]. subst x. eauto. }
      { lia. }
      assert (Hstack : stack_in L w k stk) by (apply (stack_same f0 [f0]); auto).
      simpl. exists s'. split.
      - unfold R_g. cbn [sp_st sp_ctx sp_upd sp_next].
        split; [unfold s', sB; destruct (actionable w); reflexivity|].
        split; [unfold s', sB; destruct (actionable w); reflexivity|].
        split; [unfold s', sB; destruct (actionable w); reflexivity|].
        split; [intros w0 E; destruct (actionable w) eqn:Ea; inversion E; subst; auto|].
        split.
        + unfold fss_ok. rewrite HL. replace (st_uid s') with (st_uid s) by (unfold s', sB; destruct (actionable w); reflexivity).
          auto.
        + rewrite HL. exact Hstack.
      - exists (List.length L + 3)%nat. intros f Hf.
        rewrite (cns_from_phase1 f ev sB Hpl).
        + fold s'. rewrite cns_tail_loop.
          * apply resume_loop_noint_g with (w := w) (k := k) (stk := stk); rewrite ?HL; auto. lia.
          * rewrite HL. intros x Hx Hint Hnone. exfalso.
            exact (stack_int_has_intby L w k stk Hstack x Hx Hint Hnone).
          * rewrite HL. exact HflL.
        + rewrite (phase1_one f ev f0 w b0 sA Hst0 Hb0 Hi0 Hw), Htr. cbn [negb]. rewrite Hrec. reflexivity.
        + rewrite HfB, app_mid_assoc. apply mid_has_main. exists f0. split; [left; reflexivity|reflexivity].
    Qed.

    Lemma Forall_map_iff : forall {A B} (g : A -> B) (P : B -> Prop) (l : list A),
      Forall P (map g l) <-> Forall (fun x => P (g x)) l.
    Proof.
      intros A B g P l. induction l as [|x l IH]; simpl; split; intros H; try constructor;
        inversion H; subst; auto; apply IH; assumption.
    Qed.

    (* ---- an event the flow's own bot/execute step does not wait for: the whole stack is abandoned *)
    Lemma run_abort_g : forall ev,
      plain_event ev ->
      string_in (event_type ev) default_triggers = true ->
      wait_match w ev = false -> actionable w = true ->
      res_rel_g (fun f => compute_next_state o f cs s ev)
                (Ok {| sp_st := Idle; sp_ctx := st_ctx s; sp_upd := []; sp_next := None |}).
    Proof.
      intros ev Hpl Htr Hm Hact.
      set (fAb := fs_status f0 Aborted).
      set (sB := st_push sA fAb).
      set (L := kept l1 ++ [fAb] ++ kept l2).
      set (s2 := st_set_fss sB (st_fss sB ++ kept l2)).
      assert (HL : st_fss s2 = L) by (unfold s2, sB; simpl; apply app_mid_assoc).
      destruct (newlist_ok [fAb] (st_uid s)) as (HndL & HbL & HflL).
      { constructor; [intros []|constructor]. }
      { intros x [E|[]]. subst x. left; reflexivity. }
      { intros x [E|[]]. subst x. destruct Hok as (_ & Hb & _). rewrite Forall_forall in Hb.
        apply (Hb f0). apply Hsub. left; reflexivity. }
      { intros x [E|[]]. subst x. simpl. eauto. }
      { lia. }
      destruct tl_uid_facts as (Hndtl & Hf0tl & _).
      destruct (abort_unwind tl stk (f_uid f0) s2 0 false) as (s' & Hloop & Hmeta & Hmu & Hmf & Hdead).
      { rewrite HL. exact HndL. }
      { exists fAb. rewrite HL. split; [apply in_or_app; right; left; reflexivity|]. split; reflexivity. }
      { exact Hit. }
      { intros t Ht. rewrite HL. apply tl_in_kept in Ht. apply in_app_or in Ht. apply in_or_app.
        destruct Ht as [H|H]; [left; exact H|right; right; exact H]. }
      { intros x Hx. rewrite HL in Hx. apply in_app_or in Hx. destruct Hx as [Hx|[E|Hx]].
        - right. apply Hkept. apply in_or_app. left; exact Hx.
        - subst x. left. right. reflexivity.
        - right. apply Hkept. apply in_or_app. right; exact Hx. }
      { exact Hndtl. }
      { exact Hf0tl. }
      { left; reflexivity. }
      destruct Hmeta as (M1 & M2 & M3 & M4 & M5 & M6).
      simpl. exists s'. split.
      - unfold R_g. cbn [sp_st sp_ctx sp_upd sp_next]. simpl.
        split; [rewrite M1; reflexivity|]. split; [rewrite M2; reflexivity|]. split; [rewrite M3; reflexivity|].
        split; [intros w0 E; discriminate|]. split; [|exact Hdead].
        unfold fss_ok. rewrite Hmu, M6, HL. split; [exact HndL|]. split.
        + apply (Forall_map_iff f_uid (fun u => (u < st_uid s2)%N)). rewrite Hmu, HL.
          apply (Forall_map_iff f_uid (fun u => (u < st_uid s2)%N)). exact HbL.
        + apply (Forall_map_iff f_flow (fun fl => exists b, flow_body fl = Some b)). rewrite Hmf, HL.
          apply (Forall_map_iff f_flow (fun fl => exists b, flow_body fl = Some b)). exact HflL.
      - apply loops_to_loop in Hloop. destruct Hloop as (F & HF). exists F. intros f Hf.
        rewrite (cns_from_phase1 f ev sB Hpl).
        + fold s2. rewrite cns_tail_loop.
          * apply HF. exact Hf.
          * rewrite HL. intros x Hx Hint Hnone. exfalso. apply in_app_or in Hx. destruct Hx as [Hx|[E|Hx]].
            -- apply (kept_int_has_intby x); [apply in_or_app; left; exact Hx|exact Hnone].
            -- subst x. discriminate.
            -- apply (kept_int_has_intby x); [apply in_or_app; right; exact Hx|exact Hnone].
          * rewrite HL. exact HflL.
        + rewrite (phase1_one f ev f0 w b0 sA Hst0 Hb0 Hi0 Hw), Htr, Hm, Hact. reflexivity.
        + unfold sB. simpl. rewrite app_mid_assoc. apply mid_has_main. exists fAb. split; [left; reflexivity|reflexivity].
    Qed.

    (* ---- an event the flow does not wait for, while it waits for the user: it keeps waiting *)
    Lemma run_stay_g : forall ev,
      plain_event ev ->
      string_in (event_type ev) default_triggers = true ->
      wait_match w ev = false -> actionable w = false ->
      res_rel_g (fun f => compute_next_state o f cs s ev)
                (Ok {| sp_st := Run w k stk; sp_ctx := st_ctx s; sp_upd := []; sp_next := None |}).
    Proof.
      intros ev Hpl Htr Hm Hact.
      pose proof (instr_lt _ _ _ Hi0) as Hrg.
      pose proof (instr_pyidx _ _ _ (proj1 Hrg) Hi0) as Hpy.
      set (fI := fs_status f0 Interrupted).
      set (fA := fs_intby (fs_status fI Active) None).
      set (sB := st_push sA fI).
      set (L := kept l1 ++ [fI] ++ kept l2).
      set (L' := kept l1 ++ [fA] ++ kept l2).
      set (s2 := st_set_fss sB (st_fss sB ++ kept l2)).
      set (s' := st_set_fss s2 L').
      set (j := List.length (kept l1)).
      assert (HL : st_fss s2 = L) by (unfold s2, sB; simpl; apply app_mid_assoc).
      assert (Hmk : forall g, f_uid g = f_uid f0 -> f_flow g = f_flow f0 ->
                NoDup (map f_uid (kept l1 ++ [g] ++ kept l2)) /\
                Forall (fun x => (f_uid x < st_uid s)%N) (kept l1 ++ [g] ++ kept l2) /\
                Forall (fun x => exists b, flow_body (f_flow x) = Some b) (kept l1 ++ [g] ++ kept l2)).
      { intros g Hu Hf. apply (newlist_ok [g] (st_uid s)).
        - constructor; [intros []|constructor].
        - intros x [E|[]]. subst x. left; exact Hu.
        - intros x [E|[]]. subst x. rewrite Hu. destruct Hok as (_ & Hb & _). rewrite Forall_forall in Hb.
          apply (Hb f0). apply Hsub. left; reflexivity.
        - intros x [E|[]]. subst x. rewrite Hf. eauto.
        - lia. }
      destruct (Hmk fI eq_refl eq_refl) as (HndL & HbL & HflL).
      destruct (Hmk fA eq_refl eq_refl) as (HndL' & HbL' & HflL').
      assert (Hstack' : stack_in L' w k stk) by (apply (stack_same fA [fA]); auto).
      assert (Hj : nth_error (st_fss s2) j = Some fI) by (rewrite HL; apply nth_error_mid).
      assert (HjL : (j < List.length L)%nat).
      { unfold L, j. rewrite app_length. simpl. lia. }
      assert (Hset : list_set L j fA = L') by (apply list_set_mid).
      (* what the loop does to fI *)
      assert (Hproc : forall g, process (S (S g)) s2 j fI = Ok s').
      { intros g. unfold process. unfold verdict. change (f_intby fI) with (f_intby f0). rewrite Hib0.
        cbv iota beta zeta. fold fA. rewrite HL, Hset.
        rewrite (sws_at_wait_g g _ fA w b0 Hb0 Hi0), st_set_ctx_same, fs_head_same.
        rewrite (record_next_step_fresh _ _ _ _ (elem_of_wait w)); [|reflexivity|exact Hpy].
        rewrite (is_actionable_wait _ Hw), Hact. cbn [bind].
        replace (f_head fA <? 0) with false by (symmetry; apply Z.ltb_ge; simpl; lia).
        simpl st_fss. rewrite <- Hset, list_set_twice, Hset. reflexivity. }
      simpl. exists s'. split.
      - unfold R_g. cbn [sp_st sp_ctx sp_upd sp_next]. simpl.
        split; [reflexivity|]. split; [reflexivity|]. split; [reflexivity|].
        split; [intros w0 E; discriminate|]. split; [|exact Hstack'].
        unfold fss_ok. simpl. auto.
      - assert (Hloop : loops_to s2 0 false (Ok s')).
        { apply (loops_step s2 j fI (Ok s') 0 false Hj).
          - reflexivity.
          - unfold verdict. change (f_intby fI) with (f_intby f0). rewrite Hib0. congruence.
          - intros j' y Hne Hy. rewrite HL in Hy.
            assert (HyL : In y L) by (apply (nth_error_In _ _ Hy)).
            assert (Hyk : In y (kept l1 ++ kept l2)).
            { unfold L in HyL. apply in_app_or in HyL. apply in_or_app. destruct HyL as [H|[E|H]]; [left; exact H| |right; exact H].
              subst y. exfalso. apply Hne. rewrite <- HL in Hy. symmetry.
              apply (nth_error_uid_inj (st_fss s2) j j' fI fI); [rewrite HL; exact HndL|exact Hj|exact Hy|reflexivity]. }
            right. apply Hkept in Hyk.
            destruct (itail_links _ _ _ Hit y Hyk) as (u & Hu & Hcase).
            assert (Hg : exists g, In g L /\ f_uid g = u /\ f_status g = Interrupted).
            { destruct Hcase as [E|(t' & Ht' & Eu)].
              - exists fI. split; [apply in_or_app; right; left; reflexivity|]. split; [symmetry; exact E|reflexivity].
              - exists t'. split.
                + apply tl_in_kept in Ht'. apply in_app_or in Ht'. apply in_or_app.
                  destruct Ht' as [H|H]; [left; exact H|right; right; exact H].
                + split; [exact Eu|]. pose proof (itail_statuses _ _ _ Hit) as Hs. rewrite Forall_forall in Hs. apply Hs. exact Ht'. }
            destruct Hg as (g & HgL & Hgu & Hgs).
            unfold verdict. rewrite Hu, HL, <- Hgu, (find_uid_in L g HndL HgL), Hgs. reflexivity.
          - intros Hlt. lia.
          - assert (Hq : loops_to s' (S j) true (Ok s')).
            { apply loops_quiet. intros j' x _ Hx. apply (stack_quiet L' w k stk HndL' Hstack').
              apply (nth_error_In _ _ Hx). }
            destruct Hq as (F2 & HF2). exists (F2 + 2)%nat. intros f1 f2 H1 H2.
            destruct f1 as [|[|g]]; try lia. rewrite Hproc. cbn [bind]. apply HF2; lia. }
        apply loops_to_loop in Hloop. destruct Hloop as (F & HF). exists F. intros f Hf.
        rewrite (cns_from_phase1 f ev sB Hpl).
        + fold s2. rewrite cns_tail_loop.
          * apply HF. exact Hf.
          * intros x Hx Hint Hnone. reflexivity.
          * rewrite HL. exact HflL.
        + rewrite (phase1_one f ev f0 w b0 sA Hst0 Hb0 Hi0 Hw), Htr, Hm, Hact. reflexivity.
        + unfold sB. simpl. rewrite app_mid_assoc. apply mid_has_main. exists fI. split; [left; reflexivity|reflexivity].
    Qed.

    (* ---- the awaited event arrives: the flow advances, calls, returns *)
    Lemma run_match_g : forall fuel ev,
      plain_event ev ->
      string_in (event_type ev) default_triggers = true ->
      wait_match w ev = true ->
      res_rel_g (fun f => compute_next_state o f cs s ev)
                (of_xres (resume (all_flows p) fuel (st_ctx s) [] k stk)).
    Proof.
      intros fuel ev Hpl Htr Hm.
      destruct fuel as [|f']; [exact I|]. cbn [resume].
      remember (exec (all_flows p) (S f') (st_ctx s) [] [] k) as r1 eqn:Er1. symmetry in Er1.
      destruct (xres_fuel_dec r1) as [Efu|Hr1nf]; [subst r1; rewrite Efu; exact I|].
      pose proof (instr_lt _ _ _ Hi0) as Hrg.
      set (f0' := fs_head f0 (f_head f0 + 1)).
      assert (H1 : code_at (code b0) (f_head f0 + 1) (compile_block (rel lp0 (f_head f0 + 1)) [])).
      { simpl. apply code_at_nil. apply kmatch_range in Hk0. exact Hk0. }
      assert (H3 : kmatch (code b0) k (f_head f0 + 1 + bsize []) lp0).
      { simpl bsize. replace (f_head f0 + 1 + 0) with (f_head f0 + 1) by lia. exact Hk0. }
      destruct (sws_gen (S f') (st_ctx s) [] [] k r1 Er1 Hr1nf b0 (f_head f0 + 1) lp0 sA f0'
                        Hb0 H1 eq_refl H3 eq_refl eq_refl eq_refl eq_refl Hst0 Hib0)
        as (res & Hpost & Fs & HFs).
      assert (Hp1 : forall f, phase1 o f cs ev [f0] sA false =
                bind (sws o f cs sA f0') (fun r =>
                  let '(s1, fs1) := r in
                  if f_head fs1 <? 0 then Ok (st_push s1 (fs_status fs1 Completed), false)
                  else Ok (st_push s1 fs1, false))).
      { intros f. rewrite (phase1_one f ev f0 w b0 sA Hst0 Hb0 Hi0 Hw), Htr, Hm. reflexivity. }
      destruct tl_uid_facts as (Hndtl & Hf0tl & Hbottl).
      assert (Hf0bnd : (f_uid f0 < st_uid s)%N).
      { destruct Hok as (_ & Hb & _). rewrite Forall_forall in Hb. apply (Hb f0). apply Hsub. left; reflexivity. }
      destruct r1 as [w' kw stk1 c' u'|c' u'| |]; simpl in Hpost; try contradiction.
      - (* blocks again, possibly deeper *)
        destruct Hpost as (pushed & fs' & n' & Eres & Hch & Hu' & Hf' & Hn' & Hbd & Hndp).
        simpl in Hu', Hf', Hn', Hbd.
        pose proof (chain_last_head _ _ _ _ _ _ Hch) as Hhd.
        set (sW := wait_state sA c' u' n' pushed w' (first_uid (pushed ++ [fs']) 0%N)) in *.
        set (sB := st_push sW fs').
        set (L := kept l1 ++ (pushed ++ [fs']) ++ kept l2).
        set (s' := st_set_fss sB (st_fss sB ++ kept l2)).
        assert (HfB : st_fss sB = kept l1 ++ (pushed ++ [fs'])).
        { unfold sB, sW, st_push. simpl. rewrite wait_state_fss. simpl. rewrite <- app_assoc. reflexivity. }
        assert (HL : st_fss s' = L).
        { change (st_fss s') with (st_fss sB ++ kept l2). rewrite HfB. apply app_mid_assoc. }
        destruct (newlist_ok (pushed ++ [fs']) n') as (HndL & HbL & HflL).
        { rewrite map_app. simpl. apply NoDup_app_snoc_uid; [exact Hndp|].
          intros Hin. apply in_map_iff in Hin. destruct Hin as (y & E & Hy).
          rewrite Forall_forall in Hbd. specialize (Hbd y Hy). rewrite E, Hu' in Hbd. lia. }
        { intros x Hx. apply in_app_or in Hx. destruct Hx as [Hx|[E|[]]].
          - right. rewrite Forall_forall in Hbd. specialize (Hbd x Hx). lia.
          - subst x. left. exact Hu'. }
        { intros x Hx. apply in_app_or in Hx. destruct Hx as [Hx|[E|[]]].
          - rewrite Forall_forall in Hbd. specialize (Hbd x Hx). lia.
          - subst x. rewrite Hu'. lia. }
        { intros x Hx. pose proof (chain_flows _ _ _ _ _ Hch) as Hcf. rewrite Forall_forall in Hcf. apply Hcf. exact Hx. }
        { exact Hn'. }
        assert (Hstack : stack_in L w' kw (stk1 ++ stk)).
        { apply (stack_glue L pushed fs' w' kw stk1 tl stk).
          - rewrite Hu'. exact Hch.
          - rewrite Hu'. exact Hit.
          - intros x Hx. unfold L in Hx. apply in_app_or in Hx. destruct Hx as [Hx|Hx].
            + right. right. right. apply Hkept. apply in_or_app. left; exact Hx.
            + apply in_app_or in Hx. destruct Hx as [Hx|Hx].
              * apply in_app_or in Hx. destruct Hx as [Hx|[E|[]]]; [right; left; exact Hx|right; right; left; auto].
              * right. right. right. apply Hkept. apply in_or_app. right; exact Hx.
          - intros x [Hx|[E|Hx]]; unfold L; apply in_or_app.
            + right. apply in_or_app. left. apply in_or_app. left; exact Hx.
            + right. apply in_or_app. left. apply in_or_app. right. left. auto.
            + apply tl_in_kept in Hx. apply in_app_or in Hx. destruct Hx as [H|H]; [left; exact H|].
              right. apply in_or_app. right; exact H.
          - rewrite map_app. simpl map. rewrite Hu'.
            rewrite <- (rev_involutive (map f_uid pushed)).
            apply NoDup_app_sym_bounds with (n := st_uid s).
            + apply NoDup_rev. exact Hndp.
            + exact Hndl.
            + intros x [E|Hx]; [subst x; exact Hf0bnd|].
              apply in_map_iff in Hx. destruct Hx as (y & E & Hy). subst x.
              destruct Hok as (_ & Hb & _). rewrite Forall_forall in Hb. apply Hb. apply Hsub. right; exact Hy.
            + intros x Hx. apply in_rev in Hx. apply in_map_iff in Hx. destruct Hx as (y & E & Hy). subst x.
              rewrite Forall_forall in Hbd. specialize (Hbd y Hy). lia.
          - destruct tl as [|t tl'] eqn:Etl.
            + simpl. rewrite Hf'. exact Hbot.
            + rewrite (last_default (t :: tl') fs' f0); [exact Hbot|discriminate]. }
        cbn [of_xres]. simpl. exists s'. split.
        + unfold R_g. cbn [sp_st sp_ctx sp_upd sp_next].
          destruct (wait_state_ctx sA c' u' n' pushed w' (first_uid (pushed ++ [fs']) 0%N)) as (E1 & E2 & E3).
          split; [exact E1|]. split; [exact E2|]. split.
          * change (st_next s') with (st_next sW). unfold sW. rewrite wait_state_next by reflexivity.
            destruct (actionable w'); reflexivity.
          * split.
            -- intros w0 E. destruct (actionable w') eqn:Ea; inversion E; subst.
               split; [|exact Ea]. destruct (chain_split _ _ _ _ _ Hch) as (g0 & tl0 & _ & Ha0 & _).
               destruct Ha0 as (_ & _ & bb & lpp & _ & _ & Hww & _). exact Hww.
            -- split; [|rewrite HL; exact Hstack].
               unfold fss_ok. rewrite HL. change (st_uid s') with (st_uid sW). unfold sW. rewrite E3. auto.
        + exists (Nat.max Fs (List.length L + 3)). intros f Hf.
          rewrite (cns_from_phase1 f ev sB Hpl).
          * fold s'. rewrite cns_tail_loop.
            -- apply resume_loop_noint_g with (w := w') (k := kw) (stk := stk1 ++ stk); rewrite ?HL; auto. lia.
            -- rewrite HL. intros x Hx Hint Hnone. exfalso.
               exact (stack_int_has_intby L w' kw (stk1 ++ stk) Hstack x Hx Hint Hnone).
            -- rewrite HL. exact HflL.
          * rewrite Hp1, (HFs f) by lia. rewrite Eres. cbn [bind].
            replace (f_head fs' <? 0) with false by (symmetry; apply Z.ltb_ge; exact Hhd). reflexivity.
          * rewrite HfB, app_mid_assoc. apply mid_has_main. exists fs'.
            split; [apply in_or_app; right; left; reflexivity|exact Hf'].
      - (* the flow body ends: return to the callers *)
        destruct Hpost as (h & n' & Eres & Hneg & Hn'). simpl in Hn'.
        set (fC := fs_status (fs_head f0' h) Completed).
        set (sE := end_state sA c' u' n') in *.
        set (sB := st_push sE fC).
        set (L := kept l1 ++ [fC] ++ kept l2).
        set (s2 := st_set_fss sB (st_fss sB ++ kept l2)).
        assert (HL : st_fss s2 = L) by (unfold s2, sB; simpl; apply app_mid_assoc).
        destruct (newlist_ok [fC] n') as (HndL & HbL & HflL).
        { constructor; [intros []|constructor]. }
        { intros x [E|[]]. subst x. left; reflexivity. }
        { intros x [E|[]]. subst x. simpl. lia. }
        { intros x [E|[]]. subst x. simpl. eauto. }
        { exact Hn'. }
        remember (match stk with [] => XEnd c' u' | k2 :: stk2 => resume (all_flows p) f' c' u' k2 stk2 end) as rs eqn:Ers.
        destruct (xres_fuel_dec rs) as [Efu|Hrsnf]; [rewrite Efu; exact I|].
        assert (Hun : unwound rs s2 0 false).
        { apply (resume_unwind tl stk (f_uid f0) s2 0 false f' c' u' rs).
          - unfold fss_ok. rewrite HL. simpl. auto.
          - exists fC. rewrite HL. split; [apply in_or_app; right; left; reflexivity|]. split; reflexivity.
          - exact Hit.
          - intros t Ht. rewrite HL. apply tl_in_kept in Ht. apply in_app_or in Ht. apply in_or_app.
            destruct Ht as [H|H]; [left; exact H|right; right; exact H].
          - intros x Hx. rewrite HL in Hx. apply in_app_or in Hx. destruct Hx as [Hx|[E|Hx]].
            + right. apply Hkept. apply in_or_app. left; exact Hx.
            + subst x. left. left. reflexivity.
            + right. apply Hkept. apply in_or_app. right; exact Hx.
          - exact Hndtl.
          - exact Hf0tl.
          - exact Hbottl.
          - reflexivity.
          - reflexivity.
          - reflexivity.
          - left; reflexivity.
          - subst rs. destruct stk; reflexivity.
          - exact Hrsnf. }
        assert (Hcns : forall f, (Fs <= f)%nat -> compute_next_state o f cs s ev = resume_loop o f cs s2).
        { intros f Hf. rewrite (cns_from_phase1 f ev sB Hpl).
          - fold s2. apply cns_tail_loop.
            + rewrite HL. intros x Hx Hint Hnone. exfalso. apply in_app_or in Hx. destruct Hx as [Hx|[E|Hx]].
              * apply (kept_int_has_intby x); [apply in_or_app; left; exact Hx|exact Hnone].
              * subst x. discriminate.
              * apply (kept_int_has_intby x); [apply in_or_app; right; exact Hx|exact Hnone].
            + rewrite HL. exact HflL.
          - rewrite Hp1, (HFs f) by lia. rewrite Eres. cbn [bind].
            replace (f_head (fs_head f0' h) <? 0) with true by (symmetry; apply Z.ltb_lt; simpl; lia). reflexivity.
          - unfold sB. simpl. rewrite app_mid_assoc. apply mid_has_main. exists fC. split; [left; reflexivity|reflexivity]. }
        assert (Hlift : forall r', loops_to s2 0 false r' -> evl (fun f => compute_next_state o f cs s ev) r').
        { intros r' Hl. apply loops_to_loop in Hl. destruct Hl as (F & HF). exists (Nat.max F Fs). intros f Hf.
          rewrite Hcns by lia. apply HF. lia. }
        destruct rs as [w' kw stk' c3 u3|c3 u3| |]; simpl in Hun; try contradiction; cbn [of_xres res_rel_g].
        + destruct Hun as (s' & Hl & E1 & E2 & E3 & Hok' & Hst' & _). exists s'. split; [|apply Hlift; exact Hl].
          unfold R_g. cbn [sp_st sp_ctx sp_upd sp_next].
          split; [exact E1|]. split; [exact E2|]. split; [rewrite E3; destruct (actionable w'); reflexivity|].
          split; [|split; [exact Hok'|exact Hst']].
          intros w0 E. destruct (actionable w') eqn:Ea; inversion E; subst. split; [|exact Ea].
          destruct Hst' as (g0 & tl0 & Ha0 & _). destruct Ha0 as (_ & _ & bb & lpp & _ & _ & Hww & _). exact Hww.
        + destruct Hun as (s' & Hl & E1 & E2 & E3 & Hok' & Hd'). exists s'. split; [|apply Hlift; exact Hl].
          unfold R_g. cbn [sp_st sp_ctx sp_upd sp_next].
          split; [exact E1|]. split; [exact E2|]. split; [exact E3|]. split; [intros w0 E; discriminate|].
          split; [exact Hok'|exact Hd'].
        + apply Hlift. exact Hun.
      - (* exception *)
        subst res. cbn [of_xres res_rel_g]. exists Fs. intros f Hf.
        apply (cns_from_phase1_exc f ev Hpl). rewrite Hp1, (HFs f) by lia. reflexivity.
    Qed.
  End RunCtx.

  (* ---------------------------------------------------------------- no instance is running *)

  Lemma idle_event_g : forall fuel s ev i0 rest0,
    plain_event ev -> p_main p = SUser i0 :: rest0 ->
    fss_ok s -> Forall dead (st_fss s) ->
    res_rel_g (fun f => compute_next_state o f cs s ev)
              (if wait_match (WUser i0) ev
               then of_xres (exec (all_flows p) fuel (st_ctx s) [] rest0 KDone)
               else Ok {| sp_st := Idle; sp_ctx := st_ctx s; sp_upd := []; sp_next := None |}).
  Proof.
    intros fuel s ev i0 rest0 Hpl Emain Hok Hdead.
    destruct wf_parts as ((i0' & rest0' & E' & Hwr) & _ & _). rewrite Emain in E'. inversion E'; subst i0' rest0'.
    set (Cm := code (p_main p)).
    assert (ECm : Cm = LUser i0 :: compile_block None rest0) by (unfold Cm, code; rewrite Emain; reflexivity).
    set (ns := new_state_of s).
    assert (Hi0 : instr Cm 0 = Some (elem_of_wait (WUser i0))) by (rewrite ECm; reflexivity).
    assert (Hpy0 : pyidx Cm 0 = Some (LUser i0)) by (apply instr_pyidx; [lia|exact Hi0]).
    set (fs0 := new_fstate (st_uid ns) (p_id p) 1).
    set (s2 := st_push (st_bump_uid ns) fs0).
    assert (Hpre : forall f, (1 <= f)%nat ->
              compute_next_state o f cs s ev =
              bind (if wait_match (WUser i0) ev then
                      bind (sws o f cs s2 fs0) (fun r =>
                      let '(s3, fs') := r in
                      Ok (st_set_fss s3 (list_set (st_fss s3) 0
                            (if o_mark o && (f_head fs' <? 0) then fs_status fs' Completed else fs'))))
                    else Ok ns) (fun s2 => cns_tail p o f s2 false)).
    { intros f Hf. destruct f as [|f]; [lia|].
      unfold cs. rewrite (cns_unfold p o (S f) s ev Hpl). rewrite (phase1_dead _ _ _ _ _ _ _ Hdead). cbn [bind]. fold ns.
      rewrite (cs_eq p) at 2. cbn [phase2]. cbn [fc_subflow mk_config fc_multiple fc_elems fc_id].
      change (st_fss ns) with (@nil fstate). cbn [has_flow existsb negb andb].
      change (compile_block None (p_main p)) with Cm.
      rewrite (slide_stays_g Cm f 0 (st_ctx ns) (st_upd ns) _ Hi0 eq_refl). cbv zeta.
      rewrite Hpy0. cbn [of_opt bind].
      change (is_match (LUser i0) ev) with (is_match (elem_of_wait (WUser i0)) ev).
      rewrite (is_match_wait (WUser i0) ev I).
      change (st_set_ctx ns (st_ctx ns) (st_upd ns)) with ns.
      change (0 + 1) with 1. cbn [List.length]. fold fs0. fold s2.
      destruct (wait_match (WUser i0) ev).
      - destruct (sws o (S f) (compile_prog p) s2 fs0) as [[s3 fs']| |]; cbn [bind]; try reflexivity.
        rewrite (phase2_subflows _ _ _ _ _ _ (subs_all_subflow p)). reflexivity.
      - rewrite (phase2_subflows _ _ _ _ _ _ (subs_all_subflow p)). reflexivity. }
    destruct (wait_match (WUser i0) ev) eqn:Em.
    - (* the flow starts *)
      remember (exec (all_flows p) fuel (st_ctx s) [] rest0 KDone) as r1 eqn:Er1. symmetry in Er1.
      destruct (xres_fuel_dec r1) as [Efu|Hr1nf]; [rewrite Efu; exact I|].
      assert (H1 : code_at (code (p_main p)) 1 (compile_block (rel None 1) rest0)).
      { fold Cm. rewrite ECm. change (LUser i0 :: compile_block None rest0) with ([LUser i0] ++ compile_block None rest0).
        apply (code_at_app_r _ 0 [LUser i0]). apply code_at_whole. }
      assert (H3 : kmatch (code (p_main p)) KDone (1 + bsize rest0) None).
      { apply km_done. fold Cm. rewrite ECm, zlen_cons, compile_block_length. reflexivity. }
      destruct (sws_gen fuel (st_ctx s) [] rest0 KDone r1 Er1 Hr1nf (p_main p) 1 None s2 fs0
                        main_body H1 Hwr H3 eq_refl eq_refl eq_refl eq_refl eq_refl eq_refl)
        as (res & Hpost & Fs & HFs).
      destruct r1 as [w' kw stk1 c' u'|c' u'| |]; simpl in Hpost; try contradiction; cbn [of_xres res_rel_g].
      + destruct Hpost as (pushed & fs' & n' & Eres & Hch & Hu' & Hf' & Hn' & Hbd & Hndp).
        simpl in Hu', Hf', Hn', Hbd.
        pose proof (chain_last_head _ _ _ _ _ _ Hch) as Hhd.
        set (sW := wait_state s2 c' u' n' pushed w' (first_uid (pushed ++ [fs']) 0%N)) in *.
        set (L := fs' :: pushed).
        set (s' := st_set_fss sW L).
        assert (HndL : NoDup (map f_uid L)).
        { simpl. constructor; [|exact Hndp]. intros Hin. apply in_map_iff in Hin. destruct Hin as (y & E & Hy).
          rewrite Forall_forall in Hbd. specialize (Hbd y Hy). rewrite E, Hu' in Hbd. lia. }
        assert (HndC : NoDup (map f_uid (pushed ++ [fs']))).
        { rewrite map_app. simpl. apply NoDup_app_snoc_uid; [exact Hndp|].
          intros Hin. apply in_map_iff in Hin. destruct Hin as (y & E & Hy).
          rewrite Forall_forall in Hbd. specialize (Hbd y Hy). rewrite E, Hu' in Hbd. lia. }
        assert (Hstack : stack_in L w' kw stk1).
        { destruct (chain_split _ _ _ _ _ Hch) as (g0 & tl0 & El & Ha0 & Hit0 & _).
          exists g0, tl0. split; [exact Ha0|]. split; [exact Hit0|]. rewrite <- El.
          split; [|split; [|split; [exact HndC|]]].
          - intros x Hx. apply in_app_or in Hx. destruct Hx as [Hx|[E|[]]]; [right; exact Hx|left; auto].
          - intros x [E|Hx]; right; apply in_or_app; [right; left; auto|left; exact Hx].
          - transitivity (f_flow (last (g0 :: tl0) g0)); [destruct tl0; reflexivity|].
            rewrite <- El. rewrite last_app_cons. simpl. exact Hf'. }
        exists s'. split.
        * unfold R_g. cbn [sp_st sp_ctx sp_upd sp_next].
          destruct (wait_state_ctx s2 c' u' n' pushed w' (first_uid (pushed ++ [fs']) 0%N)) as (E1 & E2 & E3).
          split; [exact E1|]. split; [exact E2|]. split.
          -- change (st_next s') with (st_next sW). unfold sW. rewrite wait_state_next by reflexivity.
             destruct (actionable w'); reflexivity.
          -- split.
             ++ intros w0 E. destruct (actionable w') eqn:Ea; inversion E; subst. split; [|exact Ea].
                destruct Hstack as (g0 & tl0 & Ha0 & _). destruct Ha0 as (_ & _ & bb & lpp & _ & _ & Hww & _). exact Hww.
             ++ split; [|exact Hstack]. unfold fss_ok. change (st_fss s') with L. change (st_uid s') with (st_uid sW).
                unfold sW. rewrite E3. split; [exact HndL|]. split.
                ** constructor; [rewrite Hu'; lia|]. eapply Forall_impl; [|exact Hbd]. simpl. intros x Hx. lia.
                ** pose proof (chain_flows _ _ _ _ _ Hch) as Hcf. apply Forall_app in Hcf. destruct Hcf as [Hc1 Hc2].
                   inversion Hc2; subst. constructor; assumption.
        * exists (Nat.max Fs (List.length L + 3)). intros f Hf. rewrite Hpre by lia. rewrite (HFs f) by lia.
          rewrite Eres. cbn [bind].
          replace (f_head fs' <? 0) with false by (symmetry; apply Z.ltb_ge; exact Hhd).
          rewrite andb_false_r.
          assert (HfW : st_fss sW = fs0 :: pushed) by (unfold sW; rewrite wait_state_fss; reflexivity).
          rewrite HfW. cbn [list_set]. fold L. fold s'.
          rewrite cns_tail_loop.
          -- apply resume_loop_noint_g with (w := w') (k := kw) (stk := stk1); auto. change (st_fss s') with L. lia.
          -- intros x Hx Hint Hnone. exfalso. exact (stack_int_has_intby L w' kw stk1 Hstack x Hx Hint Hnone).
          -- change (st_fss s') with L. pose proof (chain_flows _ _ _ _ _ Hch) as Hcf. apply Forall_app in Hcf.
             destruct Hcf as [Hc1 Hc2]. inversion Hc2; subst. constructor; assumption.
      + destruct Hpost as (h & n' & Eres & Hneg & Hn'). simpl in Hn'.
        set (fC := fs_status (fs_head fs0 h) Completed).
        set (s' := st_set_fss (end_state s2 c' u' n') [fC]).
        exists s'. split.
        * unfold R_g. cbn [sp_st sp_ctx sp_upd sp_next]. simpl.
          split; [reflexivity|]. split; [reflexivity|]. split; [reflexivity|]. split; [intros w0 E; discriminate|].
          split.
          -- unfold fss_ok. simpl. split; [constructor; [intros []|constructor]|]. split.
             ++ constructor; [change (f_uid fC) with (st_uid s); lia|constructor].
             ++ constructor; [|constructor]. exists (p_main p). exact main_body.
          -- constructor; [left; reflexivity|constructor].
        * exists (Nat.max Fs 4). intros f Hf. rewrite Hpre by lia. rewrite (HFs f) by lia. rewrite Eres. cbn [bind].
          replace (f_head (fs_head fs0 h) <? 0) with true by (symmetry; apply Z.ltb_lt; simpl; lia).
          rewrite Hmark. cbn [andb]. change (st_fss (end_state s2 c' u' n')) with [fs0]. cbn [list_set]. fold fC. fold s'.
          rewrite cns_tail_loop.
          -- apply resume_loop_noint; [simpl; constructor; [reflexivity|constructor]|simpl; lia].
          -- intros x [E|[]] Hint. subst x. discriminate.
          -- simpl. constructor; [|constructor]. exists (p_main p). exact main_body.
      + subst res. exists (S Fs). intros f Hf. rewrite Hpre by lia.
        rewrite (HFs f) by lia. reflexivity.
    - (* nothing starts *)
      cbn [res_rel_g]. exists ns. split.
      + unfold R_g. cbn [sp_st sp_ctx sp_upd sp_next]. simpl.
        split; [reflexivity|]. split; [reflexivity|]. split; [reflexivity|]. split; [intros w0 E; discriminate|].
        split; [|constructor]. unfold fss_ok. simpl. split; [constructor|]. split; constructor.
      + exists 3%nat. intros f Hf. rewrite Hpre by lia. cbn [bind].
        rewrite cns_tail_loop.
        * apply resume_loop_noint; [constructor|simpl; lia].
        * intros x [].
        * constructor.
  Qed.

  (* ---------------------------------------------------------------- one event, whole histories *)

  Lemma cns_sim_g : forall fuel s sp ev,
    R_g s sp -> ev <> EvHide ->
    res_rel_g (fun f => compute_next_state o f cs s ev) (spec_event fuel p sp ev).
  Proof.
    intros fuel s sp ev HR Hev.
    destruct HR as (Hc & Hu & Hn & Hnw & Hok & Hshape).
    destruct ev; try congruence.
    5:{ cbn [spec_event compute_next_state res_rel_g].
        eexists. split; [|apply evl_const].
        unfold R_g. cbn [sp_st sp_ctx sp_upd sp_next st_ctx st_upd st_next st_fss option_map].
        rewrite Hc. split; [reflexivity|split; [reflexivity|split; [reflexivity|split; [|split; [exact Hok|exact Hshape]]]]].
        intros w E; discriminate. }
    4:{ cbn [spec_event compute_next_state res_rel_g]. exists s. split; [|apply evl_const].
        unfold R_g. split; [exact Hc|split; [exact Hu|split; [exact Hn|split; [exact Hnw|split; [exact Hok|exact Hshape]]]]]. }
    all: cbn [spec_event].
    all: revert Hshape; destruct (sp_st sp) as [|w k stk] eqn:Est; intros Hshape.
    all: try (match goal with
              | |- res_rel_g (fun f => compute_next_state _ f _ _ ?e) _ =>
                  destruct wf_parts as ((i0 & rest0 & Emain & Hwr) & _ & _); rewrite Emain;
                  rewrite <- Hc; apply (idle_event_g fuel s e i0 rest0 I Emain Hok Hshape)
              end).
    all: destruct Hshape as (f0 & tl & Ha & Hit & Hsub & Hsup & Hndl & Hbot);
         pose proof Ha as (Hst0 & Hib0 & b0 & lp0 & Hb0 & Hi0 & Hw & Hk0);
         pose proof Hok as (Hnd & Hbnd & Hfl);
         destruct (stack_partition (st_fss s) w k stk f0 tl Hnd Ha Hit Hsub Hsup Hndl)
           as (l1 & l2 & EL & Hna1 & Hna2 & Hkept & Hndk & Hf0k).
    all: match goal with
         | |- res_rel_g (fun f => compute_next_state _ f _ _ ?e) _ =>
             destruct (string_in (event_type e) default_triggers) eqn:Htr; cbn [negb];
             [|rewrite <- Hc; eapply (run_nontrigger_g s w k stk f0 tl l1 l2 b0 lp0); eauto; exact I];
             destruct (wait_match w e) eqn:Hm;
             [rewrite <- Hc; eapply (run_match_g s w k stk f0 tl l1 l2 b0 lp0); eauto; exact I|];
             destruct (actionable w) eqn:Hact; rewrite <- Hc;
             [eapply (run_abort_g s w); eauto; exact I
             |eapply (run_stay_g s w k stk f0 tl l1 l2 b0 lp0); eauto; exact I]
         end.
  Qed.

  Lemma R_g_stop : forall s sp, R_g s sp ->
    R_g (st_set_fss s []) {| sp_st := Idle; sp_ctx := sp_ctx sp; sp_upd := sp_upd sp; sp_next := sp_next sp |}.
  Proof.
    intros s sp (Hc & Hu & Hn & Hnw & Hok & Hshape). unfold R_g. cbn [sp_st sp_ctx sp_upd sp_next]. simpl.
    split; [exact Hc|split; [exact Hu|split; [exact Hn|split; [exact Hnw|split; [|constructor]]]]].
    unfold fss_ok. simpl. split; [constructor|split; constructor].
  Qed.

  Lemma run_events_sim_g : forall fuel l s sp,
    R_g s sp -> no_hide l ->
    res_rel_g (fun f => run_events o f cs s l) (spec_run fuel p sp l).
  Proof.
    intros fuel. induction l as [|e rest IH]; intros s sp HR Hnh.
    - simpl. exists s. split; [exact HR|apply evl_const].
    - inversion Hnh as [|? ? He Hrest]; subst.
      pose proof (cns_sim_g fuel s sp e HR He) as H1.
      cbn [spec_run]. destruct (spec_event fuel p sp e) as [sp1| |]; cbn [bind res_rel_g] in *; auto.
      + destruct H1 as (s1 & HR1 & F1 & HF1).
        assert (HR1' : R_g (if is_bot_stop e then st_set_fss s1 [] else s1)
                           (if is_bot_stop e
                            then {| sp_st := Idle; sp_ctx := sp_ctx sp1; sp_upd := sp_upd sp1; sp_next := sp_next sp1 |}
                            else sp1)).
        { destruct (is_bot_stop e); [apply R_g_stop|]; exact HR1. }
        pose proof (IH _ _ HR1' Hrest) as H2.
        destruct (spec_run fuel p _ rest) as [sp2| |]; cbn [res_rel_g] in *; auto.
        * destruct H2 as (s2 & HR2 & F2 & HF2). exists s2. split; [exact HR2|].
          exists (Nat.max F1 F2). intros f Hf. cbn [run_events]. rewrite HF1 by lia. cbn [bind]. apply HF2. lia.
        * destruct H2 as (F2 & HF2). exists (Nat.max F1 F2). intros f Hf.
          cbn [run_events]. rewrite HF1 by lia. cbn [bind]. apply HF2. lia.
      + destruct H1 as (F1 & HF1). exists F1. intros f Hf. cbn [run_events]. rewrite HF1 by lia. reflexivity.
  Qed.

  Lemma final_steps_R_g : forall s sp actual,
    R_g s sp -> final_steps s actual = Ok (spec_steps sp actual).
  Proof.
    intros s sp actual (Hc & Hu & Hn & Hnw & _ & _). unfold final_steps, spec_steps.
    rewrite Hn, Hu.
    destruct (sp_next sp) as [w|] eqn:En; cbn [option_map bind].
    - destruct (Hnw w eq_refl) as (Hw & Ha). rewrite (step_of_wait_ok w Hw Ha). cbn [bind].
      destruct actual; [reflexivity|]. destruct (is_bot_stop _); reflexivity.
    - destruct actual; [rewrite app_nil_r; reflexivity|]. destruct (is_bot_stop _); [reflexivity|].
      rewrite app_nil_r. reflexivity.
  Qed.

  Lemma R_g_init : R_g init_state spec_init.
  Proof.
    unfold R_g, init_state, spec_init. simpl.
    split; [reflexivity|split; [reflexivity|split; [reflexivity|split; [|split; [|constructor]]]]].
    - intros w E; discriminate.
    - unfold fss_ok. simpl. split; [constructor|split; constructor].
  Qed.

  Theorem compile_correct_all : forall fuel hist r,
    next_steps fuel p hist = r -> r <> Fuel ->
    exists F, forall f, (F <= f)%nat -> compute_next_steps o f cs hist = r.
  Proof.
    intros fuel hist r Hr Hnf. unfold next_steps in Hr. unfold compute_next_steps.
    destruct (preprocess hist []) as [actual| |] eqn:Ep; cbn [bind] in *.
    - assert (Hnh : no_hide actual) by (eapply preprocess_no_hide; [exact Ep|constructor]).
      pose proof (run_events_sim_g fuel actual init_state spec_init R_g_init Hnh) as H.
      destruct (spec_run fuel p spec_init actual) as [sp| |]; cbn [bind res_rel_g] in *.
      + destruct H as (s & HR & F & HF). exists F. intros f Hf. rewrite HF by exact Hf. cbn [bind].
        rewrite (final_steps_R_g _ _ _ HR). exact Hr.
      + destruct H as (F & HF). exists F. intros f Hf. rewrite HF by exact Hf. exact Hr.
      + congruence.
    - exists 0%nat. intros; exact Hr.
    - congruence.
  Qed.
End ProgS.

(* ------------------------------------------------------------------ the statements Props/C14.v uses *)

From NG Require Import Gen.C14Consts.
Open Scope list_scope.
Open Scope Z_scope.

(* the full statement of Sim_proofs.compile_correct_statement: subflow calls included *)
Theorem compile_correct_full :
  start_marks_completed = true -> call_records_active_only = true -> compile_correct_statement.
Proof.
  intros Hmark Hguard p fuel hist r Hwf Hr Hnf.
  exact (compile_correct_all p opts_now Hwf Hmark Hguard fuel hist r Hr Hnf).
Qed.

Theorem leave_full : forall p fuel hist w k stk c ev,
  start_marks_completed = true -> call_records_active_only = true ->
  wf_prog p = true ->
  follows_to fuel p hist w k stk c ->
  match ev with EvStartAct | EvCtx _ | EvHide => False | _ => True end ->
  string_in (event_type ev) default_triggers = true ->
  wait_match w ev = false ->
  exists F, forall f, (F <= f)%nat -> steps_now f (compile_prog p) (hist ++ [ev]) = Ok [].
Proof.
  intros p fuel hist w k stk c ev Hmark Hguard Hwf Hfol Hpl Htr Hm.
  eapply (compile_correct_full Hmark Hguard); eauto.
  - eapply spec_leave; eauto.
  - congruence.
Qed.
