(* C12 (Colang 2.x) - every modelled expansion is typed (Typed.v) under the declarations of
   ExpandTyping.v; hence, by soundness of the typing and the static lemmas of Expand_proofs.v,
   every expansion of a well-formed source of the fragment is closed: closed_v2 (expand ss). *)
From Coq Require Import List String Ascii Bool Arith Lia.
From NG Require Import V2.ClosedAst V2.Closed V2.Closed_proofs V2.Typed V2.Typed_proofs
                       V2.Expand V2.Expand_proofs V2.ExpandTyping.
Import ListNotations.
Open Scope string_scope.
Open Scope list_scope.
Open Scope nat_scope.

(* ---- names are injective ---- *)
Lemma uname_app_inj : forall a b s t, uname a ^^ s = uname b ^^ t -> a = b /\ s = t.
Proof.
  induction a as [|a IH]; intros [|b] s t H; cbn in H.
  - injection H as ->. auto.
  - discriminate.
  - discriminate.
  - injection H as H. destruct (IH _ _ _ H) as [-> ->]. auto.
Qed.

Lemma enc_inj : forall p q, enc p = enc q -> p = q.
Proof.
  induction p as [|n r IH]; intros [|m r'] H; cbn in H.
  - reflexivity.
  - destruct m; discriminate.
  - destruct n; discriminate.
  - destruct (uname_app_inj _ _ _ _ H) as [-> H']. f_equal. now apply IH.
Qed.

Lemma Gam_fun l s1 s2 : Gam l s1 -> Gam l s2 -> s1 = s2.
Proof.
  intros [p [-> H1]] [q [Hq H2]]. apply enc_inj in Hq. subst q. congruence.
Qed.

Lemma state_of_nm p a b c : state_of (p ++ [a; b; c]) = st_of p a b c.
Proof. unfold state_of. rewrite rev_app_distr. cbn. now rewrite rev_involutive. Qed.

Lemma Gam_nm p a b c st : st_of p a b c = Some st -> Gam (nm p a b c) st.
Proof. intros H. exists (p ++ [a; b; c]). split; [reflexivity|]. now rewrite state_of_nm. Qed.

Lemma mem_single n : mem n [n] = true.
Proof. unfold mem. cbn. now rewrite String.eqb_refl. Qed.
Lemma remove_single n : remove_s n [n] = [].
Proof. unfold remove_s. cbn. now rewrite String.eqb_refl. Qed.

Notation ty := (typed Gam).
Notation S0 := (Some (([] : list string), ([] : list string))).

Ltac gam := first [ eassumption | apply Gam_nm; reflexivity ].
Ltac tr1 :=
  first [ apply T_over; reflexivity
        | apply T_label; gam
        | apply T_label_dead; gam
        | apply T_dead; reflexivity
        | eapply T_goto; gam
        | apply T_push
        | apply T_pop
        | apply T_break; gam
        | apply T_continue; gam
        | apply T_begin; reflexivity
        | apply T_abort_top
        | apply T_abort; gam
        | apply T_return
        | apply T_block_top
        | apply T_block; gam ].
Ltac ty_run := repeat (eapply typed_cons; [tr1|]); try apply typed_nil.

(* ---- glue between blocks ---- *)
Lemma label_at_boundary c l : boundary c -> Gam l ([], []) -> ty c [ELabel l] S0.
Proof. intros [->| ->] Hg; ty_run. Qed.

(* `goto l1 ; l2:` behind a block: whatever falls out of the block jumps to l1, l2 starts afresh *)
Lemma goto_label c l1 l2 st : boundary c -> Gam l1 ([], []) -> Gam l2 st ->
  ty c [EGoto l1 false; ELabel l2] (Some st).
Proof. intros [->| ->] H1 H2; ty_run. Qed.

Lemma from_boundary c es c1 :
  boundary c -> ty S0 es c1 -> boundary c1 -> exists c', boundary c' /\ ty c es c'.
Proof.
  intros [->| ->] H Hb; [|eauto].
  destruct (typed_dead Gam _ _ _ H) as [c' [H1 [->| ->]]]; eauto. exists None. split; [now left|exact H1].
Qed.

Definition Pty (s : stmt) : Prop :=
  forall cb p, cb_ok cb -> wf_loops (is_some cb) s = true ->
               exists c', boundary c' /\ ty S0 (xstmt cb p s) c'.

Lemma xlist_ty ss : Forall Pty ss ->
  forall cb p t i c, cb_ok cb -> wf_list (is_some cb) ss = true -> boundary c ->
                     exists c', boundary c' /\ ty c (xlist cb p t i ss) c'.
Proof.
  induction 1 as [|s r Hs Hr IH]; intros cb p t i c Hcb Hw Hc.
  - exists c. split; [exact Hc|constructor].
  - cbn [xlist wf_list] in *. apply andb_true_iff in Hw. destruct Hw as [H1 H2].
    destruct (Hs cb (p ++ [t; i]) Hcb H1) as [c1 [Hb1 Ht1]].
    destruct (from_boundary c _ _ Hc Ht1 Hb1) as [c1' [Hb1' Ht1']].
    destruct (IH cb p t (S i) c1' Hcb H2 Hb1') as [c2 [Hb2 Ht2]].
    exists c2. split; [exact Hb2|]. eapply typed_app; eauto.
Qed.

(* ---- blocking elements, starts ---- *)
Lemma block_tr st : handler_ok st -> tr Gam (Some st) EBlock (Some st).
Proof. destruct st as [sc [|l ct]]; intros H; [apply T_block_top|apply T_block; exact H]. Qed.

Lemma abort_tr st : handler_ok st -> tr Gam (Some st) EAbort None.
Proof. destruct st as [sc [|l ct]]; intros H; [apply T_abort_top|apply T_abort; exact H]. Qed.

Lemma start_atom_ty st a : handler_ok st -> ty (Some st) (start_atom a) (Some st).
Proof.
  intros H. destruct a; cbn [start_atom];
    repeat (eapply typed_cons; [first [apply T_over; reflexivity|apply block_tr; exact H]|]); constructor.
Qed.

Lemma starts_ty st g : handler_ok st -> ty (Some st) (starts g) (Some st).
Proof.
  intros H. unfold starts. induction g as [|a r IH]; [constructor|].
  cbn [flat_map]. eapply typed_app; [apply start_atom_ty; exact H|exact IH].
Qed.

Lemma x_activate_ty n : ty S0 (x_activate n) S0.
Proof.
  induction n as [|n IH]; [constructor|]. cbn [x_activate app].
  eapply typed_cons; [tr1|]. eapply typed_cons; [tr1|]. eapply typed_cons; [tr1|]. exact IH.
Qed.

(* ---- and-group of matches, in the state its path says ---- *)
Lemma ctx_of_app p t i :
  ctx_of (p ++ [t; i]) =
  if t =? 6 then Some ([], [or_F false p])
  else if t =? 7 then Some ([or_S true p], [or_F true p])
  else if t =? 8 then Some ([], [])
  else if t =? 9 then Some ([wn_S p], [cs_F p i]) else None.
Proof. unfold ctx_of. rewrite rev_app_distr. cbn. now rewrite rev_involutive. Qed.

Lemma Gam_gr q b c sc ct :
  ctx_of q = Some (sc, ct) -> (c =? 1) || (c =? 2) || (c =? 3) = true ->
  Gam (nm q 14 b c) (sc, gr_F q :: ct).
Proof. intros H Hc. apply Gam_nm. unfold st_of. cbn. rewrite Hc, H. reflexivity. Qed.

Lemma group_body_ty N F st gs :
  (forall g, In g gs -> Gam g st) -> Gam F st -> Gam N st -> (exists ct, snd st = F :: ct) ->
  ty None (group_body N gs) None.
Proof.
  intros Hg HF HN [ct Hst]. destruct st as [sc ct0]. cbn in Hst. subst ct0.
  unfold group_body. induction gs as [|g r IH]; [constructor|].
  cbn [flat_map]. assert (Gam g (sc, F :: ct)) by (apply Hg; now left).
  eapply typed_app; [|apply IH; intros; apply Hg; now right].
  eapply typed_cons; [apply T_label_dead; eassumption|].
  eapply typed_cons; [apply T_block; exact HF|].
  eapply typed_cons; [eapply T_goto; exact HN|]. constructor.
Qed.

Lemma and_group_ty q n sc ct :
  ctx_of q = Some (sc, ct) -> handler_ok (sc, ct) ->
  ty (Some (sc, ct)) (and_group q n) (Some (sc, ct)).
Proof.
  intros Hq Hh. unfold and_group. cbv zeta.
  assert (HF : Gam (gr_F q) (sc, gr_F q :: ct)) by (apply Gam_gr; auto).
  assert (HN : Gam (gr_N q) (sc, gr_F q :: ct)) by (apply Gam_gr; auto).
  assert (Hg : forall g, In g (group_labels q n) -> Gam g (sc, gr_F q :: ct)).
  { unfold group_labels. intros g Hin. apply in_map_iff in Hin. destruct Hin as [i [<- _]].
    apply Gam_gr; auto. }
  revert Hg. generalize (group_labels q n) as gs. intros gs Hg.
  eapply typed_app; [|eapply typed_app;
    [apply (group_body_ty (gr_N q) (gr_F q) (sc, gr_F q :: ct) gs Hg HF HN); eexists; reflexivity|]].
  - eapply typed_cons; [apply T_push|]. eapply typed_cons; [apply T_fork; exact Hg|]. constructor.
  - eapply typed_cons; [apply T_label_dead; exact HF|].
    eapply typed_cons; [apply T_over; reflexivity|].
    eapply typed_cons; [apply T_pop|].
    eapply typed_cons; [apply abort_tr; exact Hh|].
    eapply typed_cons; [apply T_label_dead; exact HN|].
    eapply typed_cons; [apply T_over; reflexivity|].
    eapply typed_cons; [apply T_over; reflexivity|].
    eapply typed_cons; [apply T_pop|]. constructor.
Qed.

Lemma match_all_ty p tag i k st :
  ctx_of (p ++ [tag; i]) = Some st -> handler_ok st ->
  ty (Some st) (match_all p tag i k) (Some st).
Proof.
  intros Hc Hh. unfold match_all. destruct (k <=? 1)%nat.
  - apply typed_one. apply block_tr. exact Hh.
  - destruct st as [sc ct]. now apply and_group_ty.
Qed.

(* ---- or-structures ---- *)
Definition or_inner (sc : bool) (p : spath) : state :=
  ((if sc then [or_S true p] else []), [or_F sc p]).

Lemma Gam_or sc p b c : (c =? 1) || (c =? 2) || (c =? 3) = true -> Gam (nm p (or_a sc) b c) (or_inner sc p).
Proof. intros Hc. apply Gam_nm. unfold st_of, or_inner. destruct sc; cbn; rewrite Hc; reflexivity. Qed.

Lemma or_inner_handler sc p : handler_ok (or_inner sc p).
Proof. unfold handler_ok, or_inner. cbn. apply (Gam_or sc p 0 1). reflexivity. Qed.

Lemma or_branches_ty sc p bodies : forall i,
  (forall b, In b bodies -> ty (Some (or_inner sc p)) b (Some (or_inner sc p))) ->
  ty None (or_branches sc p i bodies) None.
Proof.
  induction bodies as [|b r IH]; intros i Hb; [constructor|].
  cbn [or_branches].
  eapply typed_cons; [apply T_label_dead; apply (Gam_or sc p i 3); reflexivity|].
  eapply typed_app; [apply Hb; now left|].
  eapply typed_cons; [eapply T_goto; apply (Gam_or sc p 0 2); reflexivity|]. cbn iota.
  apply IH. intros; apply Hb; now right.
Qed.

Lemma or_struct_ty sc p bodies :
  (forall b, In b bodies -> ty (Some (or_inner sc p)) b (Some (or_inner sc p))) ->
  ty S0 (or_struct sc p bodies) S0.
Proof.
  intros Hb. unfold or_struct.
  pose proof (Gam_or sc p 0 1 eq_refl) as HF. pose proof (Gam_or sc p 0 2 eq_refl) as HN.
  assert (HG : forall l, In l (map (or_G sc p) (seq 0 (List.length bodies))) -> Gam l (or_inner sc p)).
  { intros l Hl. apply in_map_iff in Hl. destruct Hl as [i [<- _]]. apply (Gam_or sc p i 3). reflexivity. }
  pose proof (or_branches_ty sc p bodies 0 Hb) as HB. revert HB HG.
  generalize (or_branches sc p 0 bodies) as BR.
  generalize (map (or_G sc p) (seq 0 (List.length bodies))) as gls. intros gls BR HB HG.
  unfold or_tail, or_inner in *. destruct sc; cbn [app] in *.
  - eapply typed_cons; [apply T_begin; reflexivity|].
    eapply typed_cons; [apply T_push|]. eapply typed_cons; [apply T_fork; exact HG|].
    eapply typed_app; [exact HB|].
    eapply typed_cons; [apply T_label_dead; exact HF|].
    eapply typed_cons; [apply T_over; reflexivity|].
    eapply typed_cons; [apply T_pop|].
    eapply typed_cons; [apply T_end; apply mem_single|]. rewrite remove_single.
    eapply typed_cons; [apply T_abort_top|].
    eapply typed_cons; [apply T_label_dead; exact HN|].
    eapply typed_cons; [apply T_over; reflexivity|].
    eapply typed_cons; [apply T_pop|].
    eapply typed_cons; [apply T_end; apply mem_single|]. rewrite remove_single. constructor.
  - eapply typed_cons; [apply T_push|]. eapply typed_cons; [apply T_fork; exact HG|].
    eapply typed_app; [exact HB|].
    eapply typed_cons; [apply T_label_dead; exact HF|].
    eapply typed_cons; [apply T_over; reflexivity|].
    eapply typed_cons; [apply T_over; reflexivity|].
    eapply typed_cons; [apply T_pop|].
    eapply typed_cons; [apply T_abort_top|].
    eapply typed_cons; [apply T_label_dead; exact HN|].
    eapply typed_cons; [apply T_over; reflexivity|].
    eapply typed_cons; [apply T_pop|]. constructor.
Qed.

Lemma x_match_ty p ks : ty S0 (x_match p ks) S0.
Proof.
  unfold x_match.
  assert (H : ty S0 (or_struct false p (mapi_from (fun i k => match_all p 6 i k) 0 ks)) S0).
  { apply or_struct_ty. intros b Hb. destruct (mapi_from_in _ _ _ _ Hb) as [j [k ->]].
    apply match_all_ty; [rewrite ctx_of_app; reflexivity|apply (or_inner_handler false)]. }
  destruct ks as [|k [|k2 r]]; [exact H| |exact H].
  apply match_all_ty; [rewrite ctx_of_app; reflexivity|exact I].
Qed.

Lemma x_start_ty p gs : ty S0 (x_start p gs) S0.
Proof.
  unfold x_start.
  assert (H : ty S0 (or_struct false p (map starts gs)) S0).
  { apply or_struct_ty. intros b Hb. apply in_map_iff in Hb. destruct Hb as [g [<- _]].
    apply starts_ty. apply or_inner_handler. }
  destruct gs as [|g [|g2 r]]; [exact H| |exact H]. apply starts_ty. exact I.
Qed.

Lemma x_await_ty p gs : ty S0 (x_await p gs) S0.
Proof.
  unfold x_await.
  assert (H : ty S0 (or_struct true p (mapi_from (fun i g => starts g ++ match_all p 7 i (List.length g)) 0 gs)) S0).
  { apply or_struct_ty. intros b Hb. destruct (mapi_from_in _ _ _ _ Hb) as [j [g ->]].
    eapply typed_app; [apply starts_ty; apply or_inner_handler|].
    apply match_all_ty; [rewrite ctx_of_app; reflexivity|apply (or_inner_handler true)]. }
  destruct gs as [|g [|g2 r]]; [exact H| |exact H].
  eapply typed_app; [apply starts_ty; exact I|].
  apply match_all_ty; [rewrite ctx_of_app; reflexivity|exact I].
Qed.

(* ---- when ---- *)
Lemma when_case_ty p i tr body c1 :
  ty S0 body c1 -> boundary c1 -> ty None (when_case p i tr body) None.
Proof.
  intros Hb Hc. unfold when_case.
  assert (HF : Gam (cs_F p i) ([wn_S p], [cs_F p i])) by (unfold cs_F, wn_S; gam).
  eapply typed_app; [|eapply typed_app; [|eapply typed_app; [|eapply typed_app; [exact Hb|]]]].
  - unfold cs_I, cs_F, cs_K, cs_G, wn_S.
    eapply typed_cons; [tr1|]. eapply typed_cons; [tr1|].
    eapply typed_cons; [apply T_fork; intros l [<-|[]]; gam|].
    eapply typed_cons; [tr1|]. constructor.
  - eapply typed_app.
    + unfold case_pre. induction tr as [|m r IH]; [constructor|]. cbn [flat_map].
      eapply typed_app; [|exact IH]. destruct m; [constructor|apply start_atom_ty; exact HF|apply start_atom_ty; exact HF].
    + apply match_all_ty; [rewrite ctx_of_app; reflexivity|exact HF].
  - unfold cs_C, wn_K, wn_S, cs_F in *.
    eapply typed_cons; [tr1|].
    eapply typed_cons; [tr1|]. eapply typed_cons; [tr1|]. eapply typed_cons; [tr1|].
    eapply typed_cons; [apply T_end; apply mem_single|]. rewrite remove_single. constructor.
  - change ([EGoto (wn_D p) false; ELabel (cs_F p i); EWait; ECatch None; EGoto (wn_E p) false])
      with ([EGoto (wn_D p) false; ELabel (cs_F p i)] ++ [EWait; ECatch None; EGoto (wn_E p) false]).
    eapply typed_app.
    + apply goto_label; [exact Hc|unfold wn_D; gam|exact HF].
    + unfold wn_E, cs_F, wn_S. ty_run.
Qed.

Lemma xcases_ty cb p cs : Forall (fun c => Forall Pty (snd c)) cs -> cb_ok cb ->
  forall i, wf_cases (is_some cb) cs = true -> ty None (xcases cb p i cs) None.
Proof.
  intros H Hcb. induction H as [|[tr c] r Hc Hr IH]; intros i Hw; [constructor|]. cbn [snd] in Hc.
  rewrite xcases_cons. rewrite wf_cases_cons in Hw. apply andb_true_iff in Hw. destruct Hw as [H1 H2].
  destruct (xlist_ty c Hc cb (p ++ [4; i]) 5 0 S0 Hcb H1) as [c1 [Hb1 Ht1]]; [now right|].
  eapply typed_app; [eapply when_case_ty; eauto|apply IH; exact H2].
Qed.

Lemma when_tail_ty p els c1 :
  (forall el, els = Some el -> ty S0 el c1 /\ boundary c1) ->
  ty None (when_tail p els) S0.
Proof.
  intros He. unfold when_tail.
  assert (H0 : ty None [ELabel (wn_E p); EWait; EEnd (wn_S p)] S0).
  { unfold wn_E, wn_S. eapply typed_cons; [tr1|]. eapply typed_cons; [tr1|].
    eapply typed_cons; [apply T_end; apply mem_single|]. rewrite remove_single. constructor. }
  eapply typed_app; [exact H0|]. destruct els as [el|].
  - destruct (He el eq_refl) as [Ht Hb].
    eapply typed_app; [eapply typed_app; [|exact Ht]|].
    + unfold wn_T. ty_run.
    + apply label_at_boundary; [exact Hb|unfold wn_D; gam].
  - eapply typed_app; [|apply label_at_boundary; [now left|unfold wn_D; gam]]. ty_run.
Qed.

Lemma cs_I_gam p l n : In l (map (cs_I p) (seq 0 n)) -> Gam l ([wn_S p], []).
Proof. rewrite in_map_iff. intros [i [<- _]]. unfold cs_I, wn_S. gam. Qed.

Lemma xstmt_ty : forall s, Pty s.
Proof.
  apply stmt_ind'; unfold Pty.
  - intros cb p _ _. exists S0. split; [now right|]. cbn. ty_run.
  - intros cb p _ _. exists S0. split; [now right|]. cbn. ty_run.
  - intros [[a b]|] p Hcb Hw; [|discriminate Hw]. destruct Hcb as [Ha Hb].
    exists None. split; [now left|]. cbn. ty_run.
  - intros [[a b]|] p Hcb Hw; [|discriminate Hw]. destruct Hcb as [Ha Hb].
    exists None. split; [now left|]. cbn. ty_run.
  - intros cb p _ _. exists None. split; [now left|]. cbn. ty_run.
  - intros cb p _ _. exists None. split; [now left|]. cbn. ty_run.
  - (* if *) intros th el Hth Hel cb p Hcb Hw. rewrite wf_if in Hw. apply andb_true_iff in Hw.
    destruct Hw as [H1 H2]. rewrite xstmt_if.
    destruct (xlist_ty th Hth cb p 0 0 S0 Hcb H1) as [c1 [Hb1 Ht1]]; [now right|].
    exists S0. split; [now right|]. destruct el as [|e0 el0].
    + eapply typed_cons; [eapply T_goto; unfold if_D; gam|]. cbn iota.
      eapply typed_app; [exact Ht1|]. apply label_at_boundary; [exact Hb1|unfold if_D; gam].
    + destruct (xlist_ty (e0 :: el0) Hel cb p 1 0 S0 Hcb H2) as [c2 [Hb2 Ht2]]; [now right|].
      eapply typed_cons; [eapply T_goto; unfold if_E; gam|]. cbn iota.
      eapply typed_app; [exact Ht1|]. eapply typed_app.
      * apply goto_label; [exact Hb1| |]; unfold if_D, if_E; gam.
      * eapply typed_app; [exact Ht2|]. apply label_at_boundary; [exact Hb2|unfold if_D; gam].
  - (* while *) intros body Hb cb p Hcb Hw. rewrite wf_while in Hw. rewrite xstmt_while.
    assert (Hcb' : cb_ok (Some (wh_B p, wh_D p))) by (split; unfold wh_B, wh_D; gam).
    destruct (xlist_ty body Hb (Some (wh_B p, wh_D p)) p 2 0 S0 Hcb' Hw) as [c1 [Hb1 Ht1]]; [now right|].
    exists S0. split; [now right|].
    eapply typed_cons; [apply T_label; unfold wh_B; gam|].
    eapply typed_cons; [eapply T_goto; unfold wh_D; gam|]. cbn iota.
    eapply typed_app; [exact Ht1|]. apply goto_label; [exact Hb1| |]; unfold wh_B, wh_D; gam.
  - intros ks cb p _ _. exists S0. split; [now right|]. apply x_match_ty.
  - intros gs cb p _ _. exists S0. split; [now right|]. apply x_start_ty.
  - intros gs cb p _ _. exists S0. split; [now right|]. apply x_await_ty.
  - intros n cb p _ _. exists S0. split; [now right|]. apply x_activate_ty.
  - (* when *) intros cases els Hc He cb p Hcb Hw. rewrite wf_when in Hw. apply andb_true_iff in Hw.
    destruct Hw as [H1 H2]. rewrite xstmt_when. exists S0. split; [now right|].
    eapply typed_cons; [apply T_begin; reflexivity|].
    eapply typed_cons; [apply T_fork; intros l Hl; eapply cs_I_gam; exact Hl|].
    eapply typed_app; [apply xcases_ty; eauto|].
    destruct els as [el|].
    + destruct (xlist_ty el (He el eq_refl) cb p 3 0 S0 Hcb H2) as [c1 [Hb1 Ht1]]; [now right|].
      apply (when_tail_ty p (Some (xlist cb p 3 0 el)) c1). intros el' [= <-]. auto.
    + apply (when_tail_ty p None None). intros el' [=].
Qed.

(* ---- C12 for the modelled expansions ---- *)
Theorem expand_typed ss :
  wf_list false ss = true -> exists c, boundary c /\ ty S0 (expand ss) c.
Proof.
  intros Hw. unfold expand.
  destruct (xlist_ty ss (proj2 (Forall_forall _ _) (fun s _ => xstmt_ty s)) None [] 0 0 S0 I Hw) as [c [Hb Ht]];
    [now right|].
  exists c. split; [exact Hb|]. eapply typed_cons; [apply T_block_top|exact Ht].
Qed.

Theorem expand_closed ss : wf_list false ss = true -> closed_v2 (expand ss).
Proof.
  intros Hw. destruct (expand_static_closed ss) as [Hl [Hc Hm]].
  destruct (expand_typed ss Hw) as [c [Hb Ht]].
  split; [|split; [|split; [|split]]].
  - apply (typed_sound Gam Gam_fun (expand ss) c Ht); [|exact Hl].
    destruct Hb as [->| ->]; cbn; auto.
  - now apply labels_okb_sound.
  - now apply no_compositeb_sound.
  - now apply merges_okb_sound.
  - apply loop_exits_okb_sound. now apply expand_loop_exits.
Qed.
