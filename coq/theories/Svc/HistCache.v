(* C15 - model of LLMRails.events_history_cache as used by generate_async /
   _get_events_for_messages (nemoguardrails/rails/llm/llmrails.py, Colang 1.0 branch).

       p = len(messages) - 1
       while p > 0:
           cache_key = get_history_cache_key(messages[0:p])
           if cache_key in self.events_history_cache: events = cache[cache_key].copy(); break
           p -= 1
       for idx in range(p, len(messages)): events += <conversion of messages[idx]>
       ...
       new_events = await runtime.generate_events(events)            -- abstracted: G
       new_message = {"role": "assistant"|"exception", ...}           -- abstracted: reply
       cache[get_history_cache_key(messages + [new_message])] = events + new_events

   The cache is a log of stores, newest first.  An entry remembers the key it was stored
   under, the message list it was stored FOR, and the events.  Two lookups:
     verify = false  (code as shipped): newest entry with the same KEY  (= Python dict semantics;
                      the remembered message list is a ghost field, never read);
     verify = true   (repaired code, fixes/C15-cache-verify.patch): newest entry with the same key
                      AND the same message list (the patch keeps, per key, one entry per
                      message list; newest-first search over the log is the same function).
   The key function is a parameter (`keyf`); Svc/HistRun.v and Svc/Hist_now.v instantiate it
   with HistKey.key and the constants translated from the source. *)
From Coq Require Import List Bool Arith Lia.
From NG Require Import Svc.HistKey.
Import ListNotations.

Section HistCache.
  Variable A : Type.
  Variable A_eq_dec : forall x y : A, {x = y} + {x <> y}.
  Variable K : Type.                                   (* keys *)
  Variable K_eqb : K -> K -> bool.
  Variable keyf : list (msg A) -> K.
  Variable Ev : Type.                                  (* events *)
  Variable conv : list (msg A) -> list Ev.             (* conversion of the uncached message suffix *)

  Notation message := (msg A).

  Record entry : Type := Entry { e_key : K; e_msgs : list message; e_events : list Ev }.
  Definition cache := list entry.

  Definition hit (verify : bool) (P : list message) (e : entry) : bool :=
    K_eqb (e_key e) (keyf P) && (negb verify || msgs_eqb A_eq_dec (e_msgs e) P).

  Definition lookup (verify : bool) (c : cache) (P : list message) : option (list Ev) :=
    option_map e_events (find (hit verify P) c).

  (* p = the number of prefixes still to try: tries messages[0:p], then p-1, ..., 1 *)
  Fixpoint search (verify : bool) (c : cache) (ms : list message) (p : nat) : option (nat * list Ev) :=
    match p with
    | O => None
    | S p' => match lookup verify c (firstn p ms) with
              | Some ev => Some (p, ev)
              | None => search verify c ms p'
              end
    end.

  Definition events_for (verify : bool) (c : cache) (ms : list message) : list Ev :=
    match search verify c ms (length ms - 1) with
    | Some (p, ev) => ev ++ conv (skipn p ms)
    | None => conv ms
    end.

  Definition store (c : cache) (ms : list message) (ev : list Ev) : cache :=
    Entry (keyf ms) ms ev :: c.

  (* one request, the outcome of generation given from outside (used by the trace check) *)
  Definition serve (verify : bool) (c : cache) (ms : list message) (nw : list Ev) (r : message)
    : cache * list Ev :=
    let ev := events_for verify c ms in
    (store c (ms ++ [r]) (ev ++ nw), ev).

  (* ---- conversations on one instance ---- *)
  Variable G : list Ev -> list Ev.                     (* generation: new events from the event list *)
  Variable reply : list Ev -> message.                 (* the returned message, from the new events *)

  Definition turn := list message.                     (* the messages a client appends in one request *)

  Record obs : Type := Obs { o_events : list Ev; o_reply : message }.

  Record cstate : Type := CState { cs_hist : list message; cs_done : nat }.

  Record state : Type := State { st_cache : cache; st_conv : nat -> cstate }.

  Definition init : state := State [] (fun _ => CState [] 0).

  Definition upd (f : nat -> cstate) (c : nat) (v : cstate) : nat -> cstate :=
    fun x => if Nat.eqb x c then v else f x.

  (* conversation c makes its next request (no-op when it has no turn left) *)
  Definition step (verify : bool) (convs : nat -> list turn) (st : state) (c : nat)
    : state * option obs :=
    let cs := st_conv st c in
    match nth_error (convs c) (cs_done cs) with
    | None => (st, None)
    | Some t =>
        let ms := cs_hist cs ++ t in
        let ev := events_for verify (st_cache st) ms in
        let nw := G ev in
        let r := reply nw in
        (State (store (st_cache st) (ms ++ [r]) (ev ++ nw))
               (upd (st_conv st) c (CState (ms ++ [r]) (S (cs_done cs)))),
         Some (Obs ev r))
    end.

  (* a schedule is any sequence of conversation ids; the log records who was served and what
     events its request was turned into / what it was answered *)
  Fixpoint run (verify : bool) (convs : nat -> list turn) (sched : list nat) (st : state)
    : state * list (nat * obs) :=
    match sched with
    | [] => (st, [])
    | c :: rest =>
        let '(st1, o) := step verify convs st c in
        let '(st2, log) := run verify convs rest st1 in
        (st2, match o with Some x => (c, x) :: log | None => log end)
    end.

  Definition trace_of (c : nat) (log : list (nat * obs)) : list obs :=
    map snd (filter (fun x => Nat.eqb (fst x) c) log).

  Definition shared_trace (verify : bool) (convs : nat -> list turn) (sched : list nat) (c : nat) : list obs :=
    trace_of c (snd (run verify convs sched init)).

  (* the same conversation alone on a fresh instance: defined without any reference to other
     conversations or schedules *)
  Fixpoint alone_from (verify : bool) (c : cache) (hist : list message) (ts : list turn) : list obs :=
    match ts with
    | [] => []
    | t :: rest =>
        let ms := hist ++ t in
        let ev := events_for verify c ms in
        let nw := G ev in
        let r := reply nw in
        Obs ev r :: alone_from verify (store c (ms ++ [r]) (ev ++ nw)) (ms ++ [r]) rest
    end.

  Definition alone (verify : bool) (ts : list turn) : list obs := alone_from verify [] [] ts.

  (* ---- what a well-behaved client sends ---- *)
  Variable is_reply : role -> bool.     (* roles of messages produced by the service: assistant, exception *)

  Definition client_msg (m : message) : Prop := is_reply (m_role m) = false.
  (* an honest turn: at least one message, none of them impersonating the service *)
  Definition honest_turn (t : turn) : Prop := t <> [] /\ Forall client_msg t.
  Definition honest (convs : nat -> list turn) : Prop := forall c, Forall honest_turn (convs c).

  (* canonical semantics of a sequence of turns (newest first): history after it and the
     events stored for that history *)
  Fixpoint canon (rts : list turn) : list message * list Ev :=
    match rts with
    | [] => ([], [])
    | t :: older =>
        let '(h, full) := canon older in
        let ev := full ++ conv t in
        let nw := G ev in
        ((h ++ t) ++ [reply nw], ev ++ nw)
    end.

  Definition canon_ev (rts : list turn) : list Ev :=
    match rts with
    | [] => []
    | t :: older => snd (canon older) ++ conv t
    end.

  Definition canon_obs (rts : list turn) : obs :=
    Obs (canon_ev rts) (reply (G (canon_ev rts))).

  (* history of conversation c after its first n turns; its (n+1)-th request *)
  Definition hist_after (convs : nat -> list turn) (c n : nat) : list message :=
    fst (canon (rev (firstn n (convs c)))).
  Definition request (convs : nat -> list turn) (c n : nat) : list message :=
    hist_after convs c n ++ nth n (convs c) [].

  (* the message lists in play: everything stored and every prefix looked up *)
  Definition in_play (convs : nat -> list turn) (P : list message) : Prop :=
    (exists c n, 0 < n <= length (convs c) /\ P = hist_after convs c n) \/
    (exists c n p, n < length (convs c) /\ 0 < p < length (request convs c n) /\
                   P = firstn p (request convs c n)).

  Definition keyf_injective_on (S : list message -> Prop) : Prop :=
    forall x y, S x -> S y -> keyf x = keyf y -> x = y.
End HistCache.
