(* V1.Sim_proofs - compute_next_steps on the compiled code of a structured program equals the
   reference semantics Structured.next_steps: simulation between the interpreter's State and the
   specification's state, event by event.

   This file proves it for programs whose dialog flow contains no `do` (compile_correct_nodo: at
   most one live flow state); V1/Stack_proofs.v proves the full statement with subflow calls and
   reuses the general lemmas of this file. *)
From Coq Require Import ZArith QArith List String Bool Lia.
From NG Require Import V1.Expr V1.Elems V1.Slide V1.Interp V1.Structured V1.Interp_proofs
                       V1.Code_proofs V1.Slide_proofs.
Import ListNotations.
Open Scope list_scope.
Open Scope Z_scope.

(* ------------------------------------------------------------------ programs without `do` *)

Fixpoint nodo_stmt (s : stmt) : bool :=
  match s with
  | SDo _ => false
  | SIf _ t e =>
      (fix go (l : list stmt) : bool := match l with [] => true | x :: r => nodo_stmt x && go r end) t &&
      (fix go (l : list stmt) : bool := match l with [] => true | x :: r => nodo_stmt x && go r end) e
  | SWhile _ b =>
      (fix go (l : list stmt) : bool := match l with [] => true | x :: r => nodo_stmt x && go r end) b
  | _ => true
  end.

Fixpoint nodo_block (l : list stmt) : bool :=
  match l with [] => true | x :: r => nodo_stmt x && nodo_block r end.

Fixpoint nodo_kont (k : kont) : bool :=
  match k with
  | KDone => true
  | KSeq rest k' => nodo_block rest && nodo_kont k'
  | KLoop _ body k' => nodo_block body && nodo_kont k'
  end.

Lemma nodo_if : forall c t e, nodo_stmt (SIf c t e) = nodo_block t && nodo_block e.
Proof. reflexivity. Qed.

Lemma nodo_while : forall c b, nodo_stmt (SWhile c b) = nodo_block b.
Proof. reflexivity. Qed.

Lemma nodo_block_cons : forall s r, nodo_block (s :: r) = nodo_stmt s && nodo_block r.
Proof. reflexivity. Qed.

Lemma nodo_unwind : forall k c b k', nodo_kont k = true -> unwind k = Some (c, b, k') ->
  nodo_block b = true /\ nodo_kont k' = true.
Proof.
  induction k; simpl; intros c0 b0 k0 Hn Hu; try discriminate.
  - apply andb_true_iff in Hn. destruct Hn. eapply IHk; eauto.
  - apply andb_true_iff in Hn. destruct Hn. inversion Hu; subst. auto.
Qed.

Definition xres_of (r : lres) : xres :=
  match r with
  | LWait w k c u => XWait w k [] c u
  | LCallR _ _ _ _ => XExc
  | LEnd c u => XEnd c u
  | LExc => XExc
  | LFuel => XFuel
  end.

Definition lres_nodo (r : lres) : Prop :=
  match r with
  | LWait _ k _ _ => nodo_kont k = true
  | LCallR _ _ _ _ => False
  | _ => True
  end.

Lemma exec_lexec : forall subs fuel c u blk k,
  nodo_block blk = true -> nodo_kont k = true ->
  exec subs fuel c u blk k = xres_of (lexec fuel c u blk k) /\ lres_nodo (lexec fuel c u blk k).
Proof.
  intros subs. induction fuel as [|f IH]; intros c u blk k Hb Hk; [simpl; auto|].
  destruct blk as [|s rest].
  - simpl. destruct k; simpl in Hk.
    + simpl; auto.
    + apply andb_true_iff in Hk. destruct Hk. apply IH; auto.
    + apply andb_true_iff in Hk. destruct Hk. apply IH; auto.
      rewrite nodo_block_cons, nodo_while, H. reflexivity.
  - rewrite nodo_block_cons in Hb. apply andb_true_iff in Hb. destruct Hb as [Hs Hr].
    assert (Hkr : nodo_kont (KSeq rest k) = true) by (simpl; rewrite Hr, Hk; reflexivity).
    destruct s; simpl; auto.
    + destruct (eval c e); [apply IH; auto|simpl; auto].
    + rewrite nodo_if in Hs. apply andb_true_iff in Hs. destruct Hs as [Ht He].
      destruct (eval c c0) as [v|]; [|simpl; auto]. destruct (truthy v); apply IH; auto.
    + rewrite nodo_while in Hs.
      destruct (eval c c0) as [v|]; [|simpl; auto]. destruct (truthy v); apply IH; auto.
      simpl. rewrite Hs, Hr, Hk. reflexivity.
    + destruct (unwind k) as [[[cnd b] k']|] eqn:Hu; [|simpl; auto].
      destruct (nodo_unwind _ _ _ _ Hk Hu). apply IH; auto.
    + destruct (unwind k) as [[[cnd b] k']|] eqn:Hu; [|simpl; auto].
      destruct (nodo_unwind _ _ _ _ Hk Hu). apply IH; auto.
      rewrite nodo_block_cons, nodo_while, H. reflexivity.
    + discriminate.
Qed.

(* ------------------------------------------------------------------ small facts about the interpreter *)

Definition dead (fs : fstate) : Prop := f_status fs = Completed \/ f_status fs = Aborted.

Lemma st_set_fss_same : forall s, st_set_fss s (st_fss s) = s.
Proof. destruct s; reflexivity. Qed.

Lemma record_next_step_inv : forall s fs cfg m s1,
  record_next_step s fs cfg m = Ok s1 ->
  st_fss s1 = st_fss s /\ st_ctx s1 = st_ctx s /\ st_upd s1 = st_upd s /\ st_uid s1 = st_uid s.
Proof.
  intros s fs cfg m s1 H. unfold record_next_step in H.
  destruct (match st_next s with None => true | Some _ => false end || Qltb (st_prio s) (fc_priority cfg)).
  - destruct (pyidx (fc_elems cfg) (f_head fs)) as [el|]; simpl in H; [|discriminate].
    destruct (is_actionable el); inversion H; subst; simpl; auto.
  - inversion H; subst; auto.
Qed.

Lemma record_next_step_fresh : forall s fs cfg m el,
  st_next s = None -> pyidx (fc_elems cfg) (f_head fs) = Some el ->
  record_next_step s fs cfg m =
  Ok (if is_actionable el then st_set_next s (Some el) (Some (f_uid fs)) (Qred (fc_priority cfg * m)) else s).
Proof.
  intros s fs cfg m el Hn Hp. unfold record_next_step. rewrite Hn, Hp. simpl.
  destruct (is_actionable el); reflexivity.
Qed.

Lemma sws_S : forall o f cs s fs,
  sws o (S f) cs s fs =
  bind (of_opt (find_config cs (f_flow fs))) (fun cfg =>
    match slide f (fc_elems cfg) (f_head fs) (st_ctx s) (st_upd s) with
    | SFuel => Fuel
    | SErr => Exc
    | SNone => Exc
    | SOk h c u =>
        let s1 := st_set_ctx s c u in
        let fs1 := fs_head fs h in
        if h >=? 0 then
          bind (of_opt (pyidx (fc_elems cfg) h)) (fun el =>
          match el with
          | LFlow name =>
              let sub := new_fstate (st_uid s1) name 0 in
              let s2 := st_bump_uid s1 in
              let fs2 := fs_head fs1 (h + 1) in
              bind (sws o f cs s2 sub) (fun r =>
              let '(s3, sub') := r in
              if f_head sub' <? 0 then sws o f cs s3 fs2
              else
                let fs3 := fs_intby (fs_status fs2 Interrupted) (Some (f_uid sub')) in
                let s4 := st_push s3 sub' in
                bind (of_opt (find_config cs (f_flow sub'))) (fun scfg =>
                bind (if o_guard o && negb (status_eqb (f_status sub') Active) then Ok s4
                      else record_next_step s4 sub' scfg 1) (fun s5 =>
                Ok (s5, fs3))))
          | _ => bind (record_next_step s1 fs1 cfg 1) (fun s2 => Ok (s2, fs1))
          end)
        else Ok (s1, fs1)
    end).
Proof. reflexivity. Qed.

Lemma phase1_dead : forall o f cs ev l s ext,
  Forall dead l -> phase1 o f cs ev l s ext = Ok (s, ext).
Proof.
  intros o f cs ev l s ext H. induction H as [|fs l Hd _ IH]; simpl; [reflexivity|].
  destruct Hd as [Hd|Hd]; rewrite Hd; exact IH.
Qed.

Lemma phase2_subflows : forall o f cs ev todo s,
  Forall (fun c => fc_subflow c = true) todo -> phase2 o f cs ev todo s = Ok s.
Proof.
  intros o f cs ev todo s H. induction H as [|c l Hc _ IH]; simpl; [reflexivity|].
  rewrite Hc. exact IH.
Qed.

Definition no_interrupted (l : list fstate) : Prop :=
  Forall (fun fs => status_eqb (f_status fs) Interrupted = false) l.

Lemma assign_intby_id : forall s, no_interrupted (st_fss s) -> assign_intby s = s.
Proof.
  intros s H. unfold assign_intby.
  replace (map _ (st_fss s)) with (st_fss s); [apply st_set_fss_same|].
  induction H as [|fs l Hf _ IH]; simpl; [reflexivity|]. rewrite Hf. simpl. f_equal. exact IH.
Qed.

Lemma resume_pass_noint : forall o cs s n i f ch,
  no_interrupted (st_fss s) ->
  (List.length (st_fss s) - i <= n)%nat -> (n < f)%nat ->
  resume_pass o f cs s i ch = Ok (s, ch).
Proof.
  intros o cs s. induction n as [|n IH]; intros i f ch Hno Hlen Hf.
  - destruct f as [|f]; [lia|]. simpl.
    destruct (nth_error (st_fss s) i) eqn:E; [|reflexivity].
    assert (i < List.length (st_fss s))%nat by (apply nth_error_Some; congruence). lia.
  - destruct f as [|f]; [lia|]. simpl.
    destruct (nth_error (st_fss s) i) as [fs|] eqn:E; [|reflexivity].
    assert (Hin : In fs (st_fss s)) by (eapply nth_error_In; eauto).
    unfold no_interrupted in Hno. rewrite Forall_forall in Hno. rewrite (Hno _ Hin).
    apply IH; [apply Forall_forall; exact Hno|lia|lia].
Qed.

Lemma resume_loop_noint : forall o cs s f,
  no_interrupted (st_fss s) -> (List.length (st_fss s) + 1 < f)%nat ->
  resume_loop o f cs s = Ok s.
Proof.
  intros o cs s f Hno Hf. destruct f as [|f]; [lia|].
  cbn [resume_loop]. rewrite (resume_pass_noint o cs s (List.length (st_fss s)) 0 (S f) false Hno); [reflexivity|lia|lia].
Qed.

Lemma resume_pass_S : forall o f cs s i changes,
  resume_pass o (S f) cs s i changes =
  match nth_error (st_fss s) i with
  | None => Ok (s, changes)
  | Some fs =>
      if status_eqb (f_status fs) Interrupted then
        let '(should_resume, should_abort) :=
          match f_intby fs with
          | None => (true, false)
          | Some u =>
              match find_uid (st_fss s) u with
              | Some g => (status_eqb (f_status g) Completed, status_eqb (f_status g) Aborted)
              | None => (false, false)
              end
          end in
        if should_resume then
          let fs1 := fs_intby (fs_status fs Active) None in
          let s1 := st_set_fss s (list_set (st_fss s) i fs1) in
          bind (sws o f cs s1 fs1) (fun r =>
          let '(s2, fs2) := r in
          let fs3 := if f_head fs2 <? 0 then fs_status fs2 Completed else fs2 in
          resume_pass o f cs (st_set_fss s2 (list_set (st_fss s2) i fs3)) (S i) true)
        else if should_abort then
          let fs1 := fs_intby (fs_status fs Aborted) None in
          resume_pass o f cs (st_set_fss s (list_set (st_fss s) i fs1)) (S i) true
        else resume_pass o f cs s (S i) changes
      else resume_pass o f cs s (S i) changes
  end.
Proof. reflexivity. Qed.

Lemma resume_loop_S : forall o f cs s,
  resume_loop o (S f) cs s =
  bind (resume_pass o (S f) cs s 0 false) (fun r =>
  let '(s1, changes) := r in if changes then resume_loop o f cs s1 else Ok s1).
Proof. reflexivity. Qed.

Lemma decision_flow_in : forall s dfs, decision_flow s = Some dfs -> In dfs (st_fss s).
Proof.
  intros s dfs. unfold decision_flow. destruct (st_by s) as [u|]; [|discriminate].
  assert (G : forall l acc, fold_left (fun acc fs => if N.eqb (f_uid fs) u then Some fs else acc) l acc = Some dfs ->
                            In dfs l \/ acc = Some dfs).
  { induction l as [|x l IH]; simpl; intros acc H; [right; exact H|].
    destruct (IH _ H) as [Hin|Hacc]; [left; right; exact Hin|].
    destruct (N.eqb (f_uid x) u); [inversion Hacc; subst; left; left; reflexivity|right; exact Hacc]. }
  intros H. destruct (G _ _ H) as [Hin|Hd]; [exact Hin|discriminate].
Qed.

(* ------------------------------------------------------------------ one structured program *)

Section Prog.
  Variable p : prog.
  Variable o : opts.
  Hypothesis Hwf : wf_prog p = true.
  Hypothesis Hnodo : nodo_block (p_main p) = true.
  Hypothesis Hmark : o_mark o = true.

  Let Cm : list elem := compile_block None (p_main p).
  Let mcfg : flow_config := mk_config (p_id p) Cm false.
  Let cs : configs := compile_prog p.

  Lemma cs_eq : cs = mcfg :: map (fun nb => mk_config (fst nb) (compile_block None (snd nb)) true) (p_subs p).
  Proof. reflexivity. Qed.

  Lemma find_main : find_config cs (p_id p) = Some mcfg.
  Proof. rewrite cs_eq. simpl. rewrite String.eqb_refl. reflexivity. Qed.

  Lemma main_shape : exists i0 rest0, p_main p = SUser i0 :: rest0 /\ wf_block false rest0 = true /\
                                      nodo_block rest0 = true.
  Proof.
    pose proof Hwf as W. pose proof Hnodo as N. unfold wf_prog in W.
    apply andb_true_iff in W. destruct W as [W W4].
    apply andb_true_iff in W. destruct W as [W W3].
    apply andb_true_iff in W. destruct W as [W1 W2].
    destruct (p_main p) as [|s rest0] eqn:E; [discriminate|]. destruct s; try discriminate.
    exists intent, rest0. split; [reflexivity|]. split.
    - simpl in W2. exact W2.
    - rewrite nodo_block_cons in N. simpl in N. exact N.
  Qed.

  Lemma Cm_shape : forall i0 rest0, p_main p = SUser i0 :: rest0 ->
    Cm = LUser i0 :: compile_block None rest0.
  Proof. intros i0 rest0 E. unfold Cm. rewrite E. reflexivity. Qed.

  Lemma Cm_pos : 0 < zlen Cm.
  Proof.
    destruct main_shape as (i0 & rest0 & E & _). rewrite (Cm_shape _ _ E), zlen_cons.
    pose proof (zlen_nonneg (compile_block None rest0)). lia.
  Qed.

  Lemma subs_all_subflow :
    Forall (fun c => fc_subflow c = true)
           (map (fun nb => mk_config (fst nb) (compile_block None (snd nb)) true) (p_subs p)).
  Proof. apply Forall_forall. intros c Hin. apply in_map_iff in Hin. destruct Hin as (nb & E & _). subst. reflexivity. Qed.

  (* ---------------------------------------------------------------- sws on the dialog flow *)

  Definition sws_post (r : lres) (s : state) (fs : fstate) (res : res (state * fstate)) : Prop :=
    match r with
    | LWait w k' c' u' =>
        exists pw lp' s1, res = Ok (s1, fs_head fs pw) /\ instr Cm pw = Some (elem_of_wait w) /\ wf_wait w /\
                          kmatch Cm k' (pw + 1) lp' /\
                          record_next_step (st_set_ctx s c' u') (fs_head fs pw) mcfg 1 = Ok s1
    | LEnd c' u' => exists h, res = Ok (st_set_ctx s c' u', fs_head fs h) /\ h < 0
    | LExc => res = Exc
    | _ => False
    end.

  Lemma sws_sim : forall fuel c u blk k r,
    lexec fuel c u blk k = r -> r <> LFuel -> lres_nodo r ->
    forall pc lp s fs,
      code_at Cm pc (compile_block (rel lp pc) blk) ->
      wf_block (inl lp) blk = true ->
      kmatch Cm k (pc + bsize blk) lp ->
      st_ctx s = c -> st_upd s = u -> f_flow fs = p_id p -> f_head fs = pc ->
      exists res, sws_post r s fs res /\ exists F, forall f, (F <= f)%nat -> sws o f cs s fs = res.
  Proof.
    intros fuel c u blk k r Hr Hnf Hnd pc lp s fs Hcode Hwfb Hk Hc Hu Hfl Hh.
    destruct (lexec_slide Cm fuel c u blk k r pc lp Hr Hnf Hcode Hwfb Hk Cm_pos) as (sr & Hpost & F & HF).
    destruct r as [w k' c' u'|name k' c' u'|c' u'| |]; simpl in Hpost, Hnd; try contradiction.
    - (* blocked on a statement *)
      destruct Hpost as (pw & lp' & Esr & Hi & Hw & Hk').
      pose proof (instr_lt _ _ _ Hi) as Hrg.
      pose proof (instr_pyidx _ _ _ (proj1 Hrg) Hi) as Hpy.
      assert (Hrec : exists s1, record_next_step (st_set_ctx s c' u') (fs_head fs pw) mcfg 1 = Ok s1).
      { unfold record_next_step. simpl fc_elems. simpl f_head. rewrite Hpy. simpl.
        destruct (_ || _); [destruct (is_actionable _)|]; eauto. }
      destruct Hrec as (s1 & Hrec).
      exists (Ok (s1, fs_head fs pw)). split.
      + simpl. exists pw, lp', s1. repeat split; auto.
      + exists (S F). intros f Hf. destruct f as [|f]; [lia|].
        rewrite sws_S, Hfl, find_main. cbn [of_opt bind]. change (fc_elems mcfg) with Cm.
        rewrite Hh, Hc, Hu, (HF f) by lia. rewrite Esr. cbv zeta.
        replace (pw >=? 0) with true by (symmetry; apply Z.geb_le; lia).
        rewrite Hpy. cbn [of_opt bind].
        destruct w; cbn [elem_of_wait]; rewrite Hrec; reflexivity.
    - (* the body ended *)
      destruct Hpost as (h & Esr & Hneg).
      exists (Ok (st_set_ctx s c' u', fs_head fs h)). split.
      + simpl. exists h. split; [reflexivity|exact Hneg].
      + exists (S F). intros f Hf. destruct f as [|f]; [lia|].
        rewrite sws_S, Hfl, find_main. cbn [of_opt bind]. change (fc_elems mcfg) with Cm.
        rewrite Hh, Hc, Hu, (HF f) by lia. rewrite Esr. cbv zeta.
        replace (h >=? 0) with false by (symmetry; rewrite Z.geb_leb; apply Z.leb_gt; lia).
        reflexivity.
    - (* exception *)
      exists Exc. split; [reflexivity|].
      exists (S F). intros f Hf. destruct f as [|f]; [lia|].
      rewrite sws_S, Hfl, find_main. cbn [of_opt bind]. change (fc_elems mcfg) with Cm.
      rewrite Hh, Hc, Hu, (HF f) by lia. rewrite Hpost. reflexivity.
  Qed.

  (* ---------------------------------------------------------------- compute_next_state *)

  (* what compute_next_state does after the two loops over flows *)
  Definition cns_tail (fuel : nat) (s2 : state) (ext : bool) : res state :=
    bind (if ext then reactivate cs s2 0 (List.length (st_fss s2)) else Ok s2) (fun s3 =>
    let s4 := assign_intby s3 in
    bind (match decision_flow s4 with
          | None => Ok s4
          | Some dfs =>
              bind (of_opt (find_config cs (f_flow dfs))) (fun dcfg =>
              if fc_extension dcfg && (1 <? f_head dfs) then
                bind (ext_interrupt cs (st_by s4) (st_fss s4)) (fun l => Ok (st_set_fss s4 l))
              else Ok s4)
          end) (fun s5 =>
    resume_loop o fuel cs s5)).

  Definition new_state_of (s : state) : state :=
    {| st_ctx := st_ctx s; st_fss := []; st_next := None; st_by := None; st_prio := 0;
       st_upd := []; st_uid := st_uid s |}.

  Definition plain_event (ev : event) : Prop :=
    match ev with EvStartAct | EvCtx _ | EvHide => False | _ => True end.

  Lemma cns_unfold : forall fuel s ev, plain_event ev ->
    compute_next_state o fuel cs s ev =
    bind (phase1 o fuel cs ev (st_fss s) (new_state_of s) false) (fun r =>
    let '(s1, ext) := r in
    bind (phase2 o fuel cs ev cs s1) (fun s2 => cns_tail fuel s2 ext)).
  Proof. intros fuel s ev H. destruct ev; simpl in H; try contradiction; reflexivity. Qed.

  Definition all_main (l : list fstate) : Prop := Forall (fun fs => f_flow fs = p_id p) l.

  Lemma cns_tail_quiet : forall fuel s2,
    no_interrupted (st_fss s2) -> all_main (st_fss s2) ->
    (List.length (st_fss s2) + 1 < fuel)%nat ->
    cns_tail fuel s2 false = Ok s2.
  Proof.
    intros fuel s2 Hno Hmain Hf. unfold cns_tail. cbn [bind].
    rewrite (assign_intby_id _ Hno).
    destruct (decision_flow s2) as [dfs|] eqn:Ed.
    - apply decision_flow_in in Ed. unfold all_main in Hmain. rewrite Forall_forall in Hmain.
      rewrite (Hmain _ Ed), find_main. cbn [of_opt bind]. simpl fc_extension. cbn [andb bind].
      apply resume_loop_noint; auto.
    - cbn [bind]. apply resume_loop_noint; auto.
  Qed.

  (* the start loop when the dialog flow already has an instance *)
  Lemma phase2_present : forall fuel ev s,
    has_flow (st_fss s) (p_id p) = true -> phase2 o fuel cs ev cs s = Ok s.
  Proof.
    intros fuel ev s H. rewrite cs_eq at 2. simpl. rewrite H. simpl.
    apply phase2_subflows. apply subs_all_subflow.
  Qed.

  Lemma has_flow_single : forall fs, f_flow fs = p_id p -> has_flow [fs] (p_id p) = true.
  Proof. intros fs H. simpl. rewrite H, String.eqb_refl. reflexivity. Qed.

  (* ---------------------------------------------------------------- the simulation relation *)

  Definition R (s : state) (sp : spec_state) : Prop :=
    st_ctx s = sp_ctx sp /\ st_upd s = sp_upd sp /\
    st_next s = option_map elem_of_wait (sp_next sp) /\
    (forall w, sp_next sp = Some w -> wf_wait w /\ actionable w = true) /\
    all_main (st_fss s) /\
    match sp_st sp with
    | Idle => Forall dead (st_fss s)
    | Run w k [] => exists fs lp, st_fss s = [fs] /\ f_status fs = Active /\ f_intby fs = None /\
                                  instr Cm (f_head fs) = Some (elem_of_wait w) /\ wf_wait w /\
                                  kmatch Cm k (f_head fs + 1) lp /\ nodo_kont k = true
    | Run _ _ (_ :: _) => False
    end.

  Lemma slide_stays : forall f pc c u el,
    instr Cm pc = Some el -> slide_elem el pc c u = StStay -> slide (S f) Cm pc c u = SOk pc c u.
  Proof.
    intros f pc c u el Hi He. unfold slide. simpl. destruct (instr_nth _ _ _ Hi) as [E1 E2].
    rewrite E1, E2, He. reflexivity.
  Qed.

  Lemma slide_elem_wait : forall w pc c u, slide_elem (elem_of_wait w) pc c u = StStay.
  Proof. destruct w; reflexivity. Qed.

  (* a state whose only flow state waits on statement w, with the next step just recorded *)
  Lemma R_wait_gen : forall s0 fs w k' lp' s1 m,
    st_next s0 = None ->
    record_next_step s0 fs mcfg m = Ok s1 ->
    instr Cm (f_head fs) = Some (elem_of_wait w) -> wf_wait w -> kmatch Cm k' (f_head fs + 1) lp' ->
    nodo_kont k' = true ->
    f_flow fs = p_id p -> f_status fs = Active -> f_intby fs = None ->
    R (st_set_fss s1 [fs])
      {| sp_st := Run w k' []; sp_ctx := st_ctx s0; sp_upd := st_upd s0;
         sp_next := if actionable w then Some w else None |}.
  Proof.
    intros s0 fs w k' lp' s1 m Hn Hrec Hi Hw Hk Hnk Hfl Hst Hib.
    pose proof (instr_lt _ _ _ Hi) as Hrg.
    pose proof (instr_pyidx _ _ _ (proj1 Hrg) Hi) as Hpy.
    rewrite (record_next_step_fresh _ _ _ _ (elem_of_wait w)) in Hrec; [|exact Hn|exact Hpy].
    rewrite (is_actionable_wait _ Hw) in Hrec. inversion Hrec; subst s1; clear Hrec.
    unfold R. cbn [sp_st sp_ctx sp_upd sp_next].
    assert (Hm : all_main [fs]) by (constructor; [exact Hfl|constructor]).
    assert (Hrun : exists fs0 lp, [fs] = [fs0] /\ f_status fs0 = Active /\ f_intby fs0 = None /\
                     instr Cm (f_head fs0) = Some (elem_of_wait w) /\ wf_wait w /\
                     kmatch Cm k' (f_head fs0 + 1) lp /\ nodo_kont k' = true).
    { exists fs, lp'. repeat split; auto. }
    destruct (actionable w) eqn:Ea; simpl;
      (split; [reflexivity|split; [reflexivity|split; [try reflexivity; exact Hn|split; [|split; [exact Hm|exact Hrun]]]]]).
    - intros w0 E. inversion E; subst. auto.
    - intros w0 E. discriminate.
  Qed.

  Lemma R_after_wait : forall s0 c' u' fs pw w k' lp' s1,
    st_next s0 = None ->
    record_next_step (st_set_ctx s0 c' u') (fs_head fs pw) mcfg 1 = Ok s1 ->
    instr Cm pw = Some (elem_of_wait w) -> wf_wait w -> kmatch Cm k' (pw + 1) lp' -> nodo_kont k' = true ->
    f_flow fs = p_id p -> f_status fs = Active -> f_intby fs = None ->
    R (st_set_fss s1 [fs_head fs pw])
      {| sp_st := Run w k' []; sp_ctx := c'; sp_upd := u'; sp_next := if actionable w then Some w else None |}.
  Proof.
    intros s0 c' u' fs pw w k' lp' s1 Hn Hrec Hi Hw Hk Hnk Hfl Hst Hib.
    apply (R_wait_gen (st_set_ctx s0 c' u') (fs_head fs pw) w k' lp' s1 1); auto.
  Qed.

  Definition res_rel (flat : nat -> res state) (spec : res spec_state) : Prop :=
    match spec with
    | Ok sp' => exists s', R s' sp' /\ exists F, forall f, (F <= f)%nat -> flat f = Ok s'
    | Exc => exists F, forall f, (F <= f)%nat -> flat f = Exc
    | Fuel => True
    end.

  Lemma R_after_end : forall s0 c' u' fs h,
    st_next s0 = None -> f_flow fs = p_id p ->
    R (st_set_fss (st_set_ctx s0 c' u') [fs_status (fs_head fs h) Completed])
      {| sp_st := Idle; sp_ctx := c'; sp_upd := u'; sp_next := None |}.
  Proof.
    intros s0 c' u' fs h Hn Hfl. unfold R. cbn [sp_st sp_ctx sp_upd sp_next]. simpl.
    split; [reflexivity|split; [reflexivity|split; [exact Hn|split; [|split]]]].
    - intros w E. discriminate.
    - constructor; [exact Hfl|constructor].
    - constructor; [left; reflexivity|constructor].
  Qed.

  Lemma fuel_max : forall (P Q : nat -> Prop) F1 F2,
    (forall f, (F1 <= f)%nat -> P f) -> (forall f, (F2 <= f)%nat -> Q f) ->
    forall f, (Nat.max F1 F2 <= f)%nat -> P f /\ Q f.
  Proof. intros P Q F1 F2 H1 H2 f Hf. split; [apply H1|apply H2]; lia. Qed.


  (* phase 1 on the single running instance of the dialog flow, waiting on statement w *)
  Lemma phase1_single : forall f ev fs w ns,
    f_flow fs = p_id p -> f_status fs = Active ->
    instr Cm (f_head fs) = Some (elem_of_wait w) -> wf_wait w ->
    phase1 o f cs ev [fs] ns false =
    if negb (string_in (event_type ev) default_triggers) then
      bind (record_next_step (st_push ns fs) fs mcfg q09) (fun s1 => Ok (s1, false))
    else if wait_match w ev then
      bind (sws o f cs ns (fs_head fs (f_head fs + 1))) (fun r =>
        let '(s1, fs1) := r in
        if f_head fs1 <? 0 then Ok (st_push s1 (fs_status fs1 Completed), false)
        else Ok (st_push s1 fs1, false))
    else if actionable w then Ok (st_push ns (fs_status fs Aborted), false)
    else Ok (st_push ns (fs_status fs Interrupted), false).
  Proof.
    intros f ev fs w ns Hfl Hst Hi Hw.
    pose proof (instr_lt _ _ _ Hi) as Hrg.
    pose proof (instr_pyidx _ _ _ (proj1 Hrg) Hi) as Hpy.
    cbn [phase1]. rewrite Hst, Hfl, find_main. cbn [of_opt bind]. change (fc_elems mcfg) with Cm.
    rewrite Hpy. cbn [of_opt bind]. change (fc_triggers mcfg) with default_triggers.
    destruct (negb (string_in (event_type ev) default_triggers)).
    - destruct (record_next_step (st_push ns fs) fs mcfg q09); reflexivity.
    - pose proof (is_match_wait w ev Hw) as Hm. pose proof (is_actionable_wait w Hw) as Ha.
      assert (Hz : (f_head fs + 1 =? 0) = false) by (apply Z.eqb_neq; lia).
      destruct w; cbn [elem_of_wait] in *; rewrite Hm; destruct (wait_match _ ev); cbn [bind];
        try rewrite Hz; try rewrite Ha; cbn [bind orb negb];
        try (destruct (sws o f cs ns (fs_head fs (f_head fs + 1))) as [[s1 fs1]| |]; cbn [bind]; try reflexivity;
             destruct (f_head fs1 <? 0); reflexivity);
        try (simpl fc_interruptible; cbn [negb orb]; destruct (actionable _); reflexivity).
  Qed.

  (* a waiting flow receives the event it waits for *)
  Lemma run_match : forall fuel s w k ev fs lp c,
    plain_event ev ->
    st_fss s = [fs] -> f_flow fs = p_id p -> f_status fs = Active -> f_intby fs = None ->
    instr Cm (f_head fs) = Some (elem_of_wait w) -> wf_wait w ->
    kmatch Cm k (f_head fs + 1) lp -> nodo_kont k = true ->
    st_ctx s = c ->
    string_in (event_type ev) default_triggers = true ->
    wait_match w ev = true ->
    res_rel (fun f => compute_next_state o f cs s ev)
            (of_xres (xres_of (lexec fuel c [] [] k))).
  Proof.
    intros fuel s w k ev fs lp c Hpl Hfss Hfl Hst Hib Hi Hw Hk Hnk Hc Htr Hm.
    pose proof (instr_lt _ _ _ Hi) as Hrg.
    pose proof (instr_pyidx _ _ _ (proj1 Hrg) Hi) as Hpy.
    assert (H1 : code_at Cm (f_head fs + 1) (compile_block (rel lp (f_head fs + 1)) [])).
    { simpl. apply code_at_nil. apply kmatch_range in Hk. exact Hk. }
    assert (H3 : kmatch Cm k (f_head fs + 1 + bsize []) lp).
    { simpl bsize. replace (f_head fs + 1 + 0) with (f_head fs + 1) by lia. exact Hk. }
    remember (lexec fuel c [] [] k) as r eqn:Er. symmetry in Er.
    destruct (exec_lexec (all_flows p) fuel c [] [] k eq_refl Hnk) as [_ Hnd]. rewrite Er in Hnd.
    destruct r as [w' k' c' u'|name k' c' u'|c' u'| |]; simpl in Hnd; try contradiction;
      cbn [xres_of of_xres res_rel]; auto.
    - (* blocks again *)
      assert (Hnf : LWait w' k' c' u' <> LFuel) by congruence.
      set (ns := new_state_of s).
      destruct (sws_sim fuel c [] [] k _ Er Hnf Hnd (f_head fs + 1) lp ns (fs_head fs (f_head fs + 1))
                        H1 eq_refl H3 Hc eq_refl Hfl eq_refl) as (rs & Hpost & F & HF).
      simpl in Hpost. destruct Hpost as (pw & lp' & s1 & Eres & Hi' & Hw' & Hk' & Hrec).
      exists (st_set_fss s1 [fs_head (fs_head fs (f_head fs + 1)) pw]). split.
      + apply (R_after_wait ns c' u' (fs_head fs (f_head fs + 1)) pw w' k' lp' s1); auto.
      + exists (Nat.max F 3). intros f Hf.
        rewrite cns_unfold by exact Hpl. rewrite Hfss. fold ns.
        rewrite (phase1_single f ev fs w ns Hfl Hst Hi Hw), Htr, Hm. cbn [negb].
        rewrite (HF f) by lia. rewrite Eres. cbn [bind].
        pose proof (instr_lt _ _ _ Hi') as Hrg'.
        replace (f_head (fs_head (fs_head fs (f_head fs + 1)) pw) <? 0) with false
          by (symmetry; apply Z.ltb_ge; simpl; lia).
        cbn [phase1 bind].
        destruct (record_next_step_inv _ _ _ _ _ Hrec) as (Hf1 & _).
        rewrite phase2_present.
        2:{ unfold st_push. simpl. rewrite Hf1. simpl. rewrite Hfl, String.eqb_refl. reflexivity. }
        cbn [bind].
        assert (Efss : st_push s1 (fs_head (fs_head fs (f_head fs + 1)) pw)
                       = st_set_fss s1 [fs_head (fs_head fs (f_head fs + 1)) pw]).
        { unfold st_push. rewrite Hf1. reflexivity. }
        rewrite Efss. apply cns_tail_quiet.
        * simpl. constructor; [simpl; rewrite Hst; reflexivity|constructor].
        * simpl. constructor; [exact Hfl|constructor].
        * simpl. lia.
    - (* the flow ends *)
      assert (Hnf : LEnd c' u' <> LFuel) by congruence.
      set (ns := new_state_of s).
      destruct (sws_sim fuel c [] [] k _ Er Hnf Hnd (f_head fs + 1) lp ns (fs_head fs (f_head fs + 1))
                        H1 eq_refl H3 Hc eq_refl Hfl eq_refl) as (rs & Hpost & F & HF).
      simpl in Hpost. destruct Hpost as (h & Eres & Hneg).
      exists (st_set_fss (st_set_ctx ns c' u') [fs_status (fs_head (fs_head fs (f_head fs + 1)) h) Completed]). split.
      + apply R_after_end; auto.
      + exists (Nat.max F 3). intros f Hf.
        rewrite cns_unfold by exact Hpl. rewrite Hfss. fold ns.
        rewrite (phase1_single f ev fs w ns Hfl Hst Hi Hw), Htr, Hm. cbn [negb].
        rewrite (HF f) by lia. rewrite Eres. cbn [bind].
        replace (f_head (fs_head (fs_head fs (f_head fs + 1)) h) <? 0) with true
          by (symmetry; apply Z.ltb_lt; simpl; lia).
        cbn [phase1 bind].
        rewrite phase2_present.
        2:{ simpl. rewrite Hfl, String.eqb_refl. reflexivity. }
        cbn [bind]. simpl orb.
        apply cns_tail_quiet.
        * simpl. constructor; [reflexivity|constructor].
        * simpl. constructor; [exact Hfl|constructor].
        * simpl. lia.
    - (* exception *)
      assert (Hnf : LExc <> LFuel) by congruence.
      set (ns := new_state_of s).
      destruct (sws_sim fuel c [] [] k _ Er Hnf Hnd (f_head fs + 1) lp ns (fs_head fs (f_head fs + 1))
                        H1 eq_refl H3 Hc eq_refl Hfl eq_refl) as (rs & Hpost & F & HF).
      simpl in Hpost. subst rs.
      exists (Nat.max F 3). intros f Hf.
      rewrite cns_unfold by exact Hpl. rewrite Hfss. fold ns.
        rewrite (phase1_single f ev fs w ns Hfl Hst Hi Hw), Htr, Hm. cbn [negb].
        rewrite (HF f) by lia. reflexivity.
  Qed.

  (* sws on a flow state that already sits on the statement it waits for *)
  Lemma sws_at_wait : forall f s fs w,
    f_flow fs = p_id p -> instr Cm (f_head fs) = Some (elem_of_wait w) ->
    sws o (S (S f)) cs s fs =
    bind (record_next_step (st_set_ctx s (st_ctx s) (st_upd s)) (fs_head fs (f_head fs)) mcfg 1)
         (fun s2 => Ok (s2, fs_head fs (f_head fs))).
  Proof.
    intros f s fs w Hfl Hi.
    pose proof (instr_lt _ _ _ Hi) as Hrg.
    pose proof (instr_pyidx _ _ _ (proj1 Hrg) Hi) as Hpy.
    rewrite sws_S, Hfl, find_main. cbn [of_opt bind]. change (fc_elems mcfg) with Cm.
    rewrite (slide_stays f _ _ _ _ Hi (slide_elem_wait _ _ _ _)). cbv zeta.
    replace (f_head fs >=? 0) with true by (symmetry; apply Z.geb_le; lia).
    rewrite Hpy. cbn [of_opt bind]. destruct w; reflexivity.
  Qed.

  Lemma st_set_ctx_same : forall s, st_set_ctx s (st_ctx s) (st_upd s) = s.
  Proof. destruct s; reflexivity. Qed.

  Lemma fs_head_same : forall fs, fs_head fs (f_head fs) = fs.
  Proof. destruct fs; reflexivity. Qed.

  (* a waiting flow receives an event of a type that does not trigger flows *)
  Lemma run_nontrigger : forall s w k ev fs lp,
    plain_event ev ->
    st_fss s = [fs] -> f_flow fs = p_id p -> f_status fs = Active -> f_intby fs = None ->
    instr Cm (f_head fs) = Some (elem_of_wait w) -> wf_wait w ->
    kmatch Cm k (f_head fs + 1) lp -> nodo_kont k = true ->
    string_in (event_type ev) default_triggers = false ->
    res_rel (fun f => compute_next_state o f cs s ev)
            (Ok {| sp_st := Run w k []; sp_ctx := st_ctx s; sp_upd := [];
                   sp_next := if actionable w then Some w else None |}).
  Proof.
    intros s w k ev fs lp Hpl Hfss Hfl Hst Hib Hi Hw Hk Hnk Htr.
    pose proof (instr_lt _ _ _ Hi) as Hrg.
    pose proof (instr_pyidx _ _ _ (proj1 Hrg) Hi) as Hpy.
    set (ns := new_state_of s).
    destruct (record_next_step (st_push ns fs) fs mcfg q09) as [s1| |] eqn:Hrec.
    2,3: (rewrite (record_next_step_fresh _ _ _ _ (elem_of_wait w)) in Hrec; [discriminate|reflexivity|exact Hpy]).
    cbn [res_rel]. exists (st_set_fss s1 [fs]). split.
    - apply (R_wait_gen (st_push ns fs) fs w k lp s1 q09); auto.
    - exists 3%nat. intros f Hf.
      rewrite cns_unfold by exact Hpl. rewrite Hfss. fold ns.
      rewrite (phase1_single f ev fs w ns Hfl Hst Hi Hw), Htr. cbn [negb]. rewrite Hrec. cbn [bind].
      destruct (record_next_step_inv _ _ _ _ _ Hrec) as (Hf1 & _). simpl in Hf1.
      rewrite phase2_present by (rewrite Hf1; apply has_flow_single; exact Hfl).
      cbn [bind].
      replace s1 with (st_set_fss s1 [fs]) at 1 by (rewrite <- Hf1; apply st_set_fss_same).
      apply cns_tail_quiet.
      + simpl. constructor; [rewrite Hst; reflexivity|constructor].
      + simpl. constructor; [exact Hfl|constructor].
      + simpl. lia.
  Qed.

  (* ... an event that does not match, while waiting on its own bot/execute step: abandoned *)
  Lemma run_abort : forall s w ev fs,
    plain_event ev ->
    st_fss s = [fs] -> f_flow fs = p_id p -> f_status fs = Active ->
    instr Cm (f_head fs) = Some (elem_of_wait w) -> wf_wait w ->
    string_in (event_type ev) default_triggers = true ->
    wait_match w ev = false -> actionable w = true ->
    res_rel (fun f => compute_next_state o f cs s ev)
            (Ok {| sp_st := Idle; sp_ctx := st_ctx s; sp_upd := []; sp_next := None |}).
  Proof.
    intros s w ev fs Hpl Hfss Hfl Hst Hi Hw Htr Hm Ha.
    set (ns := new_state_of s).
    cbn [res_rel]. exists (st_push ns (fs_status fs Aborted)). split.
    - unfold R. cbn [sp_st sp_ctx sp_upd sp_next]. simpl.
      split; [reflexivity|split; [reflexivity|split; [reflexivity|split; [|split]]]].
      + intros w0 E. discriminate.
      + constructor; [exact Hfl|constructor].
      + constructor; [right; reflexivity|constructor].
    - exists 3%nat. intros f Hf.
      rewrite cns_unfold by exact Hpl. rewrite Hfss. fold ns.
      rewrite (phase1_single f ev fs w ns Hfl Hst Hi Hw), Htr, Hm, Ha. cbn [negb bind].
      rewrite phase2_present by (apply has_flow_single; exact Hfl).
      cbn [bind]. apply cns_tail_quiet.
      + simpl. constructor; [reflexivity|constructor].
      + simpl. constructor; [exact Hfl|constructor].
      + simpl. lia.
  Qed.

  (* ... while waiting for the user (or `bot ...`): the flow keeps waiting *)
  Lemma run_stay : forall s w k ev fs lp,
    plain_event ev ->
    st_fss s = [fs] -> f_flow fs = p_id p -> f_status fs = Active -> f_intby fs = None ->
    instr Cm (f_head fs) = Some (elem_of_wait w) -> wf_wait w ->
    kmatch Cm k (f_head fs + 1) lp -> nodo_kont k = true ->
    string_in (event_type ev) default_triggers = true ->
    wait_match w ev = false -> actionable w = false ->
    res_rel (fun f => compute_next_state o f cs s ev)
            (Ok {| sp_st := Run w k []; sp_ctx := st_ctx s; sp_upd := []; sp_next := None |}).
  Proof.
    intros s w k ev fs lp Hpl Hfss Hfl Hst Hib Hi Hw Hk Hnk Htr Hm Ha.
    pose proof (instr_lt _ _ _ Hi) as Hrg.
    pose proof (instr_pyidx _ _ _ (proj1 Hrg) Hi) as Hpy.
    set (ns := new_state_of s).
    set (fsA := fs_intby (fs_status (fs_status fs Interrupted) Active) None).
    cbn [res_rel]. exists (st_push ns fsA). split.
    - unfold R. cbn [sp_st sp_ctx sp_upd sp_next]. simpl.
      split; [reflexivity|split; [reflexivity|split; [reflexivity|split; [|split]]]].
      + intros w0 E. discriminate.
      + constructor; [exact Hfl|constructor].
      + exists fsA, lp. repeat split; auto.
    - exists 6%nat. intros f Hf.
      rewrite cns_unfold by exact Hpl. rewrite Hfss. fold ns.
      rewrite (phase1_single f ev fs w ns Hfl Hst Hi Hw), Htr, Hm, Ha. cbn [negb bind].
      rewrite phase2_present by (apply has_flow_single; exact Hfl).
      cbn [bind]. unfold cns_tail. cbn [bind].
      (* interrupted_by stays None: nothing decided *)
      assert (Hai : assign_intby (st_push ns (fs_status fs Interrupted)) = st_push ns (fs_status fs Interrupted)).
      { unfold assign_intby. simpl.
        replace (f_intby fs) with (@None N). simpl. unfold st_push, st_set_fss. simpl.
        f_equal. f_equal. clear - Hib. destruct fs; simpl in *; subst; reflexivity. }
      rewrite Hai. cbn [decision_flow st_by st_push st_set_fss ns new_state_of bind].
      (* the resume loop re-activates it; it has nothing to propose *)
      assert (Hsw : forall g s0, st_next s0 = None ->
                sws o (S (S g)) cs s0 fsA = Ok (s0, fsA)).
      { intros g s0 Hn0. rewrite (sws_at_wait g s0 fsA w Hfl Hi), st_set_ctx_same, fs_head_same.
        rewrite (record_next_step_fresh _ _ _ _ (elem_of_wait w)); [|exact Hn0|exact Hpy].
        rewrite (is_actionable_wait _ Hw), Ha. reflexivity. }
      destruct f as [|[|[|[|f]]]]; try lia.
      rewrite resume_loop_S, resume_pass_S.
      change (st_fss (st_push ns (fs_status fs Interrupted))) with [fs_status fs Interrupted].
      cbn [nth_error]. change (f_status (fs_status fs Interrupted)) with Interrupted. cbn [status_eqb].
      change (f_intby (fs_status fs Interrupted)) with (f_intby fs). rewrite Hib. cbv iota beta zeta.
      cbn [list_set]. fold fsA.
      rewrite Hsw by reflexivity. cbn [bind]. cbv iota beta zeta.
      replace (f_head fsA <? 0) with false by (symmetry; apply Z.ltb_ge; simpl; lia).
      rewrite resume_pass_S. cbn [st_fss st_set_fss list_set nth_error]. cbn [bind].
      (* second pass: nothing changes *)
      apply resume_loop_noint.
      + simpl. constructor; [reflexivity|constructor].
      + simpl. lia.
  Qed.

  (* no instance is running *)
  Lemma idle_event : forall fuel s ev i0 rest0,
    plain_event ev -> p_main p = SUser i0 :: rest0 ->
    Forall dead (st_fss s) ->
    res_rel (fun f => compute_next_state o f cs s ev)
            (if wait_match (WUser i0) ev
             then of_xres (xres_of (lexec fuel (st_ctx s) [] rest0 KDone))
             else Ok {| sp_st := Idle; sp_ctx := st_ctx s; sp_upd := []; sp_next := None |}).
  Proof.
    intros fuel s ev i0 rest0 Hpl Emain Hdead.
    destruct main_shape as (i0' & rest0' & E' & Hwr & Hnr). rewrite Emain in E'. inversion E'; subst i0' rest0'.
    pose proof (Cm_shape _ _ Emain) as ECm.
    set (ns := new_state_of s).
    assert (Hi0 : instr Cm 0 = Some (elem_of_wait (WUser i0))) by (rewrite ECm; reflexivity).
    assert (Hpy0 : pyidx Cm 0 = Some (LUser i0)).
    { apply instr_pyidx; [lia|exact Hi0]. }
    (* the common prefix: phase 1 drops the dead instances, phase 2 looks at the first element *)
    assert (Hpre : forall f, (1 <= f)%nat ->
              compute_next_state o f cs s ev =
              bind (if wait_match (WUser i0) ev then
                      bind (sws o f cs (st_push (st_bump_uid ns) (new_fstate (st_uid ns) (p_id p) 1))
                                (new_fstate (st_uid ns) (p_id p) 1)) (fun r =>
                      let '(s3, fs') := r in
                      Ok (st_set_fss s3 (list_set (st_fss s3) 0
                            (if o_mark o && (f_head fs' <? 0) then fs_status fs' Completed else fs'))))
                    else Ok ns) (fun s2 => cns_tail f s2 false)).
    { intros f Hf. destruct f as [|f]; [lia|].
      rewrite cns_unfold by exact Hpl. rewrite (phase1_dead _ _ _ _ _ _ _ Hdead). cbn [bind]. fold ns.
      rewrite cs_eq at 2. cbn [phase2]. change (fc_subflow mcfg) with false. cbv iota.
      change (fc_multiple mcfg) with false. change (st_fss ns) with (@nil fstate). cbn [has_flow existsb negb andb].
      change (fc_elems mcfg) with Cm.
      rewrite (slide_stays f 0 (st_ctx ns) (st_upd ns) _ Hi0 eq_refl). cbv zeta.
      rewrite Hpy0. cbn [of_opt bind].
      change (is_match (LUser i0) ev) with (is_match (elem_of_wait (WUser i0)) ev).
      rewrite (is_match_wait (WUser i0) ev I).
      change (st_set_ctx ns (st_ctx ns) (st_upd ns)) with ns. change (fc_id mcfg) with (p_id p).
      change (0 + 1) with 1. cbn [List.length].
      destruct (wait_match (WUser i0) ev).
      - destruct (sws o (S f) cs _ _) as [[s3 fs']| |]; cbn [bind]; try reflexivity.
        rewrite (phase2_subflows _ _ _ _ _ _ subs_all_subflow). reflexivity.
      - rewrite (phase2_subflows _ _ _ _ _ _ subs_all_subflow). reflexivity. }
    destruct (wait_match (WUser i0) ev) eqn:Em.
    - (* the flow starts *)
      set (fs0 := new_fstate (st_uid ns) (p_id p) 1) in *.
      set (s2 := st_push (st_bump_uid ns) fs0) in *.
      assert (H1 : code_at Cm 1 (compile_block (rel None 1) rest0)).
      { rewrite ECm. change (LUser i0 :: compile_block None rest0) with ([LUser i0] ++ compile_block None rest0).
        apply (code_at_app_r _ 0 [LUser i0]). apply code_at_whole. }
      assert (H3 : kmatch Cm KDone (1 + bsize rest0) None).
      { apply km_done. rewrite ECm, zlen_cons, compile_block_length. reflexivity. }
      remember (lexec fuel (st_ctx s) [] rest0 KDone) as r eqn:Er. symmetry in Er.
      destruct (exec_lexec (all_flows p) fuel (st_ctx s) [] rest0 KDone Hnr eq_refl) as [_ Hnd]. rewrite Er in Hnd.
      destruct r as [w' k' c' u'|name k' c' u'|c' u'| |]; simpl in Hnd; try contradiction;
        cbn [xres_of of_xres res_rel]; auto.
      + assert (Hnf : LWait w' k' c' u' <> LFuel) by congruence.
        destruct (sws_sim fuel (st_ctx s) [] rest0 KDone _ Er Hnf Hnd 1 None s2 fs0
                          H1 Hwr H3 eq_refl eq_refl eq_refl eq_refl) as (rs & Hpost & F & HF).
        simpl in Hpost. destruct Hpost as (pw & lp' & s1 & Eres & Hi' & Hw' & Hk' & Hrec).
        exists (st_set_fss s1 [fs_head fs0 pw]). split.
        * apply (R_after_wait s2 c' u' fs0 pw w' k' lp' s1); auto.
        * exists (Nat.max F 3). intros f Hf. rewrite Hpre by lia. rewrite (HF f) by lia. rewrite Eres. cbn [bind].
          pose proof (instr_lt _ _ _ Hi') as Hrg'.
          replace (f_head (fs_head fs0 pw) <? 0) with false by (symmetry; apply Z.ltb_ge; simpl; lia).
          rewrite andb_false_r.
          destruct (record_next_step_inv _ _ _ _ _ Hrec) as (Hf1 & _). simpl in Hf1. rewrite Hf1. cbn [list_set].
          apply cns_tail_quiet.
          -- simpl. constructor; [reflexivity|constructor].
          -- simpl. constructor; [reflexivity|constructor].
          -- simpl. lia.
      + assert (Hnf : LEnd c' u' <> LFuel) by congruence.
        destruct (sws_sim fuel (st_ctx s) [] rest0 KDone _ Er Hnf Hnd 1 None s2 fs0
                          H1 Hwr H3 eq_refl eq_refl eq_refl eq_refl) as (rs & Hpost & F & HF).
        simpl in Hpost. destruct Hpost as (h & Eres & Hneg).
        exists (st_set_fss (st_set_ctx s2 c' u') [fs_status (fs_head fs0 h) Completed]). split.
        * apply R_after_end; reflexivity.
        * exists (Nat.max F 3). intros f Hf. rewrite Hpre by lia. rewrite (HF f) by lia. rewrite Eres. cbn [bind].
          replace (f_head (fs_head fs0 h) <? 0) with true by (symmetry; apply Z.ltb_lt; simpl; lia).
          rewrite Hmark. cbn [andb]. simpl list_set.
          apply cns_tail_quiet.
          -- simpl. constructor; [reflexivity|constructor].
          -- simpl. constructor; [reflexivity|constructor].
          -- simpl. lia.
      + assert (Hnf : LExc <> LFuel) by congruence.
        destruct (sws_sim fuel (st_ctx s) [] rest0 KDone _ Er Hnf Hnd 1 None s2 fs0
                          H1 Hwr H3 eq_refl eq_refl eq_refl eq_refl) as (rs & Hpost & F & HF).
        simpl in Hpost. subst rs.
        exists (Nat.max F 3). intros f Hf. rewrite Hpre by lia. rewrite (HF f) by lia. reflexivity.
    - (* nothing starts *)
      cbn [res_rel]. exists ns. split.
      + unfold R. cbn [sp_st sp_ctx sp_upd sp_next]. simpl.
        split; [reflexivity|split; [reflexivity|split; [reflexivity|split; [|split]]]].
        * intros w0 E. discriminate.
        * constructor.
        * constructor.
      + exists 3%nat. intros f Hf. rewrite Hpre by lia. cbn [bind].
        apply cns_tail_quiet; simpl; [constructor|constructor|lia].
  Qed.

  Lemma resume_lexec : forall fuel c u k,
    nodo_kont k = true ->
    resume (all_flows p) fuel c u k [] = xres_of (lexec fuel c u [] k).
  Proof.
    intros fuel c u k Hnk. destruct fuel as [|f]; [reflexivity|].
    cbn [resume]. destruct (exec_lexec (all_flows p) (S f) c u [] k eq_refl Hnk) as [E Hnd]. rewrite E.
    destruct (lexec (S f) c u [] k); simpl in *; try reflexivity; contradiction.
  Qed.

  (* one event *)
  Lemma cns_sim : forall fuel s sp ev,
    R s sp -> ev <> EvHide ->
    res_rel (fun f => compute_next_state o f cs s ev) (spec_event fuel p sp ev).
  Proof.
    intros fuel s sp ev HR Hev.
    destruct HR as (Hc & Hu & Hn & Hnw & Hmain & Hshape).
    destruct ev; try congruence.
    5:{ (* ContextUpdate *)
      cbn [spec_event compute_next_state res_rel].
      eexists. split; [|exists 0%nat; intros; reflexivity].
      unfold R. cbn [sp_st sp_ctx sp_upd sp_next st_ctx st_upd st_next st_fss option_map].
      rewrite Hc. split; [reflexivity|split; [reflexivity|split; [reflexivity|split; [|split; [exact Hmain|exact Hshape]]]]].
      intros w E; discriminate. }
    4:{ (* StartInternalSystemAction *)
      cbn [spec_event compute_next_state res_rel]. exists s. split; [|exists 0%nat; intros; reflexivity].
      unfold R. split; [exact Hc|split; [exact Hu|split; [exact Hn|split; [exact Hnw|split; [exact Hmain|exact Hshape]]]]]. }
    all: cbn [spec_event].
    all: revert Hshape; destruct (sp_st sp) as [|w k stk] eqn:Est; [|destruct stk as [|k2 stk]]; intros Hshape;
         try contradiction.
    all: try (match goal with
              | |- res_rel (fun f => compute_next_state _ f _ _ ?e) _ =>
                  destruct main_shape as (i0 & rest0 & Emain & Hwr & Hnr); rewrite Emain;
                  destruct (exec_lexec (all_flows p) fuel (sp_ctx sp) [] rest0 KDone Hnr eq_refl) as [Ex _];
                  rewrite Ex, <- Hc; apply (idle_event fuel s e i0 rest0 I Emain Hshape)
              end).
    all: destruct Hshape as (fs & lp & Hfss & Hst & Hib & Hi & Hw & Hk & Hnk);
         assert (Hfl : f_flow fs = p_id p) by (rewrite Hfss in Hmain; inversion Hmain; assumption).
    all: match goal with
         | |- res_rel (fun f => compute_next_state _ f _ _ ?e) _ =>
             destruct (string_in (event_type e) default_triggers) eqn:Htr; cbn [negb];
             [|rewrite <- Hc; apply (run_nontrigger s w k e fs lp I Hfss Hfl Hst Hib Hi Hw Hk Hnk Htr)];
             destruct (wait_match w e) eqn:Hm;
             [rewrite (resume_lexec fuel (sp_ctx sp) [] k Hnk);
              apply (run_match fuel s w k e fs lp (sp_ctx sp) I Hfss Hfl Hst Hib Hi Hw Hk Hnk Hc Htr Hm)|];
             destruct (actionable w) eqn:Ha; rewrite <- Hc;
             [apply (run_abort s w e fs I Hfss Hfl Hst Hi Hw Htr Hm Ha)
             |apply (run_stay s w k e fs lp I Hfss Hfl Hst Hib Hi Hw Hk Hnk Htr Hm Ha)]
         end.
  Qed.

  Definition no_hide (l : list event) : Prop := Forall (fun e => e <> EvHide) l.

  Lemma R_stop : forall s sp, R s sp ->
    R (st_set_fss s []) {| sp_st := Idle; sp_ctx := sp_ctx sp; sp_upd := sp_upd sp; sp_next := sp_next sp |}.
  Proof.
    intros s sp (Hc & Hu & Hn & Hnw & Hmain & Hshape). unfold R. cbn [sp_st sp_ctx sp_upd sp_next]. simpl.
    split; [exact Hc|split; [exact Hu|split; [exact Hn|split; [exact Hnw|split; constructor]]]].
  Qed.

  (* a whole history *)
  Lemma run_events_sim : forall fuel l s sp,
    R s sp -> no_hide l ->
    res_rel (fun f => run_events o f cs s l) (spec_run fuel p sp l).
  Proof.
    intros fuel. induction l as [|e rest IH]; intros s sp HR Hnh.
    - simpl. exists s. split; [exact HR|]. exists 0%nat. intros; reflexivity.
    - inversion Hnh as [|? ? He Hrest]; subst.
      pose proof (cns_sim fuel s sp e HR He) as H1.
      cbn [spec_run]. destruct (spec_event fuel p sp e) as [sp1| |]; cbn [bind res_rel] in *; auto.
      + destruct H1 as (s1 & HR1 & F1 & HF1).
        assert (HR1' : R (if is_bot_stop e then st_set_fss s1 [] else s1)
                         (if is_bot_stop e
                          then {| sp_st := Idle; sp_ctx := sp_ctx sp1; sp_upd := sp_upd sp1; sp_next := sp_next sp1 |}
                          else sp1)).
        { destruct (is_bot_stop e); [apply R_stop|]; exact HR1. }
        pose proof (IH _ _ HR1' Hrest) as H2.
        destruct (spec_run fuel p _ rest) as [sp2| |]; cbn [res_rel] in *; auto.
        * destruct H2 as (s2 & HR2 & F2 & HF2). exists s2. split; [exact HR2|].
          exists (Nat.max F1 F2). intros f Hf. cbn [run_events]. rewrite HF1 by lia. cbn [bind]. apply HF2. lia.
        * destruct H2 as (F2 & HF2). exists (Nat.max F1 F2). intros f Hf.
          cbn [run_events]. rewrite HF1 by lia. cbn [bind]. apply HF2. lia.
      + destruct H1 as (F1 & HF1). exists F1. intros f Hf. cbn [run_events]. rewrite HF1 by lia. reflexivity.
  Qed.

  Lemma in_firstn : forall {A} n (l : list A) x, In x (firstn n l) -> In x l.
  Proof.
    intros A. induction n; intros l x H; simpl in H; [contradiction|].
    destruct l; simpl in *; [contradiction|]. destruct H; [left; exact H|right; apply IHn; exact H].
  Qed.

  Lemma preprocess_no_hide : forall hist acc a,
    preprocess hist acc = Ok a -> no_hide acc -> no_hide a.
  Proof.
    induction hist as [|e rest IH]; intros acc a H Hacc; simpl in H.
    - inversion H; subst; exact Hacc.
    - destruct e; try (eapply IH; [exact H|]; apply Forall_app; split; [exact Hacc|];
                       constructor; [congruence|constructor]).
      destruct (last_uuaf acc 0 None) as [n|]; [|discriminate].
      eapply IH; [exact H|]. unfold no_hide in *. rewrite Forall_forall in *.
      intros x Hin. apply Hacc. eapply in_firstn; eauto.
  Qed.

  Lemma final_steps_R : forall s sp actual,
    R s sp -> final_steps s actual = Ok (spec_steps sp actual).
  Proof.
    intros s sp actual (Hc & Hu & Hn & Hnw & _ & _). unfold final_steps, spec_steps.
    rewrite Hn, Hu.
    destruct (sp_next sp) as [w|] eqn:En; cbn [option_map bind].
    - destruct (Hnw w eq_refl) as (Hw & Ha). rewrite (step_of_wait_ok w Hw Ha). cbn [bind].
      destruct actual; [reflexivity|]. destruct (is_bot_stop _); reflexivity.
    - destruct actual; [rewrite app_nil_r; reflexivity|]. destruct (is_bot_stop _); [reflexivity|].
      rewrite app_nil_r. reflexivity.
  Qed.

  Lemma R_init : R init_state spec_init.
  Proof.
    unfold R, init_state, spec_init. simpl.
    split; [reflexivity|split; [reflexivity|split; [reflexivity|split; [|split; constructor]]]].
    intros w E; discriminate.
  Qed.

  Theorem compile_correct_nodo : forall fuel hist r,
    next_steps fuel p hist = r -> r <> Fuel ->
    exists F, forall f, (F <= f)%nat -> compute_next_steps o f cs hist = r.
  Proof.
    intros fuel hist r Hr Hnf. unfold next_steps in Hr. unfold compute_next_steps.
    destruct (preprocess hist []) as [actual| |] eqn:Ep; cbn [bind] in *.
    - assert (Hnh : no_hide actual) by (eapply preprocess_no_hide; [exact Ep|constructor]).
      pose proof (run_events_sim fuel actual init_state spec_init R_init Hnh) as H.
      destruct (spec_run fuel p spec_init actual) as [sp| |]; cbn [bind res_rel] in *.
      + destruct H as (s & HR & F & HF). exists F. intros f Hf. rewrite HF by exact Hf. cbn [bind].
        rewrite (final_steps_R _ _ _ HR). exact Hr.
      + destruct H as (F & HF). exists F. intros f Hf. rewrite HF by exact Hf. exact Hr.
      + congruence.
    - exists 0%nat. intros; exact Hr.
    - congruence.
  Qed.
End Prog.

(* ------------------------------------------------------------------ the statements Props/C14.v uses *)

From NG Require Import Gen.C14Consts.
Open Scope list_scope.
Open Scope Z_scope.

(* the interpreter as the CURRENT source configures it (translator/gen_c14.py) *)
Definition opts_now : opts := {| o_mark := start_marks_completed; o_guard := call_records_active_only |}.

Definition steps_now (fuel : nat) (cs : configs) (h : list event) : res (list out_event) :=
  compute_next_steps opts_now fuel cs h.

(* FULL STATEMENT (any structured program of the subset, subflow calls included).  Proved below
   for dialog flows without `do` (compile_correct_partial) and in full in V1/Stack_proofs.v
   (compile_correct_full). *)
Definition compile_correct_statement : Prop :=
  forall p fuel hist r,
    wf_prog p = true ->
    next_steps fuel p hist = r -> r <> Fuel ->
    exists F, forall f, (F <= f)%nat -> steps_now f (compile_prog p) hist = r.

Theorem compile_correct_partial : forall p fuel hist r,
  start_marks_completed = true ->
  wf_prog p = true -> nodo_block (p_main p) = true ->
  next_steps fuel p hist = r -> r <> Fuel ->
  exists F, forall f, (F <= f)%nat -> steps_now f (compile_prog p) hist = r.
Proof.
  intros p fuel hist r Hmark Hwf Hnodo Hr Hnf.
  exact (compile_correct_nodo p opts_now Hwf Hnodo Hmark fuel hist r Hr Hnf).
Qed.

(* ---- leaving the flow *)

Lemma preprocess_snoc : forall hist acc a e,
  e <> EvHide -> preprocess hist acc = Ok a -> preprocess (hist ++ [e]) acc = Ok (a ++ [e]).
Proof.
  induction hist as [|x rest IH]; intros acc a e He H; simpl in *.
  - inversion H; subst. destruct e; try congruence; reflexivity.
  - destruct x; try (apply IH; assumption).
    destruct (last_uuaf acc 0 None); [apply IH; assumption|discriminate].
Qed.

Lemma spec_run_snoc : forall fuel p l s e,
  spec_run fuel p s (l ++ [e]) = bind (spec_run fuel p s l) (fun s1 => spec_run fuel p s1 [e]).
Proof.
  intros fuel p. induction l as [|x rest IH]; intros s e; simpl.
  - destruct (spec_event fuel p s e); reflexivity.
  - destruct (spec_event fuel p s x); simpl; [apply IH|reflexivity|reflexivity].
Qed.

(* the specification's view of "the history has followed the flow up to a statement w" *)
Definition follows_to (fuel : nat) (p : prog) (hist : list event) (w : wait) (k : kont) (stk : list kont)
  (c : ctx) : Prop :=
  exists actual sp, preprocess hist [] = Ok actual /\ spec_run fuel p spec_init actual = Ok sp /\
                    sp_st sp = Run w k stk /\ sp_ctx sp = c.

Lemma spec_leave : forall fuel p hist w k stk c ev,
  follows_to fuel p hist w k stk c ->
  match ev with EvStartAct | EvCtx _ | EvHide => False | _ => True end ->
  string_in (event_type ev) default_triggers = true ->
  wait_match w ev = false ->
  next_steps fuel p (hist ++ [ev]) = Ok [].
Proof.
  intros fuel p hist w k stk c ev (actual & sp & Hp & Hrun & Hst & Hc) Hpl Htr Hm.
  unfold next_steps. rewrite (preprocess_snoc hist [] actual ev); [|destruct ev; try congruence; contradiction|exact Hp].
  cbn [bind]. rewrite spec_run_snoc, Hrun. cbn [bind spec_run].
  assert (E : exists st', spec_event fuel p sp ev =
                          Ok {| sp_st := st'; sp_ctx := sp_ctx sp; sp_upd := []; sp_next := None |}).
  { destruct ev; try contradiction; cbn [spec_event]; rewrite Hst, Htr; cbn [negb]; rewrite Hm;
      destruct (actionable w); eauto. }
  destruct E as (st' & E). rewrite E. cbn [bind].
  unfold spec_steps.
  destruct (match actual ++ [ev] with [] => false | _ => is_bot_stop (last (actual ++ [ev]) EvHide) end);
    [reflexivity|]. destruct (is_bot_stop ev); reflexivity.
Qed.

Theorem leave_partial : forall p fuel hist w k stk c ev,
  start_marks_completed = true ->
  wf_prog p = true -> nodo_block (p_main p) = true ->
  follows_to fuel p hist w k stk c ->
  match ev with EvStartAct | EvCtx _ | EvHide => False | _ => True end ->
  string_in (event_type ev) default_triggers = true ->
  wait_match w ev = false ->
  exists F, forall f, (F <= f)%nat -> steps_now f (compile_prog p) (hist ++ [ev]) = Ok [].
Proof.
  intros p fuel hist w k stk c ev Hmark Hwf Hnodo Hfol Hpl Htr Hm.
  eapply compile_correct_partial; eauto.
  - eapply spec_leave; eauto.
  - congruence.
Qed.

(* ---- following the flow: the decided step is the statement the reference semantics blocks on
        next, evaluated in the context the `set`s built *)
Lemma spec_follow : forall fuel p hist w k stk c ev,
  follows_to fuel p hist w k stk c ->
  match ev with EvStartAct | EvCtx _ | EvHide => False | _ => True end ->
  string_in (event_type ev) default_triggers = true ->
  wait_match w ev = true -> is_bot_stop ev = false ->
  next_steps fuel p (hist ++ [ev]) =
  match resume (all_flows p) fuel c [] k stk with
  | XWait w' _ _ _ u' => Ok ((match u' with [] => [] | _ => [OCtx u'] end) ++
                            (if actionable w' then [step_of_wait w'] else []))
  | XEnd _ u' => Ok (match u' with [] => [] | _ => [OCtx u'] end)
  | XExc => Exc
  | XFuel => Fuel
  end.
Proof.
  intros fuel p hist w k stk c ev (actual & sp & Hp & Hrun & Hst & Hc) Hpl Htr Hm Hstop.
  unfold next_steps. rewrite (preprocess_snoc hist [] actual ev); [|destruct ev; try congruence; contradiction|exact Hp].
  cbn [bind]. rewrite spec_run_snoc, Hrun. cbn [bind spec_run].
  assert (E : spec_event fuel p sp ev = of_xres (resume (all_flows p) fuel c [] k stk)).
  { destruct ev; try contradiction; cbn [spec_event]; rewrite Hst, Htr; cbn [negb]; rewrite Hm, Hc; reflexivity. }
  rewrite E, Hstop.
  assert (Hlast : match actual ++ [ev] with [] => false | _ => is_bot_stop (last (actual ++ [ev]) EvHide) end = false).
  { rewrite last_last. destruct (actual ++ [ev]); [reflexivity|exact Hstop]. }
  destruct (resume (all_flows p) fuel c [] k stk) as [w' k' stk' c' u'|c' u'| |]; cbn [of_xres bind]; try reflexivity.
  - unfold spec_steps. cbn [sp_upd sp_next]. rewrite Hlast.
    destruct (actionable w'); destruct u'; reflexivity.
  - unfold spec_steps. cbn [sp_upd sp_next]. rewrite Hlast. rewrite app_nil_r. destruct u'; reflexivity.
Qed.

(* ---- regression documentation: without the two repairs the statement is false *)

Definition ex_d1 : prog :=
  {| p_id := "main"; p_main := [SUser "ask a"; SIf (EVar "c") [SBot "say b"] []]; p_subs := [] |}.
Definition ex_d1_hist : list event := [EvUser "ask a"; EvCtx [("c", VBool true)]; EvUser "ask a"].

Lemma unmarked_start_refuted :
  exists p hist, wf_prog p = true /\ nodo_block (p_main p) = true /\
    next_steps 50 p hist = Ok [OBot "say b"] /\
    compute_next_steps {| o_mark := false; o_guard := true |} 50 (compile_prog p) hist = Ok [].
Proof. exists ex_d1, ex_d1_hist. vm_compute. repeat split; reflexivity. Qed.

Definition ex_d2 : prog :=
  {| p_id := "main"; p_main := [SUser "ask a"; SDo "s one"; SBot "say end"];
     p_subs := [("s one", [SDo "s two"; SBot "say x"]); ("s two", [SUser "ask b"; SBot "say y"])] |}.

Lemma unguarded_call_refuted :
  exists p hist, wf_prog p = true /\
    next_steps 50 p hist = Ok [] /\
    compute_next_steps {| o_mark := true; o_guard := false |} 50 (compile_prog p) hist = Ok [OBot "say x"].
Proof. exists ex_d2, [EvUser "ask a"]. vm_compute. repeat split; reflexivity. Qed.

(* ---- non-vacuity: a nested program without `do` and a history that follows it, leaves it ... *)

Definition ex_nodo : prog :=
  {| p_id := "main";
     p_main := [SUser "ask a"; SSet "i" (EInt 0); SBot "say b";
                SIf (ECmp CEq (EVar "i") (EInt 0))
                    [SBot "say c";
                     SWhile (ECmp CLt (EVar "i") (EInt 2))
                            [SUser "ask d"; SSet "i" (EAdd (EVar "i") (EInt 1));
                             SIf (ECmp CEq (EVar "i") (EInt 1)) [SContinue] [SBreak];
                             SBot "say never"]]
                    [SBot "say e"];
                SExec "act_x" "{}" (Some "r"); SBot "say f"];
     p_subs := [] |}.
Definition ex_nodo_hist : list event :=
  [EvUser "ask a"; EvBot "say b"; EvBot "say c"; EvUser "ask d"; EvUser "ask d"].

Example ex_nodo_hyps : wf_prog ex_nodo = true /\ nodo_block (p_main ex_nodo) = true.
Proof. split; reflexivity. Qed.

Example ex_nodo_follow :
  next_steps 100 ex_nodo ex_nodo_hist = Ok [OCtx [("i", VInt 2)]; OAct "act_x" "{}" (Some "r")] /\
  compute_next_steps {| o_mark := true; o_guard := true |} 100 (compile_prog ex_nodo) ex_nodo_hist
  = Ok [OCtx [("i", VInt 2)]; OAct "act_x" "{}" (Some "r")].
Proof. split; vm_compute; reflexivity. Qed.

Definition ex_nodo_state : res spec_state :=
  Eval vm_compute in spec_run 100 ex_nodo spec_init ex_nodo_hist.

Lemma ex_nodo_state_eq : spec_run 100 ex_nodo spec_init ex_nodo_hist = ex_nodo_state.
Proof. vm_compute. reflexivity. Qed.

Example ex_nodo_follows_to :
  exists k, follows_to 100 ex_nodo ex_nodo_hist (WExec "act_x" "{}" (Some "r")) k []
                       [("i", VInt 2)].
Proof.
  unfold follows_to. eexists. exists ex_nodo_hist.
  exists (match ex_nodo_state with Ok sp => sp | _ => spec_init end).
  split; [reflexivity|]. split; [rewrite ex_nodo_state_eq; reflexivity|]. split; reflexivity.
Qed.

Example ex_nodo_leave :
  compute_next_steps {| o_mark := true; o_guard := true |} 100 (compile_prog ex_nodo)
    (ex_nodo_hist ++ [EvUser "ask a"]) = Ok [].
Proof. vm_compute. reflexivity. Qed.

(* ... and the full statement evaluated on the nested program WITH a subflow (Structured.ex_prog) *)
Example ex_full_instance :
  forall h, In h [ex_hist; ex_hist ++ [EvBot "say s3"]; ex_hist ++ [EvUser "ask zzz"];
                  firstn 3 ex_hist; firstn 5 ex_hist ++ [EvBot "say nothing"]] ->
  compute_next_steps {| o_mark := true; o_guard := true |} 100 (compile_prog ex_prog) h
  = next_steps 100 ex_prog h.
Proof.
  intros h Hin. simpl in Hin.
  repeat (destruct Hin as [E|Hin]; [subst h; vm_compute; reflexivity|]). contradiction.
Qed.
