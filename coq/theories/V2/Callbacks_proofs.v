(* C11 - the second half of json_to_state: re-creation of the head callbacks.
   After the pass every head of every flow state of state.flow_states has both callback
   attributes bound to a fresh partial(_flow_head_changed, state, <its flow state>); nothing else
   of the decoded heap changes. *)
From Coq Require Import ZArith List String Bool Lia.
From NG Require Import V2.Serial.
Import ListNotations.
Open Scope string_scope.
Open Scope Z_scope.

Lemma lookup_heap_set (h : heap) i nd j :
  lookup (heap_set h i nd) j
  = if j =? i then match lookup h i with Some _ => Some nd | None => None end else lookup h j.
Proof.
  induction h as [|[k x] r IH]; simpl.
  - destruct (j =? i); reflexivity.
  - destruct (k =? i) eqn:Eki; simpl.
    + apply Z.eqb_eq in Eki. destruct (j =? i) eqn:Eji.
      * apply Z.eqb_eq in Eji. replace (k =? j) with true by (symmetry; apply Z.eqb_eq; lia). reflexivity.
      * apply Z.eqb_neq in Eji. replace (k =? j) with false by (symmetry; apply Z.eqb_neq; lia). reflexivity.
    + apply Z.eqb_neq in Eki. destruct (k =? j) eqn:Ekj.
      * apply Z.eqb_eq in Ekj. replace (j =? i) with false by (symmetry; apply Z.eqb_neq; lia). reflexivity.
      * exact IH.
Qed.

Lemma nth_set_nth_same {A} (l : list A) n x : (n < List.length l)%nat -> nth_error (set_nth n x l) n = Some x.
Proof.
  revert n. induction l as [|y r IH]; intros [|n] H; simpl in *; try lia; auto. apply IH. lia.
Qed.

Lemma nth_set_nth_other {A} (l : list A) n m x : n <> m -> nth_error (set_nth n x l) m = nth_error l m.
Proof.
  revert n m. induction l as [|y r IH]; intros [|n] [|m] H; simpl; auto; try congruence.
Qed.

Lemma set_nth_length {A} (l : list A) n x : List.length (set_nth n x l) = List.length l.
Proof. revert n. induction l as [|y r IH]; intros [|n]; simpl; auto. Qed.


(* a FlowHead-like node: a dataclass instance with the two callback attributes *)
Definition cb_node (nd : node) (c : string) (fl : list string) (ks : list val) (p q : nat) : Prop :=
  nd = mk (HData c fl) ks /\ index_of pos_f fl = Some p /\ index_of stat_f fl = Some q /\ p <> q /\
  (p < List.length ks)%nat /\ (q < List.length ks)%nat.

Definition below (h : heap) (n : id) : Prop := forall i nd, lookup h i = Some nd -> i < n.

Definition partial_node (state fs : val) : node := mk (HPartial cb_name) [state; fs].

Lemma redo_head_step state fs h n x nd c fl ks p q :
  below h n -> lookup h x = Some nd -> cb_node nd c fl ks p q ->
  exists h4,
    redo_head state fs (Some (h, n)) (VO x) = Some (h4, n + 2) /\
    lookup h4 n = Some (partial_node state fs) /\ lookup h4 (n + 1) = Some (partial_node state fs) /\
    lookup h4 x = Some (mk (HData c fl) (set_nth q (VO (n + 1)) (set_nth p (VO n) ks))) /\
    (forall j, j <> x -> j <> n -> j <> n + 1 -> lookup h4 j = lookup h j) /\
    below h4 (n + 2).
Proof.
  intros Hb Hx (-> & Hp & Hq & Hpq & Hlp & Hlq).
  pose proof (Hb _ _ Hx) as Hxn.
  assert (E1 : (n =? x) = false) by (apply Z.eqb_neq; lia).
  assert (E2 : (n + 1 =? x) = false) by (apply Z.eqb_neq; lia).
  unfold redo_head, set_field. fold pos_f stat_f. simpl lookup at 1. rewrite E1, Hx, Hp.
  set (h2 := heap_set ((n, partial_node state fs) :: h) x (mk (HData c fl) (set_nth p (VO n) ks))).
  assert (L2 : forall j, lookup h2 j = if j =? x then Some (mk (HData c fl) (set_nth p (VO n) ks))
                                       else lookup ((n, partial_node state fs) :: h) j).
  { intro j. unfold h2. rewrite lookup_heap_set. simpl. rewrite E1, Hx. reflexivity. }
  change (mk (HPartial cb_name) [state; fs]) with (partial_node state fs).
  fold h2. simpl lookup at 1. rewrite E2, L2, Z.eqb_refl, Hq.
  eexists. split; [reflexivity|].
  set (h4 := heap_set ((n + 1, partial_node state fs) :: h2) x _).
  assert (L4 : forall j, lookup h4 j = if j =? x then Some (mk (HData c fl) (set_nth q (VO (n + 1)) (set_nth p (VO n) ks)))
                                       else lookup ((n + 1, partial_node state fs) :: h2) j).
  { intro j. unfold h4. rewrite lookup_heap_set. simpl. rewrite E2, L2, Z.eqb_refl. reflexivity. }
  repeat split.
  - rewrite L4. rewrite E1. simpl. destruct (n + 1 =? n) eqn:E; [apply Z.eqb_eq in E; lia|].
    rewrite L2, E1. simpl. rewrite Z.eqb_refl. reflexivity.
  - rewrite L4. rewrite E2. simpl. rewrite Z.eqb_refl. reflexivity.
  - rewrite L4, Z.eqb_refl. reflexivity.
  - intros j J1 J2 J3. rewrite L4. apply Z.eqb_neq in J1. rewrite J1. simpl.
    destruct (n + 1 =? j) eqn:E; [apply Z.eqb_eq in E; lia|]. rewrite L2, J1. simpl.
    destruct (n =? j) eqn:E'; [apply Z.eqb_eq in E'; lia|]. reflexivity.
  - intros j ndj Hj. rewrite L4 in Hj. destruct (j =? x) eqn:E; [apply Z.eqb_eq in E; lia|].
    simpl in Hj. destruct (n + 1 =? j) eqn:E'; [apply Z.eqb_eq in E'; lia|].
    rewrite L2, E in Hj. simpl in Hj. destruct (n =? j) eqn:E''; [apply Z.eqb_eq in E''; lia|].
    specialize (Hb _ _ Hj). lia.
Qed.

(* the work list: heads are distinct objects of the heap with the two attributes *)
Inductive heads_ok (h : heap) : list (val * val) -> Prop :=
| ho_nil : heads_ok h []
| ho_cons fs x W nd c fl ks p q :
    lookup h x = Some nd -> cb_node nd c fl ks p q -> (forall fs', ~ In (fs', VO x) W) ->
    heads_ok h W -> heads_ok h ((fs, VO x) :: W).

Lemma heads_ok_frame h h' W :
  (forall fs x, In (fs, VO x) W -> lookup h' x = lookup h x) -> heads_ok h W -> heads_ok h' W.
Proof.
  intros Hf Hk. induction Hk as [|fs x W nd c fl ks p q Hl Hc Hn Hk IH]; [constructor|].
  econstructor; eauto.
  - rewrite (Hf fs x (or_introl eq_refl)). exact Hl.
  - apply IH. intros fs' x' Hin. apply (Hf fs' x'). now right.
Qed.

Definition redo_fold (state : val) (W : list (val * val)) (acc : option (heap * id)) : option (heap * id) :=
  fold_left (fun acc fh => redo_head state (fst fh) acc (snd fh)) W acc.

Theorem redo_fold_spec state : forall W h n,
  below h n -> heads_ok h W ->
  exists h' n',
    redo_fold state W (Some (h, n)) = Some (h', n') /\ n' = n + 2 * Z.of_nat (List.length W) /\ below h' n' /\
    (* every visited head: both attributes are fresh partials bound to (state, its flow state);
       its other attributes are unchanged *)
    (forall fs x, In (fs, VO x) W ->
       exists c fl ks0 ks p q a b,
         lookup h x = Some (mk (HData c fl) ks0) /\ lookup h' x = Some (mk (HData c fl) ks) /\
         index_of pos_f fl = Some p /\ index_of stat_f fl = Some q /\
         nth_error ks p = Some (VO a) /\ nth_error ks q = Some (VO b) /\ a <> b /\ n <= a /\ n <= b /\
         lookup h' a = Some (partial_node state fs) /\ lookup h' b = Some (partial_node state fs) /\
         (forall m, m <> p -> m <> q -> nth_error ks m = nth_error ks0 m)) /\
    (* frame: every other object of the decoded heap is unchanged *)
    (forall j, j < n -> (forall fs, ~ In (fs, VO j) W) -> lookup h' j = lookup h j).
Proof.
  induction W as [|[fs hv] W IH]; intros h n Hb Hk.
  - exists h, n. simpl. repeat split; auto; try lia.
  - inversion Hk as [|fs0 x W0 nd c fl ks p q Hl Hc Hn Hk']; subst.
    destruct (redo_head_step state fs h n x nd c fl ks p q Hb Hl Hc) as (h4 & R & P1 & P2 & Px & Fr & Hb4).
    pose proof (Hb _ _ Hl) as Hxn.
    assert (Hk4 : heads_ok h4 W).
    { eapply heads_ok_frame; [|exact Hk']. intros fs' x' Hin. apply Fr.
      - intro; subst. exact (Hn fs' Hin).
      - clear -Hk' Hin Hb. induction Hk' as [|? ? ? ? ? ? ? ? ? Hl' _ _ _ IHk]; [contradiction|].
        destruct Hin as [Hin|Hin]; [inversion Hin; subst; specialize (Hb _ _ Hl'); lia|auto].
      - clear -Hk' Hin Hb. induction Hk' as [|? ? ? ? ? ? ? ? ? Hl' _ _ _ IHk]; [contradiction|].
        destruct Hin as [Hin|Hin]; [inversion Hin; subst; specialize (Hb _ _ Hl'); lia|auto]. }
    destruct (IH h4 (n + 2) Hb4 Hk4) as (h' & n' & F & Hn' & Hb' & Hheads & Hfr).
    exists h', n'. unfold redo_fold in *. cbn [fold_left fst snd]. rewrite R. split; [exact F|].
    split; [rewrite Hn'; simpl List.length; lia|]. split; [exact Hb'|]. split.
    + intros fs1 x1 [Hin|Hin].
      * inversion Hin; subst fs1 x1. destruct Hc as (-> & Hp & Hq & Hpq & Hlp & Hlq).
        exists c, fl, ks, (set_nth q (VO (n + 1)) (set_nth p (VO n) ks)), p, q, n, (n + 1).
        split; [exact Hl|]. split; [rewrite Hfr by (auto; lia); exact Px|]. split; [exact Hp|]. split; [exact Hq|].
        split; [rewrite nth_set_nth_other by auto; apply nth_set_nth_same; exact Hlp|].
        split; [apply nth_set_nth_same; rewrite set_nth_length; exact Hlq|].
        split; [lia|]. split; [lia|]. split; [lia|].
        assert (Hnn : forall fs', ~ In (fs', VO n) W /\ ~ In (fs', VO (n + 1)) W).
        { intro fs'. clear -Hk' Hb. split; intro Hin;
          (induction Hk' as [|? ? ? ? ? ? ? ? ? Hl' _ _ _ IHk]; [contradiction|];
           destruct Hin as [Hin|Hin]; [inversion Hin; subst; specialize (Hb _ _ Hl'); lia|auto]). }
        split; [rewrite Hfr by (try lia; intro fs'; apply Hnn); exact P1|].
        split; [rewrite Hfr by (try lia; intro fs'; apply Hnn); exact P2|].
        intros m M1 M2. rewrite !nth_set_nth_other by auto. reflexivity.
      * destruct (Hheads fs1 x1 Hin) as (c1 & fl1 & ks0 & ks1 & p1 & q1 & a & b & H1 & H2 & H3 & H4 & H5 & H6 & H7 & H8 & H9 & H10 & H11 & H12).
        exists c1, fl1, ks0, ks1, p1, q1, a, b.
        assert (Hx1 : x1 <> x) by (intro; subst; exact (Hn fs1 Hin)).
        assert (Hx1n : x1 < n).
        { clear -Hk' Hin Hb. induction Hk' as [|? ? ? ? ? ? ? ? ? Hl' _ _ _ IHk]; [contradiction|].
          destruct Hin as [Hin|Hin]; [inversion Hin; subst; exact (Hb _ _ Hl')|auto]. }
        rewrite Fr in H1 by lia. repeat split; auto; lia.
    + intros j Hj Hnot. rewrite Hfr.
      * apply Fr; try lia. intro; subst. apply (Hnot fs). now left.
      * lia.
      * intros fs' Hin. apply (Hnot fs'). now right.
Qed.

(* json_to_state's second half on a decoded heap: the work list is read from the decoded
   state (state.flow_states.items() x flow_state.heads.items()) *)
Corollary redo_callbacks_spec h n state W :
  collect_heads h state = Some W -> below h n -> heads_ok h W ->
  exists h' n',
    redo_callbacks h n state = Some (h', n') /\ below h' n' /\
    (forall fs x, In (fs, VO x) W ->
       exists c fl ks0 ks p q a b,
         lookup h x = Some (mk (HData c fl) ks0) /\ lookup h' x = Some (mk (HData c fl) ks) /\
         index_of pos_f fl = Some p /\ index_of stat_f fl = Some q /\
         nth_error ks p = Some (VO a) /\ nth_error ks q = Some (VO b) /\ a <> b /\ n <= a /\ n <= b /\
         lookup h' a = Some (partial_node state fs) /\ lookup h' b = Some (partial_node state fs) /\
         (forall m, m <> p -> m <> q -> nth_error ks m = nth_error ks0 m)) /\
    (forall j, j < n -> (forall fs, ~ In (fs, VO j) W) -> lookup h' j = lookup h j).
Proof.
  intros Hc Hb Hk. unfold redo_callbacks. rewrite Hc.
  destruct (redo_fold_spec state W h n Hb Hk) as (h' & n' & F & _ & Hb' & H1 & H2).
  exists h', n'. repeat split; auto.
Qed.

(* the hypotheses are inhabited: a state with two flow states, three heads *)
Definition head_fields : list string :=
  ["uid"; "position_changed_callback"; "status_changed_callback"; "_position"].
Definition ex_cb_heap : heap :=
  [ (0, mk (HData "State" ["flow_states"]) [VO 1]);
    (1, mk (HDict [KS "a"; KS "b"]) [VO 2; VO 3]);
    (2, mk (HData "FlowState" ["uid"; "heads"]) [VP (PStr "a"); VO 4]);
    (3, mk (HData "FlowState" ["uid"; "heads"]) [VP (PStr "b"); VO 5]);
    (4, mk (HDict [KS "h1"; KS "h2"]) [VO 6; VO 7]);
    (5, mk (HDict [KS "h3"]) [VO 8]);
    (6, mk (HData "FlowHead" head_fields) [VP (PStr "h1"); VP PNone; VP PNone; VP (PInt 3)]);
    (7, mk (HData "FlowHead" head_fields) [VP (PStr "h2"); VP PNone; VP PNone; VP (PInt 0)]);
    (8, mk (HData "FlowHead" head_fields) [VP (PStr "h3"); VP PNone; VP PNone; VP (PInt 1)]) ].

Example ex_cb_collect :
  collect_heads ex_cb_heap (VO 0) = Some [(VO 2, VO 6); (VO 2, VO 7); (VO 3, VO 8)].
Proof. vm_compute. reflexivity. Qed.

Example ex_cb_redo :
  match redo_callbacks ex_cb_heap 9 (VO 0) with
  | Some (h', n') =>
    (n' =? 15) &&
    match lookup h' 8, lookup h' 13 with
    | Some (mk _ [_; VO a; VO b; VP (PInt 1)]), Some (mk (HPartial _) [VO 0; VO 3]) => (a =? 13) && (b =? 14)
    | _, _ => false
    end
  | None => false
  end = true.
Proof. vm_compute. reflexivity. Qed.
