"""C20 - the server loads configs only from its root and threads keep the exact history.

Model   : coq/theories/Svc/Path.v (POSIX join/normpath/abspath/commonprefix, reject regex,
          get_rails_path), Svc/Threads.v (instance cache, _get_rails loop, chat_completion,
          RequestBody constraints); theorems in Props/C20.v.
Tie (T) : Gen/C20Consts.v regenerated from nemoguardrails/server/api.py by translator/gen_c20.py
          (reject pattern, presence of the commonprefix test, "thread-" prefix, minimum
          thread-id length, "could not load" text, cache-key joiner, Field bounds).
Tie (X) : (a) os.path.join/normpath/abspath/commonprefix and re.search(<source pattern>) against
          the model on generated strings; (b) the real `_get_rails` with RailsConfig.from_path /
          LLMRails patched IN THIS PROCESS to record paths, on generated config ids, against
          get_rails; (c) request sequences through FastAPI's TestClient (and direct calls of
          chat_completion with an unvalidated body) over several thread ids with the in-memory
          datastore and a patched LLMRails whose reply is a deterministic function of (instance,
          messages), against Threads.chat / http_chat.  The model runs inside Coq (vm_compute).
Oracle  : independent restatement of the property on the implementation's observations:
          every path handed to the loader lies inside the root by realpath containment; an id
          that resolves outside the root gets the fixed reply; messages used = exact
          concatenation of the thread's earlier turns + the new messages; the datastore holds
          exactly those concatenations and nothing else changes.
"""
from __future__ import annotations

import ast
import asyncio
import json
import logging
import os
import random
import re
import sys
import types

from harness import common as C

PID = "C20"
GEN = ["C20Consts"]

PREAMBLE = """From Coq Require Import List NArith Bool.
From NG Require Import Gen.C20Consts Svc.Path Svc.Threads Svc.PathRun.
Import ListNotations.
Open Scope N_scope.
"""

TMP = "/tmp/verif_c20"
ROOT = TMP + "/srv/cfgs"

MODP = 1000003
BADCODE = 9999999
ROLES = ["user", "assistant", "system"]
DECOR = ["", ' "q"', " \\b", " é", " 日本", "  ", " \U0001F600", " \x7f", "\t\n", " {}[],:"]
MINLEN_TEXT = "The `thread_id` must have a minimum length"
INTERNAL_TEXT = "Internal server error."


# ---------------------------------------------------------------------------------------
# Coq printing


def cs(s):
    return "[" + "; ".join(str(ord(c)) for c in s) + "]"


def cl(items):
    return "[" + "; ".join(items) + "]"


def copt(x):
    return "None" if x is None else f"(Some {x})"


def cnums(xs):
    return "[" + "; ".join(str(x) for x in xs) + "]"


# ---------------------------------------------------------------------------------------
# the deterministic oracles patched into the server (same functions as Svc/PathRun.v)


def h_path(p):
    acc = 7
    for ch in p:
        acc = (acc * 31 + ord(ch)) % MODP
    return acc


def h_inst(paths):
    acc = 1
    for p in paths:
        acc = (acc * 131 + h_path(p)) % MODP
    return acc


def h_msgs(paths, codes):
    acc = h_inst(paths)
    for m in codes:
        acc = (acc * 17 + m + 1) % MODP
    return acc


def enc(n):
    """message code -> JSON message.  Bot replies (codes >= 2000000) range over edge shapes chosen
    by the code: empty / whitespace / null / missing content, content equal to an earlier user
    message, very long content, non-string content, an "exception" message as the rails produce
    them; a key "n" carries the code wherever the content cannot."""
    if n >= 2000000:
        k = n % 12
        if k == 0:
            return {"role": "assistant", "content": "", "n": n}
        if k == 1:
            return {"role": "assistant", "content": " \n\t", "n": n}
        if k == 2:
            return {"role": "assistant", "content": None, "n": n}
        if k == 3:
            return {"role": "assistant", "n": n}
        if k == 4:
            return {"role": "assistant", "content": "m5" + DECOR[5], "n": n}
        if k == 5:
            return {"role": "assistant", "content": f"b{n}" + "x" * 2000}
        if k == 6:
            return {"role": "exception", "content": {"type": "ValueError", "uid": "u", "message": f"b{n}"}, "n": n}
        if k == 7:
            return {"role": "assistant", "content": [{"type": "text", "text": f"b{n}"}], "n": n, "extra": {"a": [1, None]}}
        return {"role": "assistant", "content": f"b{n}"}
    if n >= 1000000:
        return {"role": "context", "content": {"k": n - 1000000}}
    return {"role": ROLES[n % 3], "content": f"m{n}" + DECOR[n % len(DECOR)]}


def dec(m):
    """JSON message -> code (BADCODE when it is not the encoding of any code)"""
    try:
        if "n" in m:
            n = int(m["n"])
        else:
            c = m["content"]
            if m["role"] == "context":
                n = 1000000 + int(c["k"])
            elif c.startswith("b"):
                n = int(re.match(r"b(\d+)", c).group(1))
            else:
                mm = re.match(r"m(\d+)", c)
                n = int(mm.group(1))
        return n if enc(n) == m else BADCODE
    except Exception:
        return BADCODE


class Impl:
    """The real server with the loader and the LLM replaced by recording fakes."""

    def __init__(self, pfx, sfx):
        logging.disable(logging.CRITICAL)
        import warnings

        warnings.simplefilter("ignore")
        from fastapi.testclient import TestClient

        from nemoguardrails.rails.llm.options import GenerationOptions
        from nemoguardrails.server import api
        from nemoguardrails.server.datastore.memory_store import MemoryStore

        self.api = api
        self.MemoryStore = MemoryStore
        self.GenerationOptions = GenerationOptions
        from nemoguardrails.rails.llm.options import GenerationResponse
        self.GenerationResponse = GenerationResponse
        self.loads = []
        self.used = []
        self.pfx, self.sfx = pfx, sfx
        impl = self

        class FakeConfig:
            streaming_supported = False

            def __init__(self, paths):
                self.paths = list(paths)

            def __add__(self, other):
                return FakeConfig(self.paths + other.paths)

        class FakeRailsConfig:
            @staticmethod
            def from_path(path):
                impl.loads.append(path)
                if "!" in path:
                    raise ValueError(f"Invalid config path {path}.")
                return FakeConfig([path])

        class FakeLLMRails:
            main_llm_supports_streaming = False

            def __init__(self, config, verbose=False):
                self.config = config
                self.events_history_cache = {}

            async def generate_async(self, messages=None, options=None, state=None, streaming_handler=None, **kw):
                codes = [dec(m) for m in messages]
                impl.used.append((list(self.config.paths), codes))
                h = h_msgs(self.config.paths, codes)
                if h % 13 == 0:
                    raise RuntimeError("fake llm failure")
                reply = enc(2000000 + h)
                if h % 7 == 3:      # the GenerationResponse path of chat_completion (res.response[0])
                    return impl.GenerationResponse(response=[reply])
                return reply

        api.RailsConfig = FakeRailsConfig
        api.LLMRails = FakeLLMRails
        self.client = TestClient(api.app, raise_server_exceptions=False)
        self.store = None

    def reset(self, root, single=None, default=None, store0=None):
        api = self.api
        api.llm_rails_instances.clear()
        api.llm_rails_events_history_cache.clear()
        api.app.rails_config_path = root
        api.app.single_config_mode = single is not None
        api.app.single_config_id = single
        api.app.default_config_id = default
        self.store = self.MemoryStore()
        for k, codes in (store0 or {}).items():
            self.store.data[k] = json.dumps([enc(n) for n in codes])
        api.register_datastore(self.store)

    # ---- (b)
    def get_rails(self, ids):
        self.loads = []
        try:
            r = self.api._get_rails(list(ids))
            return "ok", list(self.loads), list(r.config.paths)
        except ValueError:
            return "valueerror", list(self.loads), None
        except Exception as e:  # not something the model predicts
            return "exc:" + type(e).__name__, list(self.loads), None

    # ---- (c)
    def classify(self, msg):
        c = msg.get("content") if isinstance(msg, dict) else None
        if isinstance(c, str) and msg.get("role") == "assistant":
            if c.startswith(self.pfx) and c.endswith(self.sfx) and len(c) >= len(self.pfx) + len(self.sfx):
                mid = c[len(self.pfx): len(c) - len(self.sfx)]
                try:
                    ids = ast.literal_eval(mid)
                    if isinstance(ids, list) and all(isinstance(x, str) for x in ids):
                        return ("cnl", ids)
                except Exception:
                    pass
            if c.startswith(MINLEN_TEXT):
                return ("minlen",)
            if c == INTERNAL_TEXT:
                return ("internal",)
        return ("bot", dec(msg))

    def step(self, st):
        """st: dict(direct, config_id, config_ids, thread_id, context_k, msgs) -> observation"""
        api = self.api
        self.loads, self.used = [], []
        msgs = [enc(n) for n in st["msgs"]]
        ctx = None if st.get("context_k") is None else {"k": st["context_k"]}
        if st["direct"]:
            body = api.RequestBody.model_construct(
                config_id=None, config_ids=st.get("config_ids"), thread_id=st.get("thread_id"),
                messages=msgs, context=ctx, stream=False, options=self.GenerationOptions(), state=None)
            try:
                res = asyncio.run(api.chat_completion(body, types.SimpleNamespace(headers={})))
                reply = self.classify(res["messages"][0])
            except api.GuardrailsConfigurationError:
                reply = ("noconfig",)
            except Exception as e:
                reply = ("exc:" + type(e).__name__,)
        else:
            body = {"messages": msgs}
            for k in ("config_id", "config_ids", "thread_id"):
                if st.get(k) is not None:
                    body[k] = st[k]
            if ctx is not None:
                body["context"] = ctx
            resp = self.client.post("/v1/chat/completions", json=body)
            if resp.status_code == 422:
                reply = ("422",)
            elif resp.status_code == 500:
                reply = ("noconfig",)
            elif resp.status_code == 200:
                try:
                    reply = self.classify(resp.json()["messages"][0])
                except Exception as e:
                    reply = ("exc:" + type(e).__name__,)
            else:
                reply = (f"http{resp.status_code}",)
        return {"reply": reply, "loads": list(self.loads), "used": [(list(p), list(c)) for p, c in self.used]}

    def store_codes(self):
        out = []
        for k, v in self.store.data.items():
            try:
                out.append((k, [dec(m) for m in json.loads(v)]))
            except Exception:
                out.append((k, [BADCODE]))
        return out


# ---------------------------------------------------------------------------------------
# generators

PSEGS = [".", "..", "", "", "a", "b", "ab", "...", "a.b", ".a", "a.", "..a", "é", "日", "\U0001F600",
         "\x00", " ", "-", "\\", "a\\b", "cfg", "cfg-evil"]


def gen_path_str(rng):
    if rng.random() < 0.04:
        return rng.choice(["", "/", "//", "///", "////", ".", "..", "/.", "/..", "//..", "./", "../", "../..", "/../.."])
    n = rng.choice([1, 1, 2, 2, 3, 3, 4, 5, 6, 8, 12, 40])
    lead = rng.choice([0, 0, 0, 1, 1, 1, 2, 2, 3, 4])
    s = "/" * lead
    for i in range(n):
        s += rng.choice(PSEGS)
        if i < n - 1 or rng.random() < 0.3:
            s += "/" * rng.choice([1, 1, 1, 1, 2, 3])
    return s


ID_ATOMS = ["", ".", "..", "...", "a", "cfg", "cfgA", "cfgB", "cfg-evil", "-evil", "/", "//", "\\", "%2e", "%2e%2e",
            "%2f", "%2F..", "\x00", "．", "／", "‥", "∕", "․", "!", "-", " ", "~", "é",
            "日", "\U0001F600", "etc", "passwd", "..\\", "../", "/..", "./", "a/b", "cfgs", "cfgs-evil"]


# directories OUTSIDE the root whose path extends the root's path string (the shape the
# character-wise commonprefix test cannot tell from a child), plus ordinary outside places and
# a few inside ones; created on disk with a stub config.yml
SIBLINGS = ["_private/secret", "-evil", "-evil/x", "X/inner", ".bak", "2"]
TARGETS_REL = (["../cfgs" + s for s in SIBLINGS]
               + ["../other/secret", "..", "../..", "cfgA/../../cfgs_private/secret", "./../cfgs-evil",
                  "..\\cfgs-evil", "cfgA", "cfg A", "./cfgA", "cfgA/sub"])
TARGETS_ABS = (["{ROOT}" + s for s in SIBLINGS]
               + ["{ROOT}/../cfgs_private/secret", "/{ROOT}-evil", "/etc/passwd", "/tmp/verif_c20/srv/other/secret",
                  "{ROOT}/cfgA", "{ROOT}"])
ENC_LITERALS = ["%c0%ae%c0%ae%c0%afcfgs-evil", "%u002e%u002e%u2215cfgs-evil", "&#46;&#46;&#47;cfgs-evil",
                "\\u002e\\u002e\\u002fcfgs-evil", "%252e%252e%252fcfgs_private%252fsecret", "..%00/cfgs-evil",
                "%2e%2e%2f", "%2e%2e", "%2f", "%2E%2E%5Ccfgs-evil", "%%32%65%%32%65%%32%66cfgs-evil"]


def _pct(ch, rng, case):
    out = ""
    for b in ch.encode("utf-8"):
        h = "%02x" % b
        if case == "upper":
            h = h.upper()
        elif case == "mixed":
            h = "".join(c.upper() if rng.random() < 0.5 else c for c in h)
        out += "%" + h
    return out


def encode_layers(rng, p):
    """p written through the encodings a server could conceivably undo before using the id"""
    from urllib.parse import quote
    case = rng.choice(["lower", "lower", "upper", "mixed"])
    k = rng.randrange(11)
    if k == 0:      # reserved characters only ('/' '\\' ' ' ...), dots stay
        s = "".join(_pct(c, rng, case) if not (c.isalnum() or c in "._-~") else c for c in p)
    elif k == 1:    # reserved characters and dots
        s = "".join(_pct(c, rng, case) if not (c.isalnum() or c in "_-~") else c for c in p)
    elif k == 2:    # every character
        s = "".join(_pct(c, rng, case) for c in p)
    elif k == 3:    # only the separators
        s = "".join(_pct(c, rng, case) if c in "/\\" else c for c in p)
    elif k == 4:    # only the dots
        s = "".join(_pct(c, rng, case) if c == "." else c for c in p)
    elif k == 5:    # double encoding
        s = quote(quote(p, safe=""), safe="").replace(".", "%252e")
    elif k == 6:    # '/' written as an encoded backslash
        s = "".join(_pct("\\", rng, case) if c == "/" else _pct(c, rng, case) if c == "." else c for c in p)
    elif k == 7:    # a random subset of the characters
        s = "".join(_pct(c, rng, case) if rng.random() < 0.5 else c for c in p)
    elif k == 8:    # form encoding: '+' for space, rest reserved-encoded
        s = "".join("+" if c == " " else _pct(c, rng, case) if not (c.isalnum() or c in "_-~") else c for c in p)
    elif k == 9:    # everything but letters/digits, then encoded once more in part
        s = "".join(_pct(c, rng, case) if not c.isalnum() else c for c in p)
        s = "".join("%25" if c == "%" and rng.random() < 0.3 else c for c in s)
    else:
        s = p
    return s


def gen_encoded_id(rng):
    if rng.random() < 0.08:
        return rng.choice(ENC_LITERALS)
    p = rng.choice(TARGETS_REL) if rng.random() < 0.55 else rng.choice(TARGETS_ABS).replace("{ROOT}", ROOT)
    return encode_layers(rng, p)


def make_dirs():
    for d in [ROOT + "/cfgA", ROOT + "/cfgB", ROOT + "/cfg A", TMP + "/srv/other/secret"] + [ROOT + s for s in SIBLINGS]:
        os.makedirs(d, exist_ok=True)
        f = os.path.join(d, "config.yml")
        if not os.path.exists(f):
            with open(f, "w") as fh:
                fh.write('models: []\n')


def gen_id(rng):
    """config id template; {ROOT} is replaced by the absolute root at run time"""
    r = rng.random()
    if r < 0.17:
        return gen_encoded_id(rng)
    r = rng.random()
    if r < 0.12:
        return rng.choice(["cfgA", "cfgB", "cfg", "a", "cfgA-cfgB"])
    if r < 0.20:
        return rng.choice(["", ".", "..", "/", "\\", "...", "....", ". .", ".. ", " ..", "..."])
    if r < 0.30:
        return rng.choice(["{ROOT}", "{ROOT}/cfgA", "{ROOT}-evil", "{ROOT}-evil/x", "{ROOT}/..", "/etc/passwd", "/", "//",
                           "{ROOT}/../cfgs-evil", "../cfgs-evil", "../cfgs", "../cfgs/cfgA", "cfgA/../../cfgs-evil",
                           "..\\cfgs-evil", "{ROOT}/", "//{ROOT}", "{ROOT}x"])
    if r < 0.33:
        return rng.choice(["a" * 300, "../" * 60 + "etc", "." * 50, "a" * 2000, "日" * 100])
    n = rng.randint(1, 5)
    return "".join(rng.choice(ID_ATOMS) for _ in range(n))


ROOT_VARIANTS = ["{ROOT}", "{ROOT}", "{ROOT}", "{ROOT}/", "{ROOT}/.", "{ROOT}/../cfgs", "{ROOT}//", "{REL}", "/", "//",
                 "/tmp/verif_c20/srv/./cfgs", "///tmp/verif_c20/srv/cfgs", "//tmp"]


def subst(s, rel):
    return s.replace("{ROOT}", ROOT).replace("{REL}", rel)


TIDS = ["aaaaaaaaaaaaaaaa", "aaaaaaaaaaaaaaaab", "bbbbbbbbbbbbbbbbbbbb", "thread-aaaaaaaaaaaaaaaa",
        "session-0123456789abcdef", "日" * 16, "a" * 255, "0123456789abcdef", "0123456789abcdeF"]
BAD_TIDS = ["", "a", "short", "a" * 15, "a" * 256, "日" * 15]
FOREIGN = {"session-0123456789abcdef": [3, 4], "config-cache-aaaaaaaaaaaaaaaa": [5]}


def gen_seq(rng):
    root_t = rng.choice(["{ROOT}", "{ROOT}", "{ROOT}", "{ROOT}/", "{REL}"])
    single = rng.choice([None] * 9 + ["cfgs"])
    default = rng.choice([None, None, "cfgA", "cfgB", ""])
    store0 = dict(FOREIGN) if rng.random() < 0.7 else {}
    pool = rng.sample(TIDS, rng.randint(2, 4))
    good_cfgs = [["cfgA"], ["cfgB"], ["cfgA", "cfgB"], ["cfgA-cfgB"], ["cfgB", "cfgA"], ["."], [""]]
    if single:
        good_cfgs = [["cfgs"], ["cfgs"], ["cfgA"]]
    steps = []
    nmsg = [0]

    def fresh():
        nmsg[0] += 1
        return rng.randrange(0, 999) * 1000 + nmsg[0] if rng.random() < 0.9 else rng.choice([0, 1, 2, 3, 4, 5])

    for _ in range(rng.choice([2, 4, 6, 8, 10, 14])):
        st = {"direct": rng.random() < 0.25, "config_id": None, "config_ids": None, "thread_id": None,
              "context_k": None, "msgs": [fresh() for _ in range(rng.choice([0, 1, 1, 1, 2, 3]))]}
        r = rng.random()
        if r < 0.72:
            ids = rng.choice(good_cfgs)
        elif r < 0.80:
            ids = None
        elif r < 0.84:
            ids = []
        else:
            ids = [gen_id(rng) for _ in range(rng.choice([1, 1, 2, 3]))]
        if ids is not None and len(ids) == 1 and not st["direct"] and rng.random() < 0.6:
            st["config_id"] = ids[0]
        else:
            st["config_ids"] = ids
        if not st["direct"] and rng.random() < 0.02:
            st["config_id"], st["config_ids"] = "cfgA", ["cfgB"]
        r = rng.random()
        if r < 0.70:
            st["thread_id"] = rng.choice(pool)
        elif r < 0.82:
            st["thread_id"] = rng.choice(BAD_TIDS)
        if rng.random() < 0.15:
            st["context_k"] = rng.randrange(0, 50)
        steps.append(st)
    return {"root": root_t, "single": single, "default": default, "store0": store0, "steps": steps}


# ---------------------------------------------------------------------------------------
# the independent property oracle (on the implementation's observations only)


def inside_root(root_abs, p):
    # NUL cannot be passed to the OS: keep it as an opaque letter for the containment test
    rr = os.path.realpath(root_abs.replace("\x00", "\u2400"))
    pp = os.path.realpath(p.replace("\x00", "\u2400"))
    return pp == rr or pp.startswith(rr.rstrip("/") + "/")


def resolves_outside(root_abs, cid):
    """Would the directory named by this id (relative to the root, as a file system does) lie
    outside the root?"""
    return not inside_root(root_abs, os.path.join(root_abs, cid))


def effective_ids(st, default):
    ids = st.get("config_ids")
    if st.get("config_id"):
        ids = [st["config_id"]]
    if not ids:
        ids = [default] if default else None
    return ids


class SeqOracle:
    def __init__(self, root_abs, default, store0):
        self.root = root_abs
        self.default = default
        self.foreign = {k: list(v) for k, v in store0.items()}
        self.hist = {}

    def check(self, i, st, obs, store_codes):
        """-> list of (signature, text)"""
        bad = []
        reply = obs["reply"]
        for p in obs["loads"]:
            if not inside_root(self.root, p):
                bad.append(("load-outside-root", f"step {i}: RailsConfig.from_path({p!r}) is outside the root {self.root!r}"))
        for paths, _ in obs["used"]:
            for p in paths:
                if not inside_root(self.root, p):
                    bad.append(("instance-from-outside-root", f"step {i}: request served by an instance built from {p!r}"))
        if reply[0] in ("422", "noconfig"):
            pass
        else:
            ids = effective_ids(st, self.default)
            if ids and any(resolves_outside(self.root, x) for x in ids) and reply[0] != "cnl":
                bad.append(("outside-id-not-rejected", f"step {i}: ids {ids!r} name a directory outside the root but the reply is {reply}"))
        if len(obs["used"]) > 1:
            bad.append(("llm-called-twice", f"step {i}: generate_async called {len(obs['used'])} times"))
        tid = st.get("thread_id")
        new = ([1000000 + st["context_k"]] if st.get("context_k") is not None else []) + list(st["msgs"])
        if tid and reply[0] not in ("422", "noconfig") and obs["used"]:
            want = self.hist.get(tid, []) + new
            got = obs["used"][0][1]
            if got != want:
                bad.append(("thread-used-differs", f"step {i}: thread {tid!r}: messages used {got} but stored thread + new messages = {want}"))
        if not tid and obs["used"] and obs["used"][0][1] != new:
            bad.append(("no-thread-used-differs", f"step {i}: no thread id: messages used {obs['used'][0][1]} != new messages {new}"))
        if tid and reply[0] == "bot":
            self.hist[tid] = self.hist.get(tid, []) + new + [reply[1]]
        # datastore: foreign keys untouched; the other values are exactly the thread histories
        data = dict(store_codes)
        for k, v in self.foreign.items():
            if data.get(k) != v:
                bad.append(("datastore-foreign-key-touched", f"step {i}: key {k!r} changed from {v} to {data.get(k)}"))
        others = sorted(v for k, v in store_codes if k not in self.foreign)
        want = sorted(v for v in self.hist.values() if v)
        if others != want:
            bad.append(("thread-stored-differs", f"step {i}: datastore threads {others} but the turns so far give {want}"))
        return bad


# ---------------------------------------------------------------------------------------
# terms


def term_req(st):
    cid = copt(cs(st["config_id"])) if st.get("config_id") is not None else "None"
    cids = copt(cl([cs(x) for x in st["config_ids"]])) if st.get("config_ids") is not None else "None"
    tid = copt(cs(st["thread_id"])) if st.get("thread_id") is not None else "None"
    ctx = copt(str(1000000 + st["context_k"])) if st.get("context_k") is not None else "None"
    return f"(mk_req {cid} {cids} {tid} {ctx} {cnums(st['msgs'])})"


def term_reply(r):
    return {"noconfig": "r_noconfig", "minlen": "r_minlen", "internal": "r_internal", "422": "r_422"}.get(r[0]) or (
        f"(r_cnl {cl([cs(x) for x in r[1]])})" if r[0] == "cnl" else f"(r_bot {r[1]})" if r[0] == "bot" else None)


def term_out(obs):
    used = obs["used"][0] if obs["used"] else None
    inst = copt(cl([cs(p) for p in used[0]])) if used else "None"
    u = copt(cnums(used[1])) if used else "None"
    return f"(mk_out {cl([cs(p) for p in obs['loads']])} {inst} {u} {term_reply(obs['reply'])})"


def term_store(pairs):
    return cl([f"(kv {cs(k)} {cnums(v)})" for k, v in pairs])


def printable(s):
    return s.encode("unicode_escape").decode("ascii")


# ---------------------------------------------------------------------------------------


def run(tier, seed, replay=None):
    out = C.Outcome(PID, tier, seed)
    rng = random.Random(seed * 1000003 + 20)
    b = C.build_and_audit(PID, GEN)
    C.proof_coverage(out, b, "make theories/Props/C20.vo && coqc Props/C20.v (Print Assumptions)")
    for br in b["broken"]:
        out.add_broken(br, b["log"])
    with C.BuildLock():
        okm, logm = C.coq_make(["theories/Svc/PathRun.vo"])
    if not okm:
        out.add_broken("coq:theories/Svc/PathRun.v", logm)

    from translator import gen_c20 as T
    try:
        consts = T.c20_consts()
    except Exception as e:
        consts = None
        if not any(x.startswith("translator:") for x in b["broken"]):
            out.add_broken("translator:C20Consts", str(e))
    pfx = consts["reply_prefix"] if consts else "Could not load the "
    sfx = consts["reply_suffix"] if consts else " guardrails configuration. An internal error has occurred."
    sources = consts["reject_sources"] if consts else [r"[\\/]|(\.\.)"]
    out.coverage["translated_constants"] = {k: v for k, v in (consts or {}).items() if k != "reject_pattern"}

    make_dirs()
    cwd = os.getcwd()
    rel = os.path.relpath(ROOT, cwd)
    impl = Impl(pfx, sfx)

    quick = tier == "quick"
    n_path = 6000 if quick else 60000
    n_rails = 4000 if quick else 40000
    n_seq = 400 if quick else 4000
    if replay:
        n_path = n_rails = n_seq = 0

    corpus = []
    cdir = os.path.join(C.VERIF, "corpus", PID)
    if os.path.isdir(cdir):
        for fn in sorted(os.listdir(cdir)):
            if fn.endswith(".json"):
                corpus.append(json.load(open(os.path.join(cdir, fn))))
    if replay:
        d = json.load(open(replay))
        corpus.append(d.get("replay", d))
    seen = set()
    nontrivial = [0]
    dist = {"path": {}, "rails": {}, "seq_replies": {}, "corpus_cases": len(corpus)}

    def note(h, nt):
        if h not in seen:
            seen.add(h)
            if nt:
                nontrivial[0] += 1

    # ------------------------------------------------------------------ (a) os.path functions
    pcases = [c for c in corpus if c.get("kind") == "path"]
    for _ in range(n_path):
        k = rng.choice(["join", "norm", "norm", "norm", "abs", "common", "search"])
        if k == "join":
            a = gen_path_str(rng)
            bb = rng.choice([gen_path_str(rng), subst(gen_id(rng), rel)])
            pcases.append({"kind": "path", "fn": "join", "args": [a, bb]})
        elif k == "norm":
            pcases.append({"kind": "path", "fn": "norm", "args": [gen_path_str(rng)]})
        elif k == "abs":
            pcases.append({"kind": "path", "fn": "abs", "args": [gen_path_str(rng)]})
        elif k == "common":
            s = gen_path_str(rng)
            m = []
            for _ in range(rng.choice([0, 1, 2, 2, 2, 3, 4])):
                q = rng.random()
                if q < 0.3:
                    m.append(s + rng.choice(["", "x", "-evil", "/x", "/"]))
                elif q < 0.6:
                    m.append(s[: rng.randint(0, len(s))] + rng.choice(["", "y", "/"]))
                elif q < 0.8:
                    m.append(s)
                else:
                    m.append(gen_path_str(rng))
            pcases.append({"kind": "path", "fn": "common", "args": m})
        else:
            pcases.append({"kind": "path", "fn": "search", "args": [subst(gen_id(rng), rel)]})
    pterms, pkept = [], []
    for c in pcases:
        fn, args = c["fn"], c["args"]
        try:
            if fn == "join":
                e = os.path.join(args[0], args[1])
                t = f"CJoin {cs(args[0])} {cs(args[1])} {cs(e)}"
            elif fn == "norm":
                e = os.path.normpath(args[0])
                t = f"CNorm {cs(args[0])} {cs(e)}"
            elif fn == "abs":
                e = os.path.abspath(args[0])
                t = f"CAbs {cs(cwd)} {cs(args[0])} {cs(e)}"
            elif fn == "common":
                e = os.path.commonprefix(list(args))
                t = f"CCommon {cl([cs(x) for x in args])} {cs(e)}"
            else:
                e = any(re.search(p, args[0]) for p in sources)
                t = f"CSearch {cs(args[0])} {C.coq_bool(e)}"
        except Exception as ex:
            out.findings.append(C.Finding("os-path-raises", f"{fn}{args!r} raised {ex!r}", c))
            continue
        dist["path"][fn] = dist["path"].get(fn, 0) + 1
        joined = "|".join(args)
        note(C.canon_hash(["p", fn, args]), "/" in joined and ("." in joined or "//" in joined))
        pterms.append("(" + t + ")")
        pkept.append((c, e))
    if okm and pterms:
        bools, err = C.run_cases(PID + "_path", PREAMBLE, pterms, "check_path")
        if err:
            out.add_broken("correspondence:C20-path(coqc)", err)
        else:
            badp = [(c, e) for ok, (c, e) in zip(bools, pkept) if not ok]
            if badp:
                c, e = min(badp, key=lambda x: len(json.dumps(x[0])))
                out.add_broken("correspondence:C20-path",
                               f"{len(badp)} disagreements; smallest: {c['fn']}({', '.join(printable(a) for a in c['args'])}) "
                               f"python={e!r}")
                out.coverage["path_disagreement_example"] = {"case": c, "python": e if isinstance(e, bool) else printable(e)}

    # ------------------------------------------------------------------ (b) _get_rails
    rcases = [c for c in corpus if c.get("kind") == "rails"]
    for _ in range(n_rails):
        root_t = rng.choice(ROOT_VARIANTS)
        single = rng.choice([None] * 12 + ["cfgs", "cfgA"])
        ids = [gen_id(rng) for _ in range(rng.choice([1, 1, 1, 1, 2, 2, 3]))]
        if single and rng.random() < 0.5:
            ids = [single]
        rcases.append({"kind": "rails", "root": root_t, "single": single, "ids": ids})
    rterms, rkept = [], []
    rails_findings = 0
    rails_found = []
    for c in rcases:
        root = subst(c["root"], rel)
        ids = [subst(x, rel) for x in c["ids"]]
        impl.reset(root, single=c.get("single"))
        status, trace, inst = impl.get_rails(ids)
        dist["rails"][status] = dist["rails"].get(status, 0) + 1
        joined = "|".join(ids)
        note(C.canon_hash(["r", root, c.get("single"), ids]),
             len(ids) > 1 or any(ch in joined for ch in "/\\.%\x00") or any(ord(ch) > 127 for ch in joined))
        root_abs = os.path.abspath(root)
        # direct oracle on the implementation
        for p in trace:
            if not inside_root(root_abs, p):
                rails_findings += 1
                rails_found.append(("load-outside-root", f"_get_rails({ids!r}) called RailsConfig.from_path({p!r}) outside the root {root_abs!r}",
                                    {**c, "observed_loads": trace}))
        if status == "ok" and not c.get("single") and any(resolves_outside(root_abs, x) for x in ids):
            rails_findings += 1
            rails_found.append(("outside-id-not-rejected", f"_get_rails({ids!r}) succeeded although an id names a directory outside {root_abs!r}",
                                {**c, "observed_loads": trace}))
        if status.startswith("exc:"):
            out.findings.append(C.Finding("get-rails-unexpected-exception", f"_get_rails({ids!r}) raised {status[4:]}", c))
            continue
        t = "(mk_rails {cwd} {root} {single} {ids} {tr} {inst})".format(
            cwd=cs(cwd), root=cs(root), single=copt(cs(c["single"])) if c.get("single") is not None else "None",
            ids=cl([cs(x) for x in ids]), tr=cl([cs(p) for p in trace]),
            inst=copt(cl([cs(p) for p in inst])) if inst is not None else "None")
        rterms.append(t)
        rkept.append((c, status, trace))
    # smallest failing input per signature becomes the replay
    best = {}
    for sig, text, payload in rails_found:
        size = (len(payload["ids"]), sum(len(x) for x in payload["ids"]), len(payload["root"]))
        if sig not in best or size < best[sig][0]:
            best[sig] = (size, text, payload)
    for sig, (_, text, payload) in best.items():
        out.findings.append(C.Finding(sig, text, payload))
    if okm and rterms:
        bools, err = C.run_cases(PID + "_rails", PREAMBLE, rterms, "check_rails", shard=200)
        if err:
            out.add_broken("correspondence:C20-get_rails(coqc)", err)
        else:
            badr = [(t, k) for ok, t, k in zip(bools, rterms, rkept) if not ok]
            if badr:
                t, (c, status, trace) = min(badr, key=lambda x: len(x[0]))
                model = C.eval_term(PID + "_rails", PREAMBLE,
                                    f"let '(cwd, root, single, ids, _, _) := {t} in get_rails_now (abspathN cwd root) single [] ids")
                out.add_broken("correspondence:C20-get_rails",
                               f"{len(badr)} disagreements; smallest: root={c['root']!r} single={c.get('single')!r} ids={[printable(x) for x in c['ids']]} "
                               f"impl={status} loads={trace} model={model[-600:]}")

    # ------------------------------------------------------------------ (c) request sequences
    scases = [c for c in corpus if c.get("kind") == "seq"]
    for _ in range(n_seq):
        scases.append(gen_seq(rng))
    sterms, skept = [], []
    n_steps = 0
    seq_viol = []
    for c in scases:
        root = subst(c["root"], rel)
        root_abs = os.path.abspath(root)
        store0 = c.get("store0") or {}
        impl.reset(root, single=c.get("single"), default=c.get("default"), store0=store0)
        orc = SeqOracle(root_abs, c.get("default"), store0)
        steps_t = []
        tids = set()
        per_tid = {}
        unexpected = None
        for i, st0 in enumerate(c["steps"]):
            st = dict(st0)
            for k in ("config_id",):
                if st.get(k) is not None:
                    st[k] = subst(st[k], rel)
            if st.get("config_ids") is not None:
                st["config_ids"] = [subst(x, rel) for x in st["config_ids"]]
            obs = impl.step(st)
            n_steps += 1
            dist["seq_replies"][obs["reply"][0]] = dist["seq_replies"].get(obs["reply"][0], 0) + 1
            for sig, text in orc.check(i, st, obs, impl.store_codes()):
                seq_viol.append((sig, text, c, i))
            tr = term_reply(obs["reply"])
            if tr is None:
                unexpected = (i, obs["reply"])
                break
            if st.get("thread_id") and obs["reply"][0] == "bot":
                per_tid[st["thread_id"]] = per_tid.get(st["thread_id"], 0) + 1
            steps_t.append(f"(mk_step {C.coq_bool(st['direct'])} {term_req(st)} {term_out(obs)})")
        if unexpected:
            out.findings.append(C.Finding("chat-unexpected-result", f"step {unexpected[0]}: {unexpected[1]}", {**c, "kind": "seq"}))
            continue
        note(C.canon_hash(["s", c]), len(per_tid) >= 2 and max(per_tid.values()) >= 2)
        t = "(mk_seq {cwd} {root} {single} {default} {s0} {steps} {s1})".format(
            cwd=cs(cwd), root=cs(root), single=copt(cs(c["single"])) if c.get("single") is not None else "None",
            default=copt(cs(c["default"])) if c.get("default") is not None else "None",
            s0=term_store(list(store0.items())), steps=cl(steps_t), s1=term_store(impl.store_codes()))
        sterms.append(t)
        skept.append(c)
    if okm and sterms:
        bools, err = C.run_cases(PID + "_seq", PREAMBLE, sterms, "check_seq", shard=40)
        if err:
            out.add_broken("correspondence:C20-chat(coqc)", err)
        else:
            bads = [(t, c) for ok, t, c in zip(bools, sterms, skept) if not ok]
            if bads:
                t, c = min(bads, key=lambda x: len(x[0]))
                model = C.eval_term(PID + "_seq", PREAMBLE, f"model_seq {t}")
                out.add_broken("correspondence:C20-chat",
                               f"{len(bads)} disagreeing sequences; smallest: {json.dumps(c)[:1500]} model outcomes/store: {model[-1500:]}")
                out.coverage["seq_disagreement_example"] = c

    # oracle failures -> findings (smallest sequence per signature)
    by_sig = {}
    for sig, text, c, i in seq_viol:
        cur = by_sig.get(sig)
        if cur is None or len(c["steps"]) < len(cur[1]["steps"]):
            by_sig[sig] = (text, c, i)
    for sig, (text, c, i) in by_sig.items():
        out.findings.append(C.Finding(sig, text, {**c, "kind": "seq", "failing_step": i}))

    out.coverage.update({
        "evaluations": len(pterms) + len(rterms) + len(sterms),
        "distinct_nontrivial": nontrivial[0],
        "rule": "distinct by hash of the case; non-trivial = (a) path string with a separator and a dot or a doubled separator; "
                "(b) id list with >1 id or an id containing / \\ . % NUL or a non-ASCII code point; "
                "(c) request sequence in which >=2 thread ids receive a bot turn and one of them >=2 turns",
        "samples": [pcases[0] if pcases else None, rcases[0] if rcases else None, scases[0] if scases else None],
        "input_distribution": dist,
        "traces_validated_against_impl": len(rterms) + n_steps,
        "requests_in_sequences": n_steps,
        "oracle_violations": len(seq_viol) + rails_findings,
    })
    out.assumptions += [
        "POSIX path semantics (os.sep = '/'); Windows drive letters and symlinks are outside the model; the oracle uses realpath containment under a symlink-free temp root",
        "RailsConfig.from_path and LLMRails are replaced in the harness process by recording fakes (loader raises ValueError iff '!' in path; reply = a message chosen by a hash of instance paths and messages - plain, empty/whitespace/null/missing content, equal to an earlier user message, 2000 characters, non-string content, role 'exception', returned as dict or GenerationResponse - raising when the hash is divisible by 13); in the theorems they are arbitrary functions",
        "messages are JSON values on which json.dumps/json.loads is the identity (exercised with quotes, backslashes, control and non-BMP characters); requests carry a `messages` list; a datastore is registered",
        "streaming requests do not persist threads (TODO in chat_completion) and are outside the quantified request sequences; auto-reload cache eviction is not modelled",
        "pydantic's own machinery is trusted to apply the RequestBody validators; their effect (config_id -> [config_id], length bounds) is modelled and compared through TestClient",
        "commonprefix is modelled as the longest common prefix of all members (CPython compares min and max); compared on lists of 0-4 strings",
    ]
    if tier == "thorough" and b["ok"]:
        ok, log = C.coqchk(PID, b["files"])
        out.coverage["coqchk"] = "ok" if ok else "FAILED"
        if not ok:
            out.add_broken("coqchk", log)
    return C.finish(out)
