(* V2/Life_activation.v - activation as a whole: over any sequence of the modelled operations
   (StartFlow processed = start / activate / restart; an instance ends by itself or is stopped;
   an activator ends; scope ends; action events; status moves) the reference count of an
   activated flow equals the number of child-list entries of live instances that refer to it. *)
From Coq Require Import ZArith NArith List Bool Lia Permutation.
From NG Require Import V2.Life V2.Life_proofs V2.Life_scope V2.Life_count.
Import ListNotations.
Open Scope N_scope.

(* ------------------------------------------------------------------------------------ *)
(* the key list of the instance map is never changed by the lifetime operations *)
Definition keys (s : st) : list uid := map fst (flows s).

Lemma keys_upd : forall A k (v : A) m, map fst (upd k v m) = map fst m.
Proof.
  induction m as [|[k' v'] m IH]; simpl; auto.
  destruct (N.eqb k k'); simpl; congruence.
Qed.

Lemma keys_setf : forall s x i, keys (setf s x i) = keys s.
Proof. intros; unfold keys, setf; simpl. apply keys_upd. Qed.

Lemma keys_modf : forall s x g, keys (modf s x g) = keys s.
Proof. intros; unfold modf. destruct (getf s x); auto using keys_setf. Qed.

Lemma keys_flows : forall s s', flows s' = flows s -> keys s' = keys s.
Proof. intros s s' H; unfold keys; rewrite H; auto. Qed.

Lemma keys_unlink : forall s f s', unlink s f = Ok s' -> keys s' = keys s.
Proof.
  unfold unlink; intros s f s' H. destruct (getf s f) as [i|]; try discriminate.
  destruct (i_activated i =? 0)%Z; [|inversion H; auto].
  destruct (i_parent i) as [p|]; [|inversion H; auto].
  destruct (getf s p) as [pi|]; [|inversion H; auto].
  destruct (remove1 f (i_children pi)); inversion H; subst. apply keys_setf.
Qed.

Lemma keys_restart : forall s f d s', restart s f d = Ok s' -> keys s' = keys s.
Proof.
  unfold restart; intros s f d s' H. destruct (getf s f) as [i|]; try discriminate.
  destruct (negb d && (0 <? i_activated i)%Z && negb (i_nis i)); [|inversion H; auto].
  apply bind_ok in H. destruct H as (src & _ & H). inversion H; subst. rewrite keys_modf. reflexivity.
Qed.

Lemma keys_stop_actions : forall l s s', stop_actions l s = Ok s' -> keys s' = keys s.
Proof. intros. apply keys_flows. eapply stop_actions_flows; eauto. Qed.

Section KeysPass.
  Variable ab : st -> uid -> bool -> res st.
  Hypothesis Habk : forall s c d s', ab s c d = Ok s' -> keys s' = keys s.

  Lemma keys_abort_same : forall fid l s s', abort_same ab fid l s = Ok s' -> keys s' = keys s.
  Proof.
    induction l as [|c l IH]; simpl; intros s s' H; [inversion H; auto|].
    destruct (getf s c) as [ci|]; try discriminate.
    destruct (N.eqb (i_flow ci) fid); [|eauto].
    bind_inv H. rewrite (IH _ _ H), keys_modf. eauto.
  Qed.

  Lemma keys_abort_children : forall l s s', abort_children ab l s = Ok s' -> keys s' = keys s.
  Proof.
    induction l as [|c l IH]; simpl; intros s s' H; [inversion H; auto|].
    destruct (getf s c) as [ci|]; [|eauto].
    destruct (is_child_activated s ci); [eauto|].
    bind_inv H. rewrite (IH _ _ H). eauto.
  Qed.

  Lemma keys_scope_flows : forall l s s', scope_flows ab l s = Ok s' -> keys s' = keys s.
  Proof.
    induction l as [|c l IH]; simpl; intros s s' H; [inversion H; auto|].
    destruct (getf s c) as [ci|]; [|eauto].
    destruct (listening (i_status ci)); [|eauto].
    bind_inv H. rewrite (IH _ _ H). eauto.
  Qed.

  Lemma keys_prologue : forall skip s f d s3 go, prologue ab skip s f d = Ok (s3, go) -> keys s3 = keys s.
  Proof.
    unfold prologue, deactivate; intros skip s f d s3 go H.
    apply bind_ok in H. destruct H as ([s1 b] & Hd & H). simpl in H.
    assert (K1 : keys s1 = keys s).
    { destruct (getf s f) as [i|]; try discriminate.
      apply bind_ok in Hd. destruct Hd as (isref & _ & Hd).
      destruct isref; [|inversion Hd; auto].
      destruct (i_activated i - 1 =? 0)%Z.
      - bind_inv Hd. inversion Hd; subst. rewrite (keys_abort_same _ _ _ _ Hb). apply keys_modf.
      - inversion Hd; subst. apply keys_modf. }
    destruct b; [|inversion H; subst; auto].
    destruct (getf s1 f) as [i1|]; try discriminate.
    destruct (skip (i_status i1)); [inversion H; subst; auto|].
    bind_inv H. destruct (getf s0 f) as [i2|]; try discriminate. bind_inv H. inversion H; subst.
    rewrite (keys_stop_actions _ _ _ Hb0), (keys_abort_children _ _ _ Hb). auto.
  Qed.
End KeysPass.

Lemma keys_epilogue_abort : forall s f d s', epilogue_abort s f d = Ok s' -> keys s' = keys s.
Proof.
  unfold epilogue_abort; intros s f d s' H. bind_inv H.
  rewrite (keys_restart _ _ _ _ H). unfold keys at 1. simpl. fold (keys (modf s0 f (set_status FStopped))).
  rewrite keys_modf. eapply keys_unlink; eauto.
Qed.

Lemma keys_epilogue_finish : forall s f d s', epilogue_finish s f d = Ok s' -> keys s' = keys s.
Proof.
  unfold epilogue_finish; intros s f d s' H. destruct (getf s f) as [i|]; try discriminate.
  destruct (N.eqb (i_flow i) main_id); [inversion H; apply keys_modf|].
  bind_inv H. rewrite (keys_restart _ _ _ _ H). unfold keys at 1. simpl. fold (keys s0).
  rewrite (keys_unlink _ _ _ Hb). apply keys_modf.
Qed.

Lemma keys_abort : forall n s f d s', abort n s f d = Ok s' -> keys s' = keys s.
Proof.
  induction n as [|n IH]; simpl; intros s f d s' H; try discriminate.
  apply bind_ok in H. destruct H as ([s3 go] & Hp & H). simpl in H.
  pose proof (keys_prologue _ IH _ _ _ _ _ _ Hp) as K3.
  destruct go; [|inversion H; subst; auto].
  rewrite (keys_epilogue_abort _ _ _ _ H). auto.
Qed.

Lemma keys_abort_top : forall b n s f d s', abort_top b n s f d = Ok s' -> keys s' = keys s.
Proof.
  destruct n as [|n]; simpl; intros s f d s' H; try discriminate.
  apply bind_ok in H. destruct H as ([s3 go] & Hp & H). simpl in H.
  pose proof (keys_prologue _ (keys_abort n) _ _ _ _ _ _ Hp) as K3.
  destruct go; [|inversion H; subst; auto].
  rewrite (keys_epilogue_abort _ _ _ _ H). auto.
Qed.

Lemma keys_finish : forall n s f d s', finish n s f d = Ok s' -> keys s' = keys s.
Proof.
  unfold finish; intros n s f d s' H.
  apply bind_ok in H. destruct H as ([s3 go] & Hp & H). simpl in H.
  pose proof (keys_prologue _ (keys_abort n) _ _ _ _ _ _ Hp) as K3.
  destruct go; [|inversion H; subst; auto].
  rewrite (keys_epilogue_finish _ _ _ _ H). auto.
Qed.

Lemma keys_scope_actions : forall rel f l s s', scope_actions rel f l s = Ok s' -> keys s' = keys s.
Proof.
  induction l as [|a l IH]; simpl; intros s s' H; [inversion H; auto|].
  bind_inv H. rewrite (IH _ _ H).
  unfold scope_action in Hb. destruct (geta s a) as [c|]; try discriminate.
  destruct (active (a_status c)); [|inversion Hb; auto].
  destruct (a_count c - 1 =? 0)%Z; inversion Hb; subst; auto.
  destruct rel; auto. unfold release_shared. rewrite keys_modf. reflexivity.
Qed.

Lemma keys_end_scope : forall rel n s f name s', end_scope rel n s f name = Ok s' -> keys s' = keys s.
Proof.
  unfold end_scope; intros rel n s f name s' H. destruct (getf s f) as [i|]; try discriminate.
  destruct (pop_scope name (i_scopes i)) as [[[fl al] rest]|]; try discriminate.
  bind_inv H. rewrite (keys_scope_actions _ _ _ _ _ H), (keys_scope_flows _ (keys_abort n) _ _ _ Hb).
  apply keys_modf.
Qed.

(* ------------------------------------------------------------------------------------ *)
(* well-formedness of the hierarchy and the counting invariant *)

Definition nodupk (s : st) : Prop := NoDup (keys s).
Definition closedk (s : st) : Prop :=
  forall x i c, getf s x = Some i -> In c (i_children i) -> getf s c <> None.
(* the parent of an instance that is live or still activated exists (the clean-up of old instances may
   discard the parent of an ended, non-activated instance) *)
Definition needs_parent (i : inst) : Prop := live (i_status i) = true \/ i_activated i <> 0%Z.
Definition parentsk (s : st) : Prop :=
  forall x i p, getf s x = Some i -> i_parent i = Some p -> needs_parent i -> getf s p <> None.
(* THE invariant: the count of a reference instance that is still activated equals the number of
   child-list entries of live instances that refer to it *)
Definition CntInv (s : st) : Prop :=
  forall r, refshape s r -> act s r <> 0%Z -> act s r = E s r.
Definition wfs (s : st) : Prop := exists rk, ranked rk s.

Record Inv (s : st) : Prop := {
  inv_nodup : nodupk s;
  inv_closed : closedk s;
  inv_parents : parentsk s;
  inv_cnt : CntInv s;
  inv_wf : wfs s
}.

Lemma Esum_nonneg : forall c l, (0 <= Esum c l)%Z.
Proof.
  induction l as [|[k i] l IH]; simpl; [lia|].
  assert (0 <= contrib c i)%Z by (unfold contrib; destruct (live (i_status i)); [apply occ_nonneg|lia]). lia.
Qed.

Lemma E_nonneg : forall s c, (0 <= E s c)%Z.
Proof. intros; apply Esum_nonneg. Qed.

Lemma get_in : forall A k (m : list (N * A)) v, get k m = Some v -> In (k, v) m.
Proof.
  induction m as [|[k' v'] m IH]; simpl; intros v H; try discriminate.
  destruct (N.eqb k k') eqn:Ek; [apply N.eqb_eq in Ek; subst; inversion H; auto|right; auto].
Qed.

Lemma get_none_notin : forall A k (m : list (N * A)), get k m = None -> ~ In k (map fst m).
Proof.
  induction m as [|[k' v'] m IH]; simpl; intros H; auto.
  destruct (N.eqb k k') eqn:Ek; try discriminate.
  intros [->|Hin]; [rewrite N.eqb_refl in Ek; discriminate|apply IH; auto].
Qed.

Lemma nodup_in_get : forall A (m : list (N * A)) k v, NoDup (map fst m) -> In (k, v) m -> get k m = Some v.
Proof.
  induction m as [|[k' v'] m IH]; simpl; intros k v Hn Hin; [tauto|].
  inversion Hn; subst. destruct Hin as [Heq|Hin].
  - inversion Heq; subst. rewrite N.eqb_refl. auto.
  - destruct (N.eqb k k') eqn:Ek.
    + apply N.eqb_eq in Ek; subst. exfalso. apply H1. apply in_map_iff. exists (k', v); auto.
    + apply IH; auto.
Qed.

(* a fresh uid is referred to by nobody *)
Lemma E_fresh : forall s x, nodupk s -> closedk s -> getf s x = None -> E s x = 0%Z.
Proof.
  intros s x Hn Hc Hx. unfold E.
  assert (H : forall k i, In (k, i) (flows s) -> contrib x i = 0%Z).
  { intros k i Hin. pose proof (nodup_in_get _ _ _ _ Hn Hin) as Hg.
    unfold contrib. destruct (live (i_status i)); auto.
    unfold occ. destruct (count_occ N.eq_dec (i_children i) x) eqn:Ec; auto.
    exfalso. assert (Hin' : In x (i_children i)) by (apply (count_occ_In N.eq_dec); lia).
    apply (Hc _ _ _ Hg Hin'). auto. }
  revert H. generalize (flows s). induction l as [|[k i] l IH]; simpl; intros H; auto.
  rewrite (H k i (or_introl eq_refl)), IH; auto. intros; eapply H; right; eauto.
Qed.

Lemma act_nonneg_stable : forall (R A : uid -> Prop) s s' c, Srel R A s s' -> (0 <= act s c)%Z -> (0 <= act s' c)%Z.
Proof.
  intros R A s s' c S H. unfold act in *. destruct (getf s' c) as [i'|] eqn:Ec'; [|lia].
  destruct (srel_bwd _ _ _ _ _ _ S Ec') as (i & Ec & (_ & _ & _ & _ & _ & _ & _ & (_ & _ & Hg) & _)).
  rewrite Ec in H. auto.
Qed.

Lemma srel_closedk : forall (R A : uid -> Prop) s s', Srel R A s s' -> closedk s -> closedk s'.
Proof.
  intros R A s s' S Hc x i' c Ex' Hin Hn.
  destruct (srel_bwd _ _ _ _ _ _ S Ex') as (i & Ex & Hrel).
  assert (Hin0 : In c (i_children i)) by (apply Hrel; auto).
  destruct (getf s c) as [ci|] eqn:Ec; [|eapply Hc; eauto].
  destruct (srel_fwd _ _ _ _ _ _ S Ec) as (ci' & Ec' & _). congruence.
Qed.

Lemma irel_needs_parent : forall (R : uid -> Prop) x i i', irel R x i i' -> needs_parent i' -> needs_parent i.
Proof.
  intros R x i i' Hrel [Hl|Ha].
  - left. destruct (live (i_status i)) eqn:El; auto. rewrite (irel_lv _ _ _ _ Hrel El) in Hl. discriminate.
  - right. intros Hz. apply Ha. destruct Hrel as (_ & _ & _ & _ & _ & _ & _ & (Hz0 & _) & _). auto.
Qed.

Lemma srel_parentsk : forall (R A : uid -> Prop) s s', Srel R A s s' -> parentsk s -> parentsk s'.
Proof.
  intros R A s s' S Hp x i' p Ex' Hpar Hnd Hn.
  destruct (srel_bwd _ _ _ _ _ _ S Ex') as (i & Ex & Hrel).
  pose proof Hrel as (_ & P1 & _).
  destruct (getf s p) as [pi|] eqn:Ep; [|eapply Hp; eauto using irel_needs_parent; congruence].
  destruct (srel_fwd _ _ _ _ _ _ S Ep) as (pi' & Ep' & _). congruence.
Qed.

(* an operation that only gives entries back keeps the invariant *)
Lemma cs_cntinv : forall s f s', SrelT s s' -> CS s f false s' -> CntInv s -> CntInv s'.
Proof.
  intros s f s' S (_ & K) HI r Hrs' Hnz.
  assert (Hrs : refshape s r) by (eapply refshape_back; eauto).
  assert (Hnz0 : act s r <> 0%Z) by (intros Hz; apply Hnz; eapply act0_stable; eauto).
  pose proof (HI r Hrs Hnz0) as Heq. pose proof (E_nonneg s r).
  assert (Hpos' : (0 < act s' r)%Z).
  { assert (0 <= act s' r)%Z by (eapply act_nonneg_stable; eauto; lia). lia. }
  specialize (K r Hrs Hpos'). rewrite andb_false_r in K. lia.
Qed.

Lemma srel_inv : forall s f s', Inv s -> SrelT s s' -> CS s f false s' -> keys s' = keys s -> Inv s'.
Proof.
  intros s f s' [Hn Hc Hp Hi (rk & Hr)] S K Hk. split.
  - unfold nodupk. rewrite Hk. auto.
  - eapply srel_closedk; eauto.
  - eapply srel_parentsk; eauto.
  - eapply cs_cntinv; eauto.
  - exists rk. eapply srel_ranked; eauto.
Qed.

(* operations that change neither counts nor entries nor the hierarchy *)
Definition samecnt (s s' : st) : Prop :=
  keys s' = keys s /\
  (forall r, E s' r = E s r /\ act s' r = act s r) /\
  (forall x i', getf s' x = Some i' -> exists i, getf s x = Some i /\ i_parent i' = i_parent i /\
                                         i_flow i' = i_flow i /\ i_children i' = i_children i /\
                                         live (i_status i') = live (i_status i) /\ i_activated i' = i_activated i) /\
  (forall x, getf s x = None -> getf s' x = None).

Lemma samecnt_refl : forall s, samecnt s s.
Proof. intros s; repeat split; auto. intros x i' H; eauto 10. Qed.

Lemma samecnt_trans : forall s1 s2 s3, samecnt s1 s2 -> samecnt s2 s3 -> samecnt s1 s3.
Proof.
  intros s1 s2 s3 (K1 & C1 & G1 & N1) (K2 & C2 & G2 & N2). repeat split; try congruence.
  - destruct (C1 r), (C2 r); congruence.
  - destruct (C1 r), (C2 r); congruence.
  - intros x i3 H. destruct (G2 _ _ H) as (i2 & Hx2 & ? & ? & ? & ? & ?). destruct (G1 _ _ Hx2) as (i1 & Hx1 & ? & ? & ? & ? & ?).
    exists i1; repeat split; auto; congruence.
  - auto.
Qed.

Lemma samecnt_flows : forall s s', flows s' = flows s -> samecnt s s'.
Proof.
  intros s s' H. repeat split.
  - apply keys_flows; auto.
  - apply E_flows; auto.
  - apply act_flows; auto.
  - intros x i' Hx. unfold getf in *. rewrite H in Hx. eauto 10.
  - intros x Hx. unfold getf in *. rewrite H. auto.
Qed.

Lemma samecnt_modf : forall s x g,
  (forall i, getf s x = Some i ->
             live (i_status (g i)) = live (i_status i) /\ i_children (g i) = i_children i /\
             i_activated (g i) = i_activated i /\ i_parent (g i) = i_parent i /\ i_flow (g i) = i_flow i) ->
  samecnt s (modf s x g).
Proof.
  intros s x g Hg. unfold modf. destruct (getf s x) as [i|] eqn:Ex; [|apply samecnt_refl].
  destruct (Hg i eq_refl) as (Hl & Hc & Ha & Hp & Hf). repeat split.
  - apply keys_setf.
  - rewrite (E_setf _ _ _ _ _ Ex). unfold contrib. rewrite Hl, Hc. lia.
  - unfold act. destruct (N.eq_dec x r) as [<-|Hne].
    + rewrite (getf_setf_same _ _ _ _ Ex), Ex. auto.
    + rewrite getf_setf_other; auto.
  - intros y i' Hy. destruct (N.eq_dec x y) as [<-|Hne].
    + rewrite (getf_setf_same _ _ _ _ Ex) in Hy. inversion Hy; subst. exists i. repeat split; auto.
    + rewrite getf_setf_other in Hy; eauto 10.
  - intros y Hy. apply getf_setf_none; auto.
Qed.

Lemma samecnt_refshape : forall s s' r, samecnt s s' -> refshape s' r -> refshape s r.
Proof.
  intros s s' r (_ & _ & G & _) (i' & p & pi' & Ei' & Hp & Epi' & Hfl).
  destruct (G _ _ Ei') as (i & Ei & Hpi & Hfi & _). destruct (G _ _ Epi') as (pi & Epi & _ & Hfp & _).
  exists i, p, pi. repeat split; auto; congruence.
Qed.

Lemma samecnt_inv : forall s s', samecnt s s' -> Inv s -> Inv s'.
Proof.
  intros s s' Hs [Hn Hc Hp Hi (rk & Hr)]. pose proof Hs as (K & C & G & Nn). split.
  - unfold nodupk. rewrite K. auto.
  - intros x i' c Ex' Hin Hnc. destruct (G _ _ Ex') as (i & Ex & _ & _ & Hch & _). rewrite Hch in Hin.
    destruct (getf s c) as [ci|] eqn:Ec; [|eapply Hc; eauto].
    (* c exists in s: it exists in s' because the key lists agree *)
    assert (Hk : In c (keys s)) by (unfold keys; apply in_map_iff; exists (c, ci); split; auto; apply get_in; auto).
    rewrite <- K in Hk. apply (get_none_notin _ _ _ Hnc). exact Hk.
  - intros x i' p Ex' Hpar Hnd Hnp. destruct (G _ _ Ex') as (i & Ex & Hpi & _ & _ & Hli & Hai). rewrite Hpi in Hpar.
    assert (Hnd0 : needs_parent i) by (unfold needs_parent in *; rewrite <- Hli, <- Hai; auto).
    destruct (getf s p) as [pi|] eqn:Ep; [|eapply Hp; eauto].
    assert (Hk : In p (keys s)) by (unfold keys; apply in_map_iff; exists (p, pi); split; auto; apply get_in; auto).
    rewrite <- K in Hk. apply (get_none_notin _ _ _ Hnp). exact Hk.
  - intros r Hrs Hnz. destruct (C r) as (Er & Ar). rewrite Er, Ar in *.
    apply Hi; auto. eapply samecnt_refshape; eauto.
  - exists rk. intros x i' c Ex' Hin. destruct (G _ _ Ex') as (i & Ex & _ & _ & Hch & _). rewrite Hch in Hin. eapply Hr; eauto.
Qed.

Lemma samecnt_action_event : forall k a s, samecnt s (action_event k a s).
Proof.
  intros. apply samecnt_flows.
  destruct (action_event_spec (fun _ => True) k a s (fun _ _ => I)) as (F & _). auto.
Qed.

Lemma samecnt_advance : forall s f v, samecnt s (advance s f v).
Proof.
  intros s f v. unfold advance. destruct (getf s f) as [i|] eqn:Ef; [|apply samecnt_refl].
  destruct (listening (i_status i) && listening v) eqn:El; [|apply samecnt_refl].
  apply andb_prop in El. destruct El as (L1 & L2).
  rewrite <- (modf_some _ _ (set_status v) _ Ef). apply samecnt_modf.
  intros j Hj. rewrite Ef in Hj. inversion Hj; subst j. simpl. repeat split; auto.
  unfold live. rewrite L1, L2. auto.
Qed.

Lemma samecnt_scope_actions : forall rel f l s s', scope_actions rel f l s = Ok s' -> samecnt s s'.
Proof.
  induction l as [|a l IH]; simpl; intros s s' H; [inversion H; apply samecnt_refl|].
  bind_inv H. eapply samecnt_trans; [|eapply IH; eauto].
  unfold scope_action in Hb. destruct (geta s a) as [c|]; try discriminate.
  destruct (active (a_status c)); [|inversion Hb; apply samecnt_refl].
  destruct (a_count c - 1 =? 0)%Z; inversion Hb; subst; try (apply samecnt_flows; reflexivity).
  destruct rel; [|apply samecnt_flows; reflexivity].
  eapply samecnt_trans; [apply (samecnt_flows s (seta s a (mkAct (a_status c) (a_count c - 1)%Z))); reflexivity|].
  unfold release_shared. apply samecnt_modf. intros i _. simpl. auto.
Qed.

(* the flows of a scope are stopped with deactivate_flow = False: only entries are given back *)
Lemma scope_flows_cs : forall rk n l s s',
  ranked rk s -> scope_flows (abort n) l s = Ok s' ->
  SrelT s s' /\ keys s' = keys s /\
  forall r, refshape s r -> (0 < act s' r)%Z -> (act s' r - E s' r = act s r - E s r)%Z.
Proof.
  induction l as [|c l IH]; simpl; intros s s' Hr H.
  - inversion H; subst. split; [apply Srel_refl|split; auto].
  - destruct (getf s c) as [ci|]; [|eapply IH; eauto].
    destruct (listening (i_status ci)); [|eapply IH; eauto].
    bind_inv H.
    assert (S0 : SrelT s s0).
    { eapply (abort_srel rk n anyR anyA); eauto using anyR_closed, anyA_owns; exact I. }
    destruct (abort_cs rk n _ _ _ _ Hr Hb) as (_ & K0).
    destruct (IH _ _ (srel_ranked _ _ _ _ _ S0 Hr) H) as (S1 & K1 & C1).
    split; [eapply Srel_trans; eauto|]. split; [rewrite K1; eapply keys_abort; eauto|].
    intros r Hrs Hpos.
    assert (Hrs0 : refshape s0 r) by (eapply refshape_static; eauto).
    pose proof (act_pos_le _ _ _ _ _ S1 Hpos) as Hle. assert (Hpos0 : (0 < act s0 r)%Z) by lia.
    rewrite (C1 r Hrs0 Hpos), (K0 r Hrs Hpos0), andb_false_r. lia.
Qed.

Lemma end_scope_inv : forall rel n s f name s', Inv s -> end_scope rel n s f name = Ok s' -> Inv s'.
Proof.
  unfold end_scope; intros rel n s f name s' HI H.
  destruct (getf s f) as [i|] eqn:Ef; try discriminate.
  destruct (pop_scope name (i_scopes i)) as [[[fl al] rest]|]; try discriminate.
  bind_inv H.
  assert (H1 : Inv (modf s f (set_scopes rest))).
  { eapply samecnt_inv; [|exact HI]. apply samecnt_modf. intros j _. simpl. auto. }
  assert (H2 : Inv s0).
  { destruct H1 as [Hn Hc Hp Hi (rk & Hr)].
    destruct (scope_flows_cs rk n _ _ _ Hr Hb) as (S & K & C). split.
    - unfold nodupk. rewrite K. auto.
    - eapply srel_closedk; eauto.
    - eapply srel_parentsk; eauto.
    - intros r Hrs' Hnz.
      assert (Hrs : refshape (modf s f (set_scopes rest)) r) by (eapply refshape_back; eauto).
      assert (Hnz0 : act (modf s f (set_scopes rest)) r <> 0%Z) by (intros Hz; apply Hnz; eapply act0_stable; eauto).
      pose proof (Hi r Hrs Hnz0) as Heq. pose proof (E_nonneg (modf s f (set_scopes rest)) r).
      assert (Hpos' : (0 < act s0 r)%Z).
      { assert (0 <= act s0 r)%Z by (eapply act_nonneg_stable; eauto; lia). lia. }
      specialize (C r Hrs Hpos'). lia.
    - exists rk. eapply srel_ranked; eauto. }
  eapply samecnt_inv; [eapply samecnt_scope_actions; eauto|exact H2].
Qed.

(* ------------------------------------------------------------------------------------ *)
(* StartFlow processing keeps the invariant *)

Lemma getf_modf : forall s x g y,
  getf (modf s x g) y = if N.eqb x y then option_map g (getf s x) else getf s y.
Proof.
  intros s x g y. unfold modf. destruct (getf s x) as [i|] eqn:Ex.
  - destruct (N.eqb x y) eqn:Exy.
    + apply N.eqb_eq in Exy; subst. simpl. eapply getf_setf_same; eauto.
    + apply N.eqb_neq in Exy. apply getf_setf_other; auto.
  - destruct (N.eqb x y) eqn:Exy; auto. apply N.eqb_eq in Exy; subst. simpl. auto.
Qed.

Lemma get_app : forall A k (m1 m2 : list (N * A)),
  get k (m1 ++ m2) = match get k m1 with Some v => Some v | None => get k m2 end.
Proof.
  induction m1 as [|[k' v'] m1 IH]; simpl; intros; auto.
  destruct (N.eqb k k'); auto.
Qed.

Lemma Esum_app : forall c l1 l2, Esum c (l1 ++ l2) = (Esum c l1 + Esum c l2)%Z.
Proof. induction l1 as [|[k i] l1 IH]; simpl; intros; [lia|rewrite IH; lia]. Qed.

Lemma addf_fresh : forall s x i, getf s x = None ->
  addf s x i = mkSt (flows s ++ [(x, i)]) (acts s) (out s).
Proof. unfold addf; intros s x i H; rewrite H; auto. Qed.

Lemma getf_addf : forall s x i y, getf s x = None ->
  getf (addf s x i) y = if N.eqb y x then Some i else getf s y.
Proof.
  intros s x i y H. rewrite (addf_fresh _ _ _ H). unfold getf; simpl. rewrite get_app. simpl.
  destruct (N.eqb y x) eqn:Eyx.
  - apply N.eqb_eq in Eyx; subst. unfold getf in H. rewrite H. auto.
  - destruct (get y (flows s)); auto.
Qed.

Lemma E_addf : forall s x i c, getf s x = None -> E (addf s x i) c = (E s c + contrib c i)%Z.
Proof. intros s x i c H. rewrite (addf_fresh _ _ _ H). unfold E; simpl. rewrite Esum_app. simpl. lia. Qed.

Lemma keys_addf : forall s x i, getf s x = None -> keys (addf s x i) = keys s ++ [x].
Proof. intros s x i H. rewrite (addf_fresh _ _ _ H). unfold keys; simpl. rewrite map_app. auto. Qed.

Definition add_child (c : uid) (i : inst) : inst := set_children (i_children i ++ [c]) i.

Lemma E_add_child : forall s p pi c r, getf s p = Some pi ->
  E (modf s p (add_child c)) r =
  (E s r + (if live (i_status pi) then (if N.eqb c r then 1 else 0) else 0))%Z.
Proof.
  intros s p pi c r Ep. rewrite (modf_some _ _ _ _ Ep), (E_setf _ _ _ _ _ Ep). unfold contrib, add_child; simpl.
  destruct (live (i_status pi)); [|lia]. rewrite occ_app, occ_cons. unfold occ at 3. simpl. lia.
Qed.

Lemma not_done_live : forall x, done x = false -> live x = true.
Proof. destruct x; simpl; auto; discriminate. Qed.

Lemma ref_lookup_spec : forall pm s fid l r, ref_lookup pm s fid l = Some r ->
  exists ri, In (r, ri) l /\ i_flow ri = fid /\ i_activated ri <> 0%Z /\ pm r = true /\
             exists p pi, i_parent ri = Some p /\ getf s p = Some pi /\ i_flow pi <> i_flow ri.
Proof.
  induction l as [|[u i] l IH]; simpl; intros r H; try discriminate.
  destruct (N.eqb (i_flow i) fid) eqn:Ef.
  2:{ destruct (IH _ H) as (ri & Hin & Hrest). exists ri; split; auto. }
  destruct ((i_activated i =? 0)%Z ||
            match i_parent i with
            | Some p => match getf s p with Some pi => N.eqb (i_flow i) (i_flow pi) | None => true end
            | None => true end) eqn:Esk.
  { destruct (IH _ H) as (ri & Hin & Hrest). exists ri; split; auto. }
  destruct (pm u) eqn:Epm.
  2:{ destruct (IH _ H) as (ri & Hin & Hrest). exists ri; split; auto. }
  inversion H; subst. exists i. apply orb_false_elim in Esk. destruct Esk as (Ea & Ep).
  apply N.eqb_eq in Ef. apply Z.eqb_neq in Ea. repeat split; auto.
  destruct (i_parent i) as [p|]; try discriminate. destruct (getf s p) as [pi|] eqn:Epi; try discriminate.
  exists p, pi. repeat split; auto. apply N.eqb_neq in Ep. congruence.
Qed.

Lemma ref_lookup_refshape : forall pm s fid r, nodupk s -> ref_lookup pm s fid (flows s) = Some r ->
  exists ri, getf s r = Some ri /\ i_flow ri = fid /\ i_activated ri <> 0%Z /\ refshape s r /\ pm r = true.
Proof.
  intros pm s fid r Hn H. destruct (ref_lookup_spec _ _ _ _ _ H) as (ri & Hin & Hf & Ha & Hpm & p & pi & Hp & Epi & Hfl).
  pose proof (nodup_in_get _ _ _ _ Hn Hin) as Hg. exists ri. repeat split; auto.
  exists ri, p, pi. auto.
Qed.

(* (re-)activation of an already activated flow: count + 1 and one more entry of a live activator *)
Lemma reactivate_inv : forall s r ri p pi,
  Inv s -> getf s r = Some ri -> refshape s r -> i_activated ri <> 0%Z ->
  getf s p = Some pi -> live (i_status pi) = true -> i_flow pi <> i_flow ri ->
  wfs (emit1 (modf (modf s r (fun i => set_activated (i_activated i + 1)%Z i)) p (add_child r)) (EStarted r)) ->
  Inv (emit1 (modf (modf s r (fun i => set_activated (i_activated i + 1)%Z i)) p (add_child r)) (EStarted r)).
Proof.
  intros s r ri p pi [Hn Hc Hp Hi Hw] Er Hrs Ha Ep Hl Hfl Hwf.
  assert (Hpr : p <> r) by (intros ->; rewrite Er in Ep; inversion Ep; subst; contradiction).
  set (s1 := modf s r (fun i => set_activated (i_activated i + 1)%Z i)) in *.
  set (s2 := modf s1 p (add_child r)) in *.
  assert (G2 : forall y, getf s2 y = if N.eqb p y then Some (add_child r pi)
                                    else if N.eqb r y then Some (set_activated (i_activated ri + 1)%Z ri) else getf s y).
  { intros y. unfold s2, s1. rewrite !getf_modf.
    destruct (N.eqb p y) eqn:Epy.
    - apply N.eqb_eq in Epy; subst y. destruct (N.eqb r p) eqn:Erp; [apply N.eqb_eq in Erp; congruence|]. rewrite Ep. auto.
    - destruct (N.eqb r y) eqn:Ery; auto. rewrite Er. auto. }
  assert (Ep1 : getf s1 p = Some pi).
  { unfold s1. rewrite getf_modf. destruct (N.eqb r p) eqn:Erp; [apply N.eqb_eq in Erp; congruence|auto]. }
  assert (Hshape : forall y i', getf s2 y = Some i' -> exists i, getf s y = Some i /\ i_parent i' = i_parent i /\ i_flow i' = i_flow i /\
                                  (forall c, In c (i_children i') -> In c (i_children i) \/ c = r) /\
                                  (needs_parent i' -> needs_parent i)).
  { intros y i' Hy. rewrite G2 in Hy. destruct (N.eqb p y) eqn:Epy.
    - apply N.eqb_eq in Epy; subst. inversion Hy; subst. exists pi. repeat split; auto.
      simpl. intros c Hin. apply in_app_or in Hin. destruct Hin as [|[->|[]]]; auto.
    - destruct (N.eqb r y) eqn:Ery.
      + apply N.eqb_eq in Ery; subst. inversion Hy; subst. exists ri. repeat split; auto.
        intros _. right; auto.
      + exists i'. repeat split; auto. }
  assert (Hex : forall y, getf s y <> None -> getf s2 y <> None).
  { intros y Hy. rewrite G2. destruct (N.eqb p y); [discriminate|]. destruct (N.eqb r y); [discriminate|auto]. }
  split; auto.
  - unfold nodupk. change (keys (emit1 s2 (EStarted r))) with (keys s2). unfold s2, s1. rewrite !keys_modf. auto.
  - intros y i' c Hy Hin. change (getf (emit1 s2 (EStarted r)) c) with (getf s2 c).
    change (getf (emit1 s2 (EStarted r)) y) with (getf s2 y) in Hy.
    destruct (Hshape _ _ Hy) as (i & Hyi & _ & _ & Hch & _). apply Hex.
    destruct (Hch _ Hin) as [Hin0| ->]; [eapply Hc; eauto|congruence].
  - intros y i' q Hy Hpar Hnd. change (getf (emit1 s2 (EStarted r)) q) with (getf s2 q).
    change (getf (emit1 s2 (EStarted r)) y) with (getf s2 y) in Hy.
    destruct (Hshape _ _ Hy) as (i & Hyi & Hpi & _ & _ & Hnp). apply Hex. eapply Hp; eauto. congruence.
  - intros r0 Hrs0 Hnz.
    change (act (emit1 s2 (EStarted r)) r0) with (act s2 r0) in *.
    change (E (emit1 s2 (EStarted r)) r0) with (E s2 r0).
    assert (Hrs0s : refshape s r0).
    { destruct Hrs0 as (i' & q & qi' & Ei' & Hq & Eqi' & Hflq).
      change (getf (emit1 s2 (EStarted r)) r0) with (getf s2 r0) in Ei'.
      change (getf (emit1 s2 (EStarted r)) q) with (getf s2 q) in Eqi'.
      destruct (Hshape _ _ Ei') as (i & Ei & Hpi & Hfi & _). destruct (Hshape _ _ Eqi') as (qi & Eqi & _ & Hfq & _).
      exists i, q, qi. repeat split; auto; congruence. }
    assert (E2 : E s2 r0 = (E s r0 + (if N.eqb r r0 then 1 else 0))%Z).
    { unfold s2. rewrite (E_add_child _ _ _ _ _ Ep1), Hl. unfold s1. rewrite E_modf_same; auto. }
    assert (A2 : act s2 r0 = (act s r0 + (if N.eqb r r0 then 1 else 0))%Z).
    { unfold act. rewrite G2. destruct (N.eqb p r0) eqn:Epr0.
      - apply N.eqb_eq in Epr0; subst r0. destruct (N.eqb r p) eqn:Erp; [apply N.eqb_eq in Erp; congruence|].
        rewrite Ep. simpl. lia.
      - destruct (N.eqb r r0) eqn:Err0.
        + apply N.eqb_eq in Err0; subst r0. rewrite Er. simpl. lia.
        + destruct (getf s r0); lia. }
    rewrite E2, A2 in *.
    destruct (N.eqb r r0) eqn:Err0.
    + apply N.eqb_eq in Err0; subst r0.
      assert (Hnz0 : act s r <> 0%Z) by (unfold act; rewrite Er; auto).
      rewrite (Hi r Hrs Hnz0). auto.
    + rewrite Z.add_0_r in *. rewrite (Hi r0 Hrs0s Hnz). lia.
Qed.

Lemma nodup_snoc : forall (l : list uid) x, NoDup l -> ~ In x l -> NoDup (l ++ [x]).
Proof.
  induction l as [|y l IH]; simpl; intros x Hn Hx; [constructor; [simpl; tauto|constructor]|].
  inversion Hn; subst. constructor.
  - intros Hin. apply in_app_or in Hin. destruct Hin as [|[->|[]]]; tauto.
  - apply IH; auto.
Qed.

(* creation of a new instance x and its link under q with marker a *)
Lemma create_link_inv : forall s x fid q qi a s',
  Inv s -> getf s x = None -> fid <> main_id -> getf s q = Some qi ->
  (i_flow qi <> fid -> live (i_status qi) = true /\ (a = 0 \/ a = 1)%Z) ->
  start_link (addf s x (new_inst fid)) x q a = Ok s' -> wfs s' -> Inv s'.
Proof.
  intros s x fid q qi a s' [Hn Hc Hp Hi Hw] Hx Hm Eq Hcond H Hwf.
  assert (Hqx : q <> x) by (intros ->; congruence).
  set (s1 := addf s x (new_inst fid)) in *.
  assert (G1 : forall y, getf s1 y = if N.eqb y x then Some (new_inst fid) else getf s y) by (intros; apply getf_addf; auto).
  unfold start_link in H. rewrite (G1 x), N.eqb_refl in H. simpl in H.
  destruct (N.eqb fid main_id) eqn:Em; [apply N.eqb_eq in Em; contradiction|].
  assert (Eq1 : getf s1 q = Some qi).
  { rewrite G1. destruct (N.eqb q x) eqn:E0; [apply N.eqb_eq in E0; contradiction|auto]. }
  rewrite Eq1 in H. inversion H; subst s'. clear H.
  set (xi := mkInst fid FWaiting (Some q) [] [] [] a false).
  set (s2 := modf s1 x (set_parent (Some q))) in *.
  set (s3 := modf s2 q (fun i => set_children (i_children i ++ [x]) i)) in *.
  set (s4 := modf s3 x (set_activated a)) in *.
  assert (G4 : forall y, getf s4 y = if N.eqb y x then Some xi else if N.eqb y q then Some (add_child x qi) else getf s y).
  { intros y. unfold s4, s3, s2. rewrite !getf_modf. rewrite (G1 x), N.eqb_refl. simpl.
    destruct (N.eqb x y) eqn:Exy.
    - apply N.eqb_eq in Exy; subst y. rewrite N.eqb_refl.
      destruct (N.eqb q x) eqn:Eqx; [apply N.eqb_eq in Eqx; contradiction|]. simpl. reflexivity.
    - assert (Eyx : N.eqb y x = false) by (rewrite N.eqb_sym; auto). rewrite Eyx.
      destruct (N.eqb q y) eqn:Eqy.
      + apply N.eqb_eq in Eqy; subst y. rewrite N.eqb_refl.
        destruct (N.eqb x q) eqn:Exq; [apply N.eqb_eq in Exq; congruence|]. rewrite Eq1. reflexivity.
      + assert (Eyq : N.eqb y q = false) by (rewrite N.eqb_sym; auto). rewrite Eyq. rewrite G1, Eyx. auto. }
  assert (Hex : forall y, getf s y <> None -> getf s4 y <> None).
  { intros y Hy. rewrite G4. destruct (N.eqb y x); [discriminate|]. destruct (N.eqb y q); [discriminate|auto]. }
  assert (E4 : forall r0, E s4 r0 = (E s r0 + (if live (i_status qi) then (if N.eqb x r0 then 1 else 0) else 0))%Z).
  { intros r0. unfold s4. rewrite E_modf_same; [|intros; simpl; auto].
    assert (Eq2 : getf s2 q = Some qi).
    { unfold s2. rewrite getf_modf. destruct (N.eqb x q) eqn:Exq; [apply N.eqb_eq in Exq; congruence|auto]. }
    unfold s3. change (fun i : inst => set_children (i_children i ++ [x]) i) with (add_child x).
    rewrite (E_add_child _ _ _ _ _ Eq2). unfold s2. rewrite E_modf_same; [|intros; simpl; auto].
    unfold s1. rewrite (E_addf _ _ _ _ Hx). unfold contrib, new_inst; simpl. unfold occ; simpl. lia. }
  assert (A4 : forall r0, act s4 r0 = if N.eqb r0 x then a else act s r0).
  { intros r0. unfold act. rewrite G4. destruct (N.eqb r0 x); auto.
    destruct (N.eqb r0 q) eqn:Erq; auto. apply N.eqb_eq in Erq; subst. rewrite Eq. auto. }
  assert (Hold : forall y i', getf s4 y = Some i' -> y <> x ->
            exists i, getf s y = Some i /\ i_parent i' = i_parent i /\ i_flow i' = i_flow i /\
                      (forall c, In c (i_children i') -> In c (i_children i) \/ c = x) /\
                      (needs_parent i' -> needs_parent i) /\ i_activated i' = i_activated i).
  { intros y i' Hy Hyx. rewrite G4 in Hy.
    destruct (N.eqb y x) eqn:Eyx; [apply N.eqb_eq in Eyx; contradiction|].
    destruct (N.eqb y q) eqn:Eyq.
    - apply N.eqb_eq in Eyq; subst. inversion Hy; subst. exists qi. repeat split; auto.
      simpl. intros c Hin. apply in_app_or in Hin. destruct Hin as [|[->|[]]]; auto.
    - exists i'. repeat split; auto. }
  assert (Hxs4 : getf s4 x = Some xi) by (rewrite G4, N.eqb_refl; auto).
  split; auto.
  - unfold nodupk, s4, s3, s2. rewrite !keys_modf. unfold s1. rewrite (keys_addf _ _ _ Hx).
    apply nodup_snoc; auto. unfold keys. apply (get_none_notin _ _ _ Hx).
  - intros y i' c Hy Hin.
    destruct (N.eq_dec y x) as [->|Hyx].
    + rewrite Hxs4 in Hy. inversion Hy; subst. simpl in Hin. tauto.
    + destruct (Hold _ _ Hy Hyx) as (i & Hyi & _ & _ & Hch & _).
      destruct (Hch _ Hin) as [Hin0| ->]; [apply Hex; eapply Hc; eauto|congruence].
  - intros y i' p0 Hy Hpar Hnd.
    destruct (N.eq_dec y x) as [->|Hyx].
    + rewrite Hxs4 in Hy. inversion Hy; subst. simpl in Hpar. inversion Hpar; subst. apply Hex. congruence.
    + destruct (Hold _ _ Hy Hyx) as (i & Hyi & Hpi & _ & _ & Hnp & _). apply Hex. eapply Hp; eauto. congruence.
  - intros r0 Hrs0 Hnz. rewrite E4, A4 in *.
    destruct (N.eqb r0 x) eqn:Er0x.
    + apply N.eqb_eq in Er0x; subst r0.
      destruct Hrs0 as (i' & p0 & p0i & Ei' & Hp0 & Ep0i & Hflp).
      rewrite Hxs4 in Ei'. inversion Ei'; subst i'. simpl in Hp0. inversion Hp0; subst p0.
      rewrite G4 in Ep0i. destruct (N.eqb q x) eqn:Eqx; [apply N.eqb_eq in Eqx; contradiction|].
      rewrite N.eqb_refl in Ep0i. inversion Ep0i; subst p0i. simpl in Hflp.
      destruct (Hcond Hflp) as (Hl & Ha). rewrite Hl, N.eqb_refl.
      rewrite (E_fresh _ _ Hn Hc Hx). lia.
    + assert (Hr0x : r0 <> x) by (apply N.eqb_neq; auto).
      assert (Hxr0 : N.eqb x r0 = false) by (rewrite N.eqb_sym; auto). rewrite Hxr0.
      assert (Hrs : refshape s r0).
      { destruct Hrs0 as (i' & p0 & p0i & Ei' & Hp0 & Ep0i & Hflp).
        destruct (Hold _ _ Ei' Hr0x) as (i & Ei & Hpi & Hfi & _ & _ & Hai).
        assert (Hp0x : p0 <> x).
        { intros ->. apply (Hp _ _ x Ei); try congruence.
          right. unfold act in Hnz. rewrite Ei in Hnz. auto. }
        destruct (Hold _ _ Ep0i Hp0x) as (p0i0 & Ep0 & _ & Hfp & _).
        exists i, p0, p0i0. repeat split; auto; congruence. }
      rewrite (Hi r0 Hrs Hnz). destruct (live (i_status qi)); lia.
Qed.

(* a well-formed StartFlow event: a flow that is started by a flow of ANOTHER flow id carries the
   marker 0 (start / await) or 1 (`activate` sends True); only restarts, which come from an
   instance of the same flow, carry the count *)
Definition ev_wf (s : st) (e : sfev) : Prop :=
  forall p pi, sf_src e = Some p -> getf s p = Some pi -> i_flow pi <> sf_flow e ->
    (sf_activated e = 0 \/ sf_activated e = 1)%Z.

Theorem start_flow_inv : forall pm s e s',
  Inv s -> getf s (sf_uid e) = None -> ev_wf s e -> start_flow pm s e = Ok s' -> wfs s' -> Inv s'.
Proof.
  unfold start_flow, start_proc; intros pm s e s' HI Hx Hwfe H Hwf.
  destruct (N.eqb (sf_flow e) main_id) eqn:Em; [simpl in H; inversion H; subst; auto|].
  apply N.eqb_neq in Em.
  destruct (start_dropped s e) eqn:Edrop; [simpl in H; inversion H; subst; auto|].
  destruct (sf_src e) as [p|] eqn:Esrc; [|simpl in H; discriminate].
  destruct (getf s p) as [si|] eqn:Ep; [|simpl in H; discriminate].
  assert (Hlive : i_flow si <> sf_flow e -> live (i_status si) = true).
  { intros Hfl. unfold start_dropped in Edrop. rewrite Esrc, Ep in Edrop.
    apply not_done_live. destruct (done (i_status si)); auto. simpl in Edrop.
    destruct (N.eqb (i_flow si) (sf_flow e)) eqn:Ef; [apply N.eqb_eq in Ef; contradiction|]. simpl in Edrop. discriminate. }
  destruct (if (sf_activated e =? 0)%Z then None else ref_lookup pm s (sf_flow e) (flows s)) as [r|] eqn:Est.
  - assert (Hlk : ref_lookup pm s (sf_flow e) (flows s) = Some r).
    { destruct (sf_activated e =? 0)%Z; [discriminate|auto]. }
    destruct (ref_lookup_refshape _ _ _ _ (inv_nodup _ HI) Hlk) as (ri & Er & Hfr & Har & Hrs & _).
    destruct (N.eqb (sf_flow e) (i_flow si)) eqn:Echild; simpl in H.
    + eapply (create_link_inv s (sf_uid e) (sf_flow e) r ri (sf_activated e)); eauto.
      intros Hne. congruence.
    + inversion H; subst s'. apply N.eqb_neq in Echild.
      eapply reactivate_inv; eauto; try congruence; try (apply Hlive; congruence).
  - assert (Hcnd : i_flow si <> sf_flow e -> live (i_status si) = true /\ (sf_activated e = 0 \/ sf_activated e = 1)%Z).
    { intros Hne. split; [apply Hlive; auto|eapply Hwfe; eauto]. }
    destruct (N.eqb (sf_flow e) (i_flow si)); simpl in H;
      eapply (create_link_inv s (sf_uid e) (sf_flow e) p si (sf_activated e)); eauto.
Qed.

(* ------------------------------------------------------------------------------------ *)
(* sequences of operations *)

Inductive aop :=
| AStart (pm : uid -> bool) (e : sfev)   (* a StartFlow event is processed: start / activate / queued restart *)
| AAbort (f : uid) (r : bool)            (* an instance fails or is stopped: _abort_flow(f, restart_flow = r) *)
| AFinish (f : uid)                      (* an instance finishes: _finish_flow(f) *)
| AEndScope (f : uid) (name : N)
| AEvent (k : akind) (a : uid)
| AAdvance (f : uid) (v : fstatus).

Definition astep (rel : bool) (fuel : nat) (s : st) (o : aop) : res st :=
  match o with
  | AStart pm e => start_flow pm s e
  | AAbort f r => abort_top r fuel s f false
  | AFinish f => finish fuel s f false
  | AEndScope f name => end_scope rel fuel s f name
  | AEvent k a => Ok (action_event k a s)
  | AAdvance f v => Ok (advance s f v)
  end.

(* side conditions: fresh uid and well-formed event for a start, hierarchy stays well-founded after
   a (re-)activation, the main flow is not among the flows that finish (it restarts in place and
   keeps its child entries; every activator is one of its descendants and ends with it) *)
Definition aok (s : st) (o : aop) (s' : st) : Prop :=
  match o with
  | AStart pm e => getf s (sf_uid e) = None /\ ev_wf s e /\ wfs s'
  | AFinish f => forall i, getf s f = Some i -> i_flow i <> main_id
  | _ => True
  end.

Theorem astep_inv : forall rel fuel s o s', Inv s -> astep rel fuel s o = Ok s' -> aok s o s' -> Inv s'.
Proof.
  intros rel fuel s o s' HI H Hok. destruct o as [pm e|f r|f|f name|k a|f v]; simpl in *.
  - destruct Hok as (Hx & Hw & Hwf). eapply start_flow_inv; eauto.
  - destruct (inv_wf _ HI) as (rk & Hr).
    eapply (srel_inv s f s'); eauto.
    + eapply (abort_top_srel rk r fuel anyR anyA); eauto using anyR_closed, anyA_owns; exact I.
    + eapply abort_top_cs; eauto.
    + eapply keys_abort_top; eauto.
  - destruct (inv_wf _ HI) as (rk & Hr).
    destruct (getf s f) as [i|] eqn:Ef.
    + eapply (srel_inv s f s'); eauto.
      * eapply (finish_srel rk fuel anyR anyA); eauto using anyR_closed, anyA_owns; exact I.
      * eapply finish_cs; eauto.
      * eapply keys_finish; eauto.
    + unfold finish, prologue, deactivate in H. rewrite Ef in H. discriminate.
  - eapply end_scope_inv; eauto.
  - inversion H; subst. eapply samecnt_inv; eauto. apply samecnt_action_event.
  - inversion H; subst. eapply samecnt_inv; eauto. apply samecnt_advance.
Qed.

Fixpoint arun (rel : bool) (fuel : nat) (l : list aop) (s : st) : res st :=
  match l with
  | [] => Ok s
  | o :: l' => bind (astep rel fuel s o) (arun rel fuel l')
  end.

(* every step of the run satisfies its side condition *)
Fixpoint aoks (rel : bool) (fuel : nat) (l : list aop) (s : st) : Prop :=
  match l with
  | [] => True
  | o :: l' => forall s1, astep rel fuel s o = Ok s1 -> aok s o s1 /\ aoks rel fuel l' s1
  end.

Theorem arun_inv : forall rel fuel l s s', Inv s -> arun rel fuel l s = Ok s' -> aoks rel fuel l s -> Inv s'.
Proof.
  induction l as [|o l IH]; simpl; intros s s' HI H Hok.
  - inversion H; subst; auto.
  - bind_inv H. destruct (Hok _ Hb) as (Ho & Hrest).
    apply (IH s0 s'); auto. eapply astep_inv; eauto.
Qed.

(* ------------------------------------------------------------------------------------ *)
(* the three clauses of the property text *)

Lemma start_link_new : forall s x fid q qi a,
  getf s x = None -> fid <> main_id -> getf s q = Some qi ->
  exists s', start_link (addf s x (new_inst fid)) x q a = Ok s' /\
    forall y, getf s' y = if N.eqb y x then Some (mkInst fid FWaiting (Some q) [] [] [] a false)
                          else if N.eqb y q then Some (add_child x qi) else getf s y.
Proof.
  intros s x fid q qi a Hx Hm Eq.
  assert (Hqx : q <> x) by (intros ->; congruence).
  set (s1 := addf s x (new_inst fid)).
  assert (G1 : forall y, getf s1 y = if N.eqb y x then Some (new_inst fid) else getf s y) by (intros; apply getf_addf; auto).
  assert (Eq1 : getf s1 q = Some qi).
  { rewrite G1. destruct (N.eqb q x) eqn:E0; [apply N.eqb_eq in E0; contradiction|auto]. }
  unfold start_link. rewrite (G1 x), N.eqb_refl. simpl.
  destruct (N.eqb fid main_id) eqn:Em; [apply N.eqb_eq in Em; contradiction|].
  rewrite Eq1. eexists; split; [reflexivity|].
  intros y. rewrite !getf_modf. rewrite (G1 x), N.eqb_refl. simpl.
  destruct (N.eqb x y) eqn:Exy.
  - apply N.eqb_eq in Exy; subst y. rewrite N.eqb_refl.
    destruct (N.eqb q x) eqn:Eqx; [apply N.eqb_eq in Eqx; contradiction|]. simpl. reflexivity.
  - assert (Eyx : N.eqb y x = false) by (rewrite N.eqb_sym; auto). rewrite Eyx.
    destruct (N.eqb q y) eqn:Eqy.
    + apply N.eqb_eq in Eqy; subst y. rewrite N.eqb_refl.
      destruct (N.eqb x q) eqn:Exq; [apply N.eqb_eq in Exq; congruence|]. rewrite Eq1. reflexivity.
    + assert (Eyq : N.eqb y q = false) by (rewrite N.eqb_sym; auto). rewrite Eyq. rewrite G1, Eyx. auto.
Qed.

Lemma ref_lookup_complete : forall pm s fid l r ri,
  In (r, ri) l -> i_flow ri = fid -> i_activated ri <> 0%Z -> pm r = true ->
  (exists p pi, i_parent ri = Some p /\ getf s p = Some pi /\ i_flow pi <> i_flow ri) ->
  exists r0, ref_lookup pm s fid l = Some r0.
Proof.
  induction l as [|[u i] l IH]; simpl; intros r ri Hin Hf Ha Hpm Hpar; [tauto|].
  destruct Hin as [Heq|Hin].
  - inversion Heq; subst u i. subst fid. rewrite N.eqb_refl.
    destruct Hpar as (p & pi & Hp & Epi & Hfl). rewrite Hp, Epi.
    destruct (i_activated ri =? 0)%Z eqn:Ez; [apply Z.eqb_eq in Ez; contradiction|].
    destruct (N.eqb (i_flow ri) (i_flow pi)) eqn:Efl; [apply N.eqb_eq in Efl; congruence|].
    simpl. rewrite Hpm. eauto.
  - destruct (N.eqb (i_flow i) fid); [|eapply IH; eauto].
    match goal with |- context [if ?b then _ else _] => destruct b end; [eapply IH; eauto|].
    destruct (pm u); [eauto|eapply IH; eauto].
Qed.

(* (a) the restart of an activated flow that is still activated, when processed, creates the new
   instance (WAITING, i.e. listening), links it under a reference instance of the flow that is
   activated, with the count as marker *)
Theorem restart_processed : forall pm s r ri e,
  Inv s -> getf s r = Some ri -> refshape s r -> i_activated ri <> 0%Z -> pm r = true ->
  i_flow ri <> main_id ->
  sf_flow e = i_flow ri -> sf_src e = Some r -> sf_activated e <> 0%Z -> getf s (sf_uid e) = None ->
  exists s' r0 r0i,
    start_flow pm s e = Ok s' /\
    getf s r0 = Some r0i /\ i_flow r0i = i_flow ri /\ i_activated r0i <> 0%Z /\ refshape s r0 /\
    getf s' (sf_uid e) = Some (mkInst (i_flow ri) FWaiting (Some r0) [] [] [] (sf_activated e) false) /\
    getf s' r0 = Some (add_child (sf_uid e) r0i) /\
    lst s' (sf_uid e) = true.
Proof.
  intros pm s r ri e HI Er Hrs Ha Hpm Hmain Hfl Hsrc Hact Hx.
  assert (Hin : In (r, ri) (flows s)) by (apply get_in; exact Er).
  destruct Hrs as (ri0 & p & pi & Er0 & Hp & Epi & Hflp). rewrite Er in Er0. inversion Er0; subst ri0.
  destruct (ref_lookup_complete pm s (i_flow ri) (flows s) r ri Hin eq_refl Ha Hpm) as (r0 & Hlk); [eauto|].
  destruct (ref_lookup_refshape _ _ _ _ (inv_nodup _ HI) Hlk) as (r0i & Er0i & Hf0 & Ha0 & Hrs0 & _).
  destruct (start_link_new s (sf_uid e) (i_flow ri) r0 r0i (sf_activated e) Hx Hmain Er0i) as (s' & Hl & G).
  exists s', r0, r0i.
  assert (Hsf : start_flow pm s e = Ok s').
  { unfold start_flow, start_proc. rewrite Hfl.
    destruct (N.eqb (i_flow ri) main_id) eqn:Em; [apply N.eqb_eq in Em; contradiction|].
    assert (Hd : start_dropped s e = false).
    { unfold start_dropped. rewrite Hsrc, Er, Hfl, N.eqb_refl. simpl.
      destruct (i_activated ri =? 0)%Z eqn:Ez; [apply Z.eqb_eq in Ez; contradiction|].
      rewrite andb_false_r. apply andb_false_r. }
    rewrite Hd, Hsrc, Er.
    destruct (sf_activated e =? 0)%Z eqn:Ez; [apply Z.eqb_eq in Ez; contradiction|].
    rewrite Hlk, N.eqb_refl. simpl. exact Hl. }
  repeat split; auto.
  - rewrite G, N.eqb_refl. auto.
  - rewrite G. destruct (N.eqb r0 (sf_uid e)) eqn:E0; [apply N.eqb_eq in E0; congruence|]. rewrite N.eqb_refl. auto.
  - unfold lst. rewrite G, N.eqb_refl. auto.
Qed.

(* (c) a reference instance to which no live instance refers any more is not activated any more *)
Theorem no_entry_no_activation : forall s r, Inv s -> refshape s r -> E s r = 0%Z -> act s r = 0%Z.
Proof.
  intros s r HI Hrs HE. destruct (Z.eq_dec (act s r) 0) as [|Hnz]; auto.
  rewrite (inv_cnt _ HI r Hrs Hnz). auto.
Qed.

(* ... and a restart that is still queued then is dropped: nothing is created *)
Theorem queued_restart_dropped : forall pm s r ri e,
  getf s r = Some ri -> done (i_status ri) = true -> i_activated ri = 0%Z ->
  sf_src e = Some r -> sf_activated e <> 0%Z ->
  start_flow pm s e = Ok s.
Proof.
  intros pm s r ri e Er Hd Ha Hsrc Hact. unfold start_flow, start_proc.
  destruct (N.eqb (sf_flow e) main_id); auto.
  assert (Hdr : start_dropped s e = true).
  { unfold start_dropped. rewrite Hsrc, Er, Hd, Ha. simpl.
    destruct (sf_activated e =? 0)%Z eqn:Ez; [apply Z.eqb_eq in Ez; contradiction|]. simpl. apply orb_true_r. }
  rewrite Hdr. auto.
Qed.

(* ... as is the start / activation sent by a flow that has ended meanwhile *)
Theorem queued_start_of_ended_sender_dropped : forall pm s p pi e,
  getf s p = Some pi -> done (i_status pi) = true -> i_flow pi <> sf_flow e -> sf_src e = Some p ->
  start_flow pm s e = Ok s.
Proof.
  intros pm s p pi e Ep Hd Hfl Hsrc. unfold start_flow, start_proc.
  destruct (N.eqb (sf_flow e) main_id); auto.
  assert (Hdr : start_dropped s e = true).
  { unfold start_dropped. rewrite Hsrc, Ep, Hd. simpl.
    destruct (N.eqb (i_flow pi) (sf_flow e)) eqn:Ef; [apply N.eqb_eq in Ef; contradiction|]. auto. }
  rewrite Hdr. auto.
Qed.

(* ------------------------------------------------------------------------------------ *)
(* (c) when the count of an activated flow reaches 0 during an operation, its reference instance
   and the restarted instances under it are not listening afterwards *)

(* an entry of the same flow in a child list is a restarted instance linked to that parent *)
Definition famk (s : st) : Prop :=
  forall x xi c ci, getf s x = Some xi -> In c (i_children xi) -> getf s c = Some ci ->
    i_flow ci = i_flow xi -> i_parent ci = Some x.

Lemma srel_famk : forall (R A : uid -> Prop) s s', Srel R A s s' -> famk s -> famk s'.
Proof.
  intros R A s s' S Hf x xi' c ci' Ex' Hin Ec' Hfl.
  destruct (srel_bwd _ _ _ _ _ _ S Ex') as (xi & Ex & (F1 & _ & _ & _ & _ & C1 & _)).
  destruct (srel_bwd _ _ _ _ _ _ S Ec') as (ci & Ec & (F2 & P2 & _)).
  rewrite P2. eapply Hf; eauto. congruence.
Qed.

Definition family_down (s s' : st) (c : uid) : Prop :=
  lst s' c = false /\
  (refshape s c -> forall ci y yi, getf s c = Some ci -> In y (i_children ci) -> getf s y = Some yi ->
     i_flow yi = i_flow ci -> i_parent yi = Some c -> lst s' y = false).

(* ZS X: for every instance outside X whose count was positive and is 0 afterwards *)
Definition ZS (X : uid -> Prop) (s s' : st) : Prop :=
  forall c, ~ X c -> (0 < act s c)%Z -> act s' c = 0%Z -> family_down s s' c.

Definition noX : uid -> Prop := fun _ => False.

Lemma family_down_mono : forall s s1 s2 c, SrelT s1 s2 -> family_down s s1 c -> family_down s s2 c.
Proof.
  intros s s1 s2 c S (H1 & H2). split; [eapply lst_mono; eauto|].
  intros Hrs ci y yi Ec Hin Ey Hfl Hp. eapply lst_mono; eauto.
Qed.

Lemma zs_trans : forall X s s1 s2,
  SrelT s s1 -> SrelT s1 s2 -> Rem s s1 -> ZS X s s1 -> ZS X s1 s2 -> ZS X s s2.
Proof.
  intros X s s1 s2 S1 S2 Rm Z1 Z2 c HX Hpos Hz.
  destruct (Z.eq_dec (act s1 c) 0) as [Hz1|Hnz1].
  - eapply family_down_mono; eauto.
  - assert (Hpos1 : (0 < act s1 c)%Z).
    { assert (0 <= act s1 c)%Z by (eapply act_nonneg_stable; eauto; lia). lia. }
    destruct (Z2 c HX Hpos1 Hz) as (L & Fm). split; auto.
    intros Hrs ci y yi Ec Hin Ey Hfl Hp.
    destruct (srel_fwd _ _ _ _ _ _ S1 Ec) as (ci1 & Ec1 & (F1 & _)).
    destruct (srel_fwd _ _ _ _ _ _ S1 Ey) as (yi1 & Ey1 & (F2 & P2 & _)).
    destruct (in_dec N.eq_dec y (i_children ci1)) as [Hin1|Hnin1].
    + eapply Fm; eauto; try congruence. eapply refshape_static; eauto.
    + eapply lst_mono; [exact S2|]. apply (Rm c ci ci1 y Ec Ec1 Hin Hnin1).
Qed.

Lemma zs_refl : forall X s, ZS X s s.
Proof. intros X s c _ Hp Hz. lia. Qed.

Lemma zs_weaken : forall (X Y : uid -> Prop) s s', (forall c, X c -> Y c) -> ZS X s s' -> ZS Y s s'.
Proof. intros X Y s s' H Z c HY. apply Z. intros HX; apply HY; auto. Qed.

(* steps that change no count and no status *)
Lemma zs_same : forall X s s', (forall c, act s' c = act s c) -> ZS X s s'.
Proof. intros X s s' H c _ Hp Hz. rewrite H in Hz. lia. Qed.

Definition noZ : uid -> Prop := fun _ => False.
Lemma noZ_zinv : forall s, Zinv noZ s.
Proof. intros s c i H. destruct H. Qed.

Section Pass5.
  Variable rk : uid -> nat.
  Variable ab : st -> uid -> bool -> res st.
  Hypothesis Hab1 : forall (R A : uid -> Prop) s c d s',
    ranked rk s -> closed R s -> owns R A s -> R c -> ab s c d = Ok s' -> Srel R A s s'.
  Hypothesis Hab2 : forall Z s c d s',
    ranked rk s -> Zinv Z s -> ab s c d = Ok s' ->
    Seg Z s s' /\ (proceeds s c d = true -> lv s' c = false).
  Hypothesis HabZ : forall s c d s', ranked rk s -> famk s -> ab s c d = Ok s' -> ZS noX s s'.

  Lemma abort_children_zs : forall l s s',
    ranked rk s -> famk s -> abort_children ab l s = Ok s' -> Seg noZ s s' /\ ZS noX s s'.
  Proof.
    induction l as [|c l IH]; simpl; intros s s' Hr Hf H.
    - inversion H; subst. split; [apply seg_refl|apply zs_refl].
    - destruct (getf s c) as [ci|]; [|eapply IH; eauto].
      destruct (is_child_activated s ci); [eapply IH; eauto|].
      bind_inv H.
      destruct (Hab2 noZ _ _ _ _ Hr (noZ_zinv s) Hb) as (G0 & _).
      pose proof (HabZ _ _ _ _ Hr Hf Hb) as Z0.
      assert (S0 : SrelT s s0) by apply G0.
      destruct (IH _ _ (srel_ranked _ _ _ _ _ S0 Hr) (srel_famk _ _ _ _ S0 Hf) H) as (G1 & Z1).
      split; [eapply seg_trans; eauto|].
      eapply zs_trans; eauto; [apply G1|apply G0].
  Qed.

  Lemma abort_same_zs : forall f fid l s s',
    ranked rk s -> famk s -> (exists fi, getf s f = Some fi /\ i_flow fi = fid) ->
    (forall c ci, In c l -> getf s c = Some ci -> i_flow ci = fid -> i_parent ci = Some f) ->
    abort_same ab fid l s = Ok s' -> Seg noZ s s' /\ ZS noX s s'.
  Proof.
    induction l as [|c l IH]; simpl; intros s s' Hr Hf Hfe Hl H.
    - inversion H; subst. split; [apply seg_refl|apply zs_refl].
    - destruct (getf s c) as [ci|] eqn:Ec; try discriminate.
      destruct (N.eqb (i_flow ci) fid) eqn:Efl.
      2:{ eapply IH; eauto. }
      apply N.eqb_eq in Efl.
      bind_inv H.
      destruct (Hab2 noZ _ _ _ _ Hr (noZ_zinv s) Hb) as (G0 & Hp).
      pose proof (HabZ _ _ _ _ Hr Hf Hb) as Z0.
      assert (S0 : SrelT s s0) by apply G0.
      set (t := modf s0 c (set_activated 0%Z)) in *.
      assert (Gt : Seg noZ s0 t).
      { unfold t, modf. destruct (getf s0 c) as [c0|] eqn:Ec0; [|apply seg_refl].
        apply same_shape_seg; [apply srel_set_activated; unfold anyR; auto|eapply same_shape_setf; eauto]. }
      assert (St : SrelT s0 t) by apply Gt.
      assert (G0t : Seg noZ s t) by (eapply seg_trans; eauto).
      assert (S0t : SrelT s t) by apply G0t.
      (* c itself is a restarted child of f: the call stopped it *)
      assert (Hrc : restarted_child s f fid c).
      { destruct Hfe as (fi & Ef & Hff). exists ci, fi. repeat split; auto. eapply Hl; eauto. }
      assert (Hlvc : lv s0 c = false) by (apply Hp; eapply restarted_child_proceeds; eauto).
      assert (Zt : ZS noX s t).
      { intros c' _ Hpos Hz. destruct (N.eq_dec c' c) as [->|Hne].
        - split.
          + eapply lst_mono; [exact St|]. apply lst_lv; auto.
          + intros (i0 & p0 & p0i & E0 & Hp0 & Ep0 & Hflp). exfalso.
            rewrite Ec in E0. inversion E0; subst i0.
            destruct Hrc as (ci' & fi & Ec' & Hfc & Hpc & Ef & Hff). rewrite Ec in Ec'. inversion Ec'; subst ci'.
            rewrite Hpc in Hp0. inversion Hp0; subst p0. rewrite Ef in Ep0. inversion Ep0; subst p0i. congruence.
        - assert (Hz0 : act s0 c' = 0%Z) by (unfold t in Hz; rewrite act_modf_other in Hz; auto).
          eapply family_down_mono; [exact St|]. apply Z0; auto. }
      assert (Hfet : exists fi, getf t f = Some fi /\ i_flow fi = fid).
      { destruct Hfe as (fi & Ef & Hff). destruct (srel_fwd _ _ _ _ _ _ S0t Ef) as (fi' & Ef' & (F & _)). exists fi'; split; auto; congruence. }
      assert (Hlt : forall c' ci', In c' l -> getf t c' = Some ci' -> i_flow ci' = fid -> i_parent ci' = Some f).
      { intros c' ci' Hin Ec' Hfc. destruct (srel_bwd _ _ _ _ _ _ S0t Ec') as (ci0 & Ec0 & (F & P & _)).
        rewrite P. eapply Hl; eauto. congruence. }
      destruct (IH _ _ (srel_ranked _ _ _ _ _ S0t Hr) (srel_famk _ _ _ _ S0t Hf) Hfet Hlt H) as (G1 & Z1).
      split; [eapply seg_trans; eauto|].
      eapply zs_trans; eauto; [apply G1|apply G0t].
  Qed.
End Pass5.

Lemma deactivate_noref : forall (ab : st -> uid -> bool -> res st) s f (d : bool) i, getf s f = Some i ->
  (if d then is_ref_activated s i else Ok false) = Ok false -> deactivate ab s f d = Ok (s, true).
Proof. intros ab s f d i E H. unfold deactivate. rewrite E, H. reflexivity. Qed.

(* without the deactivation decrement a call leaves the count of its own instance alone *)
Lemma abort_own_act : forall rk n s f d s' i,
  ranked rk s -> abort n s f d = Ok s' -> getf s f = Some i ->
  (if d then is_ref_activated s i else Ok false) = Ok false -> act s' f = act s f.
Proof.
  destruct n as [|n]; simpl; intros s f d s' i Hr H E Hno; try discriminate.
  unfold prologue in H. rewrite (deactivate_noref _ _ _ _ _ E Hno) in H. simpl in H. rewrite E in H.
  destruct (skip_abort (i_status i)) eqn:Esk; [simpl in H; inversion H; auto|].
  apply bind_ok in H. destruct H as ([s3 go] & Hp & H). simpl in H.
  bind_inv Hp.
  destruct (abort_children_self rk (abort n) (abort_srel rk n) (i_children i) s s0 f i) as (i2 & E2 & _ & Ha2 & _); auto.
  { apply Forall_forall. intros c Hin. eapply Hr; eauto. }
  rewrite E2 in Hp. bind_inv Hp. inversion Hp; subst s3 go.
  assert (E3 : getf s1 f = Some i2).
  { unfold getf. rewrite (stop_actions_flows _ _ _ Hb0). exact E2. }
  destruct (epilogue_abort_fields _ _ _ _ _ H E3) as (i' & E' & _ & Ha').
  unfold act. rewrite E', E. congruence.
Qed.

Lemma epilogue_abort_act : forall s3 f d s' c, epilogue_abort s3 f d = Ok s' -> act s' c = act s3 c.
Proof.
  unfold epilogue_abort; intros s3 f d s' c H. bind_inv H.
  destruct (restart_E_act _ _ _ _ c H) as (_ & Ar). rewrite Ar.
  change (act (emit1 (modf s f (set_status FStopped)) (EFailed f)) c) with (act (modf s f (set_status FStopped)) c).
  rewrite act_modf_keep; [|intros; simpl; auto].
  unfold act. destruct (getf s3 c) as [ci|] eqn:Ec.
  - destruct (unlink_getf_fields _ _ _ _ _ Hb Ec) as (ci' & Ec' & _ & Ha & _). rewrite Ec'. auto.
  - pose proof (srel_none _ _ _ _ _ (srel_unlink anyR anyA _ _ _ I Hb) Ec) as Hn. rewrite Hn. auto.
Qed.

Lemma epilogue_finish_act : forall s3 f d s' c, epilogue_finish s3 f d = Ok s' -> act s' c = act s3 c.
Proof.
  unfold epilogue_finish; intros s3 f d s' c H. destruct (getf s3 f) as [i|] eqn:Ef; try discriminate.
  destruct (N.eqb (i_flow i) main_id).
  - inversion H; subst. apply act_modf_keep. intros; simpl; auto.
  - bind_inv H. destruct (restart_E_act _ _ _ _ c H) as (_ & Ar). rewrite Ar.
    change (act (emit1 s (EFinished f)) c) with (act s c).
    assert (Hm : act (modf s3 f (set_status FFinished)) c = act s3 c) by (apply act_modf_keep; intros; simpl; auto).
    rewrite <- Hm. unfold act. destruct (getf (modf s3 f (set_status FFinished)) c) as [ci|] eqn:Ec.
    + destruct (unlink_getf_fields _ _ _ _ _ Hb Ec) as (ci' & Ec' & _ & Ha & _). rewrite Ec'. auto.
    + pose proof (srel_none _ _ _ _ _ (srel_unlink anyR anyA _ _ _ I Hb) Ec) as Hn. rewrite Hn. auto.
Qed.

Section Pass5b.
  Variable rk : uid -> nat.
  Variable ab : st -> uid -> bool -> res st.
  Hypothesis Hab1 : forall (R A : uid -> Prop) s c d s',
    ranked rk s -> closed R s -> owns R A s -> R c -> ab s c d = Ok s' -> Srel R A s s'.
  Hypothesis Hab2 : forall Z s c d s',
    ranked rk s -> Zinv Z s -> ab s c d = Ok s' ->
    Seg Z s s' /\ (proceeds s c d = true -> lv s' c = false).
  Hypothesis HabZ : forall s c d s', ranked rk s -> famk s -> ab s c d = Ok s' -> ZS noX s s'.

  Lemma deactivate_zs : forall s f d s1 b,
    ranked rk s -> famk s -> deactivate ab s f d = Ok (s1, b) -> Seg noZ s s1 /\ ZS (eq f) s s1.
  Proof.
    intros s f d s1 b Hr Hf H.
    destruct (deactivate_seg rk ab Hab2 noZ _ _ _ _ _ Hr (noZ_zinv s) H) as (G & _). split; auto.
    unfold deactivate in H. destruct (getf s f) as [i|] eqn:Ef; try discriminate.
    apply bind_ok in H. destruct H as (isref & Hisref & H).
    destruct isref; [|inversion H; subst; apply zs_refl].
    destruct d; [|discriminate].
    assert (Hpos : (0 < i_activated i)%Z).
    { unfold is_ref_activated in Hisref.
      destruct (0 <? i_activated i)%Z eqn:Ez; [apply Z.ltb_lt in Ez; auto|discriminate]. }
    set (sm := modf s f (set_activated (i_activated i - 1)%Z)) in *.
    assert (Gm : Seg noZ s sm).
    { unfold sm. rewrite (modf_some _ _ _ _ Ef). apply same_shape_seg.
      - apply srel_set_activated; unfold anyR; auto.
      - eapply same_shape_setf; eauto. }
    assert (Sm : SrelT s sm) by apply Gm.
    assert (Zm : ZS (eq f) s sm).
    { intros c Hcf Hp Hz. unfold sm in Hz. rewrite act_modf_other in Hz; [lia|]. intros ->; apply Hcf; auto. }
    destruct (i_activated i - 1 =? 0)%Z.
    - bind_inv H. inversion H; subst s0.
      assert (Efm : getf sm f = Some (set_activated (i_activated i - 1)%Z i)).
      { unfold sm. rewrite (modf_some _ _ _ _ Ef). eapply getf_setf_same; eauto. }
      assert (Hfm : famk sm) by (eapply srel_famk; eauto).
      assert (Hfe : exists fi, getf sm f = Some fi /\ i_flow fi = i_flow i) by (eexists; split; [exact Efm|reflexivity]).
      assert (Hl : forall c ci, In c (i_children i) -> getf sm c = Some ci -> i_flow ci = i_flow i -> i_parent ci = Some f).
      { intros c ci Hin Ec Hfl. eapply (Hfm f _ c ci Efm); simpl; auto. }
      destruct (abort_same_zs rk ab Hab2 HabZ f (i_flow i) (i_children i) sm s1 (srel_ranked _ _ _ _ _ Sm Hr) Hfm Hfe Hl Hb) as (G1 & Z1).
      assert (Rm0 : Rem s sm) by apply Gm.
      assert (S1' : SrelT sm s1) by apply G1.
      apply (zs_trans (eq f) s sm s1 Sm S1' Rm0 Zm). eapply zs_weaken; [|exact Z1]. intros c [].
    - inversion H; subst. auto.
  Qed.

  Lemma prologue_zs : forall skip s f d s3 go,
    ranked rk s -> famk s -> prologue ab skip s f d = Ok (s3, go) -> SrelT s s3 /\ ZS (eq f) s s3.
  Proof.
    unfold prologue; intros skip s f d s3 go Hr Hf H.
    apply bind_ok in H. destruct H as ([s1 b] & Hd & H). simpl in H.
    destruct (deactivate_zs _ _ _ _ _ Hr Hf Hd) as (G1 & Z1).
    assert (S1 : SrelT s s1) by apply G1.
    destruct b; [|inversion H; subst; auto].
    destruct (getf s1 f) as [i1|] eqn:E1; try discriminate.
    destruct (skip (i_status i1)); [inversion H; subst; auto|].
    bind_inv H.
    destruct (abort_children_zs rk ab Hab2 HabZ _ _ _ (srel_ranked _ _ _ _ _ S1 Hr) (srel_famk _ _ _ _ S1 Hf) Hb) as (G2 & Z2).
    assert (S2 : SrelT s1 s0) by apply G2.
    destruct (getf s0 f) as [i2|]; try discriminate. bind_inv H. inversion H; subst.
    assert (S3 : SrelT s0 s3) by (eapply stop_actions_srel; eauto; intros; exact I).
    assert (Z3 : ZS (eq f) s0 s3).
    { apply zs_same. intros c. apply act_flows. eapply stop_actions_flows; eauto. }
    assert (G3 : Seg noZ s0 s3).
    { apply same_shape_seg; auto. apply same_shape_flows. eapply stop_actions_flows; eauto. }
    assert (Z12 : ZS (eq f) s s0).
    { assert (R1 : Rem s s1) by apply G1.
      apply (zs_trans (eq f) s s1 s0 S1 S2 R1 Z1). eapply zs_weaken; [|exact Z2]. intros c []. }
    assert (G12 : Seg noZ s s0) by (eapply seg_trans; eauto).
    assert (S12 : SrelT s s0) by apply G12.
    assert (R12 : Rem s s0) by apply G12.
    split; [eapply Srel_trans; [exact S12|exact S3]|].
    apply (zs_trans (eq f) s s0 s3 S12 S3 R12 Z12 Z3).
  Qed.
End Pass5b.

Lemma zs_own : forall rk n s f d s',
  ranked rk s -> abort n s f d = Ok s' -> (0 < act s f)%Z -> act s' f = 0%Z -> family_down s s' f.
Proof.
  intros rk n s f d s' Hr H Hpos Hz.
  unfold act in Hpos. destruct (getf s f) as [i|] eqn:Ef; [|lia].
  destruct (if d then is_ref_activated s i else Ok false) as [[|]|e] eqn:Hisref.
  - destruct d; [|discriminate].
    destruct (Z.eq_dec (i_activated i) 1) as [H1|Hn1].
    + destruct (deactivate_last rk n s f s' i Hr Ef Hisref H1 H) as (Hlv & _).
      split; [apply lst_lv; auto|].
      intros _ ci y yi Ec Hin Ey Hfl Hp. rewrite Ef in Ec. inversion Ec; subst ci.
      eapply (deactivate_last_children rk n s f s' i Hr Ef Hisref H1 H); eauto.
    + exfalso. destruct n as [|n]; [simpl in H; discriminate|].
      destruct (deactivate_not_last n s f i Ef Hisref Hn1) as (Hab & _). rewrite Hab in H. inversion H; subst s'.
      unfold act in Hz. rewrite (modf_some _ _ _ _ Ef), (getf_setf_same _ _ _ _ Ef) in Hz. simpl in Hz. lia.
  - exfalso. rewrite (abort_own_act rk n s f d s' i Hr H Ef Hisref) in Hz. unfold act in Hz. rewrite Ef in Hz. lia.
  - exfalso. destruct n as [|n]; simpl in H; try discriminate.
    unfold prologue, deactivate in H. rewrite Ef, Hisref in H. simpl in H. discriminate.
Qed.

Theorem abort_zs : forall rk n s f d s', ranked rk s -> famk s -> abort n s f d = Ok s' -> ZS noX s s'.
Proof.
  induction n as [|n IH]; intros s f d s' Hr Hf H; [simpl in H; discriminate|].
  intros c _ Hpos Hz.
  destruct (N.eq_dec c f) as [->|Hne]; [eapply zs_own; eauto|].
  simpl in H. apply bind_ok in H. destruct H as ([s3 go] & Hp & H). simpl in H.
  destruct (prologue_zs rk (abort n) (abort_good rk n) IH _ _ _ _ _ _ Hr Hf Hp) as (S3 & Z3).
  destruct go.
  - rewrite (epilogue_abort_act _ _ _ _ c H) in Hz.
    destruct (prologue_srel rk (abort n) (abort_srel rk n) anyR anyA _ _ _ _ _ _ Hr (anyR_closed s) (anyA_owns anyR s) I Hp)
      as (_ & Hgo).
    destruct (Hgo eq_refl) as (i3 & E3 & Hsk).
    eapply family_down_mono; [eapply epilogue_abort_srel; eauto using skip_abort_live; exact I|].
    apply Z3; auto.
  - inversion H; subst. apply Z3; auto.
Qed.

Theorem abort_top_zs : forall rk b n s f s',
  ranked rk s -> famk s -> abort_top b n s f false = Ok s' -> ZS noX s s'.
Proof.
  intros rk b n s f s' Hr Hf H c _ Hpos Hz.
  destruct n as [|n]; [simpl in H; discriminate|].
  simpl in H. apply bind_ok in H. destruct H as ([s3 go] & Hp & H). simpl in H.
  destruct (prologue_zs rk (abort n) (abort_good rk n) (abort_zs rk n) _ _ _ _ _ _ Hr Hf Hp) as (S3 & Z3).
  assert (Hact3 : act s' c = act s3 c).
  { destruct go; [eapply epilogue_abort_act; eauto|inversion H; auto]. }
  assert (S4 : SrelT s3 s').
  { destruct go; [|inversion H; subst; apply Srel_refl].
    destruct (prologue_srel rk (abort n) (abort_srel rk n) anyR anyA _ _ _ _ _ _ Hr (anyR_closed s) (anyA_owns anyR s) I Hp)
      as (_ & Hgo).
    destruct (Hgo eq_refl) as (i3 & E3 & Hsk).
    eapply epilogue_abort_srel; eauto using skip_abort_live; exact I. }
  destruct (N.eq_dec c f) as [->|Hne].
  - (* d = false: the count of f itself is not touched *)
    exfalso. unfold act in Hpos. destruct (getf s f) as [i|] eqn:Ef; [|lia].
    unfold prologue in Hp. rewrite (deactivate_noref (abort n) s f false i Ef eq_refl) in Hp. simpl in Hp. rewrite Ef in Hp.
    destruct (skip_abort (i_status i)).
    + inversion Hp; subst. inversion H; subst. unfold act in Hz. rewrite Ef in Hz. lia.
    + bind_inv Hp.
      destruct (abort_children_self rk (abort n) (abort_srel rk n) (i_children i) s s0 f i) as (i2 & E2 & _ & Ha2 & _); auto.
      { apply Forall_forall. intros c Hin. eapply Hr; eauto. }
      rewrite E2 in Hp. bind_inv Hp. inversion Hp; subst.
      rewrite Hact3 in Hz. unfold act in Hz. unfold getf in Hz. rewrite (stop_actions_flows _ _ _ Hb0) in Hz.
      fold (getf s0 f) in Hz. rewrite E2 in Hz. lia.
  - rewrite Hact3 in Hz. eapply family_down_mono; [exact S4|]. apply Z3; auto.
Qed.

Theorem finish_zs : forall rk n s f s',
  ranked rk s -> famk s -> finish n s f false = Ok s' -> ZS noX s s'.
Proof.
  unfold finish; intros rk n s f s' Hr Hf H c _ Hpos Hz.
  apply bind_ok in H. destruct H as ([s3 go] & Hp & H). simpl in H.
  destruct (prologue_zs rk (abort n) (abort_good rk n) (abort_zs rk n) _ _ _ _ _ _ Hr Hf Hp) as (S3 & Z3).
  assert (Hact3 : act s' c = act s3 c).
  { destruct go; [eapply epilogue_finish_act; eauto|inversion H; auto]. }
  assert (S4 : SrelT s3 s').
  { destruct go; [|inversion H; subst; apply Srel_refl].
    destruct (prologue_srel rk (abort n) (abort_srel rk n) anyR anyA _ _ _ _ _ _ Hr (anyR_closed s) (anyA_owns anyR s) I Hp)
      as (_ & Hgo).
    destruct (Hgo eq_refl) as (i3 & E3 & Hsk).
    eapply epilogue_finish_srel; eauto using skip_finish_listening; exact I. }
  destruct (N.eq_dec c f) as [->|Hne].
  - exfalso. unfold act in Hpos. destruct (getf s f) as [i|] eqn:Ef; [|lia].
    unfold prologue in Hp. rewrite (deactivate_noref (abort n) s f false i Ef eq_refl) in Hp. simpl in Hp. rewrite Ef in Hp.
    destruct (skip_finish (i_status i)).
    + inversion Hp; subst. inversion H; subst. unfold act in Hz. rewrite Ef in Hz. lia.
    + bind_inv Hp.
      destruct (abort_children_self rk (abort n) (abort_srel rk n) (i_children i) s s0 f i) as (i2 & E2 & _ & Ha2 & _); auto.
      { apply Forall_forall. intros c Hin. eapply Hr; eauto. }
      rewrite E2 in Hp. bind_inv Hp. inversion Hp; subst.
      rewrite Hact3 in Hz. unfold act in Hz. unfold getf in Hz. rewrite (stop_actions_flows _ _ _ Hb0) in Hz.
      fold (getf s0 f) in Hz. rewrite E2 in Hz. lia.
  - rewrite Hact3 in Hz. eapply family_down_mono; [exact S4|]. apply Z3; auto.
Qed.

(* ------------------------------------------------------------------------------------ *)
(* famk is an invariant of the operations as well *)

Lemma samecnt_famk : forall s s', samecnt s s' -> famk s -> famk s'.
Proof.
  intros s s' (_ & _ & G & _) Hf x xi' c ci' Ex' Hin Ec' Hfl.
  destruct (G _ _ Ex') as (xi & Ex & _ & Fx & Cx & _). destruct (G _ _ Ec') as (ci & Ec & Pc & Fc & _).
  rewrite Pc. eapply Hf; eauto; congruence.
Qed.

Lemma end_scope_famk : forall rk rel n s f name s',
  ranked rk s -> famk s -> end_scope rel n s f name = Ok s' -> famk s'.
Proof.
  unfold end_scope; intros rk rel n s f name s' Hr Hf H.
  destruct (getf s f) as [i|] eqn:Ef; try discriminate.
  destruct (pop_scope name (i_scopes i)) as [[[fl al] rest]|]; try discriminate.
  bind_inv H.
  assert (S0 : samecnt s (modf s f (set_scopes rest))) by (apply samecnt_modf; intros j _; simpl; auto).
  assert (H1 : famk (modf s f (set_scopes rest))) by (eapply samecnt_famk; eauto).
  assert (Hr1 : ranked rk (modf s f (set_scopes rest))).
  { destruct S0 as (_ & _ & G & _). intros x i' c Ex' Hin. destruct (G _ _ Ex') as (i0 & Ex & _ & _ & Hch & _).
    rewrite Hch in Hin. eapply Hr; eauto. }
  destruct (scope_flows_cs rk n _ _ _ Hr1 Hb) as (S & _).
  eapply samecnt_famk; [eapply samecnt_scope_actions; eauto|]. eapply srel_famk; eauto.
Qed.

Lemma start_flow_famk : forall pm s e s',
  Inv s -> famk s -> getf s (sf_uid e) = None -> start_flow pm s e = Ok s' -> famk s'.
Proof.
  unfold start_flow, start_proc; intros pm s e s' HI Hf Hx H.
  destruct (N.eqb (sf_flow e) main_id) eqn:Em; [simpl in H; inversion H; subst; auto|].
  apply N.eqb_neq in Em.
  destruct (start_dropped s e); [simpl in H; inversion H; subst; auto|].
  destruct (sf_src e) as [p|] eqn:Esrc; [|simpl in H; discriminate].
  destruct (getf s p) as [si|] eqn:Ep; [|simpl in H; discriminate].
  assert (Hnew : forall q qi, getf s q = Some qi ->
            start_link (addf s (sf_uid e) (new_inst (sf_flow e))) (sf_uid e) q (sf_activated e) = Ok s' -> famk s').
  { intros q qi Eq Hl.
    destruct (start_link_new s (sf_uid e) (sf_flow e) q qi (sf_activated e) Hx Em Eq) as (s'' & Hl' & G).
    rewrite Hl in Hl'. inversion Hl'; subst s''. clear Hl'.
    assert (Hqx : q <> sf_uid e) by (intros ->; congruence).
    intros y yi' c ci' Ey' Hin Ec' Hfl.
    rewrite G in Ey', Ec'.
    destruct (N.eqb y (sf_uid e)) eqn:Eyx.
    { inversion Ey'; subst yi'. simpl in Hin. tauto. }
    assert (Hc_old : forall z zi, getf s z = Some zi -> In c (i_children zi) -> N.eqb c (sf_uid e) = false).
    { intros z zi Ez Hinz. destruct (N.eqb c (sf_uid e)) eqn:Ecx; auto. apply N.eqb_eq in Ecx; subst c.
      exfalso. apply (inv_closed _ HI _ _ _ Ez Hinz). auto. }
    destruct (N.eqb y q) eqn:Eyq.
    - apply N.eqb_eq in Eyq; subst y. inversion Ey'; subst yi'. simpl in Hin, Hfl.
      apply in_app_or in Hin. destruct Hin as [Hin|[<-|[]]].
      + rewrite (Hc_old _ _ Eq Hin) in Ec'.
        destruct (N.eqb c q) eqn:Ecq.
        * apply N.eqb_eq in Ecq; subst c. inversion Ec'; subst ci'. simpl. eapply Hf; eauto.
        * eapply Hf; eauto.
      + rewrite N.eqb_refl in Ec'. inversion Ec'; subst ci'. simpl. auto.
    - rewrite (Hc_old _ _ Ey' Hin) in Ec'.
      destruct (N.eqb c q) eqn:Ecq.
      + apply N.eqb_eq in Ecq; subst c. inversion Ec'; subst ci'. simpl in *. eapply Hf; eauto.
      + eapply Hf; eauto. }
  destruct (if (sf_activated e =? 0)%Z then None else ref_lookup pm s (sf_flow e) (flows s)) as [r|] eqn:Est.
  - assert (Hlk : ref_lookup pm s (sf_flow e) (flows s) = Some r).
    { destruct (sf_activated e =? 0)%Z; [discriminate|auto]. }
    destruct (ref_lookup_refshape _ _ _ _ (inv_nodup _ HI) Hlk) as (ri & Er & Hfr & Har & Hrs & _).
    destruct (N.eqb (sf_flow e) (i_flow si)) eqn:Echild; simpl in H.
    + eapply Hnew; eauto.
    + inversion H; subst s'. apply N.eqb_neq in Echild.
      assert (Hpr : p <> r) by (intros ->; rewrite Er in Ep; inversion Ep; subst; congruence).
      intros y yi' c ci' Ey' Hin Ec' Hfl.
      change (getf (emit1 ?t (EStarted r)) ?z) with (getf t z) in *.
      rewrite !getf_modf in Ey', Ec'.
      assert (Hget : forall z zi', (if N.eqb p z then option_map (fun i => set_children (i_children i ++ [r]) i)
                                   (if N.eqb r p then option_map (fun i => set_activated (i_activated i + 1)%Z i) (getf s r) else getf s p)
                                 else if N.eqb r z then option_map (fun i => set_activated (i_activated i + 1)%Z i) (getf s r) else getf s z) = Some zi' ->
                exists zi, getf s z = Some zi /\ i_flow zi' = i_flow zi /\ i_parent zi' = i_parent zi /\
                           (forall c0, In c0 (i_children zi') -> In c0 (i_children zi) \/ (z = p /\ c0 = r))).
      { intros z zi' Hz. destruct (N.eqb p z) eqn:Epz.
        - apply N.eqb_eq in Epz; subst z.
          destruct (N.eqb r p) eqn:Erp; [apply N.eqb_eq in Erp; congruence|]. rewrite Ep in Hz. simpl in Hz. inversion Hz; subst zi'.
          exists si. simpl. repeat split; auto. intros c0 Hc0. apply in_app_or in Hc0. destruct Hc0 as [|[<-|[]]]; auto.
        - destruct (N.eqb r z) eqn:Erz.
          + apply N.eqb_eq in Erz; subst z. rewrite Er in Hz. simpl in Hz. inversion Hz; subst zi'. exists ri. simpl. auto.
          + exists zi'. auto. }
      destruct (Hget _ _ Ey') as (yi & Ey & Fy & _ & Cy). destruct (Hget _ _ Ec') as (ci & Ec & Fc & Pc & _).
      rewrite Pc. destruct (Cy _ Hin) as [Hin0|(-> & ->)].
      * eapply Hf; eauto; congruence.
      * exfalso. rewrite Ep in Ey. inversion Ey; subst yi. rewrite Er in Ec. inversion Ec; subst ci. congruence.
  - destruct (N.eqb (sf_flow e) (i_flow si)); simpl in H; eapply Hnew; eauto.
Qed.

Theorem astep_famk : forall rel fuel s o s',
  Inv s -> famk s -> astep rel fuel s o = Ok s' -> aok s o s' -> famk s'.
Proof.
  intros rel fuel s o s' HI Hf H Hok. destruct (inv_wf _ HI) as (rk & Hr).
  destruct o as [pm e|f r|f|f name|k a|f v]; simpl in *.
  - destruct Hok as (Hx & _). eapply start_flow_famk; eauto.
  - eapply srel_famk; [|exact Hf]. eapply (abort_top_srel rk r fuel anyR anyA); eauto using anyR_closed, anyA_owns; exact I.
  - eapply srel_famk; [|exact Hf]. eapply (finish_srel rk fuel anyR anyA); eauto using anyR_closed, anyA_owns; exact I.
  - eapply end_scope_famk; eauto.
  - inversion H; subst. eapply samecnt_famk; eauto. apply samecnt_action_event.
  - inversion H; subst. eapply samecnt_famk; eauto. apply samecnt_advance.
Qed.

Theorem arun_inv_fam : forall rel fuel l s s',
  Inv s -> famk s -> arun rel fuel l s = Ok s' -> aoks rel fuel l s -> Inv s' /\ famk s'.
Proof.
  induction l as [|o l IH]; simpl; intros s s' HI Hf H Hok.
  - inversion H; subst; auto.
  - bind_inv H. destruct (Hok _ Hb) as (Ho & Hrest).
    apply (IH s0 s'); auto; [eapply astep_inv; eauto|eapply astep_famk; eauto].
Qed.

(* (c) THE LAST ACTIVATOR ENDS: an instance fails / finishes, and afterwards no live instance holds
   an entry of the reference instance r any more.  Then the count of r is 0, r is not listening and
   the restarted instances under r are not listening. *)
Theorem last_activator_ends : forall rel fuel s o s' r,
  Inv s -> famk s -> (match o with AAbort _ _ | AFinish _ => True | _ => False end) ->
  astep rel fuel s o = Ok s' -> aok s o s' ->
  refshape s r -> (0 < act s r)%Z -> E s' r = 0%Z ->
  act s' r = 0%Z /\ family_down s s' r.
Proof.
  intros rel fuel s o s' r HI Hf Ho H Hok Hrs Hpos HE.
  pose proof (astep_inv _ _ _ _ _ HI H Hok) as HI'.
  destruct (inv_wf _ HI) as (rk & Hr).
  destruct o as [pm e|f b|f|f name|k a|f v]; simpl in *; try contradiction.
  - assert (S : SrelT s s').
    { eapply (abort_top_srel rk b fuel anyR anyA); eauto using anyR_closed, anyA_owns; exact I. }
    assert (Hz : act s' r = 0%Z) by (apply no_entry_no_activation; auto; eapply refshape_static; eauto).
    split; auto. apply (abort_top_zs rk b fuel s f s' Hr Hf H r); auto; intros [].
  - assert (S : SrelT s s').
    { eapply (finish_srel rk fuel anyR anyA); eauto using anyR_closed, anyA_owns; exact I. }
    assert (Hz : act s' r = 0%Z) by (apply no_entry_no_activation; auto; eapply refshape_static; eauto).
    split; auto. apply (finish_zs rk fuel s f s' Hr Hf H r); auto; intros [].
Qed.
