(* C11 - clean-up and the clock: cleaning up at t1 and again at a later t2 gives the same state
   (extensionally) as cleaning up once at t2: the second clean-up removes exactly the instances
   that became old enough in between. *)
From Coq Require Import ZArith List String Bool Lia.
From NG Require Import V2.Cleanup V2.Cleanup_proofs.
Import ListNotations.
Open Scope string_scope.
Open Scope Z_scope.

(* ---- the dict stays a dict *)
Lemma nodup_filter_keys {A} (f : string * A -> bool) (l : list (string * A)) :
  NoDup (map fst l) -> NoDup (map fst (filter f l)).
Proof.
  induction l as [|[k x] r IH]; simpl; intro H; [constructor|].
  inversion H as [|? ? Hn Hr]; subst. destruct (f (k, x)); simpl; [|auto].
  constructor; [|auto]. intro Hin. apply Hn. apply in_map_iff in Hin as ([k' y] & Hk & Hy).
  apply filter_In in Hy as [Hy _]. apply in_map_iff. exists (k', y). auto.
Qed.

Lemma supdate_keys {A} k (x : A) l : map fst (supdate k x l) = map fst l.
Proof.
  unfold supdate. rewrite map_map. apply map_ext. intros [k' y]. simpl. destruct (String.eqb k' k); reflexivity.
Qed.

Lemma remove_one_keys s uid s' :
  NoDup (map fst (flows s)) -> remove_one (Some s) uid = Some s' -> NoDup (map fst (flows s')).
Proof.
  intros Hn H. simpl in H.
  destruct (slook (flows s) uid) as [fs|]; [|discriminate].
  destruct (slook (by_flow s) (i_flow fs)) as [lst|]; [|discriminate].
  destruct (smem uid lst); [|discriminate]. inversion H; subst s'. simpl.
  unfold sdelete. apply nodup_filter_keys.
  destruct (i_parent fs) as [p|]; [|exact Hn]. destruct (String.eqb p ""); [exact Hn|].
  destruct (slook (flows s) p) as [pi|]; [|exact Hn]. destruct (smem uid (i_children pi)); [|exact Hn].
  rewrite supdate_keys. exact Hn.
Qed.

Lemma fold_keys rem : forall s s',
  NoDup (map fst (flows s)) -> fold_left remove_one rem (Some s) = Some s' -> NoDup (map fst (flows s')).
Proof.
  induction rem as [|u r IH]; intros s s' Hn H; cbn [fold_left] in H.
  - inversion H; now subst.
  - destruct (remove_one (Some s) u) as [s1|] eqn:E.
    + eapply IH; [eapply remove_one_keys; eauto|exact H].
    + exfalso. clear -H. induction r as [|x r IHr]; cbn [fold_left] in H; [discriminate|auto].
Qed.

Lemma cleanup_keys c P s s' :
  NoDup (map fst (flows s)) -> cleanup_gen c P s = Some s' -> NoDup (map fst (flows s')).
Proof.
  intros Hn H. unfold cleanup_gen in H.
  destruct (fold_left remove_one (to_remove_gen P (clear_scores s)) (Some (clear_scores s))) as [s2|] eqn:E; [|discriminate].
  destruct (rebuild_actions (actions s2) (all_action_uids s2) []); [|discriminate].
  inversion H; subst s'. simpl. unfold purge_flows. rewrite map_map. simpl.
  change (map (fun x : string * inst => fst x) (flows s2)) with (map fst (flows s2)).
  eapply fold_keys; [|exact E]. unfold clear_scores. simpl. rewrite map_map. exact Hn.
Qed.

(* ---- which instances a clean-up removes *)
Lemma cleanup_dom c P s s' u :
  core_pred P -> NoDup (map fst (flows s)) -> cleanup_gen c P s = Some s' ->
  (slook (flows s') u = None <->
   slook (flows s) u = None \/ exists i, slook (flows s) u = Some i /\ P u i = true).
Proof.
  intros HP Hn Hr. destruct (cleanup_frame c P HP s s' Hn Hr) as (_ & Fr & Fb & _).
  destruct (cleanup_only_done c P HP s s' Hn Hr) as [Od _]. split.
  - intro H. destruct (slook (flows s) u) as [i|] eqn:E; [right|now left]. exists i. split; [reflexivity|]. eapply Od; eauto.
  - intros [H|(i & Hi & Hrm)].
    + destruct (slook (flows s') u) as [i'|] eqn:E; [|reflexivity]. destruct (Fb u i' E) as (i & Hi & _). congruence.
    + destruct (slook (flows s') u) as [i'|] eqn:E; [|reflexivity]. destruct (Fb u i' E) as (i0 & Hi0 & Hnr). congruence.
Qed.

Lemma removable_mono c t1 t2 i : cmp_gt c = true -> t1 <= t2 -> removable c t1 i = true -> removable c t2 i = true.
Proof.
  intros Hc Ht. unfold removable, old_enough. rewrite Hc. intro H.
  apply andb_true_iff in H as [H H3]. apply andb_true_iff in H as [H1 H2]. rewrite H1, H3.
  apply Z.ltb_lt in H2. replace (age c <? t2 - i_updated i) with true by (symmetry; apply Z.ltb_lt; lia). reflexivity.
Qed.

Lemma frame_core_eq gone i i' : frame_rel gone i i' -> core_eq i' i.
Proof. intros ((E1 & E2 & E3 & E4 & E5 & _) & _). unfold core_eq. tauto. Qed.

(* two removal conditions, the second weaker than the first (a later clock) *)
Section Later.
  Variable c : cfg.
  Variables P1 P2 : string -> inst -> bool.
  Hypothesis HP1 : core_pred P1.
  Hypothesis HP2 : core_pred P2.
  Hypothesis Hmono : forall u i, P1 u i = true -> P2 u i = true.
  Variables s s1 s12 s2 : state.
  Hypothesis Hdict : NoDup (map fst (flows s)).
  Hypothesis R1 : cleanup_gen c P1 s = Some s1.
  Hypothesis R12 : cleanup_gen c P2 s1 = Some s12.
  Hypothesis R2 : cleanup_gen c P2 s = Some s2.

  Let Hdict1 : NoDup (map fst (flows s1)) := cleanup_keys c P1 s s1 Hdict R1.

  (* the same instances survive *)
  Theorem later_same_domain u : slook (flows s12) u = None <-> slook (flows s2) u = None.
  Proof.
    rewrite (cleanup_dom c P2 s1 s12 u HP2 Hdict1 R12), (cleanup_dom c P2 s s2 u HP2 Hdict R2), (cleanup_dom c P1 s s1 u HP1 Hdict R1).
    destruct (cleanup_frame c P1 HP1 s s1 Hdict R1) as (_ & Fr & Fb & _). split.
    - intros [[H|(i & Hi & Hrm)]|(i1 & Hi1 & Hrm)]; [now left| |].
      + right. exists i. split; [exact Hi|]. apply Hmono. exact Hrm.
      + destruct (Fb u i1 Hi1) as (i & Hi & Hnr). destruct (Fr u i Hi Hnr) as (i1' & Hi1' & Hf).
        rewrite Hi1 in Hi1'. inversion Hi1'; subst i1'. right. exists i. split; [exact Hi|].
        rewrite <- (HP2 u _ _ (frame_core_eq _ i i1 Hf)). exact Hrm.
    - intros [H|(i & Hi & Hrm)]; [left; now left|].
      destruct (P1 u i) eqn:E; [left; right; eauto|].
      destruct (Fr u i Hi E) as (i1 & Hi1 & Hf). right. exists i1. split; [exact Hi1|].
      rewrite (HP2 u _ _ (frame_core_eq _ i i1 Hf)). exact Hrm.
  Qed.

  (* a surviving instance is the same: all scalar fields, the cleared heads, the listed actions *)
  Theorem later_same_instance u i12 i2 :
    slook (flows s12) u = Some i12 -> slook (flows s2) u = Some i2 ->
    i_flow i12 = i_flow i2 /\ i_status i12 = i_status i2 /\ i_updated i12 = i_updated i2 /\
    i_activated i12 = i_activated i2 /\ i_parent i12 = i_parent i2 /\ i_actions i12 = i_actions i2 /\
    i_rest i12 = i_rest i2 /\ i_heads i12 = i_heads i2 /\ map fst (i_scopes i12) = map fst (i_scopes i2).
  Proof.
    intros H12 H2.
    destruct (cleanup_frame c P2 HP2 s1 s12 Hdict1 R12) as (_ & Fr12 & Fb12 & _).
    destruct (cleanup_frame c P1 HP1 s s1 Hdict R1) as (_ & Fr1 & Fb1 & _).
    destruct (cleanup_frame c P2 HP2 s s2 Hdict R2) as (_ & Fr2 & Fb2 & _).
    destruct (Fb12 u i12 H12) as (i1 & Hi1 & Hn1). destruct (Fr12 u i1 Hi1 Hn1) as (x & Hx & F12).
    rewrite H12 in Hx. inversion Hx; subst x.
    destruct (Fb1 u i1 Hi1) as (i & Hi & Hn). destruct (Fr1 u i Hi Hn) as (x & Hx1 & F1).
    rewrite Hi1 in Hx1. inversion Hx1; subst x.
    destruct (Fb2 u i2 H2) as (i' & Hi' & Hn'). rewrite Hi in Hi'. inversion Hi'; subst i'.
    destruct (Fr2 u i Hi Hn') as (x & Hx2 & F2). rewrite H2 in Hx2. inversion Hx2; subst x.
    destruct F12 as ((A1 & A2 & A3 & A4 & A5 & A6 & A7 & A8 & _) & (A9 & _)).
    destruct F1 as ((B1 & B2 & B3 & B4 & B5 & B6 & B7 & B8 & _) & (B9 & _)).
    destruct F2 as ((C1 & C2 & C3 & C4 & C5 & C6 & C7 & C8 & _) & (C9 & _)).
    unfold heads_cleared in *. repeat split; try congruence.
    rewrite A8, B8, C8, map_map. reflexivity.
  Qed.

  (* ... with the same children and the same scope members (the reference closure and step 3b
     are needed: a dangling uid would stay listed on both sides but nothing says so) *)
  Theorem later_same_lists u i12 i2 :
    purge_children c = true -> purge_scopes c = true -> closed_refs s ->
    slook (flows s12) u = Some i12 -> slook (flows s2) u = Some i2 ->
    (forall x, In x (i_children i12) <-> In x (i_children i2)) /\
    (forall k l12 l2, slook (i_scopes i12) k = Some l12 -> slook (i_scopes i2) k = Some l2 ->
                      forall x, In x l12 <-> In x l2).
  Proof.
    intros Pc Ps Hcl H12 H2.
    pose proof (cleanup_preserves_closed c P1 HP1 s s1 Hdict R1 Pc Ps Hcl) as Hcl1.
    destruct (cleanup_frame c P2 HP2 s1 s12 Hdict1 R12) as (_ & Fr12 & Fb12 & _).
    destruct (cleanup_frame c P1 HP1 s s1 Hdict R1) as (_ & Fr1 & Fb1 & _).
    destruct (cleanup_frame c P2 HP2 s s2 Hdict R2) as (_ & Fr2 & Fb2 & _).
    destruct (Fb12 u i12 H12) as (i1 & Hi1 & Hn1). destruct (Fr12 u i1 Hi1 Hn1) as (y & Hy & F12).
    rewrite H12 in Hy. inversion Hy; subst y.
    destruct (Fb1 u i1 Hi1) as (i & Hi & Hn). destruct (Fr1 u i Hi Hn) as (y & Hy1 & F1).
    rewrite Hi1 in Hy1. inversion Hy1; subst y.
    destruct (Fb2 u i2 H2) as (i' & Hi' & Hn'). rewrite Hi in Hi'. inversion Hi'; subst i'.
    destruct (Fr2 u i Hi Hn') as (y & Hy2 & F2). rewrite H2 in Hy2. inversion Hy2; subst y.
    (* a listed uid that survives both routes / neither *)
    assert (Key : forall x, present s x ->
              (slook (flows s12) x <> None <-> slook (flows s2) x <> None)).
    { intros x _. pose proof (later_same_domain x). tauto. }
    destruct (cleanup_lookups c P2 HP2 s1 s12 Hdict1 R12 Pc Ps Hcl1 u i1 i12 Hi1 H12) as (L12a & L12b & L12c & _).
    destruct (cleanup_lookups c P1 HP1 s s1 Hdict R1 Pc Ps Hcl u i i1 Hi Hi1) as (L1a & L1b & L1c & _).
    destruct (cleanup_lookups c P2 HP2 s s2 Hdict R2 Pc Ps Hcl u i i2 Hi H2) as (L2a & L2b & L2c & _).
    destruct F12 as ((_ & _ & _ & _ & _ & _ & _ & _ & S12 & _) & (_ & Sc12)).
    destruct F1 as ((_ & _ & _ & _ & _ & _ & _ & _ & S1 & _) & (_ & Sc1)).
    destruct F2 as ((_ & _ & _ & _ & _ & _ & _ & _ & S2 & _) & (_ & Sc2)).
    split.
    - intro x. split; intro Hx.
      + (* survives t1 then t2: listed in the original and present after the direct clean-up *)
        destruct (L12a x Hx) as (_ & ix12 & _ & Hp12 & _).
        assert (Hin : In x (i_children i)) by (apply S1; apply S12; exact Hx).
        destruct (in_dec string_dec x (i_children i2)) as [?|Hno]; [assumption|].
        destruct (L2b x Hin Hno) as (ix & _ & _ & Hg). exfalso.
        apply (proj2 (later_same_domain x)) in Hg. congruence.
      + destruct (L2a x Hx) as (ix & ix2 & Hix & Hp2 & _).
        assert (Hin : In x (i_children i)) by (apply S2; exact Hx).
        assert (Hp12 : slook (flows s12) x <> None).
        { intro Hg. apply (proj1 (later_same_domain x)) in Hg. congruence. }
        destruct (in_dec string_dec x (i_children i1)) as [Hin1|Hno1].
        * destruct (in_dec string_dec x (i_children i12)) as [?|Hno]; [assumption|].
          destruct (L12b x Hin1 Hno) as (_ & _ & _ & Hg). contradiction.
        * destruct (L1b x Hin Hno1) as (_ & _ & _ & Hg1). exfalso. apply Hp12.
          apply (cleanup_dom c P2 s1 s12 x HP2 Hdict1 R12). now left.
    - intros k l12 l2 Hl12 Hl2 x.
      destruct (Sc12 k l12 Hl12) as (l1 & Hl1 & Sub12 & G12). destruct (Sc1 k l1 Hl1) as (l & Hl & Sub1 & G1).
      destruct (Sc2 k l2 Hl2) as (l' & Hl' & Sub2 & G2). rewrite Hl in Hl'. inversion Hl'; subst l'.
      split; intro Hx.
      + destruct (L12c k l12 x Hl12 Hx) as (_ & ix12 & _ & Hp12 & _).
        assert (Hin : In x l) by (apply Sub1; apply Sub12; exact Hx).
        destruct (in_dec string_dec x l2) as [?|Hno]; [assumption|]. exfalso.
        pose proof (G2 x Hin Hno) as Hg. apply (proj2 (later_same_domain x)) in Hg. congruence.
      + destruct (L2c k l2 x Hl2 Hx) as (ix & ix2 & Hix & Hp2 & _).
        assert (Hin : In x l) by (apply Sub2; exact Hx).
        assert (Hp12 : slook (flows s12) x <> None).
        { intro Hg. apply (proj1 (later_same_domain x)) in Hg. congruence. }
        destruct (in_dec string_dec x l1) as [Hin1|Hno1].
        * destruct (in_dec string_dec x l12) as [?|Hno]; [assumption|]. exfalso. exact (Hp12 (G12 x Hin1 Hno)).
        * exfalso. apply Hp12. apply (cleanup_dom c P2 s1 s12 x HP2 Hdict1 R12). left. exact (G1 x Hin Hno1).
  Qed.

  (* the same actions survive, with the same values *)
  Theorem later_same_actions a : slook (actions s12) a = slook (actions s2) a.
  Proof.
    destruct (cleanup_frame c P2 HP2 s1 s12 Hdict1 R12) as (_ & _ & _ & Fa12 & Fra12 & _).
    destruct (cleanup_frame c P1 HP1 s s1 Hdict R1) as (_ & _ & _ & Fa1 & _).
    destruct (cleanup_frame c P2 HP2 s s2 Hdict R2) as (_ & _ & _ & Fa2 & Fra2 & _).
    pose proof (cleanup_keys c P2 s1 s12 Hdict1 R12) as Hd12. pose proof (cleanup_keys c P2 s s2 Hdict R2) as Hd2.
    assert (Same : forall u i12 i2, slook (flows s12) u = Some i12 -> slook (flows s2) u = Some i2 -> i_actions i12 = i_actions i2)
      by (intros u i12 i2 H1 H2; apply (later_same_instance u i12 i2 H1 H2)).
    destruct (slook (actions s12) a) as [x|] eqn:E12; destruct (slook (actions s2) a) as [y|] eqn:E2; auto.
    - pose proof (Fa1 a x (Fa12 a x E12)) as Hx. pose proof (Fa2 a y E2) as Hy. congruence.
    - exfalso. destruct (cleanup_actions_ref c P2 s1 s12 R12 a x E12) as (u & i12 & Hin & Hia).
      apply in_slook in Hin; [|exact Hd12].
      destruct (slook (flows s2) u) as [i2|] eqn:Eu; [|apply (proj2 (later_same_domain u)) in Eu; congruence].
      rewrite (Same u i12 i2 Hin Eu) in Hia. exact (Fra2 u i2 a (slook_in _ _ _ Eu) Hia E2).
    - exfalso. destruct (cleanup_actions_ref c P2 s s2 R2 a y E2) as (u & i2 & Hin & Hia).
      apply in_slook in Hin; [|exact Hd2].
      destruct (slook (flows s12) u) as [i12|] eqn:Eu; [|apply (proj1 (later_same_domain u)) in Eu; congruence].
      rewrite <- (Same u i12 i2 Eu Hin) in Hia. exact (Fra12 u i12 a (slook_in _ _ _ Eu) Hia E12).
  Qed.

  Theorem later_same_rest : s_rest s12 = s_rest s2.
  Proof.
    destruct (cleanup_frame c P2 HP2 s1 s12 Hdict1 R12) as (A & _). destruct (cleanup_frame c P1 HP1 s s1 Hdict R1) as (B & _).
    destruct (cleanup_frame c P2 HP2 s s2 Hdict R2) as (C' & _). congruence.
  Qed.
End Later.

(* ---------------------------------------------------------------------------------- *)
(* totality: on a state with closed references whose instances are listed under their flow,
   _clean_up_state raises neither KeyError nor ValueError *)

Definition listed_by_flow (s : state) : Prop :=
  forall u i, slook (flows s) u = Some i -> exists l, slook (by_flow s) (i_flow i) = Some l /\ In u l.

Lemma rebuild_total old : forall uids acc,
  (forall a, In a uids -> slook old a <> None) -> exists B, rebuild_actions old uids acc = Some B.
Proof.
  induction uids as [|a r IH]; intros acc H; simpl; [eauto|].
  destruct (slook acc a); [apply IH; intros; apply H; now right|].
  destruct (slook old a) as [x|] eqn:E; [apply IH; intros; apply H; now right|].
  exfalso. exact (H a (or_introl eq_refl) E).
Qed.

Section Total.
  Variable F1 : list (string * inst).
  Variable B1 : list (string * list string).
  Variable A1 : list (string * Z).
  Variable Rr : Z.

  Lemma fold_total rem : forall done s,
    LInv F1 B1 A1 Rr done s -> NoDup rem ->
    (forall u, In u rem -> ~ In u done /\ exists i0 l0, slook F1 u = Some i0 /\ slook B1 (i_flow i0) = Some l0 /\ In u l0) ->
    exists s', fold_left remove_one rem (Some s) = Some s'.
  Proof.
    induction rem as [|u r IH]; intros done s HI Hnd Hr; cbn [fold_left]; [eauto|].
    inversion Hnd as [|? ? Hu Hnd']; subst.
    destruct (Hr u (or_introl eq_refl)) as (Hud & i0 & l0 & Hi0 & Hl0 & Hin0).
    destruct (li_keep _ _ _ _ _ _ HI u i0 Hi0 Hud) as (fs & Hfs).
    destruct (li_look _ _ _ _ _ _ HI u fs Hfs) as (i1 & Hi1 & (Hflow & _) & _).
    rewrite Hi0 in Hi1. inversion Hi1; subst i1.
    destruct (li_by_keep _ _ _ _ _ _ HI _ _ Hl0) as (l & Hl).
    destruct (li_by _ _ _ _ _ _ HI _ _ Hl) as (l0' & Hl0' & _ & Hmiss). rewrite Hl0 in Hl0'. inversion Hl0'; subst l0'.
    assert (Hinl : In u l) by (destruct (in_dec string_dec u l) as [?|Hn]; [assumption|exfalso; exact (Hud (Hmiss u Hin0 Hn))]).
    assert (Hstep : exists s1, remove_one (Some s) u = Some s1).
    { simpl. rewrite Hfs. rewrite <- Hflow. rewrite Hl. replace (smem u l) with true by (symmetry; now apply smem_in). eauto. }
    destruct Hstep as (s1 & Hs1). rewrite Hs1.
    apply (IH (done ++ [u])%list s1); [eapply linv_step; eauto|exact Hnd'|].
    intros u' Hu'. destruct (Hr u' (or_intror Hu')) as (Hd' & Hrest). split; [|exact Hrest].
    intro Hin. apply in_app_or in Hin as [Hin|[<-|[]]]; [exact (Hd' Hin)|exact (Hu Hu')].
  Qed.
End Total.

Theorem cleanup_total c P s :
  NoDup (map fst (flows s)) -> closed_refs s -> listed_by_flow s -> exists s', cleanup_gen c P s = Some s'.
Proof.
  intros Hn Hcl Hlb. unfold cleanup_gen.
  set (s1 := clear_scores s). set (rem := to_remove_gen P s1).
  assert (HF1 : flows s1 = map (fun kv => (fst kv, clear_heads (snd kv))) (flows s)) by reflexivity.
  assert (Hk1 : NoDup (map fst (flows s1))) by (rewrite HF1, map_map; exact Hn).
  assert (Hlook : forall u, slook (flows s1) u = option_map clear_heads (slook (flows s) u))
    by (intro u; rewrite HF1; apply slook_map_snd).
  assert (Hrem : NoDup rem) by (unfold rem, to_remove_gen; apply nodup_filter_keys; exact Hk1).
  destruct (fold_total (flows s1) (by_flow s) (actions s) (s_rest s) rem [] s1) as (s2 & Hs2).
  - destruct s as [fl bf ac rs]. apply linv_init.
  - exact Hrem.
  - intros u Hu. split; [tauto|]. unfold rem, to_remove_gen in Hu. apply in_map_iff in Hu as ([u' i1] & <- & Hf).
    apply filter_In in Hf as [Hin _]. simpl. pose proof (in_slook _ _ _ Hk1 Hin) as Hl1.
    rewrite Hlook in Hl1. destruct (slook (flows s) u') as [i|] eqn:Ei; [|discriminate]. simpl in Hl1. inversion Hl1; subst i1.
    destruct (Hlb u' i Ei) as (l & Hl & Hin'). exists (clear_heads i), l. rewrite Hlook, Ei. simpl. auto.
  - rewrite Hs2.
    assert (HI : LInv (flows s1) (by_flow s) (actions s) (s_rest s) ([] ++ rem) s2).
    { eapply linv_fold; [|exact Hs2]. destruct s as [fl bf ac rs]. apply linv_init. }
    destruct (rebuild_total (actions s2) (all_action_uids s2) []) as (B & HB).
    + intros a Ha. rewrite (li_act _ _ _ _ _ _ HI). unfold all_action_uids in Ha.
      apply in_flat_map in Ha as ([u i2] & Hin & Hia). simpl in Hia.
      destruct (li_in _ _ _ _ _ _ HI u i2 Hin) as (_ & i0 & Hin0 & (_ & _ & _ & _ & _ & Eact & _) & _).
      pose proof (in_slook _ _ _ Hk1 Hin0) as Hl1. rewrite Hlook in Hl1.
      destruct (slook (flows s) u) as [i|] eqn:Ei; [|discriminate]. simpl in Hl1. inversion Hl1; subst i0.
      simpl in Eact. rewrite <- Eact in Hia. exact (cr_actions s Hcl u i a Ei Hia).
    + rewrite HB. eauto.
Qed.

Theorem cleanup_preserves_listed c P s s' :
  core_pred P -> NoDup (map fst (flows s)) -> cleanup_gen c P s = Some s' -> listed_by_flow s -> listed_by_flow s'.
Proof.
  intros HP Hn Hr Hl u i' Hi'.
  destruct (cleanup_frame c P HP s s' Hn Hr) as (_ & Fr & Fb & _ & _ & Fby & Fkeep).
  destruct (Fb u i' Hi') as (i & Hi & Hnr). destruct (Fr u i Hi Hnr) as (i2 & Hi2 & ((Efl & _) & _)).
  rewrite Hi' in Hi2. inversion Hi2; subst i2.
  destruct (Hl u i Hi) as (l & Hll & Hin). destruct (Fkeep _ _ Hll) as (l' & Hl').
  rewrite Efl. exists l'. split; [exact Hl'|].
  destruct (Fby _ _ Hl') as (l0 & Hl0 & _ & Hg). rewrite Hll in Hl0. inversion Hl0; subst l0.
  destruct (in_dec string_dec u l') as [?|Hno]; [assumption|]. specialize (Hg u Hin Hno). congruence.
Qed.

(* ---------------------------------------------------------------------------------- *)
(* the decidable check is sound *)

Lemma nodupb_sound l : nodupb l = true -> NoDup l.
Proof.
  induction l as [|x r IH]; simpl; intro H; [constructor|].
  apply andb_true_iff in H as [H1 H2]. constructor; [|auto].
  intro Hin. apply smem_in in Hin. rewrite Hin in H1. discriminate.
Qed.

Lemma presentb_spec s u : presentb s u = true -> present s u.
Proof. unfold presentb, present. destruct (slook (flows s) u); [discriminate|discriminate]. Qed.

Lemma refs_okb_sound s : refs_okb s = true ->
  NoDup (map fst (flows s)) /\ closed_refs s /\ listed_by_flow s.
Proof.
  unfold refs_okb. intro H. apply andb_true_iff in H as [H H3]. apply andb_true_iff in H as [H1 H2].
  rewrite forallb_forall in H2, H3.
  assert (Per : forall u i, slook (flows s) u = Some i ->
     forallb (presentb s) (i_children i) = true /\
     forallb (fun kl => forallb (presentb s) (snd kl)) (i_scopes i) = true /\
     forallb (fun a => match slook (actions s) a with Some _ => true | None => false end) (i_actions i) = true /\
     match slook (by_flow s) (i_flow i) with Some l => smem u l | None => false end = true).
  { intros u i Hi. specialize (H2 (u, i) (slook_in _ _ _ Hi)). simpl in H2.
    apply andb_true_iff in H2 as [H2 D]. apply andb_true_iff in H2 as [H2 C]. apply andb_true_iff in H2 as [A B]. auto. }
  split; [now apply nodupb_sound|]. split.
  - constructor.
    + intros u i x Hi Hx. destruct (Per u i Hi) as (A & _). rewrite forallb_forall in A. apply presentb_spec. auto.
    + intros u i k l x Hi Hl Hx. destruct (Per u i Hi) as (_ & B & _). rewrite forallb_forall in B.
      specialize (B (k, l) (slook_in _ _ _ Hl)). simpl in B. rewrite forallb_forall in B. apply presentb_spec. auto.
    + intros u i a Hi Ha. destruct (Per u i Hi) as (_ & _ & Cc & _). rewrite forallb_forall in Cc.
      specialize (Cc a Ha). destruct (slook (actions s) a); [discriminate|discriminate].
    + intros f l Hl. specialize (H3 (f, l) (slook_in _ _ _ Hl)). simpl in H3.
      apply andb_true_iff in H3 as [N M]. split; [now apply nodupb_sound|].
      rewrite forallb_forall in M. intros u Hu. specialize (M u Hu).
      destruct (slook (flows s) u) as [i|]; [|discriminate]. apply String.eqb_eq in M. eauto.
  - intros u i Hi. destruct (Per u i Hi) as (_ & _ & _ & D).
    destruct (slook (by_flow s) (i_flow i)) as [l|]; [|discriminate]. exists l. split; [reflexivity|now apply smem_in].
Qed.

(* ---------------------------------------------------------------------------------- *)
(* the per-flow lists: exactly the removed instances leave them *)

Lemma by_flow_char c P s s' :
  core_pred P -> NoDup (map fst (flows s)) -> cleanup_gen c P s = Some s' -> closed_refs s ->
  forall f l l', slook (by_flow s) f = Some l -> slook (by_flow s') f = Some l' ->
  forall x, In x l' <-> In x l /\ slook (flows s') x <> None.
Proof.
  intros HP Hn Hr Hcl f l l' Hl Hl' x.
  destruct (cleanup_frame c P HP s s' Hn Hr) as (_ & Fr & Fb & _ & _ & Fby & _).
  destruct (Fby f l' Hl') as (l0 & Hl0 & Hsub & Hg). rewrite Hl in Hl0. inversion Hl0; subst l0.
  destruct (cr_by_flow s Hcl f l Hl) as [Hnd Hmem].
  assert (HndAll : forall f0 l0, slook (by_flow s) f0 = Some l0 -> NoDup l0) by (intros f0 l0 H; exact (proj1 (cr_by_flow s Hcl f0 l0 H))).
  rewrite cleanup_split in Hr. destruct (cleanup0 P s) as [s0|] eqn:H0; [|discriminate].
  inversion Hr; subst s'. simpl in *.
  destruct (cleanup0_by_gone P HP s s0 Hn H0 HndAll f l' Hl') as [_ G].
  split.
  - intro Hx. split; [auto|]. destruct (Hmem x (Hsub x Hx)) as (i & Hi & Hfl).
    destruct (P x i) eqn:E; [exfalso; exact (G x i Hi E Hfl Hx)|].
    destruct (Fr x i Hi E) as (i' & Hi' & _). congruence.
  - intros [Hx Hp]. destruct (in_dec string_dec x l') as [?|Hno]; [assumption|]. exfalso. exact (Hp (Hg x Hx Hno)).
Qed.

Theorem later_same_by_flow c P1 P2 s s1 s12 s2 :
  core_pred P1 -> core_pred P2 -> (forall u i, P1 u i = true -> P2 u i = true) -> NoDup (map fst (flows s)) ->
  cleanup_gen c P1 s = Some s1 -> cleanup_gen c P2 s1 = Some s12 -> cleanup_gen c P2 s = Some s2 ->
  purge_children c = true -> purge_scopes c = true -> closed_refs s ->
  forall f l12 l2, slook (by_flow s12) f = Some l12 -> slook (by_flow s2) f = Some l2 ->
  forall x, In x l12 <-> In x l2.
Proof.
  intros HP1 HP2 Hmono Hn R1 R12 R2 Pc Ps Hcl f l12 l2 H12 H2 x.
  pose proof (cleanup_keys c P1 s s1 Hn R1) as Hn1.
  pose proof (cleanup_preserves_closed c P1 HP1 s s1 Hn R1 Pc Ps Hcl) as Hcl1.
  destruct (cleanup_frame c P2 HP2 s1 s12 Hn1 R12) as (_ & _ & _ & _ & _ & Fby12 & _).
  destruct (cleanup_frame c P1 HP1 s s1 Hn R1) as (_ & _ & _ & _ & _ & Fby1 & _).
  destruct (cleanup_frame c P2 HP2 s s2 Hn R2) as (_ & _ & _ & _ & _ & Fby2 & _).
  destruct (Fby12 f l12 H12) as (l1 & Hl1 & _). destruct (Fby1 f l1 Hl1) as (l & Hl & _).
  destruct (Fby2 f l2 H2) as (l' & Hl' & _). rewrite Hl in Hl'. inversion Hl'; subst l'.
  rewrite (by_flow_char c P2 s1 s12 HP2 Hn1 R12 Hcl1 f l1 l12 Hl1 H12 x).
  rewrite (by_flow_char c P1 s s1 HP1 Hn R1 Hcl f l l1 Hl Hl1 x).
  rewrite (by_flow_char c P2 s s2 HP2 Hn R2 Hcl f l l2 Hl H2 x).
  pose proof (later_same_domain c P1 P2 HP1 HP2 Hmono s s1 s12 s2 Hn R1 R12 R2 x) as Hd.
  pose proof (cleanup_dom c P2 s1 s12 x HP2 Hn1 R12) as Hd12.
  split.
  - intros [[Hx _] Hp]. split; [exact Hx|]. tauto.
  - intros [Hx Hp]. assert (Hp12 : slook (flows s12) x <> None) by tauto.
    split; [split; [exact Hx|]|exact Hp12]. intro Hg. apply Hp12. apply Hd12. now left.
Qed.
