(* V1.Stack_proofs - the simulation for programs WITH subflow calls: `do` pushes an interrupted
   caller, the resume loop of compute_next_state unwinds the stack of flow states in whatever
   order they sit in State.flow_states. *)
From Coq Require Import ZArith QArith List String Bool Lia.
From NG Require Import V1.Expr V1.Elems V1.Slide V1.Interp V1.Structured V1.Interp_proofs
                       V1.Code_proofs V1.Slide_proofs V1.Sim_proofs.
Import ListNotations.
Open Scope list_scope.
Open Scope Z_scope.

(* ------------------------------------------------------------------ exec = lexec + calls *)

Section Decomp.
  Variable subs : list (string * list stmt).

  (* what exec does with the result of the frame-local run *)
  Definition after_local (m : nat) (lr : lres) (r : xres) : Prop :=
    match lr with
    | LWait w k c u => r = XWait w k [] c u
    | LEnd c u => r = XEnd c u
    | LExc => r = XExc
    | LFuel => False
    | LCallR name k c u =>
        exists rest k', k = KSeq rest k' /\
          r = match lookup name subs with
              | None => XExc
              | Some body =>
                  match exec subs m c u body KDone with
                  | XEnd c' u' => exec subs m c' u' rest k'
                  | XWait w kw stk c' u' => XWait w kw (stk ++ [KSeq rest k']) c' u'
                  | r' => r'
                  end
              end
    end.

  Lemma exec_decomp : forall n c u blk k r,
    exec subs n c u blk k = r -> r <> XFuel ->
    exists m, (m < n)%nat /\ after_local m (lexec n c u blk k) r.
  Proof.
    induction n as [|n IH]; intros c u blk k r Hr Hnf; [simpl in Hr; congruence|].
    assert (Hlift : forall c' u' blk' k', exec subs n c' u' blk' k' = r ->
              exists m, (m < S n)%nat /\ after_local m (lexec n c' u' blk' k') r).
    { intros c' u' blk' k' H. destruct (IH _ _ _ _ _ H Hnf) as (m & Hm & Ha). exists m. split; [lia|exact Ha]. }
    destruct blk as [|s rest].
    - simpl in Hr |- *. destruct k; [exists n; split; [lia|exact (eq_sym Hr)]| |]; apply Hlift; exact Hr.
    - destruct s; simpl in Hr |- *.
      + exists n. split; [lia|exact (eq_sym Hr)].
      + exists n. split; [lia|exact (eq_sym Hr)].
      + exists n. split; [lia|exact (eq_sym Hr)].
      + destruct (eval c e); [apply Hlift; exact Hr|exists n; split; [lia|exact (eq_sym Hr)]].
      + destruct (eval c c0) as [v|]; [apply Hlift; exact Hr|exists n; split; [lia|exact (eq_sym Hr)]].
      + destruct (eval c c0) as [v|]; [|exists n; split; [lia|exact (eq_sym Hr)]].
        destruct (truthy v); apply Hlift; exact Hr.
      + destruct (unwind k) as [[[cnd b] k']|]; [apply Hlift; exact Hr|exists n; split; [lia|exact (eq_sym Hr)]].
      + destruct (unwind k) as [[[cnd b] k']|]; [apply Hlift; exact Hr|exists n; split; [lia|exact (eq_sym Hr)]].
      + exists n. split; [lia|]. exists rest, k. split; [reflexivity|exact (eq_sym Hr)].
  Qed.
End Decomp.

(* ------------------------------------------------------------------ lists of flow states *)

Lemma list_set_length : forall {A} (l : list A) i a, List.length (list_set l i a) = List.length l.
Proof. induction l; intros [|i] x; simpl; auto. Qed.

Lemma list_set_nth_same : forall {A} (l : list A) i a, (i < List.length l)%nat ->
  nth_error (list_set l i a) i = Some a.
Proof. induction l; intros [|i] x H; simpl in *; try lia; [reflexivity|apply IHl; lia]. Qed.

Lemma list_set_nth_other : forall {A} (l : list A) i j a, i <> j ->
  nth_error (list_set l i a) j = nth_error l j.
Proof. induction l; intros [|i] [|j] x H; simpl; auto; try congruence. Qed.

Lemma list_set_app_l : forall {A} (l m : list A) i a, (i < List.length l)%nat ->
  list_set (l ++ m) i a = list_set l i a ++ m.
Proof. induction l; intros m [|i] x H; simpl in *; try lia; [reflexivity|f_equal; apply IHl; lia]. Qed.

Lemma list_set_map : forall {A B} (g : A -> B) (l : list A) i a, (i < List.length l)%nat ->
  (forall x, nth_error l i = Some x -> g a = g x) ->
  map g (list_set l i a) = map g l.
Proof.
  induction l; intros [|i] x H Hg; simpl in *; try lia.
  - f_equal. apply Hg. reflexivity.
  - f_equal. apply IHl; [lia|exact Hg].
Qed.

Lemma list_set_in : forall {A} (l : list A) i a x, In x (list_set l i a) ->
  x = a \/ exists j, j <> i /\ nth_error l j = Some x.
Proof.
  induction l; intros [|i] y x H; simpl in H; try contradiction.
  - destruct H as [H|H]; [left; auto|].
    right. destruct (In_nth_error _ _ H) as (j & Hj). exists (S j). split; [lia|exact Hj].
  - destruct H as [H|H].
    + right. exists 0%nat. split; [lia|subst; reflexivity].
    + destruct (IHl _ _ _ H) as [E|(j & Hj & Hn)]; [left; exact E|].
      right. exists (S j). split; [lia|exact Hn].
Qed.

Lemma find_uid_in : forall l g, NoDup (map f_uid l) -> In g l -> find_uid l (f_uid g) = Some g.
Proof.
  induction l as [|x l IH]; intros g Hnd Hin; [contradiction|].
  inversion Hnd as [|? ? Hnotin Hnd']; subst. simpl. destruct Hin as [E|Hin].
  - subst. rewrite N.eqb_refl. reflexivity.
  - destruct (N.eqb (f_uid x) (f_uid g)) eqn:E.
    + apply N.eqb_eq in E. exfalso. apply Hnotin. rewrite E. apply in_map. exact Hin.
    + apply IH; assumption.
Qed.

Lemma find_uid_none : forall l u, ~ In u (map f_uid l) -> find_uid l u = None.
Proof.
  induction l as [|x l IH]; intros u H; [reflexivity|]. simpl in *.
  destruct (N.eqb (f_uid x) u) eqn:E; [apply N.eqb_eq in E; exfalso; apply H; left; exact E|].
  apply IH. intros Hin. apply H. right. exact Hin.
Qed.
