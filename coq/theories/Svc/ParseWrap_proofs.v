(* C13 (error path) - proofs about Svc/ParseWrap.v *)
From Coq Require Import ZArith List String Bool Ascii Lia.
From NG Require Import Svc.ParseWrap.
Import ListNotations.
Open Scope string_scope.
Open Scope Z_scope.

Lemma sapp_assoc : forall a b c : string, (a ++ b) ++ c = a ++ (b ++ c).
Proof. induction a as [|x a IH]; intros b c; simpl; [reflexivity | now rewrite IH]. Qed.

Lemma sapp_nil_r : forall a : string, a ++ "" = a.
Proof. induction a as [|x a IH]; simpl; [reflexivity | now rewrite IH]. Qed.

Lemma contains_self : forall p, contains p p.
Proof. intros p. exists "", "". simpl. now rewrite sapp_nil_r. Qed.

Lemma contains_app_l : forall p s t, contains p s -> contains p (s ++ t).
Proof.
  intros p s t [a [b Hs]]. exists a, (b ++ t). subst s.
  now rewrite !sapp_assoc.
Qed.

Lemma contains_app_r : forall p s t, contains p t -> contains p (s ++ t).
Proof.
  intros p s t [a [b Ht]]. exists (s ++ a), b. subst t.
  now rewrite !sapp_assoc.
Qed.

Lemma render_names_path :
  forall path version t, tpl_names_path t = true -> contains path (render path version t).
Proof.
  intros path version t. induction t as [|p r IH]; simpl; intros H; [discriminate|].
  destruct p as [s| | |nm]; simpl in *.
  - apply contains_app_r. now apply IH.
  - apply contains_app_l. apply contains_self.
  - apply contains_app_r. now apply IH.
  - now apply IH.
Qed.

(* the defensive formatter never raises *)
Lemma fmt_defensive_total :
  forall fc e lines,
    f_line_getattr fc = true -> f_line_guard fc = true -> f_col_guard fc = true ->
    exists m, fmt fc e lines = Val m.
Proof.
  intros fc e lines Hg Hl Hc. unfold fmt, get_line. rewrite Hg, Hl. simpl.
  assert (Hcol : exists c, get_column fc e = AInt c).
  { unfold get_column. rewrite Hc. destruct (e_column e) as [| |z|].
    - exists 1. reflexivity.
    - exists 1. reflexivity.
    - destruct (z <? 1); eauto.
    - exists 1. reflexivity. }
  destruct Hcol as [c Hcol].
  assert (Hint : forall z, exists m,
             (if negb (line_usable (AInt z) (Z.of_nat (List.length lines))) then Val (e_str e)
              else match py_index lines (z - 1) with
                   | None => Err IndexError
                   | Some l => match get_column fc e with
                               | AInt col => Val (e_str e ++ ":" ++ nl ++ l ++ nl ++ py_spaces (col - 1) ++ "^")
                               | _ => Err TypeError
                               end
                   end) = Val m).
  { intros z. unfold line_usable.
    destruct ((1 <=? z) && (z <=? Z.of_nat (List.length lines))) eqn:Hr; simpl; [|eauto].
    apply andb_prop in Hr. destruct Hr as [H1 H2].
    apply Z.leb_le in H1. apply Z.leb_le in H2.
    unfold py_index.
    assert (Ha : (0 <=? z - 1) && (z - 1 <? Z.of_nat (List.length lines)) = true).
    { apply andb_true_intro. split; [apply Z.leb_le | apply Z.ltb_lt]; lia. }
    rewrite Ha.
    destruct (nth_error lines (Z.to_nat (z - 1))) as [l|] eqn:Hn.
    - rewrite Hcol. eauto.
    - exfalso. apply nth_error_None in Hn. lia. }
  destruct (e_line e) as [| |z|]; simpl; eauto.
Qed.

Lemma find_exists :
  forall (A : Type) (f g : A -> bool) (l : list A),
    existsb g l = true -> (forall x, g x = true -> f x = true) -> exists h, find f l = Some h.
Proof.
  intros A f g l. induction l as [|x l IH]; simpl; intros He Hi; [discriminate|].
  destruct (f x) eqn:Hf; [eauto|].
  destruct (g x) eqn:Hgx.
  - rewrite (Hi x Hgx) in Hf. discriminate.
  - simpl in He. now apply IH.
Qed.

(* the wrapping contract, for any except-clause list / formatter shape accepted by cfg_ok *)
Theorem wrapper_total :
  forall hs fc, cfg_ok hs fc = true ->
  forall path version o lines,
    (forall e, o = PRaise e -> isinstance e "Exception" = true) ->
    good path (wrap hs fc path version o lines).
Proof.
  intros hs fc Hok path version o lines Hexc.
  unfold cfg_ok in Hok. apply andb_prop in Hok. destruct Hok as [Hall Hex].
  destruct o as [|e]; simpl; [exact I|].
  specialize (Hexc e eq_refl).
  destruct (find_exists handler (fun h => isinstance e (h_class h))
                        (fun h => String.eqb (h_class h) "Exception") hs Hex) as [h Hfind].
  { intros x Hx. apply String.eqb_eq in Hx. now rewrite Hx. }
  rewrite Hfind.
  destruct (find_some _ _ Hfind) as [Hin _].
  rewrite forallb_forall in Hall. specialize (Hall h Hin).
  unfold handler_ok in Hall.
  apply andb_prop in Hall. destruct Hall as [Hall Hfmt].
  apply andb_prop in Hall. destruct Hall as [Hcpe Htpl].
  rewrite Hcpe.
  pose proof (render_names_path path version (h_tpl h) Htpl) as Hc.
  destruct (h_fmt h) eqn:Hf; simpl in *.
  - apply andb_prop in Hfmt. destruct Hfmt as [Hfmt H3].
    apply andb_prop in Hfmt. destruct Hfmt as [H1 H2].
    destruct (fmt_defensive_total fc e lines H1 H2 H3) as [m Hm].
    rewrite Hm. simpl. now apply contains_app_l.
  - exact Hc.
Qed.

(* the pinned code is accepted only with the repaired formatter *)
Example cfg_ok_repaired : cfg_ok handlers_orig fmt_defensive = true.
Proof. reflexivity. Qed.
Example cfg_ok_pinned_false : cfg_ok handlers_orig fmt_orig = false /\ cfg_ok handlers_content_orig fmt_defensive = false.
Proof. split; reflexivity. Qed.

(* Refutation on the faithful model of the pinned code: three exception shapes the real
   parsers produce escape from_path as AttributeError / TypeError / IndexError, and from
   from_content anything the parser raises escapes unchanged. *)
Lemma wrapper_refuted_pinned :
  (exists o lines, (forall e, o = PRaise e -> isinstance e "Exception" = true) /\
       wrap handlers_orig fmt_orig "/cfg/bad.co" "2.x" o lines = LEscape (EscPy AttributeError)) /\
  (exists o lines, (forall e, o = PRaise e -> isinstance e "Exception" = true) /\
       wrap handlers_orig fmt_orig "/cfg/bad.co" "2.x" o lines = LEscape (EscPy TypeError)) /\
  (exists o lines, (forall e, o = PRaise e -> isinstance e "Exception" = true) /\
       wrap handlers_orig fmt_orig "/cfg/bad.co" "2.x" o lines = LEscape (EscPy IndexError)) /\
  (exists o lines, (forall e, o = PRaise e -> isinstance e "Exception" = true) /\
       wrap handlers_content_orig fmt_orig "main.co" "2.x" o lines = LEscape EscOriginal).
Proof.
  repeat split.
  - exists (PRaise dedent_error), ["flow main"; "    match A"; "  match B"]. split; [|vm_compute; reflexivity].
    intros e He. inversion He. subst e. vm_compute. reflexivity.
  - exists (PRaise unexpected_eof), ["flow main"; "  match (A"]. split; [|vm_compute; reflexivity].
    intros e He. inversion He. subst e. vm_compute. reflexivity.
  - exists (PRaise beyond_last_line), ["a"; "b"]. split; [|vm_compute; reflexivity].
    intros e He. inversion He. subst e. vm_compute. reflexivity.
  - exists (PRaise dedent_error), ["flow main"]. split; [|vm_compute; reflexivity].
    intros e He. inversion He. subst e. vm_compute. reflexivity.
Qed.

Corollary wrapper_refuted :
  exists hs fc path version o lines,
    hs = handlers_orig /\ fc = fmt_orig /\
    (forall e, o = PRaise e -> isinstance e "Exception" = true) /\
    ~ good path (wrap hs fc path version o lines).
Proof.
  destruct wrapper_refuted_pinned as [[o [lines [He Hw]]] _].
  exists handlers_orig, fmt_orig, "/cfg/bad.co", "2.x", o, lines.
  repeat split; auto. rewrite Hw. simpl. tauto.
Qed.

(* the formatter's message, when the position is usable, is the same text as before the repair *)
Lemma fmt_defensive_agrees_when_usable :
  forall e lines z c,
    e_line e = AInt z -> 1 <= z <= Z.of_nat (List.length lines) ->
    e_column e = AInt c -> 1 <= c ->
    fmt fmt_defensive e lines = fmt fmt_orig e lines.
Proof.
  intros e lines z c Hl Hz Hc Hc1. unfold fmt, get_line, get_column, fmt_defensive, fmt_orig. simpl.
  rewrite Hl, Hc. simpl.
  assert (Hu : (1 <=? z) && (z <=? Z.of_nat (List.length lines)) = true).
  { apply andb_true_intro. split; apply Z.leb_le; lia. }
  rewrite Hu. simpl.
  assert (Hlt : c <? 1 = false) by (apply Z.ltb_ge; lia).
  rewrite Hlt. reflexivity.
Qed.
