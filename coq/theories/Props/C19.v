(* C19 - Embedding search returns each query's own embedding under caching and batching.
   Property theorems only; every proof is `exact <lemma>`; Print Assumptions beneath each.
   Models: Svc/EmbCache.v (cache_embeddings over KeyGenerator / CacheStore), Svc/Batch.v
   (transition system of _batch_get_embeddings / _run_batch with the cache wrapper around the
   model call).  Everything external is universally quantified: the types of texts, keys and
   vectors, the key generator kg, the embedding model emb, max_batch_size, the cache mode, the
   initial store, the schedule. *)
From Coq Require Import List Bool Arith.
From NG Require Import Gen.C19Consts Svc.EmbCache Svc.EmbCache_proofs Svc.Emb_now Svc.Batch Svc.Batch_proofs
                       Svc.Batch_live Svc.Batch_examples.
Import ListNotations.

(* (T) the shipped default max_batch_size, read from basic.py, satisfies the hypothesis of the
   batching theorems *)
Theorem C19_default_batch_size_positive : 1 <= default_max_batch_size.
Proof. exact (proj1 (Nat.leb_le 1 default_max_batch_size) eq_refl). Qed.
Print Assumptions C19_default_batch_size_positive.

(* cache: if the key generator is injective on the texts in play (P), then after ANY history
   of earlier calls on the same store, with the cache enabled or not, the decorated
   _get_embeddings returns exactly the model's vector of every input text, in input order
   (duplicates and empty strings are just texts) *)
Theorem C19_cache_correct :
  forall (text key vec : Type)
         (text_eq_dec : forall a b : text, {a = b} + {a <> b})
         (key_eq_dec : forall a b : key, {a = b} + {a <> b})
         (kg : text -> key) (emb : text -> vec) (P : text -> Prop),
    inj_on kg P ->
    forall (enabled : bool) (history : list (list text)) (texts : list text),
      Forall (Forall P) history -> Forall P texts ->
      w_results (wrapper text_eq_dec key_eq_dec kg enabled (map emb)
                   (store_after text_eq_dec key_eq_dec kg (map emb) [] history) texts)
      = map (fun t => Some (emb t)) texts.
Proof. exact cache_correct. Qed.
Print Assumptions C19_cache_correct.

(* ... and the same when other tasks wrote the shared store while the model call was awaited:
   the two halves of the call may see two different stores, each left by such calls *)
Theorem C19_cache_correct_interleaved :
  forall (text key vec : Type)
         (text_eq_dec : forall a b : text, {a = b} + {a <> b})
         (key_eq_dec : forall a b : key, {a = b} + {a <> b})
         (kg : text -> key) (emb : text -> vec) (P : text -> Prop),
    inj_on kg P ->
    forall (s1 s2 : store key vec) (texts : list text),
      Forall P texts -> consistent key_eq_dec kg emb P s1 -> consistent key_eq_dec kg emb P s2 ->
      let b := wrap_begin text_eq_dec key_eq_dec kg s1 texts in
      let e := wrap_end text_eq_dec key_eq_dec kg s2 texts (fst b) (snd b) (map emb (snd b)) in
      fst e = map (fun t => Some (emb t)) texts /\ consistent key_eq_dec kg emb P (snd e).
Proof. exact wrapper_interleaved. Qed.
Print Assumptions C19_cache_correct_interleaved.

(* the model is asked only for texts of the call at hand *)
Theorem C19_cache_asks_only_inputs :
  forall (text key vec : Type)
         (text_eq_dec : forall a b : text, {a = b} + {a <> b})
         (key_eq_dec : forall a b : key, {a = b} + {a <> b})
         (kg : text -> key) (enabled : bool) (model : list text -> list vec)
         (s : store key vec) (texts c : list text) (t : text),
    In c (w_calls (wrapper text_eq_dec key_eq_dec kg enabled model s texts)) -> In t c -> In t texts.
Proof. exact cache_calls_sub. Qed.
Print Assumptions C19_cache_asks_only_inputs.

(* the injectivity hypothesis is necessary: ANY two texts with one key and different
   embeddings are confused, already on an empty store.  The shipped generators are
   str(hash(text)) and md5(text): the property is claimed for texts on which they do not
   collide. *)
Theorem C19_cache_collision_refuted :
  forall (text key vec : Type)
         (text_eq_dec : forall a b : text, {a = b} + {a <> b})
         (key_eq_dec : forall a b : key, {a = b} + {a <> b})
         (kg : text -> key) (emb : text -> vec) (t1 t2 : text),
    kg t1 = kg t2 -> emb t1 <> emb t2 ->
    w_results (wrapper text_eq_dec key_eq_dec kg true (map emb) [] [t1; t2])
    <> map (fun t => Some (emb t)) [t1; t2].
Proof. exact cache_collision. Qed.
Print Assumptions C19_cache_collision_refuted.

(* (T) BasicEmbeddingsIndex.search in the current source has the shape the models assume: the
   vector it searches with is assigned only from an awaited _batch_get_embeddings(text) /
   _get_embeddings([text]) and search() reads no other instance state and writes none (a memo in
   front of the embedding calls, for instance, makes this obligation fail) *)
Theorem C19_search_shape_in_source : search_shape_as_modelled = true.
Proof. exact eq_refl. Qed.
Print Assumptions C19_search_shape_in_source.

(* (T) the cache keys of the current source contain the identity of the index's embedding
   model (read from cache.py by the translator) *)
Theorem C19_cache_key_includes_model_in_source : cache_key_includes_model = true.
Proof. exact includes_now. Qed.
Print Assumptions C19_cache_key_includes_model_in_source.

(* several indexes alive in one process, any assignment of cache configurations to stores
   (shared default folder included), keying AS IN THE CURRENT SOURCE: if the key generators in
   play are injective on (model identity, text) and the model identity determines the model,
   then after any interleaved history every index gets ITS OWN model's vectors.  No
   "different models use different stores" hypothesis. *)
Theorem C19_cache_isolation :
  forall (mid text key vec : Type)
         (text_eq_dec : forall a b : text, {a = b} + {a <> b})
         (key_eq_dec : forall a b : key, {a = b} + {a <> b})
         (P : text -> Prop) (ks : list (kindex mid text key vec)),
    pair_inj mid text key vec P ks -> mid_model mid text key vec ks ->
    forall (history : list (kindex mid text key vec * list text)) (a : kindex mid text key vec)
           (texts : list text),
      Forall (fun c => In (fst c) ks /\ Forall P (snd c)) history -> In a ks -> Forall P texts ->
      fst (mcall text_eq_dec key_eq_dec
             (mrun text_eq_dec key_eq_dec no_stores
                   (map (fun c => (index_now mid text key vec (fst c), snd c)) history))
             (index_now mid text key vec a) texts)
      = map (fun t => Some (kx_emb mid text key vec a t)) texts.
Proof. exact isolation_now. Qed.
Print Assumptions C19_cache_isolation.

(* regression documentation: with the keying BEFORE the fix (text alone) two indexes sharing a
   store and a key generator, with different models, are confused *)
Theorem C19_cache_text_only_keys_refuted :
  forall (mid text key vec : Type)
         (text_eq_dec : forall a b : text, {a = b} + {a <> b})
         (key_eq_dec : forall a b : key, {a = b} + {a <> b})
         (a b : kindex mid text key vec) (t : text),
    kx_sid mid text key vec a = kx_sid mid text key vec b ->
    kx_gen mid text key vec a (None, t) = kx_gen mid text key vec b (None, t) ->
    kx_emb mid text key vec a t <> kx_emb mid text key vec b t ->
    fst (mcall text_eq_dec key_eq_dec
           (mrun text_eq_dec key_eq_dec no_stores [(kx_index mid text key vec false a, [t])])
           (kx_index mid text key vec false b) [t])
    <> map (fun t => Some (kx_emb mid text key vec b t)) [t].
Proof. exact keyed_text_only_refuted. Qed.
Print Assumptions C19_cache_text_only_keys_refuted.

(* (secondary form, true before and after the fix) several indexes in one process, each with
   its own key generator, model and cache configuration: if configurations that name the same
   store agree on key generator and model
   (distinct models => distinct stores; the harness checks that distinct cache_dirs are
   distinct stores in the implementation), then after any interleaved history of calls every
   index gets ITS model's vectors *)
Theorem C19_cache_isolation_by_store :
  forall (text key vec : Type)
         (text_eq_dec : forall a b : text, {a = b} + {a <> b})
         (key_eq_dec : forall a b : key, {a = b} + {a <> b})
         (P : text -> Prop) (indexes : list (index text key vec)),
    all_inj text key vec P indexes -> compatible text key vec indexes ->
    forall (history : list (index text key vec * list text)) (a : index text key vec) (texts : list text),
      Forall (fun c => In (fst c) indexes /\ Forall P (snd c)) history -> In a indexes -> Forall P texts ->
      fst (mcall text_eq_dec key_eq_dec (mrun text_eq_dec key_eq_dec no_stores history) a texts)
      = map (fun t => Some (ix_emb a t)) texts.
Proof. exact multi_correct. Qed.
Print Assumptions C19_cache_isolation_by_store.

(* ... and the assumption is necessary: two indexes whose configurations name ONE store, with
   one key for a text and different models - the second index gets the first model's vector *)
Theorem C19_cache_shared_store_refuted :
  forall (text key vec : Type)
         (text_eq_dec : forall a b : text, {a = b} + {a <> b})
         (key_eq_dec : forall a b : key, {a = b} + {a <> b})
         (a b : index text key vec) (t : text),
    ix_sid a = ix_sid b -> ix_kg a t = ix_kg b t -> ix_emb a t <> ix_emb b t ->
    fst (mcall text_eq_dec key_eq_dec (mrun text_eq_dec key_eq_dec no_stores [(a, [t])]) b [t])
    = [Some (ix_emb a t)] /\
    fst (mcall text_eq_dec key_eq_dec (mrun text_eq_dec key_eq_dec no_stores [(a, [t])]) b [t])
    <> map (fun t => Some (ix_emb b t)) [t].
Proof. exact multi_shared_store_refuted. Qed.
Print Assumptions C19_cache_shared_store_refuted.

(* batching, safety: for every max_batch_size >= 1, every cache mode, every key generator
   injective on the texts in play, every consistent initial store and EVERY schedule of enabled
   steps (arrivals, timer expiry, model latency, task interleaving), a request that has
   returned has returned the embedding of its own text, and no task has raised or spins *)
Theorem C19_batch_safety :
  forall (text key vec : Type)
         (text_eq_dec : forall a b : text, {a = b} + {a <> b})
         (key_eq_dec : forall a b : key, {a = b} + {a <> b})
         (kg : text -> key) (emb : text -> vec) (max_batch_size : nat) (cmode : cache_mode)
         (P : text -> Prop),
    1 <= max_batch_size -> inj_on kg P ->
    forall (texts : list text) (st : store key vec) (sched : list label) (s : state text key vec),
      Forall P texts -> consistent key_eq_dec kg emb P st ->
      exec text_eq_dec key_eq_dec kg emb max_batch_size cmode sched (init texts st) = Some s ->
      (forall i t r, nth_error (reqs s) i = Some (t, RDone r) ->
                     nth_error texts i = Some t /\ r = Some (emb t)) /\
      no_error text key vec s.
Proof. exact batch_safety. Qed.
Print Assumptions C19_batch_safety.

(* without a cache nothing at all is assumed about key generators *)
Theorem C19_batch_safety_nocache :
  forall (text vec : Type) (text_eq_dec : forall a b : text, {a = b} + {a <> b})
         (emb : text -> vec) (max_batch_size : nat),
    1 <= max_batch_size ->
    forall (texts : list text) (sched : list label) (s : state text text vec),
      exec text_eq_dec text_eq_dec (fun t => t) emb max_batch_size CacheOff sched (init texts []) = Some s ->
      (forall i t r, nth_error (reqs s) i = Some (t, RDone r) ->
                     nth_error texts i = Some t /\ r = Some (emb t)) /\
      no_error text text vec s.
Proof. exact batch_safety_nocache. Qed.
Print Assumptions C19_batch_safety_nocache.

(* the safety invariant (req_results[id] = emb(queue text of id), ids unique, batch boundaries
   consistent: see Record Inv in Svc/Batch_proofs.v) is inductive *)
Theorem C19_batch_invariant :
  forall (text key vec : Type)
         (text_eq_dec : forall a b : text, {a = b} + {a <> b})
         (key_eq_dec : forall a b : key, {a = b} + {a <> b})
         (kg : text -> key) (emb : text -> vec) (max_batch_size : nat) (cmode : cache_mode)
         (P : text -> Prop),
    1 <= max_batch_size -> inj_on kg P ->
    forall (l : label) (s s' : state text key vec),
      Inv text key vec text_eq_dec key_eq_dec kg emb cmode P s ->
      step text_eq_dec key_eq_dec kg emb max_batch_size cmode l s = Some s' ->
      Inv text key vec text_eq_dec key_eq_dec kg emb cmode P s'.
Proof. exact Inv_step. Qed.
Print Assumptions C19_batch_invariant.

(* every atomic step strictly decreases a measure (unsubmitted requests, pending batches,
   runnable waiters): no schedule makes infinitely many steps *)
Theorem C19_batch_steps_bounded :
  forall (text key vec : Type)
         (text_eq_dec : forall a b : text, {a = b} + {a <> b})
         (key_eq_dec : forall a b : key, {a = b} + {a <> b})
         (kg : text -> key) (emb : text -> vec) (max_batch_size : nat) (cmode : cache_mode),
    1 <= max_batch_size ->
    forall (l : label) (s s' : state text key vec),
    step text_eq_dec key_eq_dec kg emb max_batch_size cmode l s = Some s' ->
    measure text key vec s' < measure text key vec s.
Proof. exact step_decreases. Qed.
Print Assumptions C19_batch_steps_bounded.

(* in a reachable state where some request has not returned, some step is enabled (no
   deadlock: no lost wake-up on _current_batch_submitted or on a finished event) *)
Theorem C19_batch_no_deadlock :
  forall (text key vec : Type)
         (text_eq_dec : forall a b : text, {a = b} + {a <> b})
         (key_eq_dec : forall a b : key, {a = b} + {a <> b})
         (kg : text -> key) (emb : text -> vec) (max_batch_size : nat) (cmode : cache_mode)
         (P : text -> Prop) (s : state text key vec),
    Inv text key vec text_eq_dec key_eq_dec kg emb cmode P s -> all_done s = false ->
    exists l, enabled text_eq_dec key_eq_dec kg emb max_batch_size cmode l s = true.
Proof. exact progress. Qed.
Print Assumptions C19_batch_no_deadlock.

(* batching, liveness: under every WEAKLY FAIR infinite schedule (an enabled step - timer
   expiry, model return, a runnable task - is eventually taken or disabled) a state is reached
   in which every request has returned the embedding of its own text.  Real time is not
   modelled. *)
Theorem C19_batch_liveness :
  forall (text key vec : Type)
         (text_eq_dec : forall a b : text, {a = b} + {a <> b})
         (key_eq_dec : forall a b : key, {a = b} + {a <> b})
         (kg : text -> key) (emb : text -> vec) (max_batch_size : nat) (cmode : cache_mode)
         (P : text -> Prop),
    1 <= max_batch_size -> inj_on kg P ->
    forall (texts : list text) (st : store key vec) (sched : nat -> label),
      Forall P texts -> consistent key_eq_dec kg emb P st ->
      weakly_fair text key vec text_eq_dec key_eq_dec kg emb max_batch_size cmode sched (init texts st) ->
      exists m, forall i t, nth_error texts i = Some t ->
        nth_error (reqs (run text_eq_dec key_eq_dec kg emb max_batch_size cmode sched (init texts st) m)) i
        = Some (t, RDone (Some (emb t))).
Proof. exact batch_liveness. Qed.
Print Assumptions C19_batch_liveness.

(* non-vacuity: a concrete three-request interleaving (queue-full wait, two batches in flight,
   answers out of order) satisfies the hypotheses of safety and of liveness *)
Theorem C19_example_schedule_completes :
  exec3 sched3 s0_3 = Some final3 /\ all_done final3 = true.
Proof. exact ex_exec3. Qed.
Print Assumptions C19_example_schedule_completes.

Theorem C19_example_fair_schedule :
  weakly_fair nat nat nat Nat.eq_dec Nat.eq_dec (fun t : nat => t) emb3 2 CacheOff isched3 s0_3.
Proof. exact ex_fair3. Qed.
Print Assumptions C19_example_fair_schedule.
