(* C09 - "every action referenced by a running flow still exists": the action table
   State.actions against the references held by the flow instances (FlowState.action_uids and the
   action lists of FlowState.scopes).

   State: the keys of State.actions and, per instance, whether it is listening (a running flow)
   and the action uids it references.  Operations = the mutations of State.actions the code
   performs (`state.actions.update`, `del state.actions[uid]`, the rebuild
   `state.actions = new_action_dict` of _clean_up_state) plus the observed changes of the
   references/status of an instance and the removal of an instance.  Side conditions = the
   discipline: an action is removed only if no listening instance references it; a listening
   instance only references existing actions.  harness/c09.py logs these operations on every
   real run (traced dict for State.actions; references re-read from the real State right
   before every mutation of the table) and replays them here (check_aseg). *)
From Coq Require Import NArith List Bool.
From NG Require Import V2.Index.
Import ListNotations.
Open Scope N_scope.

Record astate := mkA {
  a_actions : list uid;                       (* keys of State.actions *)
  a_insts : list (uid * (bool * list uid))    (* instance -> (is_listening, referenced actions) *)
}.

Definition empty_astate : astate := mkA [] [].

Inductive aop :=
| AAddAction (a : uid)                         (* state.actions.update({a: ...}) *)
| ADelAction (a : uid)                         (* del state.actions[a] *)
| AReplaceActions (keep : list uid)            (* state.actions = new dict (clean-up) *)
| ASetInst (f : uid) (lis : bool) (refs : list uid)   (* status / references of f as now observed *)
| ADropInst (f : uid).                         (* del state.flow_states[f] *)

Definition subsetb (l m : list uid) : bool := forallb (fun x => memN x m) l.

(* every listening instance only references actions of `acts` *)
Definition refs_okb (acts : list uid) (insts : list (uid * (bool * list uid))) : bool :=
  forallb (fun p : uid * (bool * list uid) => if fst (snd p) then subsetb (snd (snd p)) acts else true) insts.

Definition astep (s : astate) (o : aop) : option astate :=
  match o with
  | AAddAction a =>
      Some (mkA (if memN a (a_actions s) then a_actions s else a_actions s ++ [a]) (a_insts s))
  | ADelAction a =>
      if memN a (a_actions s) then
        let acts := filter (fun x => negb (N.eqb x a)) (a_actions s) in
        (* removed only if no listening instance references it *)
        if refs_okb acts (a_insts s) then Some (mkA acts (a_insts s)) else None
      else None                                 (* KeyError *)
  | AReplaceActions keep =>
      if refs_okb keep (a_insts s) then Some (mkA keep (a_insts s)) else None
  | ASetInst f lis refs =>
      if lis && negb (subsetb refs (a_actions s)) then None
      else Some (mkA (a_actions s) (aset N.eqb (a_insts s) f (lis, refs)))
  | ADropInst f => Some (mkA (a_actions s) (adel N.eqb (a_insts s) f))
  end.

Fixpoint arun (s : astate) (ops : list aop) : option astate :=
  match ops with
  | [] => Some s
  | o :: t => match astep s o with Some s' => arun s' t | None => None end
  end.

Fixpoint arun_diag (s : astate) (ops : list aop) (i : N) : option N :=
  match ops with
  | [] => None
  | o :: t => match astep s o with Some s' => arun_diag s' t (i + 1) | None => Some i end
  end.

(* order-insensitive comparison with a snapshot of the real State *)
Definition list_sameb (l m : list uid) : bool := subsetb l m && subsetb m l.

Definition inst_sameb (p q : bool * list uid) : bool :=
  Bool.eqb (fst p) (fst q) && list_sameb (snd p) (snd q).

Definition insts_subb (l m : list (uid * (bool * list uid))) : bool :=
  forallb (fun p : uid * (bool * list uid) =>
             match aget N.eqb m (fst p) with
             | Some q => inst_sameb (snd p) q
             | None => false
             end) l.

Definition astate_sameb (s t : astate) : bool :=
  list_sameb (a_actions s) (a_actions t)
  && insts_subb (a_insts s) (a_insts t) && insts_subb (a_insts t) (a_insts s).

Definition aseg := (astate * list aop * astate)%type.

Definition check_aseg (c : aseg) : bool :=
  let '(s0, ops, s1) := c in
  refs_okb (a_actions s0) (a_insts s0)
  && match arun s0 ops with
     | Some s' => astate_sameb s' s1
     | None => false
     end.

Definition diag_aseg (c : aseg) : option N * option astate :=
  let '(s0, ops, s1) := c in (arun_diag s0 ops 0, arun s0 ops).

(* sanity: two flows share action 7; the finished owner is cleaned up; the action must stay *)
Example shared_action_survives_cleanup :
  arun empty_astate
    [ASetInst 1 true []; ASetInst 2 true []; AAddAction 7; AAddAction 8;
     ASetInst 1 true [7]; ASetInst 2 true [7]; ADelAction 8;
     ASetInst 1 false [7]; ADropInst 1; AReplaceActions [7]]
  = Some (mkA [7] [(2, (true, [7]))]).
Proof. vm_compute. reflexivity. Qed.

(* ... and dropping it together with the finished owner is not a step *)
Example shared_action_dropped_is_no_step :
  arun empty_astate
    [ASetInst 1 true []; ASetInst 2 true []; AAddAction 7;
     ASetInst 1 true [7]; ASetInst 2 true [7];
     ASetInst 1 false [7]; ADropInst 1; AReplaceActions []]
  = None.
Proof. vm_compute. reflexivity. Qed.
