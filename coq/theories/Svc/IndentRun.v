(* C13 - executable instances of the layout models for the correspondence check. *)
From Coq Require Import NArith List Bool.
From NG Require Import Gen.C13Consts Svc.Indent Svc.V1Lines.
Import ListNotations.
Open Scope N_scope.

(* Colang 2.x: segments of a real text vs the streams recorded around the real PythonIndenter
   while the real parser ran: the _NEWLINE tokens it received (spaces, tabs after the last
   line break) and what it yielded / raised. *)
Inductive expected :=
| ELexError
| EStream (nls : list (N * N)) (o : list otok) (e : option ierr).

Definition nl_of (t : tok) : list (N * N) := match t with TNL sp tb => [(sp, tb)] | _ => [] end.

Definition pair_eqb (a b : N * N) : bool := (fst a =? fst b) && (snd a =? snd b).

Fixpoint list_eqb {A : Type} (eqb : A -> A -> bool) (x y : list A) : bool :=
  match x, y with
  | [], [] => true
  | a :: x', b :: y' => eqb a b && list_eqb eqb x' y'
  | _, _ => false
  end.

Definition otok_eqb (a b : otok) : bool :=
  match a, b with
  | ONL, ONL | OIndent, OIndent | ODedent, ODedent | OOpen, OOpen | OClose, OClose => true
  | OOther i, OOther j => i =? j
  | _, _ => false
  end.

Definition ierr_eqb (a b : option ierr) : bool :=
  match a, b with
  | None, None | Some DedentError, Some DedentError | Some ParenAssertion, Some ParenAssertion => true
  | _, _ => false
  end.

(* the real parser stops reading at its own first error, so the recorded streams may be
   PREFIXES of the model's (flag `complete` = the real run consumed the whole stream) *)
Fixpoint prefix_eqb {A : Type} (eqb : A -> A -> bool) (p x : list A) : bool :=
  match p, x with
  | [], _ => true
  | a :: p', b :: x' => eqb a b && prefix_eqb eqb p' x'
  | _, _ => false
  end.

Definition check_layout (c : list seg * bool * expected) : bool :=
  let '(ss, complete, ex) := c in
  match lex_file ignore_tab_now ss, ex with
  | None, ELexError => true
  | Some ts, EStream nls o e =>
      let '(mo, me) := process tab_len_now ts 0 [] in
      if complete
      then list_eqb pair_eqb (flat_map nl_of ts) nls && list_eqb otok_eqb mo o && ierr_eqb me e
      else prefix_eqb pair_eqb nls (flat_map nl_of ts) && prefix_eqb otok_eqb o mo
           && match e with None => true | Some _ => ierr_eqb me e && list_eqb otok_eqb mo o end
  | _, _ => false
  end.

(* Colang 1.0: raw lines vs get_numbered_lines: (number, indentation, text if comparable) *)
Definition ch_eqb (a b : ch) : bool :=
  match a, b with
  | CSp, CSp | CTab, CTab | CHash, CHash => true
  | CChr x, CChr y => x =? y
  | _, _ => false
  end.

Definition v1_line_ok (m : nline) (e : N * N * option (list ch)) : bool :=
  let '(num, ind, txt) := e in
  (n_number m =? num) && (n_ind m =? ind) &&
  match txt with None => true | Some t => list_eqb ch_eqb (n_text m) t end.

Fixpoint all2 {A B : Type} (f : A -> B -> bool) (x : list A) (y : list B) : bool :=
  match x, y with
  | [], [] => true
  | a :: x', b :: y' => f a b && all2 f x' y'
  | _, _ => false
  end.

(* expected None: get_numbered_lines raised IndexError *)
Definition check_v1 (c : list (list ch) * option (list (N * N * option (list ch)))) : bool :=
  match pre_c (fst c), snd c with
  | Some m, Some e => all2 v1_line_ok m e
  | None, None => true
  | _, _ => false
  end.

(* the pending comment: (comment lines as characters) per statement, for texts without continuations *)
Definition cm_eqb (a b : comment) : bool :=
  match a, b with
  | None, None => true
  | Some x, Some y => list_eqb (list_eqb ch_eqb) x y
  | _, _ => false
  end.

Definition check_v1cm (c : list (list ch) * list (N * comment)) : bool :=
  all2 (fun (m : nline * comment) (e : N * comment) => (n_number (fst m) =? fst e) && cm_eqb (snd m) (snd e))
       (pre_cm (fst c)) (snd c).

