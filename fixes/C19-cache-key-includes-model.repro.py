"""C19 defect on the unchanged code: two BasicEmbeddingsIndex objects with the DEFAULT enabled
cache configuration (md5 keys, filesystem store, cache_dir ".cache/embeddings") and different
embedding models share one store keyed by md5(text) only: the second index is served the first
model's vectors.  Run in an empty working directory:

    cd $(mktemp -d) && PYTHONPATH=<repo> /venv/bin/python /verif/fixes/C19-cache-key-includes-model.repro.py

exit 1 = defect present, exit 0 = each index gets its own model's vectors.
"""
import asyncio
import sys

from nemoguardrails.embeddings.basic import BasicEmbeddingsIndex


class FakeModel:
    def __init__(self, m):
        self.m = m

    async def encode_async(self, texts):
        return [[float(self.m), float(len(t))] for t in texts]


async def main():
    a = BasicEmbeddingsIndex(embedding_model="model-A", embedding_engine="fake", cache_config={"enabled": True})
    b = BasicEmbeddingsIndex(embedding_model="model-B", embedding_engine="fake", cache_config={"enabled": True})
    a._model, b._model = FakeModel(1), FakeModel(2)
    texts = ["what can you do?", "", "what can you do?"]
    ra = await a._get_embeddings(list(texts))
    rb = await b._get_embeddings(list(texts))
    want_a = [[1.0, float(len(t))] for t in texts]
    want_b = [[2.0, float(len(t))] for t in texts]
    print("index A:", ra)
    print("index B:", rb)
    if ra != want_a or rb != want_b:
        print("C19 VIOLATED: index B was served model A's vectors" if rb == want_a else "C19 VIOLATED")
        return 1
    return 0


sys.exit(asyncio.run(main()))
