(* C06 - Flow and action lifetimes are bounded by the parent flow (Colang 2).
   Property theorems only; every proof is `exact <lemma>`; Print Assumptions beneath each.

   Model: V2/Life.v - transcriptions of _abort_flow (`abort`), _finish_flow (`finish`), the
   EndScope case of slide (`end_scope`), _update_action_status_by_event (`action_event`) and
   the end-of-slide guard of _advance_head_front (`end_of_slide`).  The model is tied to
   statemachine.py on every run by (T) Gen/LifeConsts.v (shape of the three Stop guards, the
   release of shared actions at a scope end) and (X) the function-level snapshot
   correspondence of harness/c06.py.

   All theorems hold for ANY number of instances and actions and any depth of the hierarchy.
   `ranked rk s` = the children relation is well-founded (checked on every real pre-state by
   the harness); `abort n .. = Ok s'` excludes the out-of-fuel result, which `C06_fuel_sufficient`
   shows cannot occur with fuel above the rank. *)
From Coq Require Import ZArith NArith List Bool.
From NG Require Import Gen.LifeConsts V2.Life V2.Life_proofs V2.Life_scope V2.Life_fuel V2.Life_now
                       V2.Life_examples V2.Life_count V2.Life_activation V2.Life_activation_examples V2.Life_cleanup.
Import ListNotations.
Open Scope N_scope.

(* (T) the current source has the modelled Stop guards and releases shared actions at a scope end *)
Theorem C06_source_shape : stop_guards_checked = true /\ scope_release_shared = true.
Proof. exact source_shape. Qed.
Print Assumptions C06_source_shape.

(* After _abort_flow / _finish_flow of a running instance f (run to the end of the recursion) f is
   not running and no flow started by f - transitively, through running instances, activated
   flows excluded - is listening. *)
Theorem C06_children_stop :
  (forall rk n s f d s',
     ranked rk s -> abort n s f d = Ok s' -> proceeds s f d = true -> lv s f = true ->
     lv s' f = false /\ forall x, started_by s f x -> lst s' x = false) /\
  (forall rk n s f d s',
     ranked rk s -> finish n s f d = Ok s' -> proceeds s f d = true -> lst s f = true ->
     forall x, started_by s f x -> lst s' x = false).
Proof. exact (conj abort_children_stop finish_children_stop). Qed.
Print Assumptions C06_children_stop.

(* Stop events of one _abort_flow / _finish_flow: per action at most one; exactly for the actions
   that were STARTING/STARTED and are STOPPING with count 0 afterwards; only inside the subtree;
   every unfinished action of the ending instance gives up one share - the last share (count 1)
   means exactly one Stop, an action still shared (count stays positive) gets none. *)
Theorem C06_stop_once :
  (forall n, stop_once_statement (abort n) live) /\
  (forall n, stop_once_statement (finish n) listening).
Proof. exact (conj abort_stop_once finish_stop_once). Qed.
Print Assumptions C06_stop_once.

(* Over ANY sequence of the modelled operations (abort, finish, scope end, action events other
   than a second Start) no action is ever sent a second Stop, and every Stop is emitted for an
   action that is STARTING or STARTED at that moment (never INITIALIZED, STOPPING, FINISHED). *)
Theorem C06_no_spurious_stop :
  (forall rk rel fuel ops s s',
     ranked rk s -> Forall allowed ops -> lrun rel fuel ops s = Ok s' -> out s = [] ->
     forall a, (nstops a (out s') <= 1)%nat) /\
  (forall rk rel fuel s o s',
     ranked rk s -> lstep rel fuel s o = Ok s' ->
     exists delta, out s' = out s ++ delta /\
       forall a, (nstops a delta >= 1)%nat ->
         (exists c, geta s a = Some c /\ active (a_status c) = true) /\
         geta s' a = Some (mkAct AStopping 0%Z)).
Proof.
  exact (conj (fun rk rel fuel ops s s' Hr Ha H Ho a =>
                 proj1 (trace_stop_once rk rel fuel ops s s' Hr Ha H (StopInv_nil s Ho) a))
              step_stop_only_active).
Qed.
Print Assumptions C06_no_spurious_stop.

(* A late ActionStarted after the Stop is one of the ALLOWED operations of C06_no_spurious_stop
   (`LEvent KStarted a`; only a second Start is excluded): it puts the action back to STARTED with
   count 0.  What protects it is the guard `== 0`: below or at 0 a release only decrements
   (0 -> -1 -> ...), emits nothing and keeps the count <= 0. *)
Theorem C06_late_started_no_second_stop :
  (forall k a, k <> KStart -> allowed (LEvent k a)) /\
  (forall s a c s',
     geta s a = Some c -> (a_count c <= 0)%Z -> stop_action s a = Ok s' ->
     out s' = out s /\
     exists c', geta s' a = Some c' /\ (a_count c' <= 0)%Z /\
                (active (a_status c) = true -> a_count c' = (a_count c - 1)%Z /\ a_status c' = a_status c)).
Proof. exact (conj (fun k a H => match k as k0 return k0 <> KStart -> allowed (LEvent k0 a) with
                                  | KStart => fun H0 => False_ind _ (H0 eq_refl) | _ => fun _ => I end H)
                   stop_action_below_zero). Qed.
Print Assumptions C06_late_started_no_second_stop.

(* regression documentation: with the guard `flow_scope_count <= 0` (which agrees with `== 0` on
   every positive count) scope end + late ActionStarted + end of the flow send TWO Stops *)
Theorem C06_stop_guard_le_refuted :
  (forall s a c, geta s a = Some c -> (0 < a_count c)%Z -> stop_action_le s a = stop_action s a) /\
  stop_guard_le_two_stops.
Proof. exact (conj stop_action_le_agrees stop_guard_le_witness). Qed.
Print Assumptions C06_stop_guard_le_refuted.

(* EndScope, with the release as read from the current source: stops exactly the flows and
   actions registered in the scope; a shared action that keeps running is no longer held by the
   flow (no second release); everything else is unchanged. *)
Theorem C06_scope_end : scope_end_statement.
Proof. exact scope_end_now. Qed.
Print Assumptions C06_scope_end.

(* Whole-state frame: instances outside the subtree of f keep every field (their children lists
   lose only instances of the subtree), actions not owned inside the subtree are unchanged, and
   everything emitted concerns the subtree. *)
Theorem C06_frame :
  (forall rk n s f d s', ranked rk s -> abort n s f d = Ok s' -> frame (reach s f) (owned s f) s s') /\
  (forall rk n s f d s', ranked rk s -> finish n s f d = Ok s' -> frame (reach s f) (owned s f) s s').
Proof. exact (conj abort_frame finish_frame). Qed.
Print Assumptions C06_frame.

(* ACTIVATION.  StartFlow processing (START_FLOW branch of
   _process_internal_events_without_default_matchers incl. both done-source guards,
   _get_reference_activated_flow_instance with the parameter comparison `pm` abstract, and
   _start_flow) is part of the model (`start_flow`), tied by the same snapshot correspondence.

   THE INVARIANT, over ANY sequence of the modelled operations - a StartFlow event is processed
   (start / activate / queued restart), an instance fails or is stopped, an instance finishes,
   a scope ends, action events, status moves:
     for every reference instance r (linked to a parent of another flow) whose count is not 0,
       activated(r) = number of child-list entries of LIVE instances that refer to r        (CntInv)
   together with: unique uids, child entries and parents exist, the hierarchy is well-founded, and an
   entry of the same flow in a child list is a restarted instance linked to that parent (famk).
   Side conditions of a run (`aoks`): the uid of a new instance is fresh; a start sent by an
   instance of ANOTHER flow carries the marker 0 or 1 (`activate` sends True; only restarts carry
   the count - checked on every real StartFlow event by the harness); a (re-)activation keeps the
   hierarchy well-founded (checked on every real state); the flow that finishes is not the main flow
   (which restarts in place and keeps its child entries - every activator is one of its descendants
   and ends with it; `finish_main` below). *)
Theorem C06_activation_count :
  forall rel fuel l s s',
    Inv s -> famk s -> arun rel fuel l s = Ok s' -> aoks rel fuel l s -> Inv s' /\ famk s'.
Proof. exact arun_inv_fam. Qed.
Print Assumptions C06_activation_count.

(* ... and the same with the clean-up of old instances (_clean_up_state, at the start of every
   run_to_completion; `aged` = older than 5 s, the clock is external) among the operations, for the
   clean-up AS READ FROM THE CURRENT SOURCE: it must never discard the parent of an instance that is
   running or still activated (translator flag; without it this obligation does not check).  What it
   discards is ended, has count 0 and is nobody's needed parent. *)
Theorem C06_cleanup :
  (forall rel fuel l s s',
     Inv s -> famk s -> brun cleanup_keeps_needed_parents rel fuel l s = Ok s' ->
     boks cleanup_keeps_needed_parents rel fuel l s -> Inv s' /\ famk s') /\
  (forall aged s s',
     cleanup true aged s = Ok s' -> Inv s ->
     forall u i, getf s u = Some i -> getf s' u = None ->
       done (i_status i) = true /\ i_activated i = 0%Z /\
       (forall x xi, getf s x = Some xi -> i_parent xi = Some u -> needs_parent xi -> False)).
Proof. exact (conj brun_now_inv cleanup_discards). Qed.
Print Assumptions C06_cleanup.

(* regression documentation: a clean-up WITHOUT that side condition discards the ended first activator
   (the parent of the reference instance); the end of the last activator then raises KeyError *)
Theorem C06_cleanup_unguarded_refuted : cleanup_unguarded_loses_link.
Proof. exact cleanup_unguarded_witness. Qed.
Print Assumptions C06_cleanup_unguarded_refuted.

(* The three clauses of the property text.
   (a) An instance that ends by itself emits, as its last events, FlowFailed / FlowFinished followed
       by exactly the restart (StartFlow pushed left, source = its reference instance, marker = its
       count) iff it is activated and has not already started its next instance; ended by an
       activator (d = true) it is not restarted; nothing emitted before concerns f [a1, a2].  When
       that restart is processed while the flow is still activated it creates the new instance
       (WAITING = listening) and links it under a reference instance of the flow whose count is not
       0, with the count as marker [a3].
   (b) An activated flow that reaches its end without ever having waited (status STARTING) is marked
       STARTED and is NOT finished: it runs once, no restart, the count is untouched [b].
   (c) An activator ends while others remain: only the count is decremented [c0].  THE LAST
       ACTIVATOR ENDS - after an instance failed / finished no live instance holds an entry of r any
       more: the count of r is 0, r is not listening and the restarted instances under r are not
       listening [c1]; a restart that is still queued then is dropped, nothing is created [c2]; so
       is a start / activation queued by a sender that has ended meanwhile [c3]. *)
Theorem C06_activation :
  (* a1 *)
  (forall rk n s f d s' i,
     ranked rk s -> abort n s f d = Ok s' -> proceeds s f d = true -> getf s f = Some i ->
     live (i_status i) = true ->
     exists pre, out s' = out s ++ pre ++ EFailed f :: (if d then [] else restart_events s i f) /\
                 Forall (emit_ok (below rk f) anyA) pre) /\
  (* a2 *)
  (forall rk n s f d s' i,
     ranked rk s -> finish n s f d = Ok s' -> proceeds s f d = true -> getf s f = Some i ->
     listening (i_status i) = true -> i_flow i <> main_id ->
     exists pre, out s' = out s ++ pre ++ EFinished f :: (if d then [] else restart_events s i f) /\
                 Forall (emit_ok (below rk f) anyA) pre) /\
  (* a3 *)
  (forall pm s r ri e,
     Inv s -> getf s r = Some ri -> refshape s r -> i_activated ri <> 0%Z -> pm r = true ->
     i_flow ri <> main_id ->
     sf_flow e = i_flow ri -> sf_src e = Some r -> sf_activated e <> 0%Z -> getf s (sf_uid e) = None ->
     exists s' r0 r0i,
       start_flow pm s e = Ok s' /\
       getf s r0 = Some r0i /\ i_flow r0i = i_flow ri /\ i_activated r0i <> 0%Z /\ refshape s r0 /\
       getf s' (sf_uid e) = Some (mkInst (i_flow ri) FWaiting (Some r0) [] [] [] (sf_activated e) false) /\
       getf s' r0 = Some (add_child (sf_uid e) r0i) /\
       lst s' (sf_uid e) = true) /\
  (* b *)
  (forall activated waiting,
     (0 < activated)%Z -> end_of_slide FStarting activated true waiting = (FStarted, true, false)) /\
  (* c0 *)
  (forall n s f i,
     getf s f = Some i -> is_ref_activated s i = Ok true -> i_activated i <> 1%Z ->
     abort (S n) s f true = Ok (modf s f (set_activated (i_activated i - 1)%Z)) /\
     finish n s f true = Ok (modf s f (set_activated (i_activated i - 1)%Z))) /\
  (* c1 *)
  (forall rel fuel s o s' r,
     Inv s -> famk s -> (match o with AAbort _ _ | AFinish _ => True | _ => False end) ->
     astep rel fuel s o = Ok s' -> aok s o s' ->
     refshape s r -> (0 < act s r)%Z -> E s' r = 0%Z ->
     act s' r = 0%Z /\ family_down s s' r) /\
  (* c2 *)
  (forall pm s r ri e,
     getf s r = Some ri -> done (i_status ri) = true -> i_activated ri = 0%Z ->
     sf_src e = Some r -> sf_activated e <> 0%Z -> start_flow pm s e = Ok s) /\
  (* c3 *)
  (forall pm s p pi e,
     getf s p = Some pi -> done (i_status pi) = true -> i_flow pi <> sf_flow e -> sf_src e = Some p ->
     start_flow pm s e = Ok s).
Proof.
  exact (conj abort_emits (conj finish_emits (conj restart_processed (conj end_of_slide_activated
        (conj deactivate_not_last (conj last_activator_ends (conj queued_restart_dropped
        queued_start_of_ended_sender_dropped))))))).
Qed.
Print Assumptions C06_activation.

(* What the counting theorem deliberately does NOT cover, kept visible:
   (1) the main flow restarts in place (status WAITING) and keeps its child entries;
   (2) a top-level deactivation of one instance (count 1: the instance and its restarted instances
       stop; this is what the end of the last activator calls);
   (3) an EXPLICIT deactivation (`deactivate X` / StopFlow(.., deactivate=True) = a top-level
       _abort_flow(X, deactivate_flow=True)) decrements the count but leaves the entry of the activator
       in place: afterwards count < entries (vm_compute witness) - the invariant is about flows that
       END, as the property text is. *)
Theorem C06_activation_partial :
  (forall rk n s f d s' i,
     ranked rk s -> finish n s f d = Ok s' -> proceeds s f d = true -> getf s f = Some i ->
     listening (i_status i) = true -> i_flow i = main_id ->
     (exists i', getf s' f = Some i' /\ i_status i' = FWaiting) /\
     exists pre, out s' = out s ++ pre /\ Forall (emit_ok (below rk f) anyA) pre) /\
  (forall rk n s f s' i,
     ranked rk s -> getf s f = Some i -> is_ref_activated s i = Ok true -> i_activated i = 1%Z ->
     abort n s f true = Ok s' ->
     (lv s' f = false /\ exists i', getf s' f = Some i' /\ i_activated i' = 0%Z) /\
     forall c ci, In c (i_children i) -> getf s c = Some ci -> i_flow ci = i_flow i ->
       i_parent ci = Some f -> lst s' c = false) /\
  explicit_deactivation_breaks_count.
Proof.
  exact (conj finish_main
        (conj (fun rk n s f s' i Hr E Href H1 H =>
                 conj (deactivate_last rk n s f s' i Hr E Href H1 H)
                      (deactivate_last_children rk n s f s' i Hr E Href H1 H))
              explicit_deactivation_witness)).
Qed.
Print Assumptions C06_activation_partial.

(* _abort_flow called with the optional keyword restart_flow=False (a tree may pass it for an
   activated flow that fails before it ever waited): children stop and the whole-state relation
   behind C06_stop_once / C06_frame hold unchanged, and no restart of f is emitted. *)
Theorem C06_abort_without_restart :
  (forall rk r n s f d s',
     ranked rk s -> abort_top r n s f d = Ok s' -> proceeds s f d = true -> lv s f = true ->
     lv s' f = false /\ forall x, started_by s f x -> lst s' x = false) /\
  (forall rk r n (R A : uid -> Prop) s f d s',
     ranked rk s -> closed R s -> owns R A s -> R f -> abort_top r n s f d = Ok s' -> Srel R A s s') /\
  (forall rk n s f d s',
     ranked rk s -> abort_top false n s f d = Ok s' ->
     exists delta, out s' = out s ++ delta /\ forall src v, ~ In (ERestart f src v) delta) /\
  (forall n s f d, abort_top true n s f d = abort n s f d).
Proof. exact (conj abort_top_children_stop (conj abort_top_srel (conj abort_top_no_restart abort_top_true))). Qed.
Print Assumptions C06_abort_without_restart.

(* out of fuel = the children relation is not well-founded *)
Theorem C06_fuel_sufficient :
  (forall rk n s f d, ranked rk s -> (rk f < n)%nat -> abort n s f d <> Err EFuel) /\
  (forall rk n s f d, ranked rk s -> (rk f <= n)%nat -> finish n s f d <> Err EFuel).
Proof. exact (conj abort_nofuel finish_nofuel). Qed.
Print Assumptions C06_fuel_sufficient.

(* regression documentation: WITHOUT the release at a scope end a Stop is sent for an action that
   a still-running flow holds (the defect repaired by _release_shared_action) *)
Theorem C06_release_missing_refuted : stop_while_shared false.
Proof. exact release_missing_witness. Qed.
Print Assumptions C06_release_missing_refuted.
