(* C16 - Generation options run exactly the selected rail categories (Colang 1.0).
   Property theorems only; every proof is `exact <lemma>`; Print Assumptions beneath each.
   Models: Pipe/Options.v (options.py, generate_async injection, llm_flows.co guards),
   Pipe/GenLog.v (compute_generation_log); constants of processing_log.py / options.py are the
   ones READ FROM THE CURRENT SOURCE (Gen/C16Consts.v). *)
From Coq Require Import String List Bool.
From Coq Require Import ZArith.
From NG Require Import Gen.C16Consts Pipe.GenLog Pipe.GenLog_proofs Pipe.Options Pipe.Options_proofs
                       Pipe.OptionsLog_proofs
                       Pipe.FlowCheck Pipe.FlowCheck_proofs Pipe.OptGuards Pipe.OptGuardsEnv Pipe.OptGuards_proofs Gen.C01Flows Gen.C16Flows.
Import ListNotations.
Open Scope string_scope.
Open Scope list_scope.

(* (T) the option tables of options.py: no `rails` key = all four categories; the list form
   enables exactly the listed categories *)
Theorem C16_option_forms :
  parse_rails RAbsent = mkO true true true true /\
  parse_rails (RList []) = mkO false false false false /\
  parse_rails (RList ["input"]) = mkO true false false false /\
  parse_rails (RList ["input"; "output"]) = mkO true false false true /\
  parse_rails (RList ["output"]) = mkO false false false true /\
  parse_rails (RList ["input"; "dialog"; "retrieval"; "output"]) = parse_rails RAbsent.
Proof. exact (conj eq_refl (conj eq_refl (conj eq_refl (conj eq_refl (conj eq_refl eq_refl))))). Qed.
Print Assumptions C16_option_forms.

(* disabled categories make no calls; without dialog rails there is no LLM generation.
   For every configuration, verdict function, text, options value - in the table or not. *)
Theorem C16_table_disabled :
  forall iv ov llm_text refusal predefined c o user bot,
    let r := turn iv ov llm_text refusal predefined c (Some o) user bot in
    (o_input o = false -> forall cl, In cl (calls r) -> k_cat cl <> CIn) /\
    (o_output o = false -> forall cl, In cl (calls r) -> k_cat cl <> COut) /\
    (o_retrieval o = false -> forall cl, In cl (calls r) -> k_cat cl <> CRet) /\
    (o_dialog o = false -> llm r = []).
Proof. exact disabled_no_calls. Qed.
Print Assumptions C16_table_disabled.

(* row "input only": no LLM call; the reply is the text the input rails let through
   (`rails_rel`: first rejection blocks, rewrites are threaded) or the refusal *)
Theorem C16_table_input_only :
  forall iv ov llm_text refusal predefined c o user bot,
    o_dialog o = false -> o_output o = false ->
    let r := turn iv ov llm_text refusal predefined c (Some o) user bot in
    llm r = [] /\
    (o_input o = false -> answer r = RText user) /\
    (o_input o = true ->
       exists res, rails_rel iv 0 (c_in c) user res /\
                   answer r = RText (match res with Passed t => t | Blocked _ => refusal end)).
Proof. exact input_only. Qed.
Print Assumptions C16_table_input_only.

(* ... literally: the unchanged user text, a rewritten text, or the refusal *)
Theorem C16_table_input_only_membership :
  forall iv ov llm_text refusal predefined c o user bot,
    o_dialog o = false -> o_output o = false ->
    let r := turn iv ov llm_text refusal predefined c (Some o) user bot in
    answer r = RText user \/ answer r = RText refusal \/
    exists k t0 t', iv k t0 = Rewrite t' /\ answer r = RText t'.
Proof. exact input_only_membership. Qed.
Print Assumptions C16_table_input_only_membership.

Theorem C16_table_input_only_unchanged :
  forall iv ov llm_text refusal predefined c o user bot,
    o_dialog o = false -> o_output o = false -> (forall k t, iv k t = Accept) ->
    answer (turn iv ov llm_text refusal predefined c (Some o) user bot) = RText user.
Proof. exact input_only_all_accept. Qed.
Print Assumptions C16_table_input_only_unchanged.

(* rows "input + output" and "output only" with a supplied bot message b *)
Theorem C16_table_output_check :
  forall iv ov llm_text refusal predefined c o user b,
    o_dialog o = false -> o_output o = true ->
    let r := turn iv ov llm_text refusal predefined c (Some o) user (Some b) in
    llm r = [] /\
    exists res_in,
      (o_input o = true -> rails_rel iv 0 (c_in c) user res_in) /\
      (o_input o = false -> res_in = Passed user) /\
      match res_in with
      | Blocked _ => answer r = RText refusal
      | Passed _ => exists res, rails_rel ov 0 (c_out c) b res /\
                                answer r = RText (match res with Passed t => t | Blocked _ => refusal end)
      end.
Proof. exact output_check. Qed.
Print Assumptions C16_table_output_check.

Theorem C16_table_output_check_membership :
  forall iv ov llm_text refusal predefined c o user b,
    o_dialog o = false -> o_output o = true ->
    let r := turn iv ov llm_text refusal predefined c (Some o) user (Some b) in
    answer r = RText b \/ answer r = RText refusal \/
    exists k t0 t', ov k t0 = Rewrite t' /\ answer r = RText t'.
Proof. exact output_check_membership. Qed.
Print Assumptions C16_table_output_check_membership.

(* the returned log: compute_generation_log never raises on the processing log of a turn, lists
   exactly the rails that ran (`ran`: recorded by the turn machine next to each rail call), in
   order, and `stop` is set on exactly the rail that blocked (the last one), on none otherwise.
   For every option value (also None = no options), configuration with non-colliding flow
   names, verdicts and texts. *)
Theorem C16_log_rails :
  forall iv ov llm_text refusal predefined c g user bot,
    wf_cfg c ->
    let r := turn iv ov llm_text refusal predefined c g user bot in
    exists rails,
      gen_log (plog r) = Some rails /\
      map tn rails = ran r /\
      match blocked r with
      | None => Forall (fun a => ar_stop a = false) rails
      | Some f => exists pre a, rails = pre ++ [a] /\ ar_name a = f /\ ar_stop a = true /\
                                (ar_type a = "input" \/ ar_type a = "output") /\
                                Forall (fun x => ar_stop x = false) pre
      end.
Proof. exact log_of_turn. Qed.
Print Assumptions C16_log_rails.

(* `stop` flags alone, as the property text puts it *)
Theorem C16_log_stop :
  forall iv ov llm_text refusal predefined c g user bot rails,
    wf_cfg c ->
    let r := turn iv ov llm_text refusal predefined c g user bot in
    gen_log (plog r) = Some rails ->
    (blocked r = None -> forall a, In a rails -> ar_stop a = false) /\
    (forall f, blocked r = Some f ->
       exists pre a, rails = pre ++ [a] /\ ar_name a = f /\ ar_stop a = true /\
                     forall x, In x pre -> ar_stop x = false).
Proof. exact log_stop_flags. Qed.
Print Assumptions C16_log_stop.

(* ------------------------------------------------------------------------------------------
   (T) the `$generation_options.rails.*` guards of llm_flows.co, as the repository's own parser
   compiles them today (Gen/C01Flows.v: flat elements; Gen/C16Flows.v: the guard strings parsed
   into expression trees).  An edit of a guard breaks one of the theorems below. *)

(* the expression trees are the parse of the guard strings (re-printed and compared in Coq, no
   parentheses needed), and every guard of the four option-guarded flows is covered *)
Theorem C16_guards_parsed :
  forallb entry_ok c16_guard_table = true /\
  (all_guards_known v1_process_user_input c16_guard_table = true /\
   all_guards_known v1_run_dialog_rails c16_guard_table = true /\
   all_guards_known v1_generate_bot_message c16_guard_table = true /\
   all_guards_known v1_process_bot_message c16_guard_table = true).
Proof. exact (conj table_is_parse guards_known). Qed.
Print Assumptions C16_guards_parsed.

(* what the guards mean under eval_expression + `if` (undefined variable = None, attribute access,
   Python and/or/not/is/==, truthiness): exactly the guard functions of Pipe/Options.v, for every
   configuration, option value (None = generate called without options) and skip flag *)
Theorem C16_guard_meanings :
  forall c g sk,
    let v := valuation c16_guard_table (turn_env c g sk) in
    v g_in_opt = Some (input_enabled g) /\
    v g_ret_opt = Some (retrieval_enabled g) /\
    v g_out_opt = Some (output_enabled g) /\
    v g_dialog_off = Some (dialog_disabled g) /\
    v g_output_off = match g with Some _ => Some (output_off g) | None => None end /\
    v g_in_cfg = Some (nonempty (c_in c)) /\
    v g_ret_cfg = Some (nonempty (c_ret c)) /\
    v g_out_cfg = Some (nonempty (c_out c)) /\
    v g_skip = Some (match sk with Some b => b | None => false end).
Proof. exact guard_meanings. Qed.
Print Assumptions C16_guard_meanings.

(* ONLY THROUGH the guard: every path of the compiled flow (as `slide` follows it) that reaches the
   rails subflow call takes the TRUE edge of exactly `$generation_options is None or
   $generation_options.rails.<category>` (and of the `$config.rails.<category>.flows` guard) *)
Theorem C16_input_rails_guarded :
  forall p k, reaches v1_process_user_input p k (at_flow "run input rails") ->
    (exists i, In (i, LTrue g_in_opt) p) /\ (exists i, In (i, LTrue g_in_cfg) p).
Proof. exact input_rails_only_through_guard. Qed.
Print Assumptions C16_input_rails_guarded.

Theorem C16_retrieval_rails_guarded :
  forall p k, reaches v1_generate_bot_message p k (at_flow "run retrieval rails") ->
    (exists i, In (i, LTrue g_ret_opt) p) /\ (exists i, In (i, LTrue g_ret_cfg) p).
Proof. exact retrieval_rails_only_through_guard. Qed.
Print Assumptions C16_retrieval_rails_guarded.

Theorem C16_output_rails_guarded :
  forall p k, reaches v1_process_bot_message p k (at_flow "run output rails") ->
    (exists i, In (i, LTrue g_out_opt) p) /\ (exists i, In (i, LTrue g_out_cfg) p) /\ (exists i, In (i, LFalse g_skip) p).
Proof. exact output_rails_only_through_guard. Qed.
Print Assumptions C16_output_rails_guarded.

(* `run dialog rails`: generation only on the FALSE edge of the dialog-off guard; the BotMessage
   injection only with dialog off (TRUE edge) and output not off (FALSE edge of `... output == False`);
   the echo of the user text only with both TRUE; the injected event is BotMessage(text=$bot_message) *)
Theorem C16_dialog_branches_guarded :
  forall p k, path v1_run_dialog_rails 0 p k ->
    (at_flow "generate user intent" (elem_at v1_run_dialog_rails k) = true -> exists i, In (i, LFalse g_dialog_off) p) /\
    (is_create "BotMessage" (elem_at v1_run_dialog_rails k) = true ->
       (exists i, In (i, LTrue g_dialog_off) p) /\ (exists i, In (i, LFalse g_output_off) p)) /\
    (is_create "StartUtteranceBotAction" (elem_at v1_run_dialog_rails k) = true ->
       (exists i, In (i, LTrue g_dialog_off) p) /\ (exists i, In (i, LTrue g_output_off) p)).
Proof. exact dialog_branches_only_through_guards. Qed.
Print Assumptions C16_dialog_branches_guarded.

(* EXACTLY WHEN: following each compiled flow under the meaning of its guards (`run_flow`; a `path`
   of the flow by C16_run_is_path), the elements executed are exactly the ones the turn machine of
   Pipe/Options.v is built from - rails call with its marker events iff in_active / ret_active /
   out_active (skip flag first), BotMessage(text=$bot_message) iff dialog off and output on *)
Theorem C16_process_user_input_exact :
  forall c g sk,
    expect (run_flow v1_process_user_input c16_guard_table (turn_env c g sk))
           ([EMatch "UtteranceUserActionFinished"; ESet "user_message" "$event[""final_transcript""]"]
            ++ (if in_active c g
                then [ECreate "StartInputRails" []; EMatch "StartInputRails"; EFlow "run input rails";
                      ECreate "InputRailsFinished" []; EMatch "InputRailsFinished"]
                else [])
            ++ [ECreate "UserMessage" [("text", "$user_message")]]).
Proof. exact process_user_input_exact. Qed.
Print Assumptions C16_process_user_input_exact.

Theorem C16_run_dialog_rails_exact :
  forall c g sk,
    expect (run_flow v1_run_dialog_rails c16_guard_table (turn_env c g sk))
           [EMatch "UserMessage";
            if dialog_disabled g
            then (if output_off g then ECreate "StartUtteranceBotAction" [("script", "$user_message")]
                  else ECreate "BotMessage" [("text", "$bot_message")])
            else EFlow "generate user intent"].
Proof. exact run_dialog_rails_exact. Qed.
Print Assumptions C16_run_dialog_rails_exact.

Theorem C16_generate_bot_message_exact :
  forall c g sk,
    expect (run_flow v1_generate_bot_message c16_guard_table (turn_env c g sk))
           ([EUtter "..."; EAction "retrieve_relevant_chunks" ""]
            ++ (if ret_active c g then [EFlow "run retrieval rails"] else [])
            ++ [EAction "generate_bot_message" ""]).
Proof. exact generate_bot_message_exact. Qed.
Print Assumptions C16_generate_bot_message_exact.

Theorem C16_process_bot_message_exact :
  forall c g sk,
    expect (run_flow v1_process_bot_message c16_guard_table (turn_env c g sk))
           ([EMatch "BotMessage"; ESet "bot_message" "$event.text"]
            ++ (if match sk with Some b => b | None => false end
                then [ESet "skip_output_rails" "False"]
                else if out_active c g
                     then [ECreate "StartOutputRails" []; EMatch "StartOutputRails"; EFlow "run output rails";
                           ECreate "OutputRailsFinished" []; EMatch "OutputRailsFinished"]
                     else [])
            ++ [ECreate "StartUtteranceBotAction" [("script", "$bot_message")]]).
Proof. exact process_bot_message_exact. Qed.
Print Assumptions C16_process_bot_message_exact.

Theorem C16_run_is_path :
  forall es c g sk p,
    walk es (valuation c16_guard_table (turn_env c g sk)) (S (List.length es)) 0 = Some p ->
    exists k, path es 0 p k /\ elem_at es k = None /\
              Forall (edge_agrees (valuation c16_guard_table (turn_env c g sk))) p.
Proof. exact run_is_path. Qed.
Print Assumptions C16_run_is_path.

(* generate_async moves a trailing "assistant" message into $bot_message iff options are given and
   options.rails.dialog is False (condition shape read from llmrails.py) *)
Theorem C16_injection_condition :
  inject_role = "assistant" /\ inject_iff_options_and_dialog_is_false = true /\
  forall g b, injected_bot g (Some b) = (if dialog_disabled g then Some b else None).
Proof. exact injection_condition. Qed.
Print Assumptions C16_injection_condition.
