(* C11 - model of nemoguardrails/colang/v2_x/runtime/serialization.py
   (encode_to_dict, decode_from_dict, state_to_json, json_to_state).

   OBJECT GRAPH.  A Python object graph is a heap `list (id * node)`; `id` plays the role of
   `id(obj)`.  Immutable scalars (None/bool/int/float/str) are not heap objects: a reference
   (`val`) is either a scalar `VP p` or an object reference `VO i`.  Floats are opaque tokens.
   Every other object (list, tuple, set, deque, dict, dataclass instance, Action, Enum member,
   SpecType member, datetime, RailsConfig, functools.partial, re.Pattern, anything else) is a
   heap node = a `head` (kind + labels) and the ordered list of the references it holds.

   ENCODER.  `enc` transcribes encode_to_dict branch by branch, in the order of the source:
     1. `obj_id in refs`  -> {"__type":"ref","__id":id}
     2. list              -> [ ... ]            (NOT registered in refs: lists are never shared)
     3. str/int/float/None-> as is
     4. functools.partial -> None               (callbacks, re-created by json_to_state)
     5. dict / dataclass / RailsConfig / SpecType / Action / datetime / Enum / deque / tuple /
        set [/ re.Pattern in the repaired source] -> {"__type": .., "value": ..};
        registered in refs AFTER its children were encoded;
     6. anything else     -> raise  (None)
   The Python code later MUTATES the dict of an object that is met again (adds "__ref_count" and
   "__id").  The model is two-pass: `enc` builds a tree (`etree`) in which every registered
   object carries its id, `count_refs` counts the later references, `render` emits the JSON
   with the two marks exactly on the objects referenced again.
   Unbounded recursion on a cyclic graph is Python's RecursionError: `enc` takes the recursion
   limit as fuel and fails when it is exhausted.

   Three flags say which repaired branches are present in the CURRENT source (read by the
   translator into Gen/C11Consts.v): fx_regex (re.Pattern branch in encoder and decoder),
   fx_keys (dicts with non-str keys encoded as "items" pairs), fx_action (the values of
   Action.to_dict() are encoded recursively instead of being handed raw to json.dumps).

   DECODER.  `dec` transcribes decode_from_dict on raw JSON, allocating fresh objects in a new
   heap; `refs` maps "__id" marks to the decoded objects (registered after the children).
   `json_to_state` = dec + re-creation of the two head callbacks of every head of every flow
   state as partial(_flow_head_changed, state, flow_state).  The two loops of the source only
   assign attributes of heads, so the model first reads the (flow state, head) pairs from the
   decoded state (`collect_heads`) and then performs the assignments (`redo_head`) in order. *)
From Coq Require Import ZArith List String Bool Ascii Lia DecimalString.
Import ListNotations.
Open Scope string_scope.
Open Scope Z_scope.

Definition id := Z.

Inductive prim := PNone | PBool (b : bool) | PInt (z : Z) | PFloat (f : Z) | PStr (s : string).
Inductive val := VP (p : prim) | VO (i : id).

(* dict keys: str / int / bool / None / float; KObj = any other hashable object (tuple, ...) *)
Inductive key := KS (s : string) | KI (z : Z) | KB (b : bool) | KN | KF (f : Z) | KObj.

Inductive head :=
| HList | HTuple | HSet | HDeque
| HDict (ks : list key)                   (* kids = the values, insertion order *)
| HData (cls : string) (fs : list string) (* dataclass instance; kids = field values *)
| HAction (fs : list string)              (* flows.Action; kids = values of to_dict() (status = its name) *)
| HEnum (cls mem : string)
| HSpecType (v : string)
| HDatetime (iso : string)
| HRailsConfig (tok : Z)                  (* pydantic model, opaque token (model_dump/model_validate = oracle) *)
| HPartial (fn : string)                  (* functools.partial(fn, *kids); kids are NOT traversed by the encoder *)
| HRegex (pat : string) (flags : Z)
| HOther (ty : string).

Record node := mk { hd : head; kids : list val }.
Definition heap := list (id * node).

Inductive json :=
| JNull | JBool (b : bool) | JInt (z : Z) | JFloat (f : Z) | JStr (s : string)
| JArr (l : list json) | JObj (kvs : list (string * json)).

(* what encode_to_dict returns, before the marks are known *)
Inductive etree :=
| EP (p : prim)
| EL (l : list etree)
| ER (i : id)
| EN (i : id) (h : head) (l : list etree)
| ERaw (j : json).

Record flags := { fx_regex : bool; fx_keys : bool; fx_action : bool }.

(* ---------------------------------------------------------------------------------- *)
(* small library *)

Fixpoint lookup {A} (l : list (Z * A)) (i : Z) : option A :=
  match l with [] => None | (k, x) :: r => if k =? i then Some x else lookup r i end.

Fixpoint memz (i : Z) (l : list Z) : bool :=
  match l with [] => false | x :: r => if x =? i then true else memz i r end.

Fixpoint jget (k : string) (kvs : list (string * json)) : option json :=
  match kvs with [] => None | (k', v) :: r => if String.eqb k' k then Some v else jget k r end.

(* left-to-right traversal threading a state; None = exception *)
Fixpoint map_st {S A B} (f : S -> A -> option (B * S)) (s : S) (l : list A) : option (list B * S) :=
  match l with
  | [] => Some ([], s)
  | x :: r => match f s x with
              | None => None
              | Some (y, s1) => match map_st f s1 r with
                                | None => None
                                | Some (ys, s2) => Some (y :: ys, s2)
                                end
              end
  end.

Fixpoint map_opt {A B} (f : A -> option B) (l : list A) : option (list B) :=
  match l with
  | [] => Some []
  | x :: r => match f x with None => None | Some y =>
              match map_opt f r with None => None | Some ys => Some (y :: ys) end end
  end.

Definition string_of_Z (z : Z) : string := NilZero.string_of_int (Z.to_int z).

Definition json_of_prim (p : prim) : json :=
  match p with PNone => JNull | PBool b => JBool b | PInt z => JInt z | PFloat f => JFloat f | PStr s => JStr s end.

(* ---------------------------------------------------------------------------------- *)
(* keys *)

Definition is_str_key (k : key) : bool := match k with KS _ => true | _ => false end.
Definition is_json_key (k : key) : bool := match k with KObj => false | _ => true end.

(* json.dumps coerces int/bool/None/float keys to strings (float repr = opaque "f<token>") *)
Definition key_str (k : key) : string :=
  match k with
  | KS s => s | KI z => string_of_Z z | KB true => "true" | KB false => "false" | KN => "null"
  | KF f => "f" ++ string_of_Z f | KObj => ""
  end.

Definition json_of_key (k : key) : json :=
  match k with KS s => JStr s | KI z => JInt z | KB b => JBool b | KN => JNull | KF f => JFloat f | KObj => JNull end.

Definition key_of_json (j : json) : option key :=
  match j with JStr s => Some (KS s) | JInt z => Some (KI z) | JBool b => Some (KB b) | JNull => Some KN
             | JFloat f => Some (KF f) | _ => None end.

(* ---------------------------------------------------------------------------------- *)
(* json.dumps on a raw Python value (only for the UNREPAIRED Action branch) *)

Fixpoint raw (fuel : nat) (h : heap) (v : val) : option json :=
  match fuel with
  | O => None
  | S f =>
    match v with
    | VP p => Some (json_of_prim p)
    | VO i =>
      match lookup h i with
      | None => None
      | Some n =>
        match hd n with
        | HList | HTuple => option_map JArr (map_opt (raw f h) (kids n))
        | HDict ks =>
          if forallb is_json_key ks
          then option_map (fun js => JObj (combine (map key_str ks) js)) (map_opt (raw f h) (kids n))
          else None
        | _ => None       (* TypeError: Object of type ... is not JSON serializable *)
        end
      end
    end
  end.

(* ---------------------------------------------------------------------------------- *)
(* encode_to_dict *)

Definition dict_keys_ok (fl : flags) (ks : list key) : bool :=
  forallb is_json_key ks.        (* KObj: json.dumps TypeError (unrepaired) / outside the model (repaired) *)

Fixpoint enc (fl : flags) (fuel : nat) (h : heap) (seen : list id) (v : val) : option (etree * list id) :=
  match fuel with
  | O => None                                            (* RecursionError *)
  | S f =>
    match v with
    | VP p => Some (EP p, seen)
    | VO i =>
      if memz i seen then Some (ER i, seen)               (* obj_id in refs *)
      else
        match lookup h i with
        | None => None
        | Some n =>
          let generic :=
            match map_st (enc fl f h) seen (kids n) with
            | None => None
            | Some (es, s') => Some (EN i (hd n) es, i :: s')     (* refs[obj_id] = value, after the children *)
            end in
          match hd n with
          | HList =>
            match map_st (enc fl f h) seen (kids n) with
            | None => None
            | Some (es, s') => Some (EL es, s')
            end
          | HPartial _ => Some (EP PNone, seen)
          | HOther _ => None                              (* raise Exception("Unhandled type ...") *)
          | HRegex _ _ => if fx_regex fl then generic else None
          | HDict ks => if dict_keys_ok fl ks then generic else None
          | HAction _ =>
            if fx_action fl then generic
            else match map_opt (raw f h) (kids n) with
                 | None => None
                 | Some js => Some (EN i (hd n) (map ERaw js), i :: seen)
                 end
          | _ => generic
          end
        end
    end
  end.

(* ---------------------------------------------------------------------------------- *)
(* THE ASSUMPTION THE refs TABLE RELIES ON.  `refs` is keyed by id(obj): an entry is only
   meaningful while the object it was made for is alive - "every object registered in refs stays
   alive until encoding ends".  In `enc` this holds by construction: the identities are those of
   the heap, which does not change during encoding, and the translator checks on every run that
   Action.to_dict() hands out the LIVE context / start_event_arguments (Gen: action_to_dict_live).
   `enc_tmp` is the encoder one gets when the Action branch encodes TEMPORARY copies of these two
   dicts (to_dict() returning `.copy()`): the k-th temporary lives at identity `alloc k` and is
   freed right after it was encoded, so the allocator may hand the same identity out again.  With
   an allocator that never reuses an identity during one encoding (`tmp_ids_fresh`) the output is
   restored correctly; with CPython's reuse a later temporary is taken for an earlier one and is
   written as a {"__type": "ref"} to it (Serial_examples: tmp_reuse_refuted). *)
Definition tmp_ids_fresh (alloc : nat -> id) (h : heap) : Prop :=
  (forall k, lookup h (alloc k) = None) /\ (forall k k', alloc k = alloc k' -> k = k').

Fixpoint enc_tmp (alloc : nat -> id) (fl : flags) (fuel : nat) (h : heap) (st : list id * nat) (v : val)
  : option (etree * (list id * nat)) :=
  match fuel with
  | O => None
  | S f =>
    (* encode the object stored at i under the identity `ident` *)
    let enc_at (ident i : id) (st : list id * nat) : option (etree * (list id * nat)) :=
      if memz ident (fst st) then Some (ER ident, st)
      else
        match lookup h i with
        | None => None
        | Some n =>
          let generic :=
            match map_st (enc_tmp alloc fl f h) st (kids n) with
            | None => None
            | Some (es, (s', k')) => Some (EN ident (hd n) es, (ident :: s', k'))
            end in
          match hd n with
          | HList =>
            match map_st (enc_tmp alloc fl f h) st (kids n) with
            | None => None
            | Some (es, st') => Some (EL es, st')
            end
          | HPartial _ => Some (EP PNone, st)
          | HOther _ => None
          | HRegex _ _ => if fx_regex fl then generic else None
          | HDict ks => if dict_keys_ok fl ks then generic else None
          | HAction _ =>
            (* to_dict(): the two dicts are fresh copies, everything else is the live value *)
            match kids n with
            | [k0; k1; k2; k3; VO c; VO a; k6] =>
              match map_st (enc_tmp alloc fl f h) st [k0; k1; k2; k3] with
              | None => None
              | Some (es1, (s1, n1)) =>
                match lookup h c, lookup h a with
                | Some nc, Some na =>
                  let tc := alloc n1 in
                  match (if memz tc s1 then Some (ER tc, (s1, S n1))
                         else match map_st (enc_tmp alloc fl f h) (s1, S n1) (kids nc) with
                              | None => None
                              | Some (esc, (s2, n2)) => Some (EN tc (hd nc) esc, (tc :: s2, n2))
                              end) with
                  | None => None
                  | Some (ec, (s2, n2)) =>
                    let ta := alloc n2 in
                    match (if memz ta s2 then Some (ER ta, (s2, S n2))
                           else match map_st (enc_tmp alloc fl f h) (s2, S n2) (kids na) with
                                | None => None
                                | Some (esa, (s3, n3)) => Some (EN ta (hd na) esa, (ta :: s3, n3))
                                end) with
                    | None => None
                    | Some (ea, (s3, n3)) =>
                      match enc_tmp alloc fl f h (s3, n3) k6 with
                      | None => None
                      | Some (e6, (s4, n4)) => Some (EN ident (hd n) (es1 ++ [ec; ea; e6]), (ident :: s4, n4))
                      end
                    end
                  end
                | _, _ => None
                end
              end
            | _ => None
            end
          | _ => generic
          end
        end in
    match v with
    | VP p => Some (EP p, st)
    | VO i => enc_at i i st
    end
  end.

Fixpoint count_refs (e : etree) (i : id) : Z :=
  match e with
  | ER k => if k =? i then 1 else 0
  | EL l | EN _ _ l => fold_right (fun x acc => count_refs x i + acc) 0 l
  | _ => 0
  end.

Fixpoint pair_up (ks : list key) (js : list json) : list json :=
  match ks, js with
  | k :: ks', j :: js' => JArr [json_of_key k; j] :: pair_up ks' js'
  | _, _ => []
  end.

Definition render_head (fl : flags) (h : head) (js : list json) : list (string * json) :=
  match h with
  | HTuple => [("__type", JStr "tuple"); ("value", JArr js)]
  | HSet => [("__type", JStr "set"); ("value", JArr js)]
  | HDeque => [("__type", JStr "deque"); ("value", JArr js)]
  | HDict ks =>
    if fx_keys fl && negb (forallb is_str_key ks)
    then [("__type", JStr "dict"); ("items", JArr (pair_up ks js))]
    else [("__type", JStr "dict"); ("value", JObj (combine (map key_str ks) js))]
  | HData cls fs => [("__type", JStr cls); ("value", JObj (combine fs js))]
  | HAction fs => [("__type", JStr "Action"); ("value", JObj (combine fs js))]
  | HEnum cls mem => [("__type", JStr "enum"); ("__class", JStr cls); ("value", JStr mem)]
  | HSpecType v => [("__type", JStr "SpecType"); ("value", JStr v)]
  | HDatetime iso => [("__type", JStr "datetime"); ("value", JStr iso)]
  | HRailsConfig tok => [("__type", JStr "RailsConfig"); ("value", JInt tok)]
  | HRegex pat fg => [("__type", JStr "re.Pattern"); ("value", JObj [("pattern", JStr pat); ("flags", JInt fg)])]
  | HList | HPartial _ | HOther _ => []
  end.

Definition marks (cnt : id -> Z) (i : id) : list (string * json) :=
  if 0 <? cnt i then [("__ref_count", JInt (cnt i)); ("__id", JInt i)] else [].

Fixpoint render (fl : flags) (cnt : id -> Z) (e : etree) : json :=
  match e with
  | EP p => json_of_prim p
  | EL l => JArr (map (render fl cnt) l)
  | ER i => JObj [("__type", JStr "ref"); ("__id", JInt i)]
  | EN i h l => JObj (render_head fl h (map (render fl cnt) l) ++ marks cnt i)
  | ERaw j => j
  end.

(* state_to_json up to json.dumps; `limit` = recursion limit *)
Definition encode (fl : flags) (limit : nat) (h : heap) (r : val) : option json :=
  match enc fl limit h [] r with
  | None => None
  | Some (e, _) => Some (render fl (count_refs e) e)
  end.

Definition encode_tmp (alloc : nat -> id) (fl : flags) (limit : nat) (h : heap) (r : val) : option json :=
  match enc_tmp alloc fl limit h ([], O) r with
  | None => None
  | Some (e, _) => Some (render fl (count_refs e) e)
  end.

(* ---------------------------------------------------------------------------------- *)
(* decode_from_dict *)

(* the class table of the decoder: name_to_class restricted to dataclasses (with their field
   names) and to Enum classes (with their member names); valid SpecType values *)
Record classes := {
  class_fields : string -> option (list string);
  enum_member : string -> string -> bool;
  spectype_value : string -> bool
}.

Definition action_fields : list string :=
  ["uid"; "name"; "flow_uid"; "status"; "context"; "start_event_arguments"; "flow_scope_count"].

Record dstate := { dh : heap; nxt : id; drefs : list (id * val) }.

Definition alloc (n : node) (st : dstate) : id * dstate :=
  (nxt st, {| dh := (nxt st, n) :: dh st; nxt := nxt st + 1; drefs := drefs st |}).

Definition add_ref (old : id) (v : val) (st : dstate) : dstate :=
  {| dh := dh st; nxt := nxt st; drefs := (old, v) :: drefs st |}.

Fixpoint unpair (l : list json) : option (list key * list json) :=
  match l with
  | [] => Some ([], [])
  | JArr [k; v] :: r =>
    match key_of_json k, unpair r with
    | Some k', Some (ks, vs) => Some (k' :: ks, v :: vs)
    | _, _ => None
    end
  | _ => None
  end.

(* one branch of the if/elif chain of decode_from_dict (after "ref"): the head of the object to
   build and the JSON of the children to decode first.  Same order as the source. *)
Definition parse_head (fl : flags) (C : classes) (t : string) (kvs : list (string * json)) : option (head * list json) :=
  if String.eqb t "enum" then
    match jget "__class" kvs, jget "value" kvs with
    | Some (JStr cls), Some (JStr mem) => if enum_member C cls mem then Some (HEnum cls mem, []) else None
    | _, _ => None
    end
  else if String.eqb t "RailsConfig" then
    match jget "value" kvs with Some (JInt tok) => Some (HRailsConfig tok, []) | _ => None end
  else if String.eqb t "SpecType" then
    match jget "value" kvs with
    | Some (JStr v) => if spectype_value C v then Some (HSpecType v, []) else None
    | _ => None
    end
  else if String.eqb t "Action" then
    match jget "value" kvs with
    | Some (JObj fkvs) =>
      match map_opt (fun f => jget f fkvs) action_fields with
      | Some js =>
        match jget "status" fkvs with
        | Some (JStr m) => if enum_member C "ActionStatus" m then Some (HAction action_fields, js) else None
        | _ => None
        end
      | None => None                                       (* KeyError in Action.from_dict *)
      end
    | _ => None
    end
  else
    match class_fields C t with
    | Some fs =>
      match jget "value" kvs with
      | Some (JObj fkvs) =>
        if list_eq_dec string_dec (map fst fkvs) fs then Some (HData t fs, map snd fkvs) else None
      | _ => None
      end
    | None =>
      if String.eqb t "datetime" then
        match jget "value" kvs with Some (JStr iso) => Some (HDatetime iso, []) | _ => None end
      else if String.eqb t "deque" then
        match jget "value" kvs with Some (JArr l) => Some (HDeque, l) | _ => None end
      else if String.eqb t "tuple" then
        match jget "value" kvs with Some (JArr l) => Some (HTuple, l) | _ => None end
      else if fx_regex fl && String.eqb t "re.Pattern" then
        match jget "value" kvs with
        | Some (JObj pkvs) =>
          match jget "pattern" pkvs, jget "flags" pkvs with
          | Some (JStr p), Some (JInt fg) => Some (HRegex p fg, [])
          | _, _ => None
          end
        | _ => None
        end
      else if String.eqb t "dict" then
        match (if fx_keys fl then jget "items" kvs else None) with
        | Some (JArr prs) =>
          match unpair prs with Some (ks, vs) => Some (HDict ks, vs) | None => None end
        | Some _ => None
        | None =>
          match jget "value" kvs with
          | Some (JObj fkvs) => Some (HDict (map (fun kv => KS (fst kv)) fkvs), map snd fkvs)
          | _ => None
          end
        end
      else if String.eqb t "set" then
        match jget "value" kvs with Some (JArr l) => Some (HSet, l) | _ => None end
      else None                                              (* raise Exception("Unknown d_type") *)
    end.

Fixpoint dec (fl : flags) (C : classes) (fuel : nat) (st : dstate) (j : json) : option (val * dstate) :=
  match fuel with
  | O => None
  | S f =>
    match j with
    | JNull => Some (VP PNone, st)
    | JBool b => Some (VP (PBool b), st)
    | JInt z => Some (VP (PInt z), st)
    | JFloat x => Some (VP (PFloat x), st)
    | JStr s => Some (VP (PStr s), st)
    | JArr l =>
      match map_st (dec fl C f) st l with
      | None => None
      | Some (vs, st1) => let (i', st2) := alloc (mk HList vs) st1 in Some (VO i', st2)
      end
    | JObj kvs =>
      match jget "__type" kvs with
      | None =>
        match map_st (dec fl C f) st (map snd kvs) with
        | None => None
        | Some (vs, st1) =>
          let (i', st2) := alloc (mk (HDict (map (fun kv => KS (fst kv)) kvs)) vs) st1 in Some (VO i', st2)
        end
      | Some (JStr t) =>
        if String.eqb t "ref" then
          match jget "__id" kvs with
          | Some (JInt i) => match lookup (drefs st) i with Some v => Some (v, st) | None => None end
          | _ => None
          end
        else
          match parse_head fl C t kvs with
          | None => None
          | Some (hd', kjs) =>
            match map_st (dec fl C f) st kjs with
            | None => None
            | Some (vs, st1) =>
              let (i', st2) := alloc (mk hd' vs) st1 in
              Some (VO i', match jget "__id" kvs with
                           | Some (JInt old) => add_ref old (VO i') st2
                           | _ => st2
                           end)
            end
          end
      | Some _ => None
      end
    end
  end.

Definition st0 : dstate := {| dh := []; nxt := 0; drefs := [] |}.

(* decode_from_dict(json.loads(s), refs={}) *)
Definition decode (fl : flags) (C : classes) (limit : nat) (j : json) : option (heap * val) :=
  match dec fl C limit st0 j with
  | None => None
  | Some (v, st) => Some (dh st, v)
  end.

(* ---------------------------------------------------------------------------------- *)
(* json_to_state: re-creation of the head callbacks *)

Fixpoint index_of (s : string) (l : list string) : option nat :=
  match l with [] => None | x :: r => if String.eqb x s then Some O else option_map S (index_of s r) end.

(* getattr(obj, f) on a dataclass instance *)
Definition field (h : heap) (v : val) (f : string) : option val :=
  match v with
  | VO i =>
    match lookup h i with
    | Some (mk (HData _ fs) ks) =>
      match index_of f fs with Some n => nth_error ks n | None => None end
    | _ => None
    end
  | _ => None
  end.

(* the values of a dict *)
Definition dict_values (h : heap) (v : val) : option (list val) :=
  match v with
  | VO i => match lookup h i with Some (mk (HDict _) ks) => Some ks | _ => None end
  | _ => None
  end.

Fixpoint set_nth {A} (n : nat) (x : A) (l : list A) : list A :=
  match l, n with
  | [], _ => []
  | _ :: r, O => x :: r
  | y :: r, S n' => y :: set_nth n' x r
  end.

Fixpoint heap_set (h : heap) (i : id) (n : node) : heap :=
  match h with [] => [] | (k, x) :: r => if k =? i then (k, n) :: r else (k, x) :: heap_set r i n end.

(* setattr(obj, f, v) on a dataclass instance *)
Definition set_field (h : heap) (o : val) (f : string) (v : val) : option heap :=
  match o with
  | VO i =>
    match lookup h i with
    | Some (mk (HData c fs) ks) =>
      match index_of f fs with
      | Some n => Some (heap_set h i (mk (HData c fs) (set_nth n v ks)))
      | None => None
      end
    | _ => None
    end
  | _ => None
  end.

Definition cb_name : string := "_flow_head_changed".

(* for one head: the two assignments of json_to_state *)
Definition redo_head (state fs : val) (acc : option (heap * id)) (head : val) : option (heap * id) :=
  match acc with
  | None => None
  | Some (h, n) =>
    let h1 := (n, mk (HPartial cb_name) [state; fs]) :: h in
    match set_field h1 head "position_changed_callback" (VO n) with
    | None => None
    | Some h2 =>
      let h3 := (n + 1, mk (HPartial cb_name) [state; fs]) :: h2 in
      match set_field h3 head "status_changed_callback" (VO (n + 1)) with
      | None => None
      | Some h4 => Some (h4, n + 2)
      end
    end
  end.

(* the (flow state, head) pairs the two loops of json_to_state visit, in order.  The loop body
   assigns attributes of heads only, so the dicts it iterates are the ones of the decoded state. *)
Fixpoint collect_flows (h : heap) (fss : list val) : option (list (val * val)) :=
  match fss with
  | [] => Some []
  | fs :: r =>
    match field h fs "heads" with
    | None => None
    | Some hv =>
      match dict_values h hv, collect_flows h r with
      | Some heads, Some rest => Some (map (fun x => (fs, x)) heads ++ rest)%list
      | _, _ => None
      end
    end
  end.

Definition collect_heads (h : heap) (state : val) : option (list (val * val)) :=
  match field h state "flow_states" with
  | None => None
  | Some fv =>
    match dict_values h fv with
    | None => None
    | Some fss => collect_flows h fss
    end
  end.

Definition redo_callbacks (h : heap) (n : id) (state : val) : option (heap * id) :=
  match collect_heads h state with
  | None => None
  | Some W => fold_left (fun acc fh => redo_head state (fst fh) acc (snd fh)) W (Some (h, n))
  end.

Definition json_to_state (fl : flags) (C : classes) (limit : nat) (j : json) : option (heap * val) :=
  match dec fl C limit st0 j with
  | None => None
  | Some (v, st) =>
    match redo_callbacks (dh st) (nxt st) v with
    | None => None
    | Some (h', _) => Some (h', v)
    end
  end.

(* ---------------------------------------------------------------------------------- *)
(* State shape with canonical callbacks, as ONE decidable predicate (hypothesis of the composed
   round-trip theorem; evaluated on real states by the harness):
   state.flow_states[*].heads[*] exist, the heads are distinct dataclass instances with the two
   callback attributes, both attributes of every head are partial(_flow_head_changed, state, its
   flow state), and no other object refers to a functools.partial. *)
Definition pos_f : string := "position_changed_callback".
Definition stat_f : string := "status_changed_callback".

Definition val_eq_dec : forall a b : val, {a = b} + {a <> b}.
Proof.
  decide equality; [decide equality; try apply Z.eq_dec; try apply string_dec; apply bool_dec|apply Z.eq_dec].
Defined.


Definition cb_idx (h : heap) (hv : val) : option (id * string * list string * list val * nat * nat) :=
  match hv with
  | VO x =>
    match lookup h x with
    | Some (mk (HData c fds) ks) =>
      match index_of pos_f fds, index_of stat_f fds with
      | Some p, Some q =>
        if negb (Nat.eqb p q) && Nat.ltb p (List.length ks) && Nat.ltb q (List.length ks)
        then Some (x, c, fds, ks, p, q) else None
      | _, _ => None
      end
    | _ => None
    end
  | _ => None
  end.

Definition val_eqb (a b : val) : bool := if val_eq_dec a b then true else false.

Fixpoint heads_okb (h : heap) (W : list (val * val)) : bool :=
  match W with
  | [] => true
  | (fs, hv) :: r =>
    match cb_idx h hv with
    | Some _ => negb (existsb (fun fh => val_eqb (snd fh) hv) r) && heads_okb h r
    | None => false
    end
  end.

Definition is_cb_node (h : heap) (state fs v : val) : bool :=
  match v with
  | VO a =>
    match lookup h a with
    | Some (mk (HPartial fn) [v1; v2]) => String.eqb fn cb_name && val_eqb v1 state && val_eqb v2 fs
    | _ => false
    end
  | _ => false
  end.

Definition cb_okb (h : heap) (s : id) (W : list (val * val)) : bool :=
  forallb (fun fh =>
    match cb_idx h (snd fh) with
    | Some (x, c, fds, ks, p, q) =>
      match nth_error ks p, nth_error ks q with
      | Some va, Some vb => is_cb_node h (VO s) (fst fh) va && is_cb_node h (VO s) (fst fh) vb
      | _, _ => false
      end
    | None => false
    end) W.

Definition is_partialb (h : heap) (j : id) : bool :=
  match lookup h j with Some (mk (HPartial _) _) => true | _ => false end.

Definition head_pos_ok (h : heap) (W : list (val * val)) (i : id) (k : nat) : bool :=
  existsb (fun fh => val_eqb (snd fh) (VO i)) W &&
  match cb_idx h (VO i) with
  | Some (x, c, fds, ks, p, q) => Nat.eqb k p || Nat.eqb k q
  | None => false
  end.

Fixpoint kids_only (h : heap) (W : list (val * val)) (i : id) (k : nat) (l : list val) : bool :=
  match l with
  | [] => true
  | v :: r =>
    (match v with VO j => if is_partialb h j then head_pos_ok h W i k else true | VP _ => true end)
    && kids_only h W i (S k) r
  end.

Definition onlyb (h : heap) (W : list (val * val)) : bool :=
  forallb (fun kn => kids_only h W (fst kn) O (kids (snd kn))) h.

Definition state_hyps (h : heap) (s : id) : bool :=
  match collect_heads h (VO s) with
  | Some W => heads_okb h W && cb_okb h s W && onlyb h W
  | None => false
  end.


(* ---------------------------------------------------------------------------------- *)
(* `supported`: exactly the node kinds the code handles (decidable) *)

Definition reserved_tag (t : string) : bool :=
  existsb (String.eqb t) ["ref"; "enum"; "RailsConfig"; "SpecType"; "Action"].

Definition is_prim_str (v : val) : option string := match v with VP (PStr s) => Some s | _ => None end.

Definition head_ok (fl : flags) (C : classes) (n : node) : bool :=
  match hd n with
  | HList | HTuple | HSet | HDeque => true
  | HDict ks =>
    forallb is_json_key ks && (fx_keys fl || forallb is_str_key ks)
    && Nat.eqb (List.length ks) (List.length (kids n))
  | HData cls fs =>
    negb (reserved_tag cls)
    && match class_fields C cls with Some fs' => if list_eq_dec string_dec fs fs' then true else false | None => false end
    && Nat.eqb (List.length fs) (List.length (kids n))
  | HAction fs =>
    fx_action fl
    && (if list_eq_dec string_dec fs action_fields then true else false)
    && match kids n with
       | [_; _; _; VP (PStr m); _; _; _] => enum_member C "ActionStatus" m
       | _ => false
       end
  | HEnum cls mem => enum_member C cls mem && match kids n with [] => true | _ => false end
  | HSpecType v => spectype_value C v && match kids n with [] => true | _ => false end
  | HDatetime _ | HRailsConfig _ => match kids n with [] => true | _ => false end
  | HPartial _ => true
  | HRegex _ _ => fx_regex fl && match kids n with [] => true | _ => false end
  | HOther _ => false
  end.

(* the children the encoder follows *)
Definition tkids (n : node) : list val := match hd n with HPartial _ => [] | _ => kids n end.

Definition val_closed (h : heap) (v : val) : bool :=
  match v with VP _ => true | VO i => match lookup h i with Some _ => true | None => false end end.

Definition node_ok (fl : flags) (C : classes) (h : heap) (n : node) : bool :=
  head_ok fl C n && forallb (val_closed h) (tkids n).

(* every object of the heap is of a supported kind, well formed, and refers to objects of the heap *)
Definition supported (fl : flags) (C : classes) (h : heap) (r : val) : bool :=
  forallb (fun kn => node_ok fl C h (snd kn)) h && val_closed h r.

(* acyclicity with a depth bound: a rank that strictly decreases along every followed
   reference; the rank of the root is below the recursion limit *)
Definition rank_of (rk : id -> nat) (v : val) : nat := match v with VP _ => O | VO i => S (rk i) end.

Definition acyclic (h : heap) (rk : id -> nat) : Prop :=
  forall i n, lookup h i = Some n -> forall j, In (VO j) (tkids n) -> (rk j < rk i)%nat.

(* ---------------------------------------------------------------------------------- *)
(* isomorphism of object graphs *)

Definition rel := list (id * id).

Definition is_list (h : heap) (i : id) : bool :=
  match lookup h i with Some (mk HList _) => true | _ => false end.

(* `erased` = whether a callback (functools.partial) may correspond to None *)
Inductive vrel (erased : bool) (h : heap) (M : rel) : val -> val -> Prop :=
| vr_prim p : vrel erased h M (VP p) (VP p)
| vr_obj i i' : In (i, i') M -> vrel erased h M (VO i) (VO i')
| vr_erased i n fn : erased = true -> lookup h i = Some n -> hd n = HPartial fn ->
                     vrel erased h M (VO i) (VP PNone).

Definition node_rel (erased : bool) (h : heap) (M : rel) (n n' : node) : Prop :=
  hd n = hd n' /\ Forall2 (vrel erased h M) (kids n) (kids n').

(* M is a bisimulation between (h, r) and (h', r') *)
Record bisim (erased : bool) (h : heap) (r : val) (h' : heap) (r' : val) (M : rel) : Prop := {
  bs_root : vrel erased h M r r';
  bs_step : forall i i', In (i, i') M ->
            exists n n', lookup h i = Some n /\ lookup h' i' = Some n' /\ node_rel erased h M n n'
}.

(* ... that preserves sharing: one-to-one, except that a list object may have several copies *)
Record sharing_preserved (h : heap) (M : rel) : Prop := {
  sp_inj : forall i1 i2 i', In (i1, i') M -> In (i2, i') M -> i1 = i2;
  sp_fun : forall i i1 i2, In (i, i1) M -> In (i, i2) M -> is_list h i = false -> i1 = i2
}.

(* full isomorphism: the relation is also functional on lists *)
Definition functional (M : rel) : Prop := forall i i1 i2, In (i, i1) M -> In (i, i2) M -> i1 = i2.

(* ---------------------------------------------------------------------------------- *)
(* canonical form of the part of a heap reachable from a root, for the correspondence:
   objects are numbered in order of first visit (depth first, children in order) *)

Inductive ctree :=
| CP (p : prim)
| CBack (n : Z)
| CNew (n : Z) (h : head) (l : list ctree)
| CDangling.

Fixpoint canon (fuel : nat) (h : heap) (s : list (id * Z) * Z) (v : val) : option (ctree * (list (id * Z) * Z)) :=
  match fuel with
  | O => None
  | S f =>
    match v with
    | VP p => Some (CP p, s)
    | VO i =>
      match lookup (fst s) i with
      | Some n => Some (CBack n, s)
      | None =>
        match lookup h i with
        | None => Some (CDangling, s)
        | Some nd =>
          let n := snd s in
          match map_st (canon f h) ((i, n) :: fst s, n + 1) (kids nd) with
          | None => None
          | Some (cs, s') => Some (CNew n (hd nd) cs, s')
          end
        end
      end
    end
  end.

Definition canon_of (fuel : nat) (hr : option (heap * val)) : option ctree :=
  match hr with
  | None => None
  | Some (h, r) => match canon fuel h ([], 0) r with Some (c, _) => Some c | None => None end
  end.
