(* Pipe/SelfCheck_proofs.v - (T) the SHIPPED self-check rails treat a None / falsy `$allowed` as a
   rejection (C03: a failed action hands the flow None).  Flows: Gen/C01Flows.v (translator/gen_c01.py:
   compiled Colang 1.0 elements, Colang 2.x statement trees); their guards parsed into `gexpr`:
   Gen/C03Guards.v (translator/gen_c03.py).  Checked facts, by vm_compute on the generated terms:
   the guard right after the action is in the table, the table entry re-prints to the guard string,
   the guard is TRUE for every falsy value of $allowed (None, False, an empty list) and FALSE for
   True - so `if $allowed == False` (None passes) does not check; and on the true branch the rail
   refuses and stops / aborts, for both settings of enable_rails_exceptions. *)
From Coq Require Import List String Bool ZArith.
From NG Require Import Pipe.FlowCheck Pipe.FlowCheck_proofs Pipe.OptGuards Gen.C01Flows Gen.C03Guards.
Import ListNotations.
Open Scope string_scope.
Open Scope list_scope.

Definition sc_env (allowed : gval) (exc : bool) : env :=
  fun v =>
    if String.eqb v "allowed" then allowed
    else if String.eqb v "config" then VRec [("enable_rails_exceptions", VBool exc)]
    else if String.eqb v "system" then VRec [("config", VRec [("enable_rails_exceptions", VBool exc)])]
    else VNone.

(* the guard that follows the action whose result is stored in $allowed *)
Definition v1_verdict_guard (es : list elem) : option string :=
  match es with EAction _ "allowed" :: EIf x _ :: _ => Some x | _ => None end.
Definition v2_verdict_guard (b : list stmt) : option string :=
  match b with SAwait "action" _ _ :: SIf x _ _ :: _ => Some x | _ => None end.

Definition falsy_values : list gval := [VNone; VBool false; VList 0].

Definition rejects_falsy (s : option string) : bool :=
  match s with
  | None => false
  | Some x =>
    match lookup_guard x c03_guard_table with
    | None => false
    | Some e =>
      entry_ok (x, e) &&
      forallb (fun exc =>
                 forallb (fun v => match holds (sc_env v exc) e with Some true => true | _ => false end) falsy_values &&
                 match holds (sc_env (VBool true) exc) e with Some false => true | _ => false end)
              [true; false]
    end
  end.

Lemma c03_table_is_parse : forallb entry_ok c03_guard_table = true.
Proof. vm_compute. reflexivity. Qed.

Theorem shipped_rails_reject_falsy :
  rejects_falsy (v1_verdict_guard v1_self_check_input) = true /\
  rejects_falsy (v1_verdict_guard v1_self_check_output) = true /\
  rejects_falsy (v2_verdict_guard v2lib_self_check_input) = true /\
  rejects_falsy (v2_verdict_guard v2lib_self_check_output) = true.
Proof. vm_compute. repeat split. Qed.

(* what `rejects_falsy` says, spelled out *)
Lemma rejects_falsy_spec : forall s,
  rejects_falsy (Some s) = true ->
  exists e, lookup_guard s c03_guard_table = Some e /\ s = show e /\
            forall exc, holds (sc_env VNone exc) e = Some true /\ holds (sc_env (VBool false) exc) e = Some true /\
                        holds (sc_env (VBool true) exc) e = Some false.
Proof.
  intros s H. unfold rejects_falsy in H.
  destruct (lookup_guard s c03_guard_table) as [e|]; [|discriminate].
  apply andb_true_iff in H. destruct H as [Hok H].
  exists e. split; [reflexivity|]. split.
  { unfold entry_ok in Hok. apply andb_true_iff in Hok. destruct Hok as [Hs _].
    apply String.eqb_eq in Hs. exact Hs. }
  cbn [forallb falsy_values] in H. rewrite !andb_true_r in H.
  apply andb_true_iff in H. destruct H as [Ht Hf].
  assert (Hcase : forall exc,
             (match holds (sc_env VNone exc) e with Some true => true | _ => false end &&
              (match holds (sc_env (VBool false) exc) e with Some true => true | _ => false end &&
               match holds (sc_env (VList 0) exc) e with Some true => true | _ => false end)) &&
             match holds (sc_env (VBool true) exc) e with Some false => true | _ => false end = true ->
             holds (sc_env VNone exc) e = Some true /\ holds (sc_env (VBool false) exc) e = Some true /\
             holds (sc_env (VBool true) exc) e = Some false).
  { intros exc Hc. apply andb_true_iff in Hc. destruct Hc as [Hc H3].
    apply andb_true_iff in Hc. destruct Hc as [H1 Hc]. apply andb_true_iff in Hc. destruct Hc as [H2 _].
    destruct (holds (sc_env VNone exc) e) as [[|]|]; try discriminate.
    destruct (holds (sc_env (VBool false) exc) e) as [[|]|]; try discriminate.
    destruct (holds (sc_env (VBool true) exc) e) as [[|]|]; try discriminate.
    repeat split. }
  intros [|]; apply Hcase; [exact Ht|exact Hf].
Qed.

(* Colang 1.0: what the rail executes, under the meaning of its guards *)
Definition run_sc (es : list elem) (allowed : gval) (exc : bool) : option (list elem) :=
  run_flow es c03_guard_table (sc_env allowed exc).

Theorem v1_self_check_behaviour :
  (forall v, In v falsy_values ->
     option_map (trace_beq [EAction "self_check_input" "allowed"; EUtter "refuse to respond"; EUtter "stop"])
                (run_sc v1_self_check_input v false) = Some true /\
     option_map (trace_beq [EAction "self_check_output" "allowed"; EUtter "refuse to respond"; EUtter "stop"])
                (run_sc v1_self_check_output v false) = Some true /\
     option_map (existsb (is_utter "stop")) (run_sc v1_self_check_input v true) = Some true /\
     option_map (existsb (is_utter "stop")) (run_sc v1_self_check_output v true) = Some true) /\
  (forall exc, option_map (trace_beq [EAction "self_check_input" "allowed"]) (run_sc v1_self_check_input (VBool true) exc) = Some true /\
               option_map (trace_beq [EAction "self_check_output" "allowed"]) (run_sc v1_self_check_output (VBool true) exc) = Some true).
Proof.
  split.
  - intros v [<-|[<-|[<-|[]]]]; vm_compute; repeat split.
  - intros [|]; vm_compute; split; reflexivity.
Qed.

(* Colang 2.x: whenever the verdict guard holds the rail does not finish normally (abort), for both
   settings of enable_rails_exceptions (checker of Pipe/FlowCheck.v over all statement paths) *)
Theorem v2_self_check_aborts_on_reject :
  match v2_verdict_guard v2lib_self_check_input with Some s => v2_reject_aborts v2lib_self_check_input s | None => false end = true /\
  match v2_verdict_guard v2lib_self_check_output with Some s => v2_reject_aborts v2lib_self_check_output s | None => false end = true.
Proof. vm_compute. split; reflexivity. Qed.
