(* C11 - a saved or aged conversation state continues exactly like the live one.
   Property theorems only; every proof is `exact <lemma>`; Print Assumptions beneath each.
   `flags_now`, `classes_now`, `cfg_now` are read from the CURRENT source by the translator
   (Gen/C11Consts.v): without the re.Pattern / non-str-key / Action branches in
   serialization.py, or with another removal condition in _clean_up_state, the theorems below
   fail to check.

   What is proved, what is not:
   * C11_total, C11_roundtrip: full strength for graphs of any size (decode_from_dict o
     encode_to_dict); callbacks (functools.partial) correspond to None at this level.
   * the re-creation of the head callbacks by json_to_state (second half of Serial.json_to_state)
     has its own theorem C11_callbacks_recreated; C11_state_roundtrip composes both halves for
     State-shaped graphs with canonical callbacks (decidable hypothesis `state_hyps`, evaluated
     on real states by the harness): json_to_state (state_to_json s) is isomorphic to s, callbacks
     included, and every restored head carries callbacks bound to the restored State and to its
     own restored FlowState.
   * clean-up: the reference closure `refs_ok` (every uid in a child list, a scope flow list, a
     per-flow list or an action list resolves; checked on every real state by the harness) is an
     invariant (C11_cleanup_preserves_refs), on such states the clean-up never raises
     (C11_cleanup_total), every lookup through a list of a remaining instance resolves to the
     frame-image of what it resolved to before (C11_cleanup_lookups), index entries likewise
     (C11_cleanup_commutes_partial), and a later second clean-up gives extensionally the state of
     one clean-up at the later clock (C11_cleanup_later_clock_ext: list orders not compared).  What stays unproved: that the dispatch does nothing observable with the
     discarded (done, non-activated) instances and does not read parent_uid of a discarded
     parent, i.e. "same outgoing events" for the whole event loop - validated by exploration
     (X2).
   * bridge (V2/BridgeDef.v): `alpha` reads the abstract interpreter state of Cleanup.v off a State
     object graph of Serial.v (tied to the harness's abstraction of real states by the
     correspondence); it is invariant under the bisimulations of the round-trip theorems, so the
     clean-up of a restored state equals the clean-up of the live state on the abstract state
     (C11_cleanup_commutes_with_restore). *)
From Coq Require Import ZArith List String Bool.
From NG Require Import Gen.C11Consts V2.Serial V2.SerialRun V2.Serial_proofs V2.Serial_examples V2.Callbacks_proofs V2.State_proofs V2.State_examples
                       V2.Cleanup V2.Cleanup_proofs V2.Cleanup_clock V2.CleanupRun V2.Cleanup_now
                       V2.BridgeDef V2.Bridge V2.BridgeRun V2.Bridge_examples.
Import ListNotations.
Open Scope string_scope.
Open Scope Z_scope.

(* (T) the repaired branches are in the source *)
Theorem C11_fix_branches_in_source :
  fx_regex_src = true /\ fx_keys_src = true /\ fx_action_src = true.
Proof. exact (conj eq_refl (conj eq_refl eq_refl)). Qed.
Print Assumptions C11_fix_branches_in_source.

(* (T) shape of the source the model transcribes *)
Theorem C11_source_shape :
  enc_registers_after_children = true /\ dec_registers_after_children = true /\
  enc_branch_order = ["in:refs"; "list"; "str"; "int"; "float"; "None"; "functools.partial"; "dict"; "dataclass";
                      "RailsConfig"; "colang_ast_module.SpecType"; "Action"; "datetime"; "Enum"; "re.Pattern";
                      "deque"; "tuple"; "set"] /\
  dec_branch_order = ["ref"; "enum"; "RailsConfig"; "SpecType"; "Action"; "in:name_to_class"; "datetime"; "deque";
                      "tuple"; "re.Pattern"; "dict"; "set"] /\
  redo_callback_attrs = ["position_changed_callback"; "status_changed_callback"] /\
  redo_callback_target = ["partial(_flow_head_changed, state, flow_state)"] /\
  redo_loops = ["state.flow_states.items()"; "flow_state.heads.items()"] /\
  ctor_rejected_fields = [] /\ action_to_dict_keys = action_fields /\ action_is_dataclass = false /\
  action_to_dict_live = true /\
  late_tags_free classes_now.
Proof.
  exact (conj eq_refl (conj eq_refl (conj eq_refl (conj eq_refl (conj eq_refl (conj eq_refl (conj eq_refl
        (conj eq_refl (conj eq_refl (conj eq_refl (conj eq_refl late_tags_free_now))))))))))).
Qed.
Print Assumptions C11_source_shape.

(* the encoder succeeds on every supported graph of depth below the recursion limit *)
Theorem C11_total :
  forall h r rk limit,
    supported flags_now classes_now h r = true -> acyclic h rk -> (rank_of rk r < limit)%nat ->
    exists j, encode flags_now limit h r = Some j.
Proof. exact (fun h r rk limit => encode_total flags_now classes_now h r rk limit eq_refl). Qed.
Print Assumptions C11_total.

(* ... and decoding its output yields the same graph up to a renaming of object identities
   that is one-to-one on every object except lists (which are copied, see
   C11_shared_list_refuted): sharing is preserved *)
Theorem C11_roundtrip :
  forall h r rk limit,
    supported flags_now classes_now h r = true -> acyclic h rk -> (rank_of rk r < limit)%nat ->
    exists j h' r' M,
      encode flags_now limit h r = Some j /\ decode flags_now classes_now limit j = Some (h', r') /\
      bisim true h r h' r' M /\ sharing_preserved h M.
Proof. exact (fun h r rk limit => roundtrip_graph flags_now classes_now h r rk limit eq_refl late_tags_free_now). Qed.
Print Assumptions C11_roundtrip.

(* the hypotheses are inhabited by a state with a shared Action, a set, a regex, an int-keyed dict *)
Theorem C11_roundtrip_inhabited :
  supported flags_fixed classes_now h_state (VO 0) = true /\ acyclic h_state rk_state /\
  (rank_of rk_state (VO 0%Z) < 50)%nat.
Proof. exact (conj state_supported (conj state_acyclic state_rank)). Qed.
Print Assumptions C11_roundtrip_inhabited.

(* json_to_state, second half: on the decoded heap, every head reached through
   state.flow_states[*].heads[*] gets both callback attributes bound to a fresh
   partial(_flow_head_changed, state, <its own flow state>), its other attributes and every
   other object of the heap are unchanged *)
Theorem C11_callbacks_recreated :
  forall h n state W,
    collect_heads h state = Some W -> below h n -> heads_ok h W ->
    exists h' n',
      redo_callbacks h n state = Some (h', n') /\ below h' n' /\
      (forall fs x, In (fs, VO x) W ->
         exists c fl ks0 ks p q a b,
           lookup h x = Some (mk (HData c fl) ks0) /\ lookup h' x = Some (mk (HData c fl) ks) /\
           index_of pos_f fl = Some p /\ index_of stat_f fl = Some q /\
           nth_error ks p = Some (VO a) /\ nth_error ks q = Some (VO b) /\ a <> b /\ n <= a /\ n <= b /\
           lookup h' a = Some (partial_node state fs) /\ lookup h' b = Some (partial_node state fs) /\
           (forall m, m <> p -> m <> q -> nth_error ks m = nth_error ks0 m)) /\
      (forall j, j < n -> (forall fs, ~ In (fs, VO j) W) -> lookup h' j = lookup h j).
Proof. exact redo_callbacks_spec. Qed.
Print Assumptions C11_callbacks_recreated.

Theorem C11_callbacks_inhabited :
  collect_heads ex_cb_heap (VO 0) = Some [(VO 2, VO 6); (VO 2, VO 7); (VO 3, VO 8)].
Proof. exact ex_cb_collect. Qed.
Print Assumptions C11_callbacks_inhabited.

(* json_to_state o state_to_json on a State: ONE statement.  For every State-shaped graph whose
   heads carry the canonical callbacks partial(_flow_head_changed, state, flow_state) and in
   which nothing else refers to a functools.partial (`state_hyps`, decidable), the restored graph
   is related to the original by a bisimulation that also relates every callback to a callback
   of the same function whose bound arguments correspond (bisim2), sharing is preserved, and
   every restored head carries two distinct fresh callbacks bound to the RESTORED State and to
   its OWN restored FlowState. *)
Theorem C11_state_roundtrip :
  forall h rk limit s,
    supported flags_now classes_now h (VO s) = true -> acyclic h rk -> (rank_of rk (VO s) < limit)%nat ->
    state_hyps h s = true ->
    exists j h2 s' M W0,
      encode flags_now limit h (VO s) = Some j /\
      json_to_state flags_now classes_now limit j = Some (h2, VO s') /\
      bisim2 h (VO s) h2 (VO s') M /\ sharing_preserved h M /\
      collect_heads h (VO s) = Some W0 /\
      (forall fs x x', In (fs, VO x) W0 -> In (x, x') M ->
         exists fs' c fds ks p q a b,
           vrel true h M fs fs' /\ lookup h2 x' = Some (mk (HData c fds) ks) /\
           index_of pos_f fds = Some p /\ index_of stat_f fds = Some q /\
           nth_error ks p = Some (VO a) /\ nth_error ks q = Some (VO b) /\ a <> b /\
           lookup h2 a = Some (partial_node (VO s') fs') /\ lookup h2 b = Some (partial_node (VO s') fs')).
Proof. exact (fun h rk limit s => state_roundtrip_b flags_now classes_now h rk limit s eq_refl late_tags_free_now). Qed.
Print Assumptions C11_state_roundtrip.

(* inhabited by a State built from the field lists of the current source: two flow states, three
   heads with six callbacks, one Action shared by both flows, set / regex / int key *)
Theorem C11_state_roundtrip_inhabited :
  supported flags_fixed classes_now h_st (VO 0) = true /\ acyclic h_st rk_st /\
  (rank_of rk_st (VO 0%Z) < 50)%nat /\ state_hyps h_st 0 = true.
Proof. exact (conj st_supported (conj st_acyclic (conj st_rank st_hyps))). Qed.
Print Assumptions C11_state_roundtrip_inhabited.

(* (T) State.flow_states, FlowState.heads and the two callback attributes of FlowHead exist in
   the classes of the current source *)
Theorem C11_state_shape_in_source :
  (exists fs, class_fields classes_now "State" = Some fs /\ index_of "flow_states" fs <> None) /\
  (exists fs, class_fields classes_now "FlowState" = Some fs /\ index_of "heads" fs <> None) /\
  (exists fs, class_fields classes_now "FlowHead" = Some fs /\ index_of pos_f fs <> None /\ index_of stat_f fs <> None).
Proof. exact state_shape_in_source. Qed.
Print Assumptions C11_state_shape_in_source.

(* DESIGN section 5, F7: on the UNREPAIRED encoder a re.Pattern in a flow variable - a reachable
   value: `$r = regex("a")` - makes state_to_json raise at every recursion limit *)
Theorem C11_regex_refuted : forall limit, encode flags_orig limit h_regex (VO 0) = None.
Proof. exact regex_refuted. Qed.
Print Assumptions C11_regex_refuted.

(* ... a dict with a non-string key comes back with another key type *)
Theorem C11_nonstr_keys_refuted :
  exists j h' r',
    encode flags_orig 5 h_intkey (VO 0) = Some j /\ decode flags_orig classes_now 5 j = Some (h', r') /\
    ~ exists M, bisim false h_intkey (VO 0) h' r' M.
Proof. exact intkey_refuted. Qed.
Print Assumptions C11_nonstr_keys_refuted.

(* ... a pending Action whose arguments hold a set makes state_to_json raise *)
Theorem C11_action_args_refuted : forall limit, encode flags_orig limit h_action (VO 0) = None.
Proof. exact action_args_refuted. Qed.
Print Assumptions C11_action_args_refuted.

(* not repaired (recorded as known findings): a cyclic reference is a RecursionError at every
   limit; a list referenced twice is restored as two lists *)
Theorem C11_cyclic_refuted : forall fl limit, encode fl limit h_cyclic (VO 0) = None.
Proof. exact cyclic_refuted. Qed.
Print Assumptions C11_cyclic_refuted.

Theorem C11_shared_list_refuted :
  exists j h' r',
    encode flags_fixed 5 h_shared_list (VO 0) = Some j /\ decode flags_fixed classes_now 5 j = Some (h', r') /\
    ~ exists M, bisim false h_shared_list (VO 0) h' r' M /\ functional M.
Proof. exact shared_list_refuted. Qed.
Print Assumptions C11_shared_list_refuted.

(* The refs table is keyed by id(obj): the model `enc` (and C11_roundtrip) rely on "every object
   registered in refs stays alive until encoding ends" - true of the current source
   (C11_source_shape: action_to_dict_live).  An encoder whose Action branch registers TEMPORARY
   copies (`enc_tmp`) is restored correctly when the allocator never reuses an identity during
   one encoding, and is REFUTED under CPython's reuse: the second action is written as refs to
   the first action's dicts. *)
Theorem C11_tmp_reuse_refuted :
  exists j, encode_tmp alloc_reuse flags_fixed 10 h_two_actions (VO 0) = Some j /\
            canon_of 100 (decode flags_fixed classes_now 10 j) <> canon_of 100 (Some (h_two_actions, VO 0)).
Proof. exact tmp_reuse_refuted. Qed.
Print Assumptions C11_tmp_reuse_refuted.

Theorem C11_tmp_distinct_inhabited : tmp_ids_fresh alloc_distinct h_two_actions.
Proof. exact alloc_distinct_fresh. Qed.
Print Assumptions C11_tmp_distinct_inhabited.

(* ---------------------------------------------------------------------------------- *)
(* clean-up *)

(* (T) it runs once, before the processing loop of run_to_completion; the action table is
   rebuilt from the action_uids of the remaining flow states (the rule the model transcribes) *)
Theorem C11_cleanup_position_in_source :
  cleanup_before_loop = true /\ cleanup_actions_by_reference = true.
Proof. exact (conj eq_refl eq_refl). Qed.
Print Assumptions C11_cleanup_position_in_source.

(* it removes only instances that are FINISHED/STOPPED, not activated, strictly older than the
   age and not the parent of a running or activated instance, and only actions that no remaining
   instance references *)
Theorem C11_cleanup_only_done :
  forall now s s',
    NoDup (map fst (flows s)) -> cleanup_now now s = Some s' ->
    (forall u i, slook (flows s) u = Some i -> slook (flows s') u = None ->
       (i_status i = "FINISHED" \/ i_status i = "STOPPED") /\ i_activated i = 0 /\
       cleanup_age_s * 1000000 < now - i_updated i /\
       (forall v iv, In (v, iv) (flows s) -> i_parent iv = Some u ->
          (i_status iv = "FINISHED" \/ i_status iv = "STOPPED") /\ i_activated iv = 0)) /\
    (forall a x, slook (actions s) a = Some x -> slook (actions s') a = None ->
       forall u i, In (u, i) (flows s') -> ~ In a (i_actions i)).
Proof. exact only_done_now. Qed.
Print Assumptions C11_cleanup_only_done.

(* whole-state frame: the opaque rest of the state, every surviving instance (all fields except
   the cleared scores and the pruned children), every surviving action, the per-flow lists *)
Theorem C11_cleanup_frame :
  forall now s s',
    NoDup (map fst (flows s)) -> cleanup_now now s = Some s' ->
    s_rest s' = s_rest s /\
    (forall u i, slook (flows s) u = Some i -> rm cfg_now now s u i = false ->
       exists i', slook (flows s') u = Some i' /\ frame_rel (fun x => slook (flows s') x = None) i i') /\
    (forall u i', slook (flows s') u = Some i' ->
       exists i, slook (flows s) u = Some i /\ rm cfg_now now s u i = false) /\
    (forall a x, slook (actions s') a = Some x -> slook (actions s) a = Some x) /\
    (forall u i a, In (u, i) (flows s') -> In a (i_actions i) -> slook (actions s') a <> None) /\
    (forall f l', slook (by_flow s') f = Some l' ->
       exists l, slook (by_flow s) f = Some l /\ (forall x, In x l' -> In x l) /\
                 (forall x, In x l -> ~ In x l' -> slook (flows s') x = None)) /\
    (forall f l, slook (by_flow s) f = Some l -> exists l', slook (by_flow s') f = Some l').
Proof. exact frame_now. Qed.
Print Assumptions C11_cleanup_frame.

Theorem C11_cleanup_idempotent :
  forall now s s', NoDup (map fst (flows s)) -> cleanup_now now s = Some s' -> cleanup_now now s' = Some s'.
Proof. exact idempotent_now. Qed.
Print Assumptions C11_cleanup_idempotent.

(* PARTIAL (the modelled part of event dispatch): if the matcher index lists only heads of
   instances that are not done, every index entry resolves after the clean-up to the same head
   of the same instance (changed only as the frame allows) - no lookup of the dispatch reaches a
   removed instance.  The full claim (same outgoing events for every continuation and every
   clock advance) is validated by exploration on the real interpreter. *)
Theorem C11_cleanup_commutes_partial :
  forall now s s' (ix : index),
    NoDup (map fst (flows s)) -> cleanup_now now s = Some s' ->
    (forall name es e, slook ix name = Some es -> In e es ->
       exists i, slook (flows s) (fst e) = Some i /\ is_done cfg_now i = false /\ slook (i_heads i) (snd e) <> None) ->
    forall name,
      Forall2 (fun a b => exists fu hu i i', a = Some (fu, hu, i) /\ b = Some (fu, hu, i') /\
                                             frame_rel (fun x => slook (flows s') x = None) i i')
              (candidates ix s name) (candidates ix s' name).
Proof. exact candidates_now. Qed.
Print Assumptions C11_cleanup_commutes_partial.

(* the reference closure is an invariant of the clean-up (thanks to the purge of child and scope
   lists), and on a closed state _clean_up_state raises neither KeyError nor ValueError *)
Theorem C11_cleanup_preserves_refs :
  forall now s s', refs_ok s -> cleanup_now now s = Some s' -> refs_ok s'.
Proof. exact refs_ok_preserved. Qed.
Print Assumptions C11_cleanup_preserves_refs.

Theorem C11_cleanup_total : forall now s, refs_ok s -> exists s', cleanup_now now s = Some s'.
Proof. exact total_now. Qed.
Print Assumptions C11_cleanup_total.

(* every lookup the dispatch can make through the lists of a remaining instance: children and
   scope members resolve to the frame-image of the instance they resolved to before; a child
   that left the list was discarded by this clean-up (done, not activated, old); the listed
   actions are the very same objects *)
Theorem C11_cleanup_lookups :
  forall now s s',
    refs_ok s -> cleanup_now now s = Some s' ->
    forall u i i', slook (flows s) u = Some i -> slook (flows s') u = Some i' ->
      (forall x, In x (i_children i') ->
         exists ix ix', slook (flows s) x = Some ix /\ slook (flows s') x = Some ix' /\
                        frame_rel (fun y => slook (flows s') y = None) ix ix') /\
      (forall x, In x (i_children i) -> ~ In x (i_children i') ->
         exists ix, slook (flows s) x = Some ix /\ rm cfg_now now s x ix = true /\ slook (flows s') x = None) /\
      (forall k l' x, slook (i_scopes i') k = Some l' -> In x l' ->
         exists ix ix', slook (flows s) x = Some ix /\ slook (flows s') x = Some ix' /\
                        frame_rel (fun y => slook (flows s') y = None) ix ix') /\
      (forall a, In a (i_actions i') -> exists act, slook (actions s) a = Some act /\ slook (actions s') a = Some act).
Proof. exact lookups_now. Qed.
Print Assumptions C11_cleanup_lookups.

(* monotonicity in the clock: cleaning up at t1 and again at t2 >= t1 leaves the same instances,
   with the same fields, the same children and scope members, and the same actions as cleaning
   up once at t2 - the second clean-up removes exactly what became old enough in between.
   EXTENSIONAL (lookups / membership of every list, incl. the per-flow lists): only the ORDER of
   list elements is not compared. *)
Theorem C11_cleanup_later_clock_ext :
  forall t1 t2 s s1 s12 s2,
    t1 <= t2 -> refs_ok s ->
    cleanup_now t1 s = Some s1 -> cleanup_now t2 s1 = Some s12 -> cleanup_now t2 s = Some s2 ->
    (forall u, slook (flows s12) u = None <-> slook (flows s2) u = None) /\
    (forall u i12 i2, slook (flows s12) u = Some i12 -> slook (flows s2) u = Some i2 ->
       (i_flow i12 = i_flow i2 /\ i_status i12 = i_status i2 /\ i_updated i12 = i_updated i2 /\
        i_activated i12 = i_activated i2 /\ i_parent i12 = i_parent i2 /\ i_actions i12 = i_actions i2 /\
        i_rest i12 = i_rest i2 /\ i_heads i12 = i_heads i2 /\ map fst (i_scopes i12) = map fst (i_scopes i2)) /\
       (forall x, In x (i_children i12) <-> In x (i_children i2)) /\
       (forall k l12 l2, slook (i_scopes i12) k = Some l12 -> slook (i_scopes i2) k = Some l2 ->
                         forall x, In x l12 <-> In x l2)) /\
    (forall a, slook (actions s12) a = slook (actions s2) a) /\
    (forall f l12 l2, slook (by_flow s12) f = Some l12 -> slook (by_flow s2) f = Some l2 -> forall x, In x l12 <-> In x l2) /\
    s_rest s12 = s_rest s2.
Proof. exact later_clock_now. Qed.
Print Assumptions C11_cleanup_later_clock_ext.

(* clean-up commutes with save/restore: the abstract interpreter state read off the restored
   State graph (json_to_state o state_to_json) is THE SAME as the one read off the live graph,
   for every clock oracle ts; hence cleaning up after a restore = cleaning up the live state *)
Theorem C11_cleanup_commutes_with_restore :
  forall ts h rk limit s a,
    supported flags_now classes_now h (VO s) = true -> acyclic h rk -> (rank_of rk (VO s) < limit)%nat ->
    state_hyps h s = true ->
    alpha ts h (VO s) = Some a ->
    exists j h2 s',
      encode flags_now limit h (VO s) = Some j /\ json_to_state flags_now classes_now limit j = Some (h2, VO s') /\
      alpha ts h2 (VO s') = Some a /\
      forall c now, option_map (cleanup c now) (alpha ts h2 (VO s')) = option_map (cleanup c now) (alpha ts h (VO s)).
Proof. exact (fun ts h rk limit s a => alpha_restored ts flags_now classes_now h rk limit s a eq_refl late_tags_free_now). Qed.
Print Assumptions C11_cleanup_commutes_with_restore.

(* inhabited: the abstract state of the example State, with closed references *)
Theorem C11_bridge_inhabited :
  (exists a, alpha ts0 h_st (VO 0) = Some a /\ refs_okb a = true /\ List.length (flows a) = 2%nat).
Proof. exact bridge_inhabited. Qed.
Print Assumptions C11_bridge_inhabited.

Theorem C11_cleanup_refs_inhabited : refs_ok ex_state.
Proof. exact ex_state_refs_ok. Qed.
Print Assumptions C11_cleanup_refs_inhabited.

(* an ended flow that is still the parent of a running flow is kept, however old (the removal
   condition reads the parent links of the pre-state) *)
Theorem C11_cleanup_needed_parent_kept :
  exists s', cleanup_now 100000000 ex_parent_state = Some s' /\
             slook (flows s') "p" <> None /\ slook (flows s') "q" = None.
Proof. exact needed_parent_kept. Qed.
Print Assumptions C11_cleanup_needed_parent_kept.

Theorem C11_cleanup_inhabited :
  exists s', cleanup_now 10000000 ex_state = Some s' /\ slook (flows s') "a1" = None /\
             slook (flows s') "b1" <> None /\ slook (actions s') "act2" = None.
Proof. exact cleanup_now_example. Qed.
Print Assumptions C11_cleanup_inhabited.
