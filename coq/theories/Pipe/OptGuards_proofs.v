(* Pipe/OptGuards_proofs.v - (T) tie of the `$generation_options.rails.*` guards of llm_flows.co.

   Inputs, regenerated from the source tree on every run:
     Gen/C01Flows.v  (translator/gen_c01.py) compiled flat elements of the llm_flows.co flows,
                     guards as strings;
     Gen/C16Flows.v  (translator/gen_c16.py) the same guard strings parsed into `gexpr`.
   Proved here:
     * the parse is right: every table entry re-prints (`show`) to its string, needs no
       parentheses, and every guard of the four flows is in the table;
     * what each guard MEANS: for every option value its truth is the guard function of
       Pipe/Options.v (input_enabled, retrieval_enabled, output_enabled, dialog_disabled,
       output_off), for every configuration the `$config.rails.*.flows` guards are "non-empty";
     * ONLY THROUGH the guard: by the verified dominance checker of Pipe/FlowCheck.v, every path
       of the compiled flow that reaches the rails subflow call (resp. the BotMessage injection)
       takes the TRUE edge of exactly that guard (resp. dialog-off true + output-off false);
     * EXACTLY WHEN: following the compiled flow under the valuation the context induces (`walk`,
       proved to be a `path`), the elements executed are exactly those the model of
       Pipe/Options.v assumes, for every configuration and option value. *)
From Coq Require Import List String Bool ZArith Lia.
From NG Require Import Pipe.FlowCheck Pipe.FlowCheck_proofs Pipe.Options Pipe.OptGuards Pipe.OptGuardsEnv Gen.C01Flows Gen.C16Flows.
Import ListNotations.
Open Scope string_scope.
Open Scope list_scope.

(* ---------------------------------------------------------------------------------------- *)
(* the walker follows a path of the control-flow graph, consistently with the valuation *)

Definition edge_agrees (val : string -> option bool) (s : Z * edge) : Prop :=
  match snd s with
  | LTrue x => val x = Some true
  | LFalse x => val x = Some false
  | LNext => True
  end.

Lemma walk_path : forall es val fuel pc p,
  walk es val fuel pc = Some p ->
  exists k, path es pc p k /\ elem_at es k = None /\ Forall (edge_agrees val) p.
Proof.
  intros es val. induction fuel as [|f IH]; intros pc p H; [discriminate|].
  cbn [walk] in H.
  destruct (elem_at es pc) as [e|] eqn:He.
  2:{ inversion H; subst. exists pc. split; [constructor|]. split; [exact He|constructor]. }
  assert (Hstep : forall l j p',
             In (l, j) (succs pc e) -> edge_agrees val (pc, l) ->
             walk es val f j = Some p' ->
             exists k, path es pc ((pc, l) :: p') k /\ elem_at es k = None /\ Forall (edge_agrees val) ((pc, l) :: p')).
  { intros l j p' Hin Hag Hw. destruct (IH j p' Hw) as (k & Hp & Hk & Hf).
    exists k. split; [econstructor; eassumption|]. split; [exact Hk|constructor; assumption]. }
  assert (Hnext : forall p0, option_map (cons (pc, LNext)) (walk es val f (pc + 1)%Z) = Some p0 ->
                             In (LNext, (pc + 1)%Z) (succs pc e) ->
                             exists k, path es pc p0 k /\ elem_at es k = None /\ Forall (edge_agrees val) p0).
  { intros p0 H0 Hin. destruct (walk es val f (pc + 1)%Z) as [p'|] eqn:Hw; [|discriminate].
    inversion H0; subst. eapply Hstep; [exact Hin|exact I|exact Hw]. }
  destruct e; try (apply Hnext; [exact H|left; reflexivity]).
  - (* EIf *)
    destruct (val expr) as [[|]|] eqn:Hv; [| |discriminate].
    + destruct (walk es val f (pc + 1)%Z) as [p'|] eqn:Hw; [|discriminate]. inversion H; subst.
      eapply Hstep; [left; reflexivity|exact Hv|exact Hw].
    + destruct (walk es val f (pc + next_else)%Z) as [p'|] eqn:Hw; [|discriminate]. inversion H; subst.
      eapply Hstep; [right; left; reflexivity|exact Hv|exact Hw].
  - discriminate.
  - (* EJump *)
    destruct (walk es val f (pc + next)%Z) as [p'|] eqn:Hw; [|discriminate]. inversion H; subst.
    eapply Hstep; [left; reflexivity|exact I|exact Hw].
Qed.

(* ---------------------------------------------------------------------------------------- *)
(* the table is the parse of the strings, and covers every guard of the four flows *)

Lemma table_is_parse : forallb entry_ok c16_guard_table = true.
Proof. vm_compute. reflexivity. Qed.

Lemma guards_known :
  all_guards_known v1_process_user_input c16_guard_table = true /\
  all_guards_known v1_run_dialog_rails c16_guard_table = true /\
  all_guards_known v1_generate_bot_message c16_guard_table = true /\
  all_guards_known v1_process_bot_message c16_guard_table = true.
Proof. vm_compute. repeat split. Qed.

(* the guard strings (as FlowCheck.v names them, plus the three it does not name) *)
Definition g_ret_cfg := "$config.rails.retrieval.flows".
Definition g_ret_opt := "$generation_options is None or $generation_options.rails.retrieval".
Definition g_dialog_off := "$generation_options and $generation_options.rails.dialog == False".
Definition g_output_off := "$generation_options.rails.output == False".

Definition nonempty {A} (l : list A) : bool := negb (match l with [] => true | _ => false end).

(* ---- meaning of each guard, for EVERY configuration, option value and flag ---- *)
Theorem guard_meanings : forall c g sk,
  let v := valuation c16_guard_table (turn_env c g sk) in
  v g_in_opt = Some (input_enabled g) /\
  v g_ret_opt = Some (retrieval_enabled g) /\
  v g_out_opt = Some (output_enabled g) /\
  v g_dialog_off = Some (dialog_disabled g) /\
  (* evaluated only when options are given (the guard above is true); on None it raises *)
  v g_output_off = match g with Some _ => Some (output_off g) | None => None end /\
  v g_in_cfg = Some (nonempty (c_in c)) /\
  v g_ret_cfg = Some (nonempty (c_ret c)) /\
  v g_out_cfg = Some (nonempty (c_out c)) /\
  v g_skip = Some (match sk with Some b => b | None => false end).
Proof.
  intros [ci co cr dm fl bi] g sk v. subst v.
  destruct g as [[[] [] [] []]|]; destruct ci, cr, co; destruct sk as [[]|];
    vm_compute; repeat split.
Qed.

(* ---------------------------------------------------------------------------------------- *)
(* ONLY THROUGH the guard (structural, over all paths; verified checker + soundness) *)

Definition at_flow (n : string) (e : option elem) : bool :=
  match e with Some x => is_flow n x | None => false end.

Lemma true_of_inv : forall gs l, true_of gs l = true -> exists x, l = LTrue x /\ In x gs.
Proof.
  intros gs [|x|x] H; try discriminate. cbn in H. apply existsb_exists in H.
  destruct H as (y & Hy & He). apply String.eqb_eq in He. subst. exists y. split; [reflexivity|exact Hy].
Qed.
Lemma false_of_inv : forall gs l, false_of gs l = true -> exists x, l = LFalse x /\ In x gs.
Proof.
  intros gs [|x|x] H; try discriminate. cbn in H. apply existsb_exists in H.
  destruct H as (y & Hy & He). apply String.eqb_eq in He. subst. exists y. split; [reflexivity|exact Hy].
Qed.

(* generic: if the checker accepts with no gate element and one excused guard edge, every path
   from the entry to a target takes that edge *)
Lemma only_through_true : forall es target g,
  gatedb es (fun _ => false) target (true_of [g]) 0 = true ->
  forall p k, path es 0 p k -> target (elem_at es k) = true -> exists i, In (i, LTrue g) p.
Proof.
  intros es target g H p k Hp Ht.
  destruct (gatedb_sound _ _ _ _ _ H p k Hp Ht) as [(i & l & e & Hin & _ & [Hg|Hx])|(e & _ & Hg)]; try discriminate.
  destruct (true_of_inv _ _ Hx) as (x & -> & [<-|[]]). exists i. exact Hin.
Qed.
Lemma only_through_false : forall es target g,
  gatedb es (fun _ => false) target (false_of [g]) 0 = true ->
  forall p k, path es 0 p k -> target (elem_at es k) = true -> exists i, In (i, LFalse g) p.
Proof.
  intros es target g H p k Hp Ht.
  destruct (gatedb_sound _ _ _ _ _ H p k Hp Ht) as [(i & l & e & Hin & _ & [Hg|Hx])|(e & _ & Hg)]; try discriminate.
  destruct (false_of_inv _ _ Hx) as (x & -> & [<-|[]]). exists i. exact Hin.
Qed.

Definition reaches (es : list elem) (p : list (Z * edge)) (k : Z) (target : option elem -> bool) : Prop :=
  path es 0 p k /\ target (elem_at es k) = true.

Theorem input_rails_only_through_guard : forall p k,
  reaches v1_process_user_input p k (at_flow "run input rails") ->
  (exists i, In (i, LTrue g_in_opt) p) /\ (exists i, In (i, LTrue g_in_cfg) p).
Proof.
  intros p k [Hp Ht]. split.
  - eapply only_through_true; [|exact Hp|exact Ht]. vm_compute. reflexivity.
  - eapply only_through_true; [|exact Hp|exact Ht]. vm_compute. reflexivity.
Qed.

Theorem retrieval_rails_only_through_guard : forall p k,
  reaches v1_generate_bot_message p k (at_flow "run retrieval rails") ->
  (exists i, In (i, LTrue g_ret_opt) p) /\ (exists i, In (i, LTrue g_ret_cfg) p).
Proof.
  intros p k [Hp Ht]. split.
  - eapply only_through_true; [|exact Hp|exact Ht]. vm_compute. reflexivity.
  - eapply only_through_true; [|exact Hp|exact Ht]. vm_compute. reflexivity.
Qed.

Theorem output_rails_only_through_guard : forall p k,
  reaches v1_process_bot_message p k (at_flow "run output rails") ->
  (exists i, In (i, LTrue g_out_opt) p) /\ (exists i, In (i, LTrue g_out_cfg) p) /\ (exists i, In (i, LFalse g_skip) p).
Proof.
  intros p k [Hp Ht]. split; [|split].
  - eapply only_through_true; [|exact Hp|exact Ht]. vm_compute. reflexivity.
  - eapply only_through_true; [|exact Hp|exact Ht]. vm_compute. reflexivity.
  - eapply only_through_false; [|exact Hp|exact Ht]. vm_compute. reflexivity.
Qed.

(* `run dialog rails`: the generation step only when dialog rails are not disabled; the echo of the
   user text only with dialog off and output off; the BotMessage injection only with dialog off
   and output NOT off - and it carries $bot_message *)
Theorem dialog_branches_only_through_guards : forall p k,
  path v1_run_dialog_rails 0 p k ->
  (at_flow "generate user intent" (elem_at v1_run_dialog_rails k) = true -> exists i, In (i, LFalse g_dialog_off) p) /\
  (is_create "BotMessage" (elem_at v1_run_dialog_rails k) = true ->
     (exists i, In (i, LTrue g_dialog_off) p) /\ (exists i, In (i, LFalse g_output_off) p)) /\
  (is_create "StartUtteranceBotAction" (elem_at v1_run_dialog_rails k) = true ->
     (exists i, In (i, LTrue g_dialog_off) p) /\ (exists i, In (i, LTrue g_output_off) p)).
Proof.
  intros p k Hp. split; [|split].
  - intros Ht. eapply only_through_false; [|exact Hp|exact Ht]. vm_compute. reflexivity.
  - intros Ht. split.
    + eapply only_through_true; [|exact Hp|exact Ht]. vm_compute. reflexivity.
    + eapply only_through_false; [|exact Hp|exact Ht]. vm_compute. reflexivity.
  - intros Ht. split.
    + eapply only_through_true; [|exact Hp|exact Ht]. vm_compute. reflexivity.
    + eapply only_through_true; [|exact Hp|exact Ht]. vm_compute. reflexivity.
Qed.

Lemma injection_carries_bot_message :
  forallb (fun e => match e with
                    | ECreate "BotMessage" ps => match ps with [("text", "$bot_message")] => true | _ => false end
                    | _ => true end) v1_run_dialog_rails = true /\
  existsb (fun e => match e with ECreate "BotMessage" _ => true | _ => false end) v1_run_dialog_rails = true.
Proof. vm_compute. split; reflexivity. Qed.

(* ---------------------------------------------------------------------------------------- *)
(* EXACTLY WHEN: the elements each flow executes, for every configuration and option value,
   are the ones Pipe/Options.v builds its turn from *)

Definition expect (tr : option (list elem)) (want : list elem) : Prop := option_map (trace_beq want) tr = Some true.

Theorem process_user_input_exact : forall c g sk,
  expect (run_flow v1_process_user_input c16_guard_table (turn_env c g sk))
         ([EMatch "UtteranceUserActionFinished"; ESet "user_message" "$event[""final_transcript""]"]
          ++ (if in_active c g
              then [ECreate "StartInputRails" []; EMatch "StartInputRails"; EFlow "run input rails";
                    ECreate "InputRailsFinished" []; EMatch "InputRailsFinished"]
              else [])
          ++ [ECreate "UserMessage" [("text", "$user_message")]]).
Proof.
  intros [ci co cr dm fl bi] g sk. unfold expect, in_active.
  destruct g as [[[] [] [] []]|]; destruct ci; vm_compute; reflexivity.
Qed.

Theorem run_dialog_rails_exact : forall c g sk,
  expect (run_flow v1_run_dialog_rails c16_guard_table (turn_env c g sk))
         [EMatch "UserMessage";
          if dialog_disabled g
          then (if output_off g then ECreate "StartUtteranceBotAction" [("script", "$user_message")]
                else ECreate "BotMessage" [("text", "$bot_message")])
          else EFlow "generate user intent"].
Proof.
  intros c g sk. unfold expect.
  destruct g as [[[] [] [] []]|]; vm_compute; reflexivity.
Qed.

Theorem generate_bot_message_exact : forall c g sk,
  expect (run_flow v1_generate_bot_message c16_guard_table (turn_env c g sk))
         ([EUtter "..."; EAction "retrieve_relevant_chunks" ""]
          ++ (if ret_active c g then [EFlow "run retrieval rails"] else [])
          ++ [EAction "generate_bot_message" ""]).
Proof.
  intros [ci co cr dm fl bi] g sk. unfold expect, ret_active.
  destruct g as [[[] [] [] []]|]; destruct cr; vm_compute; reflexivity.
Qed.

Theorem process_bot_message_exact : forall c g sk,
  expect (run_flow v1_process_bot_message c16_guard_table (turn_env c g sk))
         ([EMatch "BotMessage"; ESet "bot_message" "$event.text"]
          ++ (if match sk with Some b => b | None => false end
              then [ESet "skip_output_rails" "False"]
              else if out_active c g
                   then [ECreate "StartOutputRails" []; EMatch "StartOutputRails"; EFlow "run output rails";
                         ECreate "OutputRailsFinished" []; EMatch "OutputRailsFinished"]
                   else [])
          ++ [ECreate "StartUtteranceBotAction" [("script", "$bot_message")]]).
Proof.
  intros [ci co cr dm fl bi] g sk. unfold expect, out_active.
  destruct g as [[[] [] [] []]|]; destruct co; destruct sk as [[]|]; vm_compute; reflexivity.
Qed.

(* the run is a path of the compiled flow that ends at the end of the flow and takes every guard
   edge according to the meaning of the guard (walk_path instantiated) *)
Theorem run_is_path : forall es c g sk p,
  walk es (valuation c16_guard_table (turn_env c g sk)) (S (List.length es)) 0 = Some p ->
  exists k, path es 0 p k /\ elem_at es k = None /\
            Forall (edge_agrees (valuation c16_guard_table (turn_env c g sk))) p.
Proof. intros. eapply walk_path. eassumption. Qed.

(* generate_async: the trailing message is injected for role "assistant" iff options are given and
   options.rails.dialog is False (shape read by the translator) = `injected_bot` of Pipe/Options.v *)
Lemma injection_condition : inject_role = "assistant" /\ inject_iff_options_and_dialog_is_false = true /\
  forall g b, injected_bot g (Some b) = (if dialog_disabled g then Some b else None).
Proof. repeat split. Qed.
