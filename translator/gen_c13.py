"""Translator (T-tie) for C13: reads from the CURRENT source

  * the except clauses around parse_colang_file in _parse_colang_files_recursively and in
    RailsConfig.from_content (config.py) -> `handler` records,
  * the shape of format_colang_parsing_error_message (lang/utils.py) -> `fmt_cfg`,
  * the layout-relevant declarations of grammar/colang.lark (_NEWLINE, COMMENT, %ignore,
    %declare), how grammar/load.py builds the parser (LALR + contextual lexer +
    PythonIndenter), that ColangParser.get_parsing_tree parses `content + "\\n"`, the installed
    lark.indenter (PythonIndenter constants; normalised hash of Indenter.handle_NL/_process),
  * the line pre-processing statements of the Colang 1.0 parser (get_numbered_lines),

and emits coq/theories/Gen/C13Consts.v.  Fail-closed: any shape that is not recognised raises
TranslatorError (the check then reports the broken obligation `translator:C13Consts`).
"""
from __future__ import annotations

import ast
import hashlib
import os
import re

REPO = os.environ.get("VERIF_REPO", "/repo")

CONFIG = "nemoguardrails/rails/llm/config.py"
UTILS = "nemoguardrails/colang/v2_x/lang/utils.py"
GRAMMAR = "nemoguardrails/colang/v2_x/lang/grammar/colang.lark"
LOAD = "nemoguardrails/colang/v2_x/lang/grammar/load.py"
PARSER = "nemoguardrails/colang/v2_x/lang/parser.py"
V1UTILS = "nemoguardrails/colang/v1_0/lang/utils.py"


class TranslatorError(Exception):
    pass


def _read(rel):
    with open(os.path.join(REPO, rel), encoding="utf-8") as f:
        return f.read()


def _parse(rel):
    return ast.parse(_read(rel), filename=rel)


def _func(tree, name):
    for node in ast.walk(tree):
        if isinstance(node, (ast.FunctionDef, ast.AsyncFunctionDef)) and node.name == name:
            return node
    raise TranslatorError(f"function {name} not found")


# --------------------------------------------------------------------------------------
# Coq printing


def coq_str(s: str) -> str:
    """Coq string expression; newlines are spelled with ParseWrap.nl."""
    parts = s.split("\n")
    out = []
    for i, p in enumerate(parts):
        if any(ord(c) > 126 or ord(c) < 32 for c in p):
            raise TranslatorError(f"non-printable constant {s!r}")
        if p or len(parts) == 1:
            out.append('"' + p.replace('"', '""') + '"')
        if i < len(parts) - 1:
            out.append("nl")
    if len(out) == 1:
        return out[0]
    return "(" + " ++ ".join(out) + ")"


def coq_bool(b) -> str:
    return "true" if b else "false"


# --------------------------------------------------------------------------------------
# the except clauses


def _is_call_to(node, name):
    return isinstance(node, ast.Call) and isinstance(node.func, ast.Name) and node.func.id == name


def _contains_call(node, name):
    return any(_is_call_to(n, name) for n in ast.walk(node))


def _tpl_parts(node, path_names, file_const):
    """f-string / constant -> list of ('lit', s) | ('path',) | ('version',) | ('var', name)."""
    parts = []
    if isinstance(node, ast.Constant) and isinstance(node.value, str):
        vals = [node]
    elif isinstance(node, ast.JoinedStr):
        vals = node.values
    else:
        raise TranslatorError("message is neither a string literal nor an f-string: " + ast.dump(node)[:120])
    for v in vals:
        if isinstance(v, ast.Constant) and isinstance(v.value, str):
            s = v.value
            if file_const and file_const in s:
                segs = s.split(file_const)
                for i, sg in enumerate(segs):
                    if sg:
                        parts.append(("lit", sg))
                    if i < len(segs) - 1:
                        parts.append(("path",))
            elif s:
                parts.append(("lit", s))
        elif isinstance(v, ast.FormattedValue):
            if v.conversion != -1 or v.format_spec is not None:
                raise TranslatorError("formatted value with conversion/format spec")
            if isinstance(v.value, ast.Name):
                if v.value.id in path_names:
                    parts.append(("path",))
                elif v.value.id == "colang_version":
                    parts.append(("version",))
                else:
                    parts.append(("var", v.value.id))
            else:
                raise TranslatorError("formatted value is not a plain name")
        else:
            raise TranslatorError("unexpected f-string part")
    return parts


def _handler(h: ast.ExceptHandler, path_names, file_const, content_names):
    if h.type is None:
        classes = ["BaseException"]
    elif isinstance(h.type, ast.Name):
        classes = [h.type.id]
    elif isinstance(h.type, ast.Tuple) and all(isinstance(e, ast.Name) for e in h.type.elts):
        classes = [e.id for e in h.type.elts]
    elif isinstance(h.type, ast.Attribute):
        classes = [h.type.attr]
    else:
        raise TranslatorError("except clause with an unsupported class expression")
    body = [s for s in h.body if not (isinstance(s, ast.Expr) and isinstance(s.value, ast.Constant))]
    if len(body) != 1 or not isinstance(body[0], ast.Raise) or body[0].exc is None:
        raise TranslatorError(f"handler for {classes} is not a single `raise X(...)`")
    exc = body[0].exc
    if not (isinstance(exc, ast.Call) and isinstance(exc.func, ast.Name) and len(exc.args) == 1 and not exc.keywords):
        raise TranslatorError(f"handler for {classes} raises something that is not `Class(message)`")
    raised = exc.func.id
    msg = exc.args[0]
    uses_fmt = False
    if isinstance(msg, ast.BinOp) and isinstance(msg.op, ast.Add):
        right = msg.right
        if not _is_call_to(right, "format_colang_parsing_error_message"):
            raise TranslatorError("message is `a + b` where b is not the formatter call")
        if not (len(right.args) == 2 and isinstance(right.args[0], ast.Name) and right.args[0].id == h.name
                and isinstance(right.args[1], ast.Name) and right.args[1].id in content_names):
            raise TranslatorError("formatter is not called as (caught exception, file content)")
        uses_fmt = True
        msg = msg.left
    elif _contains_call(msg, "format_colang_parsing_error_message"):
        raise TranslatorError("formatter call in an unsupported position")
    tpl = _tpl_parts(msg, path_names, file_const)
    return [{"cls": c, "raises": raised, "tpl": tpl, "fmt": uses_fmt} for c in classes]


def _enclosing_try(fn, call_name):
    """The innermost Try whose body contains the call to `call_name` (None if the call is not inside
    a try body); error if the call occurs zero or several times outside nested functions."""
    found = []

    def walk(node, tries):
        for child in ast.iter_child_nodes(node):
            if isinstance(child, (ast.FunctionDef, ast.AsyncFunctionDef, ast.Lambda)) and child is not fn:
                continue
            if isinstance(child, ast.Try):
                for s in child.body:
                    walk_stmt(s, tries + [child])
                for part in (child.handlers, child.orelse, child.finalbody):
                    for s in part:
                        walk_stmt(s, tries)
            else:
                walk_stmt(child, tries)

    def walk_stmt(node, tries):
        if _is_call_to(node, call_name):
            found.append((node, list(tries)))
        walk(node, tries)

    walk(fn, [])
    return found


def wrapper_consts():
    tree = _parse(CONFIG)
    out = {}
    # --- _parse_colang_files_recursively
    fn = _func(tree, "_parse_colang_files_recursively")
    calls = [c for c in _enclosing_try(fn, "parse_colang_file")]
    # the call on user files is the one whose first argument is `current_file` inside the while loop
    user_calls = [(c, t) for c, t in calls if c.args and isinstance(c.args[0], ast.Name) and c.args[0].id == "current_file"
                  and any(isinstance(p, ast.While) for p in ast.walk(fn) if c in list(ast.walk(p)))]
    if len(user_calls) != 1:
        raise TranslatorError(f"expected exactly one parse_colang_file(current_file, ...) call in the loop, found {len(user_calls)}")
    call, tries = user_calls[0]
    hs = []
    if tries:
        for h in tries[-1].handlers:
            hs += _handler(h, {"current_path"}, None, {"content"})
        if len(tries) > 1:
            raise TranslatorError("nested try around parse_colang_file: unsupported shape")
    out["handlers_path"] = hs
    # --- RailsConfig.from_content
    fn = _func(tree, "from_content")
    calls = _enclosing_try(fn, "parse_colang_file")
    if len(calls) != 1:
        raise TranslatorError(f"expected exactly one parse_colang_file call in from_content, found {len(calls)}")
    call, tries = calls[0]
    if not (call.args and isinstance(call.args[0], ast.Constant) and isinstance(call.args[0].value, str)):
        raise TranslatorError("from_content: file name is not a string constant")
    fname = call.args[0].value
    content_arg = [k.value.id for k in call.keywords if k.arg == "content" and isinstance(k.value, ast.Name)]
    if len(content_arg) != 1:
        raise TranslatorError("from_content: content= is not a plain name")
    hs = []
    if tries:
        if len(tries) > 1:
            raise TranslatorError("nested try around parse_colang_file in from_content")
        for h in tries[-1].handlers:
            hs += _handler(h, set(), fname, {content_arg[0]})
    out["handlers_content"] = hs
    out["content_file_name"] = fname
    return out


# --------------------------------------------------------------------------------------
# the formatter

_ORIG_FMT = '''
def format_colang_parsing_error_message(exception, colang_content):
    line = colang_content.splitlines()[exception.line - 1]
    marker = " " * (getattr(exception, "column", 1) - 1) + "^"
    return f"{exception}:\\n{line}\\n{marker}"
'''


def _strip_doc(fn):
    body = list(fn.body)
    if body and isinstance(body[0], ast.Expr) and isinstance(body[0].value, ast.Constant) and isinstance(body[0].value.value, str):
        body = body[1:]
    return body


def _dump_body(body):
    return "\n".join(ast.dump(s) for s in body)


def formatter_consts():
    fn = _func(_parse(UTILS), "format_colang_parsing_error_message")
    if [a.arg for a in fn.args.args] != ["exception", "colang_content"]:
        raise TranslatorError("formatter signature changed")
    body = _strip_doc(fn)
    orig = _strip_doc(_func(ast.parse(_ORIG_FMT), "format_colang_parsing_error_message"))
    if _dump_body(body) == _dump_body(orig):
        return {"line_getattr": False, "line_guard": False, "col_guard": False}
    # the defensive shape, statement by statement (names are free):
    #   L = colang_content.splitlines()
    #   N = getattr(exception, "line", None)
    #   if not isinstance(N, int) or not 1 <= N <= len(L): return f"{exception}"
    #   line = L[N - 1]
    #   C = getattr(exception, "column", 1)
    #   if not isinstance(C, int) or C < 1: C = 1
    #   marker = " " * (C - 1) + "^"
    #   return f"{exception}:\n{line}\n{marker}"
    src = [ast.unparse(s) for s in body]
    pats = [
        r"^(?P<L>\w+) = colang_content\.splitlines\(\)$",
        r"^(?P<N>\w+) = getattr\(exception, 'line', None\)$",
        r"^if not isinstance\((?P=N), int\) or not 1 <= (?P=N) <= len\((?P=L)\):\n    return f'\{exception\}'$",
        r"^(?P<l>\w+) = (?P=L)\[(?P=N) - 1\]$",
        r"^(?P<C>\w+) = getattr\(exception, 'column', 1\)$",
        r"^if not isinstance\((?P=C), int\) or (?P=C) < 1:\n    (?P=C) = 1$",
        r"^(?P<m>\w+) = ' ' \* \((?P=C) - 1\) \+ '\^'$",
        r"^return f'\{exception\}:\\n\{(?P=l)\}\\n\{(?P=m)\}'$",
    ]
    if len(src) != len(pats):
        raise TranslatorError("formatter: unknown shape (statement count %d)" % len(src))
    joined = "\n@@\n".join(src)
    # one regex over the joined text so that the named groups are shared between statements
    rx = "\n@@\n".join(p.strip("^$") for p in pats)
    if not re.fullmatch(rx, joined):
        raise TranslatorError("formatter: unknown shape:\n" + joined)
    return {"line_getattr": True, "line_guard": True, "col_guard": True}


# --------------------------------------------------------------------------------------
# grammar, loader, indenter

_EXPECT_TERMINALS = {
    "_NEWLINE": r"(/\r?\n[\t ]*/)+",
    "COMMENT": r"/#[^\n]*/",
    "_AND.1": r"/(and[ \t]|(\r?\n[\t ]*)+and[ \t])/",
    "_OR.1": r"/(or[ \t]|(\r?\n[\t ]*)+or[ \t]+(?!when))/",
    # \s only in a lookahead / between `else` and `if`: content tokens for the layout model
    "_FLOW.1": r"/(?<!\.)flow(?!(\s*\(|[a-zA-Z0-9_]))/",
    "_ELSE_IF.1": r"/(elif|else\s+if)/",
}
_HANDLE_NL_HASH = None  # filled below from the reference text
_REF_INDENTER = '''
def handle_NL(self, token):
    if self.paren_level > 0:
        return
    yield token
    indent_str = token.rsplit('\\n', 1)[1]
    indent = indent_str.count(' ') + indent_str.count('\\t') * self.tab_len
    if indent > self.indent_level[-1]:
        self.indent_level.append(indent)
        yield Token.new_borrow_pos(self.INDENT_type, indent_str, token)
    else:
        while indent < self.indent_level[-1]:
            self.indent_level.pop()
            yield Token.new_borrow_pos(self.DEDENT_type, indent_str, token)
        if indent != self.indent_level[-1]:
            raise DedentError('Unexpected dedent to column %s. Expected dedent to %s' % (indent, self.indent_level[-1]))

def _process(self, stream):
    for token in stream:
        if token.type == self.NL_type:
            yield from self.handle_NL(token)
        else:
            yield token
        if token.type in self.OPEN_PAREN_types:
            self.paren_level += 1
        elif token.type in self.CLOSE_PAREN_types:
            self.paren_level -= 1
            assert self.paren_level >= 0
    while len(self.indent_level) > 1:
        self.indent_level.pop()
        yield Token(self.DEDENT_type, '')
    assert self.indent_level == [0], self.indent_level

def process(self, stream):
    self.paren_level = 0
    self.indent_level = [0]
    return self._process(stream)
'''


def _norm_fn(fn):
    """ast.dump of a function without annotations/docstring/positions."""
    fn = ast.parse(ast.unparse(fn)).body[0]
    fn.returns = None
    for a in fn.args.args:
        a.annotation = None
    fn.body = _strip_doc(fn)
    return ast.dump(fn)


def grammar_consts():
    text = _read(GRAMMAR)
    terms = {}
    ignores = []
    declares = []
    for line in text.splitlines():
        m = re.match(r"^([A-Z_][A-Z_0-9]*(?:\.\d+)?)\s*:\s*(.*?)\s*$", line)
        if m:
            terms[m.group(1)] = m.group(2)
            continue
        m = re.match(r"^%ignore\s+(.*?)\s*$", line)
        if m:
            ignores.append(m.group(1))
        m = re.match(r"^%declare\s+(.*?)\s*$", line)
        if m:
            declares += m.group(1).split()
    for name, want in _EXPECT_TERMINALS.items():
        if terms.get(name) != want:
            raise TranslatorError(f"colang.lark: terminal {name} is {terms.get(name)!r}, expected {want!r}")
    # no other single-line terminal mentions a line break or '#'
    for name, rx in terms.items():
        if name in _EXPECT_TERMINALS or name in ("STRING", "LONG_STRING"):
            continue
        if "\\n" in rx or "\\r" in rx or "#" in rx or "\\s" in rx:
            raise TranslatorError(f"colang.lark: terminal {name} may match layout characters: {rx!r}")
    if sorted(declares) != ["_DEDENT", "_INDENT"]:
        raise TranslatorError(f"colang.lark: %declare is {declares}")
    ig = sorted(ignores)
    if ig == sorted(['" "', "COMMENT"]):
        ignore_tab = False
    elif ig == sorted([r"/[\t ]+/", "COMMENT"]):
        ignore_tab = True
    else:
        raise TranslatorError(f"colang.lark: unknown %ignore set {ignores}")
    # rules must not mention COMMENT except through the (never produced) `comment` rule
    out = {"ignore_tab": ignore_tab, "newline": terms["_NEWLINE"], "comment": terms["COMMENT"]}

    # loader
    ltree = _parse(LOAD)
    lark_calls = [n for n in ast.walk(ltree) if _is_call_to(n, "Lark")]
    if len(lark_calls) != 1:
        raise TranslatorError("load.py: expected one Lark(...) call")
    kw = {k.arg: k.value for k in lark_calls[0].keywords}
    def const(k):
        return kw[k].value if k in kw and isinstance(kw[k], ast.Constant) else None
    if const("parser") != "lalr" or const("lexer") != "contextual" or const("start") != "start":
        raise TranslatorError("load.py: parser/lexer/start changed")
    if not ("postlex" in kw and _is_call_to(kw["postlex"], "PythonIndenter") and not kw["postlex"].args and not kw["postlex"].keywords):
        raise TranslatorError("load.py: postlex is not PythonIndenter()")

    # parser.py: get_parsing_tree parses content + "\n"
    fn = _func(_parse(PARSER), "get_parsing_tree")
    ok = False
    for n in ast.walk(fn):
        if (isinstance(n, ast.Call) and isinstance(n.func, ast.Attribute) and n.func.attr == "parse" and len(n.args) == 1
                and ast.unparse(n.args[0]) == "content + '\\n'"):
            ok = True
    if not ok:
        raise TranslatorError("parser.py: get_parsing_tree no longer parses content + '\\n'")

    # installed lark indenter
    import lark.indenter as li

    itree = ast.parse(open(li.__file__, encoding="utf-8").read())
    ref = {f.name: _norm_fn(f) for f in ast.parse(_REF_INDENTER).body}
    cls = [n for n in itree.body if isinstance(n, ast.ClassDef) and n.name == "Indenter"]
    if len(cls) != 1:
        raise TranslatorError("lark.indenter.Indenter not found")
    got = {f.name: _norm_fn(f) for f in cls[0].body if isinstance(f, ast.FunctionDef) and f.name in ref}
    for name in ref:
        if got.get(name) != ref[name]:
            raise TranslatorError(f"lark.indenter.Indenter.{name} differs from the modelled algorithm")
    pi = li.PythonIndenter
    if (pi.NL_type, pi.INDENT_type, pi.DEDENT_type) != ("_NEWLINE", "_INDENT", "_DEDENT"):
        raise TranslatorError("PythonIndenter token types changed")
    if list(pi.OPEN_PAREN_types) != ["LPAR", "LSQB", "LBRACE"] or list(pi.CLOSE_PAREN_types) != ["RPAR", "RSQB", "RBRACE"]:
        raise TranslatorError("PythonIndenter bracket types changed")
    if not isinstance(pi.tab_len, int) or pi.tab_len <= 0:
        raise TranslatorError("PythonIndenter.tab_len")
    out["tab_len"] = pi.tab_len
    return out


# --------------------------------------------------------------------------------------
# Colang 1.0 line pre-processing

_V1_REQUIRED = [
    "raw_lines = content.split('\\n')",
    "raw_line = raw_lines[i].strip()",
    "if len(raw_line) == 0 or raw_line[0] == '#':\n    i += 1\n    continue",
    "ind = 0",
    "while raw_lines[i][ind] == ' ':\n    ind += 1",
    "lines.append({'text': text, 'number': i + 1, 'indentation': ind, 'comment': current_comment})",
    # the pending line comment (Svc/V1Lines.v: pre_cm): recorded on '#' lines, kept over skipped lines,
    # attached to the next statement and then cleared
    "if raw_line.startswith('#'):\n    if current_comment is None:\n        current_comment = raw_line[1:].strip()\n"
    "    else:\n        current_comment += '\\n' + raw_line[1:].strip()",
    "current_comment = None",
    # the continuation join (Svc/V1Lines.v: go / join_next)
    "text = raw_line",
    "while i < len(raw_lines) - 1 and text[-1] == '\\\\' or text.endswith(' or'):\n    i += 1\n    if text[-1] == '\\\\':\n"
    "        text = text[0:-1]\n    if text[-1] != ' ':\n        text = text + ' '\n    text = text + raw_lines[i].strip()",
]


def v1_consts():
    fn = _func(_parse(V1UTILS), "get_numbered_lines")
    stmts = set()
    for n in ast.walk(fn):
        if isinstance(n, ast.stmt):
            stmts.add(ast.unparse(n))
    for want in _V1_REQUIRED:
        if want not in stmts:
            raise TranslatorError("get_numbered_lines: statement not found: " + want.replace("\n", " | "))
    return {"v1_strip_skip_indent": True}


# --------------------------------------------------------------------------------------

HEADER = """(* GENERATED by translator/gen_c13.py from the current source - do not edit. *)
From Coq Require Import ZArith NArith List String Bool.
From NG Require Import Svc.ParseWrap.
Import ListNotations.
Open Scope string_scope.
"""


def _coq_tpl(tpl):
    out = []
    for p in tpl:
        if p[0] == "lit":
            out.append(f"TLit {coq_str(p[1])}")
        elif p[0] == "path":
            out.append("TPath")
        elif p[0] == "version":
            out.append("TVersion")
        else:
            out.append(f"TOtherVar {coq_str(p[1])}")
    return "[" + "; ".join(out) + "]"


def _coq_handlers(hs):
    items = []
    for h in hs:
        items.append(
            "{| h_class := %s; h_raises := %s; h_tpl := %s; h_fmt := %s |}"
            % (coq_str(h["cls"]), coq_str(h["raises"]), _coq_tpl(h["tpl"]), coq_bool(h["fmt"]))
        )
    return "[\n  " + ";\n  ".join(items) + "\n]" if items else "[]"


def all_consts():
    d = {}
    d.update(wrapper_consts())
    d["fmt"] = formatter_consts()
    d.update(grammar_consts())
    d.update(v1_consts())
    return d


def emit(d):
    f = d["fmt"]
    lines = [
        HEADER,
        f"(* {CONFIG} :: _parse_colang_files_recursively - except clauses around parse_colang_file *)",
        f"Definition handlers_path_now : list handler := {_coq_handlers(d['handlers_path'])}.",
        "",
        f"(* {CONFIG} :: RailsConfig.from_content - except clauses around parse_colang_file *)",
        f"Definition handlers_content_now : list handler := {_coq_handlers(d['handlers_content'])}.",
        f"Definition content_file_name : string := {coq_str(d['content_file_name'])}.",
        "",
        f"(* {UTILS} :: format_colang_parsing_error_message *)",
        "Definition fmt_now : fmt_cfg := {| f_line_getattr := %s; f_line_guard := %s; f_col_guard := %s |}."
        % (coq_bool(f["line_getattr"]), coq_bool(f["line_guard"]), coq_bool(f["col_guard"])),
        "",
        f"(* {GRAMMAR}: the layout terminals; blank and COMMENT are ignored between tokens *)",
        f"Definition newline_regex : string := {coq_str(d['newline'])}.",
        f"Definition comment_regex : string := {coq_str(d['comment'])}.",
        f"Definition ignore_tab_now : bool := {coq_bool(d['ignore_tab'])}.",
        "(* lark.indenter.PythonIndenter.tab_len; Indenter.handle_NL/_process equal the modelled algorithm *)",
        f"Definition tab_len_now : N := {d['tab_len']}%N.",
        "(* get_numbered_lines strips, skips empty/# lines, counts leading blanks *)",
        f"Definition v1_strip_skip_indent : bool := {coq_bool(d['v1_strip_skip_indent'])}.",
        "",
    ]
    return "\n".join(lines)


def _gen():
    return emit(all_consts())


GENERATORS = {"C13Consts": _gen}

if __name__ == "__main__":
    print(_gen())
