(* Pipe/OptGuardsEnv.v - the context of a turn of Pipe/Options.v ($generation_options, $config,
   $skip_output_rails) as values of the guard evaluator of Pipe/OptGuards.v.  Definitions only. *)
From Coq Require Import List String Bool.
From NG Require Import Pipe.Options Pipe.OptGuards.
Import ListNotations.
Open Scope string_scope.
Open Scope list_scope.

(* ---------- the context of a turn, as values ---------- *)
Definition rails_val (o : ropts) : gval :=
  VRec [("input", VBool (o_input o)); ("output", VBool (o_output o));
        ("retrieval", VBool (o_retrieval o)); ("dialog", VBool (o_dialog o))].

(* options.dict(): a non-empty dict with the `rails` entry (other entries are not read by the guards) *)
Definition gopts_val (g : option ropts) : gval :=
  match g with
  | None => VNone
  | Some o => VRec [("rails", rails_val o); ("log", VRec [("activated_rails", VBool false)])]
  end.

Definition config_val (c : cfg) : gval :=
  VRec [("rails", VRec [("input", VRec [("flows", VList (List.length (c_in c)))]);
                        ("output", VRec [("flows", VList (List.length (c_out c)))]);
                        ("retrieval", VRec [("flows", VList (List.length (c_ret c)))])])].

Definition turn_env (c : cfg) (g : option ropts) (skip : option bool) : env :=
  fun v =>
    if String.eqb v "generation_options" then gopts_val g
    else if String.eqb v "config" then config_val c
    else if String.eqb v "skip_output_rails" then match skip with Some b => VBool b | None => VNone end
    else VNone.

