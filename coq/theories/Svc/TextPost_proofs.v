(* C17 - lemmas about Svc/TextPost.v: totality of the helpers (with the exact inputs on which the
   real code raises), termination of the shrink loop for every oracle, containment of action
   failures, and when the runtime's re-parse of a generated flow can raise. *)
From Coq Require Import NArith List Bool String Ascii Lia Arith.
From NG Require Import Svc.TextPost.
Import ListNotations.
Open Scope N_scope.

(* ---------------------------------------------------------------- basics *)

Lemma teq_refl : forall a, teq a a = true.
Proof. induction a as [|x a IH]; simpl; [reflexivity|]. rewrite N.eqb_refl, IH. reflexivity. Qed.

Lemma teq_eq : forall a b, teq a b = true <-> a = b.
Proof.
  induction a as [|x a IH]; destruct b as [|y b]; simpl; split; intro H; try reflexivity; try discriminate.
  - apply andb_true_iff in H. destruct H as [Hx Hab]. apply N.eqb_eq in Hx. apply IH in Hab. subst. reflexivity.
  - inversion H; subst. rewrite N.eqb_refl. rewrite (proj2 (IH b) eq_refl). reflexivity.
Qed.

Lemma truthy_nil : truthy [] = false.
Proof. reflexivity. Qed.

Lemma truthy_cons : forall c s, truthy (c :: s) = true.
Proof. reflexivity. Qed.

Lemma truthy_false_nil : forall s, truthy s = false -> s = [].
Proof. destruct s; [reflexivity|discriminate]. Qed.

Lemma split_on_cons : forall c s, exists h t, split_on c s = h :: t.
Proof. intros c s. unfold split_on. destruct (split_char c s) as [h t]. eauto. Qed.

Lemma idx0_split_on : forall c s, exists h, idx (split_on c s) 0 = Ok h.
Proof. intros c s. destruct (split_on_cons c s) as [h [t E]]. rewrite E. exists h. reflexivity. Qed.

(* ---------------------------------------------------------------- helpers: totality *)

Lemma get_first_nonempty_line_total : forall s, exists r, get_first_nonempty_line s = Ok r.
Proof. intro s. unfold get_first_nonempty_line. destruct (negb (truthy s)); eauto. Qed.

Lemma first_nonempty_some_truthy : forall ls l, first_nonempty ls = Some l -> truthy l = true.
Proof.
  induction ls as [|x ls IH]; simpl; intros l H; [discriminate|].
  destruct (truthy x) eqn:E; [inversion H; subst; exact E | apply IH; exact H].
Qed.

(* the line returned is never empty, hence the callers' `result[...]` guards are redundant *)
Lemma get_first_nonempty_line_nonempty : forall s l, get_first_nonempty_line s = Ok (Some l) -> l <> [].
Proof.
  intros s l H. unfold get_first_nonempty_line in H. destruct (negb (truthy s)); [discriminate|].
  inversion H as [H1]. apply first_nonempty_some_truthy in H1. destruct l; [discriminate|congruence].
Qed.

Lemma strip_quotes_total : forall s, exists r, strip_quotes s = Ok r.
Proof.
  intro s. unfold strip_quotes. destruct s as [|c s]; simpl; [eauto|].
  destruct (c =? QUOTE); [|eauto].
  unfold idx_last. destruct (rev (c :: s)) as [|x l] eqn:E.
  - apply (f_equal (@List.length N)) in E. rewrite rev_length in E. simpl in E. discriminate.
  - simpl. destruct (x =? QUOTE); eauto.
Qed.

Lemma get_multiline_response_total : forall s, exists r, get_multiline_response s = Ok r.
Proof. intro s. unfold get_multiline_response. eauto. Qed.

Lemma clean_utterance_content_total : forall s, exists r, clean_utterance_content s = Ok r.
Proof. intro s. unfold clean_utterance_content. destruct (truthy s); eauto. Qed.

Lemma verbose_v1_parser_total : forall s, exists r, verbose_v1_parser s = Ok r.
Proof. intro s. unfold verbose_v1_parser. eauto. Qed.

Lemma get_top_k_total : forall s k, exists r, get_top_k_nonempty_lines s k = Ok r.
Proof. intros s k. unfold get_top_k_nonempty_lines. destruct (negb (truthy s)); eauto. Qed.

Lemma user_intent_post_total : forall s, exists r, user_intent_post s = Ok r.
Proof.
  intro s. unfold user_intent_post. destruct (get_first_nonempty_line_total s) as [r E]. rewrite E. simpl. eauto.
Qed.

Lemma cut_stage2 : forall b1 : text,
  exists x : text,
    (let! bi2 := if mem_char COMMA b1 then (let! h := idx (split_on COMMA b1) 0 in Ok (strip h)) else Ok b1
     in Ok bi2) = Ok x.
Proof.
  intro b1. destruct (mem_char COMMA b1); [|simpl; eauto].
  destruct (idx0_split_on COMMA b1) as [h Eh]. rewrite Eh. simpl. eauto.
Qed.

Lemma next_step_post_total : forall s, exists r, next_step_post s = Ok r.
Proof.
  intro s. unfold next_step_post. destruct (get_first_nonempty_line_total s) as [r E]. rewrite E.
  cbn [bind]. destruct r as [r|]; [|eauto].
  destruct (starts_with P_BOT r); [|eauto]. cbv zeta.
  destruct (mem_char QUOTE (skipn 4 r)).
  - destruct (idx0_split_on QUOTE (skipn 4 r)) as [h Eh]. rewrite Eh. cbn [bind]. exact (cut_stage2 (strip h)).
  - cbn [bind]. exact (cut_stage2 (skipn 4 r)).
Qed.

Lemma bot_message_post_total : forall s, exists r, bot_message_post s = Ok r.
Proof.
  intro s. unfold bot_message_post.
  destruct (get_multiline_response_total s) as [r1 E1]. rewrite E1. simpl.
  destruct (strip_quotes_total r1) as [r2 E2]. rewrite E2. simpl.
  destruct (truthy r2); [apply clean_utterance_content_total | eauto].
Qed.

Lemma replace_nonempty : forall p r c s, r <> [] -> replace p r (c :: s) <> [].
Proof.
  intros p r c s NR. unfold replace. cbn [replace_fuel List.length].
  destruct (starts_with p (c :: s)).
  - destruct r as [|x r]; [congruence|]. simpl. discriminate.
  - discriminate.
Qed.

(* the utterance produced from LLM output is never the empty string *)
Lemma bot_message_post_nonempty : forall s r, bot_message_post s = Ok r -> r <> [].
Proof.
  intros s r H. unfold bot_message_post in H.
  destruct (get_multiline_response_total s) as [r1 E1]. rewrite E1 in H. cbn [bind] in H.
  destruct (strip_quotes_total r1) as [r2 E2]. rewrite E2 in H. cbn [bind] in H.
  destruct (truthy r2) eqn:T.
  - unfold clean_utterance_content in H. rewrite T in H. inversion H; subst. clear H.
    destruct r2 as [|c r2]; [discriminate|].
    apply replace_nonempty. discriminate.
  - inversion H. unfold FALLBACK_MESSAGE. simpl. discriminate.
Qed.

Lemma general_post_total : forall s, exists r, general_post s = Ok r.
Proof. intro s. unfold general_post. eauto. Qed.

(* generate_intent_steps_message: raises exactly on the empty completion (len(None)) *)
Lemma single_call_post_char : forall s,
  (s = [] -> single_call_post s = Err TypeError) /\
  (s <> [] -> exists r, single_call_post s = Ok r).
Proof.
  intro s. split.
  - intro E. subst. reflexivity.
  - intro NE. destruct s as [|c s]; [congruence|].
    unfold single_call_post, get_top_k_nonempty_lines, get_multiline_response.
    cbn [truthy teq negb bind].
    set (lines := firstn 2 (filter not_comment (map strip (split_nl (c :: s))))).
    destruct (nth_error lines 1) as [bi|]; [|cbn [bind]; eauto].
    destruct (truthy bi); [|cbn [bind]; eauto].
    destruct (find bi (c :: s)) as [pos|]; [|cbn [bind]; eauto].
    cbn [bind].
    match goal with |- context [strip_quotes ?X] => destruct (strip_quotes_total X) as [m2 E2]; rewrite E2 end.
    cbn [bind]. eauto.
Qed.

(* generate_bot_message: `bot_intent[0]` raises exactly for the empty, not predefined intent *)
Lemma bot_message_source_char : forall predefined ctx_has bi,
  (bot_message_source predefined ctx_has bi = Err IndexError <-> (bi = [] /\ predefined [] = false)) /\
  (forall e, bot_message_source predefined ctx_has bi = Err e -> e = IndexError).
Proof.
  intros predefined ctx_has bi. unfold bot_message_source. split; [split|].
  - intro H. destruct bi as [|c bi].
    + destruct (predefined []); [discriminate|]. auto.
    + destruct (predefined (c :: bi)); [discriminate|]. cbn [idx nth_error bind] in H.
      match type of H with context [if ?b then _ else _] => destruct b end; discriminate.
  - intros [E P]. subst. rewrite P. reflexivity.
  - intros e H. destruct (predefined bi); [discriminate|]. destruct bi as [|c bi]; cbn [idx nth_error bind] in H.
    + inversion H. reflexivity.
    + match type of H with context [if ?b then _ else _] => destruct b end; discriminate.
Qed.

(* ... and the empty bot intent IS produced by the next-step post-processing *)
Lemma next_step_post_empty_reachable : next_step_post (s2t "bot ""hello""") = Ok [].
Proof. vm_compute. reflexivity. Qed.

(* generate_value: the only evaluator applied to the LLM text is literal_eval, and its failure is
   the only way to fail *)
Lemma generate_value_v2_char : forall V (lev : text -> res V) last result,
  exists v2, (forall v, lev v2 = Ok v -> generate_value_v2 V lev last result = Ok v) /\
             (forall e, lev v2 = Err e -> generate_value_v2 V lev last result = Err ValueError).
Proof.
  intros V lev last result. unfold generate_value_v2.
  destruct (idx0_split_on NL (strip result)) as [v0 E0]. unfold split_nl. rewrite E0. simpl.
  eexists. split; intros ? H; rewrite H; reflexivity.
Qed.

Lemma generate_value_v1_char : forall V (lev : text -> res V) result,
  exists v1, generate_value_v1 V lev result = lev v1.
Proof.
  intros V lev result. unfold generate_value_v1.
  destruct (idx0_split_on NL (strip result)) as [v0 E0]. unfold split_nl. rewrite E0. simpl. eauto.
Qed.

(* AddFlowsAction: exact characterisation of when the fallback itself raises *)
Lemma split1_at_mem : forall c s, split1_at c s = None <-> mem_char c s = false.
Proof.
  intros c s. induction s as [|d s IH]; simpl; [tauto|].
  rewrite (N.eqb_sym c d). destruct (d =? c); simpl; [split; discriminate|].
  destruct (split1_at c s) as [[h t]|]; split; intro H; try discriminate; try tauto.
  - apply IH in H. discriminate.
Qed.

Lemma add_flows_action_char : forall parse2 content,
  match parse2 content with
  | Ok fl => add_flows_action parse2 content = Ok fl
  | Err _ =>
      let l0 := match split_nl content with h :: _ => h | [] => [] end in
      match split1_at SPACE l0 with
      | None => add_flows_action parse2 content = Err IndexError      (* no space in line 1 *)
      | Some (_, name) => add_flows_action parse2 content = parse2 (fallback_flow name)
      end
  end.
Proof.
  intros parse2 content. unfold add_flows_action.
  destruct (parse2 content) as [fl|e]; [reflexivity|].
  destruct (split_on_cons NL content) as [h [t E]]. unfold split_nl. rewrite E. simpl.
  unfold split1_space. destruct (split1_at SPACE h) as [[a b]|]; reflexivity.
Qed.

(* ---------------------------------------------------------------- the shrink loop *)

Lemma removelast_length : forall (A : Type) (l : list A), l <> [] -> List.length (removelast l) = pred (List.length l).
Proof.
  intros A l NE. rewrite removelast_firstn_len. rewrite firstn_length. lia.
Qed.

Lemma shrink_step_decreases : forall accepts lines lines',
  shrink_step accepts lines = inr lines' ->
  lines <> [] ->
  (List.length lines' < List.length lines)%nat /\ lines' <> [] /\ lines' = removelast lines.
Proof.
  intros accepts lines lines' H NE. unfold shrink_step in H.
  destruct (accepts lines); [discriminate|].
  destruct (Nat.eqb (List.length lines) 1) eqn:E1; [discriminate|].
  inversion H; subst. clear H. apply Nat.eqb_neq in E1.
  pose proof (removelast_length _ lines NE) as HL.
  destruct lines as [|x [|y l]]; [congruence| simpl in E1; congruence |].
  split; [rewrite HL; simpl; lia|]. split; [|reflexivity].
  change (removelast (x :: y :: l)) with (x :: removelast (y :: l)). discriminate.
Qed.

Lemma shrink_fuel_enough : forall accepts n lines,
  lines <> [] -> (List.length lines <= n)%nat -> exists o, shrink_fuel accepts n lines = Some o.
Proof.
  intros accepts n. induction n as [|n IH]; intros lines NE L.
  - destruct lines; [congruence|simpl in L; lia].
  - simpl. destruct (shrink_step accepts lines) as [o|lines'] eqn:E; [eauto|].
    destruct (shrink_step_decreases _ _ _ E NE) as [Hlt [NE' _]].
    apply IH; [exact NE'|lia].
Qed.

(* for ANY oracle the loop terminates within `length lines` iterations *)
Lemma shrink_terminates : forall accepts lines,
  lines <> [] -> exists o, shrink_fuel accepts (List.length lines) lines = Some o.
Proof. intros. apply shrink_fuel_enough; [assumption|lia]. Qed.

Lemma split_nl_nonempty : forall s, split_nl s <> [].
Proof. intro s. unfold split_nl. destruct (split_on_cons NL s) as [h [t E]]. rewrite E. discriminate. Qed.

(* what the loop returns: an accepted non-empty prefix of the lines, or the general response *)
Fixpoint is_prefix (a b : list text) : Prop :=
  match a, b with
  | [], _ => True
  | x :: a', y :: b' => x = y /\ is_prefix a' b'
  | _ :: _, [] => False
  end.

Lemma is_prefix_refl : forall a, is_prefix a a.
Proof. induction a; simpl; auto. Qed.

Lemma is_prefix_removelast : forall a, is_prefix (removelast a) a.
Proof.
  induction a as [|x a IH]; [exact I|].
  destruct a as [|y a]; [exact I|].
  change (removelast (x :: y :: a)) with (x :: removelast (y :: a)). simpl. split; [reflexivity|exact IH].
Qed.

Lemma is_prefix_trans : forall a b c, is_prefix a b -> is_prefix b c -> is_prefix a c.
Proof.
  induction a as [|x a IH]; intros b c H1 H2; [exact I|].
  destruct b as [|y b]; [destruct H1|]. destruct c as [|z c]; [destruct H2|].
  destruct H1 as [E1 P1]. destruct H2 as [E2 P2]. simpl. split; [congruence|eauto].
Qed.

Lemma shrink_result : forall accepts n lines o,
  lines <> [] -> shrink_fuel accepts n lines = Some o ->
  match o with
  | GeneralResponse => True
  | StartFlow ls => accepts ls = true /\ ls <> [] /\ is_prefix ls lines
  end.
Proof.
  intros accepts n. induction n as [|n IH]; intros lines o NE H; [discriminate|].
  simpl in H. destruct (shrink_step accepts lines) as [o'|lines'] eqn:E.
  - inversion H; subst. unfold shrink_step in E.
    destruct (accepts lines) eqn:A.
    + inversion E; subst. split; [exact A|]. split; [exact NE|apply is_prefix_refl].
    + destruct (Nat.eqb (List.length lines) 1); [inversion E; exact I|discriminate].
  - destruct (shrink_step_decreases _ _ _ E NE) as [_ [NE' EQ]].
    specialize (IH lines' o NE' H). destruct o as [|ls]; [exact I|].
    destruct IH as [A [N P]]. split; [exact A|]. split; [exact N|].
    eapply is_prefix_trans; [exact P|]. subst. apply is_prefix_removelast.
Qed.

(* ---------------------------------------------------------------- runtime re-parse *)

(* when the generation validates the very text the runtime parses, the parse + assert of
   _process_start_flow cannot raise (the parser is a function of the text) *)
Lemma runtime_parse_guarded : forall parse flow_id lines,
  gen_accepts parse true flow_id lines = true ->
  process_start_flow_parse parse flow_id (join_nl lines) = Ok tt /\ blank (join_nl lines) = false.
Proof.
  intros parse flow_id lines H. unfold gen_accepts in H. apply andb_true_iff in H. destruct H as [B P].
  split; [|destruct (blank (join_nl lines)); [discriminate|reflexivity]].
  unfold process_start_flow_parse. destruct (parse (wrap_flow flow_id (join_nl lines))) as [n|e]; [|discriminate].
  simpl. rewrite P. reflexivity.
Qed.

Lemma cap_lines_nonempty : forall n l, l <> [] -> cap_lines n l <> [].
Proof. intros n l NE. destruct n as [|n]; [exact NE|]. destruct l; [congruence|]. simpl. discriminate. Qed.

Lemma cap_lines_length : forall n l, n <> 0%nat -> (List.length (cap_lines n l) <= n)%nat.
Proof. intros n l NZ. destruct n as [|n]; [congruence|]. unfold cap_lines. rewrite firstn_length. lia. Qed.

Lemma multi_step_safe : forall parse flow_id maxl result o,
  multi_step_post parse true flow_id maxl result = Some o ->
  match o with
  | GeneralResponse => True
  | StartFlow ls => process_start_flow_parse parse flow_id (join_nl ls) = Ok tt /\ blank (join_nl ls) = false
  end.
Proof.
  intros parse flow_id maxl result o H. unfold multi_step_post in H.
  pose proof (shrink_result _ _ _ _ (cap_lines_nonempty maxl _ (split_nl_nonempty result)) H) as R.
  destruct o as [|ls]; [exact I|]. destruct R as [A _]. apply runtime_parse_guarded. exact A.
Qed.

Lemma multi_step_total : forall parse vw flow_id maxl result, exists o, multi_step_post parse vw flow_id maxl result = Some o.
Proof. intros. unfold multi_step_post. apply shrink_terminates. apply cap_lines_nonempty. apply split_nl_nonempty. Qed.

(* with a cap, the number of validations (= parser runs) of one completion is at most the cap,
   whatever the length of the completion: the loop's fuel is the number of capped lines *)
Lemma multi_step_work_bounded : forall maxl result, maxl <> 0%nat ->
  (List.length (cap_lines maxl (split_nl result)) <= maxl)%nat.
Proof. intros. apply cap_lines_length. assumption. Qed.

(* the validation of the raw body (what the code did before the repair) says nothing about the
   wrapped text: there is a parser and an output that is accepted and then raises at start_flow *)
Definition header_parser (t : text) : res nat :=
  if starts_with (s2t "define flow ") t then Err ParseError else Ok 0%nat.

Lemma runtime_parse_unguarded_refuted :
  exists parse flow_id result ls,
    multi_step_post parse false flow_id 0 result = Some (StartFlow ls) /\
    exists e, process_start_flow_parse parse flow_id (join_nl ls) = Err e.
Proof.
  exists header_parser, (s2t "f"), (s2t """"), [s2t """"]. split; [vm_compute; reflexivity|].
  exists ParseError. vm_compute. reflexivity.
Qed.

(* ---------------------------------------------------------------- containment *)

Lemma contained : forall (A : Type) (events_of : A -> list event) (r : res A),
  (forall e, r = Err e ->
     process_start_action events_of r = internal_error_events /\
     reply_of (process_start_action events_of r) = INTERNAL_ERROR_MESSAGE) /\
  (forall a, r = Ok a -> process_start_action events_of r = events_of a).
Proof.
  intros A events_of r. split.
  - intros e E. subst. split; reflexivity.
  - intros a E. subst. reflexivity.
Qed.

(* the reply of a turn is a text whatever the events are: joining scripts never fails *)
Lemma reply_total : forall evs, exists t, reply_of evs = t.
Proof. intros. eauto. Qed.

Lemma hide_prev_turn_in_error : In EHidePrevTurn internal_error_events.
Proof. simpl. auto. Qed.

(* ---------------------------------------------------------------- bundle *)

(* every modelled helper answers on EVERY text; the only exceptions of the per-call
   post-processing are the two characterised ones (both inside actions, hence contained) *)
Theorem helpers_total : forall s : text,
  (exists r, get_first_nonempty_line s = Ok r) /\
  (exists r, get_top_k_nonempty_lines s 2 = Ok r) /\
  (exists r, strip_quotes s = Ok r) /\
  (exists r, get_multiline_response s = Ok r) /\
  (exists r, clean_utterance_content s = Ok r) /\
  (exists r, verbose_v1_parser s = Ok r) /\
  (exists r, user_intent_post s = Ok r) /\
  (exists r, next_step_post s = Ok r) /\
  (exists r, bot_message_post s = Ok r /\ r <> []) /\
  (exists r, general_post s = Ok r) /\
  (s <> [] -> exists r, single_call_post s = Ok r) /\
  (s = [] -> single_call_post s = Err TypeError) /\
  (forall parse vw fid maxl, exists o, multi_step_post parse vw fid maxl s = Some o).
Proof.
  intro s.
  repeat split.
  - apply get_first_nonempty_line_total.
  - apply get_top_k_total.
  - apply strip_quotes_total.
  - apply get_multiline_response_total.
  - apply clean_utterance_content_total.
  - apply verbose_v1_parser_total.
  - apply user_intent_post_total.
  - apply next_step_post_total.
  - destruct (bot_message_post_total s) as [r E]. exists r. split; [exact E|]. eapply bot_message_post_nonempty; eauto.
  - apply general_post_total.
  - apply (proj2 (single_call_post_char s)).
  - apply (proj1 (single_call_post_char s)).
  - intros. apply multi_step_total.
Qed.

(* non-vacuity *)
Example helpers_example_hostile :
  user_intent_post (s2t "user ") = Ok (s2t "user") /\
  next_step_post (s2t "bot ,x") = Ok [] /\
  bot_message_post (s2t "   ") = Ok FALLBACK_MESSAGE /\
  bot_message_post (s2t "  ""{{ 7*191 }} $secret""") = Ok (s2t "{{ 7*191 }} $secret") /\
  general_post (s2t """") = Ok [] /\
  single_call_post (s2t "x") = Ok (s2t "x", FALLBACK_BOT_INTENT, FALLBACK_MESSAGE).
Proof. vm_compute. repeat split. Qed.

Example shrink_example :
  let acc := fun ls : list text => Nat.eqb (List.length ls) 2 in
  shrink_fuel acc 4 [s2t "bot a"; s2t "bot b"; s2t "!!"; s2t "??"] = Some (StartFlow [s2t "bot a"; s2t "bot b"]) /\
  shrink_fuel (fun _ => false) 3 [s2t "x"; s2t "y"; s2t "z"] = Some GeneralResponse.
Proof. vm_compute. split; reflexivity. Qed.

(* ---------------------------------------------------------------- bot intent `$name` *)

(* whatever the context variable holds, the `text` of the BotMessage event is a str or the action
   fails (contained): a non-str never leaves generate_bot_message *)
Lemma ctx_utterance_is_str : forall v r, ctx_utterance false v = Ok r -> exists t, r = inl t.
Proof.
  intros v r H. destruct v as [s|[|]]; simpl in H.
  - destruct (truthy s).
    + destruct (clean_utterance_content_total s) as [c E]. rewrite E in H. simpl in H. inversion H. eauto.
    + inversion H. eauto.
  - discriminate.
  - inversion H. eauto.
Qed.

Lemma ctx_utterance_nonstr_contained : ctx_utterance false (CNonStr true) = Err AttributeError.
Proof. reflexivity. Qed.

(* ... whereas a clean_utterance_content that skips non-str values lets the object through *)
Lemma ctx_utterance_guarded_refuted : exists v, ctx_utterance true v = Ok (inr tt).
Proof. exists (CNonStr true). reflexivity. Qed.

(* ---------------------------------------------------------------- generated values *)

Lemma forallb_app_true : forall (A : Type) (f : A -> bool) a b,
  forallb f a = true -> forallb f b = true -> forallb f (a ++ b) = true.
Proof. intros. rewrite forallb_app. rewrite H, H0. reflexivity. Qed.

(* accepted => every atom of the value, dict keys included, can be stored *)
Lemma supported_value_sound : forall v,
  supported_value true v = true -> forallb atom_storable (atoms v) = true.
Proof.
  fix IH 1. intros v. destruct v as [a|l|kvs].
  - simpl. intro H. rewrite H. reflexivity.
  - simpl. induction l as [|x r IHr]; intro H; [reflexivity|].
    apply andb_true_iff in H. destruct H as [Hx Hr].
    apply forallb_app_true; [apply IH; exact Hx | apply IHr; exact Hr].
  - simpl. induction kvs as [|[k x] r IHr]; intro H; [reflexivity|].
    apply andb_true_iff in H. destruct H as [H Hr]. apply andb_true_iff in H. destruct H as [Hk Hx].
    apply forallb_app_true; [apply IH; exact Hk|].
    apply forallb_app_true; [apply IH; exact Hx | apply IHr; exact Hr].
Qed.

(* without the check of the keys an unstorable key is accepted *)
Lemma supported_value_keys_unchecked_refuted :
  exists v, supported_value false v = true /\ forallb atom_storable (atoms v) = false.
Proof. exists (PDict [(PAtom AEllipsis, PAtom AInt)]). split; reflexivity. Qed.

Example supported_examples :
  supported_value true (PDict [(PSeq [PAtom AInt; PAtom AEllipsis], PAtom AInt)]) = false /\
  supported_value true (PSeq [PDict [(PAtom AStr, PSeq [PAtom AFloat; PAtom ANoneV])]; PAtom ABool]) = true.
Proof. split; reflexivity. Qed.
