(* C15 - model of nemoguardrails/rails/llm/utils.py::get_history_cache_key.

   A message is (role, body).  `body` is the string the key function appends for that
   message: msg["content"] for user/assistant, json.dumps(msg["content"]) for context,
   json.dumps(msg["event"]) for event (json.dumps is an oracle: the harness computes it);
   for every other role (exception, system, tool, ...) the code appends nothing.
   Strings are lists over an abstract alphabet A; the separator is an arbitrary string.
   Which roles contribute is a parameter (`contributes`), instantiated from the CURRENT source
   by the translator (Gen/C15Consts.v) in Svc/HistRun.v and Svc/Hist_now.v.

       key_items = []
       for msg in messages: if role == "user": key_items.append(content) elif ... (4 cases)
       return ":".join(key_items)                 ("" for the empty list: same thing)
*)
From Coq Require Import List Bool Arith.
Import ListNotations.

Inductive role : Type :=
| RUser | RAssistant | RContext | REvent
| ROther (tag : nat).      (* any other role string; tag 0 = "exception" (a reply role) *)

Definition role_eq_dec : forall x y : role, {x = y} + {x <> y}.
Proof. decide equality. apply Nat.eq_dec. Defined.

Section HistKey.
  Variable A : Type.
  Variable A_eq_dec : forall x y : A, {x = y} + {x <> y}.

  Definition str := list A.

  Record msg : Type := Msg { m_role : role; m_body : str }.

  Definition msg_eq_dec : forall x y : msg, {x = y} + {x <> y}.
  Proof. decide equality. apply (list_eq_dec A_eq_dec). apply role_eq_dec. Defined.

  Definition msgs_eqb (x y : list msg) : bool :=
    if list_eq_dec msg_eq_dec x y then true else false.

  Definition str_eqb (x y : str) : bool :=
    if list_eq_dec A_eq_dec x y then true else false.

  Variable sep : str.
  Variable contributes : role -> bool.

  Fixpoint join (xs : list str) : str :=
    match xs with
    | [] => []
    | [x] => x
    | x :: rest => x ++ sep ++ join rest
    end.

  Definition items (ms : list msg) : list str :=
    map m_body (filter (fun m => contributes (m_role m)) ms).

  Definition key (ms : list msg) : str := join (items ms).

  Definition key_injective_on (S : list msg -> Prop) : Prop :=
    forall x y, S x -> S y -> key x = key y -> x = y.
End HistKey.

Arguments Msg {A} _ _.
Arguments m_role {A} _.
Arguments m_body {A} _.
Arguments join {A} _ _.
Arguments items {A} _ _.
Arguments key {A} _ _ _.
Arguments key_injective_on {A} _ _ _.
Arguments msg_eq_dec {A} _ _ _.
Arguments msgs_eqb {A} _ _ _.
Arguments str_eqb {A} _ _ _.

(* sanity: the pinned format of tests/test_rails_llm_utils.py, alphabet nat, ":" = 0 *)
Example key_format :
  key [0] (fun _ => true) [Msg RUser [1;2]; Msg RAssistant [3]; Msg RUser [4]] = [1;2;0;3;0;4].
Proof. reflexivity. Qed.
Example key_empty : key [0] (fun _ => true) ([] : list (msg nat)) = [].
Proof. reflexivity. Qed.
