(* V2/Life_cleanup.v - _clean_up_state keeps the invariants of the activation theorem, PROVIDED it
   never discards the parent of an instance that is running or still activated (`keep`, read
   from the source by the translator). *)
From Coq Require Import ZArith NArith List Bool Lia.
From NG Require Import V2.Life V2.Life_proofs V2.Life_scope V2.Life_count V2.Life_activation.
Import ListNotations.
Open Scope N_scope.

Lemma memb_in : forall x l, memb x l = true <-> In x l.
Proof.
  unfold memb; intros x l. rewrite existsb_exists. split.
  - intros (y & Hin & Hy). apply N.eqb_eq in Hy. subst; auto.
  - intros Hin. exists x; split; auto. apply N.eqb_refl.
Qed.

Lemma get_filter_map : forall (g : inst -> inst) rem l y,
  get y (map (fun xi : uid * inst => (fst xi, g (snd xi)))
             (filter (fun xi : uid * inst => negb (memb (fst xi) rem)) l))
  = if memb y rem then None else option_map g (get y l).
Proof.
  induction l as [|[k v] l IH]; simpl; intros y.
  - destruct (memb y rem); auto.
  - destruct (memb k rem) eqn:Ek; simpl.
    + rewrite IH. destruct (N.eqb y k) eqn:Eyk; auto.
      apply N.eqb_eq in Eyk; subst. rewrite Ek. auto.
    + rewrite IH. destruct (N.eqb y k) eqn:Eyk; auto.
      apply N.eqb_eq in Eyk; subst. rewrite Ek. auto.
Qed.

Section Cleanup.
  Variable aged : uid -> bool.
  Variable s s' : st.
  Hypothesis Hcl : cleanup true aged s = Ok s'.
  Hypothesis HI : Inv s.

  Let rem := removed_uids true aged s.

  Lemma cl_flows : flows s' = map (fun xi : uid * inst => (fst xi, prune rem (snd xi)))
                                  (filter (fun xi : uid * inst => negb (memb (fst xi) rem)) (flows s)).
  Proof. unfold cleanup in Hcl. apply bind_ok in Hcl. destruct Hcl as (ac & _ & H). inversion H; subst. reflexivity. Qed.

  Lemma cl_getf : forall y, getf s' y = if memb y rem then None else option_map (prune rem) (getf s y).
  Proof. intros y. unfold getf. rewrite cl_flows. apply get_filter_map. Qed.

  (* what is discarded: ended, count 0, not the parent of a running or activated instance *)
  Lemma rem_spec : forall u, memb u rem = true ->
    exists i, getf s u = Some i /\ done (i_status i) = true /\ i_activated i = 0%Z /\
              memb u (needed_parents s) = false.
  Proof.
    intros u Hu. apply memb_in in Hu. unfold rem, removed_uids in Hu.
    apply in_map_iff in Hu. destruct Hu as ([u' i] & Hfst & Hin). simpl in Hfst; subst u'.
    apply filter_In in Hin. destruct Hin as (Hin & Hrm).
    unfold removable in Hrm. simpl in Hrm.
    apply andb_prop in Hrm. destruct Hrm as (Hrm & Hk). apply andb_prop in Hrm. destruct Hrm as (Hrm & Ha).
    apply andb_prop in Hrm. destruct Hrm as (Hd & _).
    exists i. repeat split; auto.
    - apply nodup_in_get; auto. apply (inv_nodup _ HI).
    - apply Z.eqb_eq; auto.
    - simpl in Hk. destruct (memb u (needed_parents s)); auto.
  Qed.

  Lemma needed_spec : forall x i p, getf s x = Some i -> i_parent i = Some p -> needs_parent i ->
    memb p (needed_parents s) = true.
  Proof.
    intros x i p Ex Hp Hnd. apply memb_in. unfold needed_parents. apply in_flat_map.
    exists (x, i). split; [apply get_in; exact Ex|]. simpl.
    assert (Hc : negb (done (i_status i)) || negb (i_activated i =? 0)%Z = true).
    { destruct Hnd as [Hl|Ha].
      - destruct (i_status i); simpl in *; auto; discriminate.
      - apply orb_true_iff. right. destruct (i_activated i =? 0)%Z eqn:Ez; auto. apply Z.eqb_eq in Ez. contradiction. }
    rewrite Hc, Hp. simpl; auto.
  Qed.

  Lemma cl_kept : forall y i', getf s' y = Some i' ->
    memb y rem = false /\ exists i, getf s y = Some i /\ i' = prune rem i.
  Proof.
    intros y i' H. rewrite cl_getf in H. destruct (memb y rem); try discriminate. split; auto.
    destruct (getf s y) as [i|]; simpl in H; inversion H; eauto.
  Qed.

  Lemma cl_keeps : forall y i, getf s y = Some i -> memb y rem = false -> getf s' y = Some (prune rem i).
  Proof. intros y i H Hm. rewrite cl_getf, Hm, H. auto. Qed.

  Lemma prune_children_in : forall i c, In c (i_children (prune rem i)) -> In c (i_children i) /\ memb c rem = false.
  Proof.
    intros i c H. simpl in H. apply filter_In in H. destruct H as (H1 & H2).
    split; auto. destruct (memb c rem); auto; discriminate.
  Qed.

  Lemma occ_filter_kept : forall r l, memb r rem = false ->
    occ r (filter (fun x => negb (memb x rem)) l) = occ r l.
  Proof.
    intros r l Hr. unfold occ. f_equal. induction l as [|y l IH]; simpl; auto.
    destruct (memb y rem) eqn:Ey; simpl.
    - destruct (N.eq_dec y r) as [->|Hne]; [congruence|auto].
    - destruct (N.eq_dec y r); auto.
  Qed.

  Lemma cl_E : forall r, memb r rem = false -> E s' r = E s r.
  Proof.
    intros r Hr. unfold E. rewrite cl_flows.
    assert (H : forall k i, In (k, i) (flows s) -> memb k rem = true -> live (i_status i) = false).
    { intros k i Hin Hk. destruct (rem_spec _ Hk) as (i0 & Ei0 & Hd & _).
      pose proof (nodup_in_get _ _ _ _ (inv_nodup _ HI) Hin) as Hg. unfold getf in Ei0. rewrite Hg in Ei0.
      inversion Ei0; subst. destruct (i_status i0); simpl in *; auto; discriminate. }
    revert H. generalize (flows s). induction l as [|[k i] l IH]; simpl; intros H; auto.
    destruct (memb k rem) eqn:Ek; simpl.
    - rewrite IH; [|intros; eapply H; eauto]. unfold contrib. rewrite (H k i (or_introl eq_refl) Ek). lia.
    - rewrite IH; [|intros; eapply H; eauto]. f_equal.
      unfold contrib; simpl. destruct (live (i_status i)); auto. apply occ_filter_kept; auto.
  Qed.

  Lemma cl_act : forall r, memb r rem = false -> act s' r = act s r.
  Proof. intros r Hr. unfold act. rewrite cl_getf, Hr. destruct (getf s r); auto. Qed.

  Lemma cl_refshape : forall r, refshape s' r -> refshape s r /\ memb r rem = false.
  Proof.
    intros r (i' & p & pi' & Ei' & Hp & Epi' & Hfl).
    destruct (cl_kept _ _ Ei') as (Hm & i & Ei & ->). destruct (cl_kept _ _ Epi') as (_ & pi & Epi & ->).
    split; auto. exists i, p, pi. simpl in *. auto.
  Qed.

  Lemma nodup_filter_keys : forall (f : uid -> bool) (l : list (uid * inst)),
    NoDup (map fst l) -> NoDup (map fst (map (fun xi : uid * inst => (fst xi, prune rem (snd xi)))
                                                (filter (fun xi : uid * inst => f (fst xi)) l))).
  Proof.
    induction l as [|[k i] l IH]; simpl; intros Hn; [constructor|].
    inversion Hn; subst. destruct (f k); simpl; auto.
    constructor; auto. intros Hin. apply H1.
    apply in_map_iff in Hin. destruct Hin as ([k' i'] & Hk & Hin). simpl in Hk; subst k'.
    apply in_map_iff in Hin. destruct Hin as ([k2 i2] & Heq & Hin). inversion Heq; subst.
    apply filter_In in Hin. destruct Hin as (Hin & _). apply in_map_iff. exists (k, i2); auto.
  Qed.

  Theorem cleanup_inv : Inv s'.
  Proof.
    destruct HI as [Hn Hc Hp Hi (rk & Hr)]. split.
    - unfold nodupk, keys. rewrite cl_flows.
      apply (nodup_filter_keys (fun u => negb (memb u rem))). exact Hn.
    - intros y i' c Ey' Hin. destruct (cl_kept _ _ Ey') as (_ & i & Ey & ->).
      destruct (prune_children_in _ _ Hin) as (Hin0 & Hcm).
      destruct (getf s c) as [ci|] eqn:Ec; [|exfalso; eapply Hc; eauto].
      rewrite (cl_keeps _ _ Ec Hcm). discriminate.
    - intros y i' p Ey' Hpar Hnd. destruct (cl_kept _ _ Ey') as (_ & i & Ey & ->). simpl in Hpar.
      assert (Hnd0 : needs_parent i) by exact Hnd.
      pose proof (needed_spec _ _ _ Ey Hpar Hnd0) as Hneed.
      assert (Hpm : memb p rem = false).
      { destruct (memb p rem) eqn:Em; auto. destruct (rem_spec _ Em) as (_ & _ & _ & _ & Hx). congruence. }
      destruct (getf s p) as [pi|] eqn:Ep; [|exfalso; eapply Hp; eauto].
      rewrite (cl_keeps _ _ Ep Hpm). discriminate.
    - intros r Hrs' Hnz. destruct (cl_refshape _ Hrs') as (Hrs & Hrm).
      rewrite (cl_act _ Hrm) in *. rewrite (cl_E _ Hrm). apply Hi; auto.
    - exists rk. intros y i' c Ey' Hin. destruct (cl_kept _ _ Ey') as (_ & i & Ey & ->).
      destruct (prune_children_in _ _ Hin) as (Hin0 & _). eapply Hr; eauto.
  Qed.

  Theorem cleanup_famk : famk s -> famk s'.
  Proof.
    intros Hf y yi' c ci' Ey' Hin Ec' Hfl.
    destruct (cl_kept _ _ Ey') as (_ & yi & Ey & ->). destruct (cl_kept _ _ Ec') as (_ & ci & Ec & ->).
    destruct (prune_children_in _ _ Hin) as (Hin0 & _). simpl in *. eapply Hf; eauto.
  Qed.

  (* and it discards exactly what the side condition allows *)
  Theorem cleanup_discards : forall u i, getf s u = Some i -> getf s' u = None ->
    done (i_status i) = true /\ i_activated i = 0%Z /\
    (forall x xi, getf s x = Some xi -> i_parent xi = Some u -> needs_parent xi -> False).
  Proof.
    intros u i Eu Hn. rewrite cl_getf in Hn. destruct (memb u rem) eqn:Em; [|rewrite Eu in Hn; discriminate].
    destruct (rem_spec _ Em) as (i0 & Ei0 & Hd & Ha & Hneed). rewrite Eu in Ei0. inversion Ei0; subst i0.
    repeat split; auto. intros x xi Ex Hp Hnd. rewrite (needed_spec _ _ _ Ex Hp Hnd) in Hneed. discriminate.
  Qed.
End Cleanup.

(* ------------------------------------------------------------------------------------ *)
(* runs that also contain the clean-up of old instances (at the start of every run_to_completion) *)
Inductive bop :=
| BOp (o : aop)
| BClean (aged : uid -> bool).

Definition bstep (keep rel : bool) (fuel : nat) (s : st) (o : bop) : res st :=
  match o with
  | BOp o => astep rel fuel s o
  | BClean aged => cleanup keep aged s
  end.

Fixpoint brun (keep rel : bool) (fuel : nat) (l : list bop) (s : st) : res st :=
  match l with
  | [] => Ok s
  | o :: l' => bind (bstep keep rel fuel s o) (brun keep rel fuel l')
  end.

Fixpoint boks (keep rel : bool) (fuel : nat) (l : list bop) (s : st) : Prop :=
  match l with
  | [] => True
  | o :: l' => forall s1, bstep keep rel fuel s o = Ok s1 ->
                 (match o with BOp o => aok s o s1 | BClean _ => True end) /\ boks keep rel fuel l' s1
  end.

Theorem brun_inv_fam : forall rel fuel l s s',
  Inv s -> famk s -> brun true rel fuel l s = Ok s' -> boks true rel fuel l s -> Inv s' /\ famk s'.
Proof.
  induction l as [|o l IH]; simpl; intros s s' HI Hf H Hok.
  - inversion H; subst; auto.
  - bind_inv H. destruct (Hok _ Hb) as (Ho & Hrest).
    apply (IH s0 s'); auto; destruct o as [o|aged]; simpl in *.
    + eapply astep_inv; eauto.
    + eapply cleanup_inv; eauto.
    + eapply astep_famk; eauto.
    + eapply cleanup_famk; eauto.
Qed.

(* WITHOUT the side condition the clean-up discards the parent of a still activated reference
   instance: the invariant (parents of activated instances exist) is lost and the next end of an
   activator raises KeyError in _is_reference_activated_flow *)
Definition cleanup_state : st :=
  mkSt [ (1, mkInst 0 FStarted None [3] [] [] 1%Z false);
         (2, mkInst 1 FFinished (Some 1) [5] [] [] 0%Z false);     (* first activator, ended *)
         (3, mkInst 2 FStarted (Some 1) [5] [] [] 0%Z false);      (* second activator, running *)
         (5, mkInst 3 FStarted (Some 2) [] [] [] 1%Z false) ]      (* reference instance, count 1 *)
       [] [].

Definition cleanup_unguarded_loses_link : Prop :=
  exists s s1, cleanup false (fun _ => true) s = Ok s1 /\ getf s1 2 = None /\
               (exists i, getf s1 5 = Some i /\ i_parent i = Some 2 /\ i_activated i = 1%Z) /\
               finish 4 s1 3 false = Err EKeyFlow.

Theorem cleanup_unguarded_witness : cleanup_unguarded_loses_link.
Proof.
  exists cleanup_state. eexists. split; [vm_compute; reflexivity|].
  split; [reflexivity|]. split; [eexists; vm_compute; repeat split|]. vm_compute. reflexivity.
Qed.

Example cleanup_guarded_keeps_link :
  exists s1, cleanup true (fun _ => true) cleanup_state = Ok s1 /\ getf s1 2 <> None /\
             exists s2, finish 4 s1 3 false = Ok s2 /\ lst s2 5 = false /\ act s2 5 = 0%Z.
Proof.
  eexists. split; [vm_compute; reflexivity|]. split; [vm_compute; discriminate|].
  eexists. split; [vm_compute; reflexivity|]. vm_compute. auto.
Qed.
