(* C07 - and/or groups behave like the boolean formula they spell.
   Property theorems only; every proof is `exact <lemma>`; Print Assumptions beneath each.

   Models:  V2/Dnf.v     normalize / flatten_or / elements: transcription of
                         expansion.py normalize_element_groups + flatten_or_group
                         (Python exceptions explicit as None)
            V2/Groups.v  compile: what _expand_match_element / _expand_await_element /
                         _expand_when_stmt_element emit for a normalised group (or-fork per
                         alternative, and-fork per member, WaitForHeads(n), MergeHeads);
                         deliver / run: the head protocol of statemachine.py for these elements
   Non-vacuity examples: V2/Groups_examples.v, V2/Dnf_proofs.v (normalize_equiv_example).
   All theorems hold for groups of any size and nesting depth, any atom type, any event type
   and any matching relation `mt` between atoms and events. *)
From Coq Require Import List Bool Arith Permutation.
From NG Require Import V2.Dnf V2.Dnf_proofs V2.Groups V2.Groups_proofs V2.GroupsFail V2.GroupsFail_proofs
                       V2.Groups_examples.
Import ListNotations.

(* the normaliser never raises and its result spells the same boolean function *)
Theorem C07_dnf_equiv :
  forall (A : Type) (f : formula A) (s : A -> bool),
    exists d, normalize f = Some d /\ eval s d = eval s f.
Proof. exact normalize_equiv_all. Qed.
Print Assumptions C07_dnf_equiv.

(* the result has the shape the expansion subscripts: ONE spec_or whose elements are spec_and
   groups whose elements are Specs *)
Theorem C07_dnf_shape :
  forall (A : Type) (f : formula A),
    exists alts : list (list A),
      normalize f = Some (Or (map (fun c => And (map Atom c)) alts))
      /\ alts_of (Or (map (fun c => And (map Atom c)) alts)) = Some alts.
Proof. exact normalize_shape. Qed.
Print Assumptions C07_dnf_shape.

(* ... and it is exactly the DNF obtained by distributing `and` over `or`, left to right *)
Theorem C07_dnf_exact :
  forall (A : Type) (f : formula A), normalize f = Some (dnf (nf f)).
Proof. exact normalize_nf. Qed.
Print Assumptions C07_dnf_exact.

(* what the expansions emit: one fork branch per alternative of the DNF, in it one head per member
   occurrence and WaitForHeads(number of members); a single-member alternative is a plain match;
   `when` always forks, match/await only for more than one alternative *)
Theorem C07_compile_shape :
  forall (A : Type) (st : stmt) (f : formula A),
    compile st f = Some (prog_of st (nf f))
    /\ (forall (c ms : list A) (n : nat), branch_of c = BAnd ms n -> ms = c /\ n = length c).
Proof. exact (fun A st f => Logic.conj (compile_spec A st f) (branch_of_wait A)). Qed.
Print Assumptions C07_compile_shape.

(* the expansion of a group statement never raises *)
Theorem C07_no_error :
  forall (A E : Type) (mt : A -> E -> bool) (st : stmt) (f : formula A) (evs : list E),
    run mt st f evs <> OErr.
Proof. exact run_no_error. Qed.
Print Assumptions C07_no_error.

(* THE property: for a group that is not already true of the empty set (every group the parser
   produces: wf_eval_empty), the statement completes in step n iff n is the first n such that the
   events of steps 1..n satisfy the formula - whatever the order, with irrelevant and repeated
   events anywhere - and never if no prefix satisfies it *)
Theorem C07_first_moment :
  forall (A E : Type) (mt : A -> E -> bool) (st : stmt) (f : formula A) (evs : list E),
    eval (fun _ => false) f = false ->
    run mt st f evs = first_sat mt f evs.
Proof. exact run_first_sat. Qed.
Print Assumptions C07_first_moment.

(* the same, spelled out: "at exactly the first moment ... and not before" *)
Theorem C07_first_moment_spelled :
  forall (A E : Type) (mt : A -> E -> bool) (st : stmt) (f : formula A) (evs : list E) (n : nat),
    eval (fun _ => false) f = false ->
    (run mt st f evs = OAt n <->
     (1 <= n <= length evs
      /\ eval (received mt (firstn n evs)) f = true
      /\ forall m, m < n -> eval (received mt (firstn m evs)) f = false)).
Proof. exact run_at_iff. Qed.
Print Assumptions C07_first_moment_spelled.

Theorem C07_never_spelled :
  forall (A E : Type) (mt : A -> E -> bool) (st : stmt) (f : formula A) (evs : list E),
    eval (fun _ => false) f = false ->
    (run mt st f evs = ONever <->
     (forall m, m <= length evs -> eval (received mt (firstn m evs)) f = false)).
Proof. exact run_never_iff. Qed.
Print Assumptions C07_never_spelled.

(* groups as the parser produces them (no empty group) satisfy the hypothesis *)
Theorem C07_parser_groups_ok :
  forall (A : Type) (f : formula A), wf f = true -> eval (fun _ => false) f = false.
Proof. exact wf_eval_empty. Qed.
Print Assumptions C07_parser_groups_ok.

(* independent of arrival order: whether the statement has completed after a batch of events
   depends only on the set of events received ... *)
Theorem C07_completes_iff :
  forall (A E : Type) (mt : A -> E -> bool) (st : stmt) (f : formula A) (evs : list E),
    eval (fun _ => false) f = false ->
    ((exists n, run mt st f evs = OAt n) <-> eval (received mt evs) f = true).
Proof. exact completes_iff. Qed.
Print Assumptions C07_completes_iff.

(* ... hence any permutation of the events completes it as well *)
Theorem C07_order_independent :
  forall (A E : Type) (mt : A -> E -> bool) (st : stmt) (f : formula A) (evs evs' : list E),
    eval (fun _ => false) f = false ->
    Permutation evs evs' ->
    ((exists n, run mt st f evs = OAt n) <-> (exists n, run mt st f evs' = OAt n)).
Proof. exact order_independent. Qed.
Print Assumptions C07_order_independent.

(* irrelevant events (matching no atom) and repeated events (matching only atoms already
   received) are ignored: inserting one anywhere leaves the completing event the same *)
Theorem C07_ignored_event :
  forall (A E : Type) (mt : A -> E -> bool) (st : stmt) (f : formula A) (p r : list E) (x : E),
    eval (fun _ => false) f = false ->
    (forall a, In a (atoms f) -> mt a x = true -> received mt p a = true) ->
    run mt st f (p ++ x :: r) = shift_after (length p) (run mt st f (p ++ r)).
Proof. exact ignored_event. Qed.
Print Assumptions C07_ignored_event.

(* await / when on groups of flows: the same formula over the flows' Finished events.
   Corollary of C07_first_moment for st = SAwait / SWhen; what it assumes, precisely:
   (1) expansion.py compiles `await <group>` and a `when <group>` case to the fork / and-fork /
       WaitForHeads(len) / MergeHeads shape of Groups.compile with one started flow instance per
       member OCCURRENCE of the normalised group and one `match $ref.Finished` head per instance
       (checked against the real expansion on every run: correspondence X3);
   (2) `finishes_in fl e` = "step e makes the running instances of flow fl started by the
       statement finish", i.e. their FlowFinished events are processed in step e and in no
       earlier step; all instances of the same flow finish in the same step;
   (3) no member flow fails and none finishes in the step that starts it
       (eval (fun _ => false) f = false for the events; a Failed member goes to the failure label,
       which is outside this model). *)
Theorem C07_await_when :
  forall (Flow Step : Type) (finishes_in : Flow -> Step -> bool)
         (f : formula Flow) (steps : list Step),
    eval (fun _ => false) f = false ->
    run finishes_in SAwait f steps = first_sat finishes_in f steps
    /\ run finishes_in SWhen f steps = first_sat finishes_in f steps.
Proof. exact (fun Flow Step fin f steps H => conj (run_first_sat Flow Step fin SAwait f steps H)
                                                  (run_first_sat Flow Step fin SWhen f steps H)). Qed.
Print Assumptions C07_await_when.

(* ---------- failing members and `when` statements with several cases (V2/GroupsFail.v) ----------
   mt a e = the flow instance of atom a finishes in step e, fl a e = it fails in step e.
   status p a = what the first such event in p did to a.  A failed member never finishes. *)

(* what the expansions emit on the failure side: a case waits for ALL its alternatives to fail
   (WaitForHeads(number of alternatives), none for a single alternative), a `when` statement waits
   for ALL its cases to fail (WaitForHeads(number of cases)) *)
Theorem C07_fail_compile_shape :
  forall (A : Type) (st : stmt) (fs : list (formula A)),
    stmt_ok A st fs ->
    exists els,
      fcompile st fs = Some (mkF (map (fun f => cprog_of (prog_of st (nf f))) fs) els)
      /\ fw_ok els (length fs)
      /\ (forall alts : list (list A),
            cp_branches (cprog_of (prog_of st alts)) = map branch_of alts
            /\ fw_ok (cp_fail_wait (cprog_of (prog_of st alts))) (length alts)).
Proof.
  exact (fun A st fs H =>
           match fcompile_spec A st fs H with
           | ex_intro _ els (Logic.conj H1 H2) =>
               ex_intro _ els (Logic.conj H1 (Logic.conj H2 (cprog_of_prog_of A st)))
           end).
Qed.
Print Assumptions C07_fail_compile_shape.

(* THE property with failing members: the statement completes in the first step in which the
   FINISHED members satisfy the formula of some case - failed members count as never finishing -
   and the body that runs belongs to one of exactly those cases; it fails (else / abort) in the
   first step in which no case can hold any more; nothing happens before (fspec, spelled out by
   the three theorems below) *)
Theorem C07_cases_fail :
  forall (A E : Type) (mt fl : A -> E -> bool) (st : stmt) (fs : list (formula A)) (evs : list E),
    stmt_ok A st fs ->
    fs <> [] ->
    (forall f, In f fs -> eval (fun _ => false) f = false) ->
    (forall f, In f fs -> eval (fun _ => true) f = true) ->
    frun mt fl st fs evs = fspec mt fl fs evs.
Proof. exact frun_fspec. Qed.
Print Assumptions C07_cases_fail.

Theorem C07_cases_done_spelled :
  forall (A E : Type) (mt fl : A -> E -> bool) (fs : list (formula A)) (evs : list E) (n : nat) (w : list nat),
    fspec mt fl fs evs = FoDone n w <->
    (1 <= n <= length evs
     /\ fspec_at mt fl fs (firstn n evs) = RDone w
     /\ forall m, 1 <= m < n -> fspec_at mt fl fs (firstn m evs) = RNone).
Proof. exact fspec_done_iff. Qed.
Print Assumptions C07_cases_done_spelled.

Theorem C07_cases_winners :
  forall (A E : Type) (mt fl : A -> E -> bool) (fs : list (formula A)) (p : list E) (w : list nat) (d : formula A),
    fspec_at mt fl fs p = RDone w ->
    w <> [] /\ forall i, In i w <-> (i < length fs /\ eval (is_fin mt fl p) (nth i fs d) = true).
Proof. exact fspec_at_done. Qed.
Print Assumptions C07_cases_winners.

(* a statement has failed after p iff no case holds and no case can hold even if every member
   that has not failed finishes: every alternative of every case has a failed member *)
Theorem C07_cases_failed_iff :
  forall (A E : Type) (mt fl : A -> E -> bool) (fs : list (formula A)) (p : list E),
    fspec_at mt fl fs p = RFail <->
    ((forall f, In f fs -> eval (is_fin mt fl p) f = false)
     /\ forall f, In f fs -> eval (not_failed mt fl p) f = false).
Proof. exact fspec_at_fail. Qed.
Print Assumptions C07_cases_failed_iff.

Theorem C07_cases_no_error :
  forall (A E : Type) (mt fl : A -> E -> bool) (st : stmt) (fs : list (formula A)) (evs : list E),
    stmt_ok A st fs -> frun mt fl st fs evs <> FoErr.
Proof. exact frun_no_error. Qed.
Print Assumptions C07_cases_no_error.
