(* C19 - model of nemoguardrails/embeddings/cache.py: `cache_embeddings` (the decorator put on
   BasicEmbeddingsIndex._get_embeddings) over EmbeddingsCache / KeyGenerator / CacheStore.

   Everything the code is parameterised by is a Section variable: the type of texts, keys and
   vectors, the key generator `kg` (shipped: str(hash(text)), md5(text)), the embedding model
   `emb`.  A cache store (InMemoryCacheStore, FilesystemCacheStore) is a finite map key -> value
   with `get`/`set`; a Python dict keyed by text is an association list read first-match.

     async def wrapper_decorator(self, texts):
         if not self.cache_config.enabled: return await func(self, texts)
         embeddings_cache = EmbeddingsCache.from_config(self.cache_config)
         cached_texts = embeddings_cache.get(texts)                              # wrap_begin
         uncached_texts = [text for text in texts if text not in cached_texts]   # wrap_begin
         if uncached_texts:
             uncached_results = await func(self, uncached_texts)                 # <- the only await
             embeddings_cache.set(uncached_texts, uncached_results)              # wrap_end
         cached_texts.update(embeddings_cache.get(uncached_texts))               # wrap_end
         results = [cached_texts.get(text) for text in texts]                    # wrap_end
         return results

   The two halves are separate definitions because another task may run (and write the same
   filesystem store) while the model call is awaited.  Definitions only. *)
From Coq Require Import List Bool Arith.
Import ListNotations.

Section EmbCache.
  Variables text key vec : Type.
  Variable text_eq_dec : forall a b : text, {a = b} + {a <> b}.
  Variable key_eq_dec : forall a b : key, {a = b} + {a <> b}.
  Variable kg : text -> key.          (* KeyGenerator.generate_key *)

  (* ---- CacheStore: get / set ------------------------------------------------------- *)
  Definition store := list (key * vec).

  Fixpoint store_get (s : store) (k : key) : option vec :=
    match s with
    | [] => None
    | (k', v) :: r => if key_eq_dec k k' then Some v else store_get r k
    end.

  Definition store_set (s : store) (k : key) (v : vec) : store := (k, v) :: s.

  (* ---- a Python dict text -> value -------------------------------------------------- *)
  Definition tdict := list (text * vec).

  Fixpoint td_get (d : tdict) (t : text) : option vec :=
    match d with
    | [] => None
    | (t', v) :: r => if text_eq_dec t t' then Some v else td_get r t
    end.

  Definition td_set (d : tdict) (t : text) (v : vec) : tdict := (t, v) :: d.

  (* `text in d` *)
  Definition td_mem (d : tdict) (t : text) : bool :=
    match td_get d t with Some _ => true | None => false end.

  (* `d.update(d2)`: the bindings of d2 win *)
  Definition td_update (d d2 : tdict) : tdict := d2 ++ d.

  (* ---- EmbeddingsCache.get(texts: list): {text: store.get(kg(text))} for the hits --- *)
  Definition cache_get_list (s : store) (texts : list text) : tdict :=
    fold_left (fun d t => match store_get s (kg t) with
                          | Some v => td_set d t v
                          | None => d
                          end) texts [].

  (* ---- EmbeddingsCache.set(texts: list, values): for text, value in zip(...) -------- *)
  Definition cache_set_list (s : store) (texts : list text) (vals : list vec) : store :=
    fold_left (fun s tv => store_set s (kg (fst tv)) (snd tv)) (combine texts vals) s.

  (* ---- the decorator, first half: up to the model call ------------------------------ *)
  Definition wrap_begin (s : store) (texts : list text) : tdict * list text :=
    let cached := cache_get_list s texts in
    (cached, filter (fun t => negb (td_mem cached t)) texts).

  (* ---- second half: `fresh` is what func returned for `uncached` (ignored when there
          was nothing to ask); `s` is the store as it is now ------------------------- *)
  Definition wrap_end (s : store) (texts : list text) (cached : tdict) (uncached : list text)
             (fresh : list vec) : list (option vec) * store :=
    let s' := match uncached with
              | [] => s
              | _ :: _ => cache_set_list s uncached fresh
              end in
    let cached' := td_update cached (cache_get_list s' uncached) in
    (map (td_get cached') texts, s').       (* dict.get: a missing text gives None *)

  (* ---- one complete call with a synchronous model `model`;
          returns (results, store afterwards, the argument lists `func` was called with) *)
  Definition wrapper (enabled : bool) (model : list text -> list vec) (s : store)
             (texts : list text) : list (option vec) * store * list (list text) :=
    if enabled then
      let '(cached, uncached) := wrap_begin s texts in
      let '(res, s') := wrap_end s texts cached uncached (model uncached) in
      (res, s', match uncached with [] => [] | _ :: _ => [uncached] end)
    else (map Some (model texts), s, [texts]).

  Definition w_results (r : list (option vec) * store * list (list text)) := fst (fst r).
  Definition w_store (r : list (option vec) * store * list (list text)) := snd (fst r).
  Definition w_calls (r : list (option vec) * store * list (list text)) := snd r.

  (* a history of earlier calls on the same (persistent) store, starting from `s` *)
  Definition store_after (model : list text -> list vec) (s : store) (history : list (list text)) : store :=
    fold_left (fun s texts => w_store (wrapper true model s texts)) history s.

End EmbCache.

Arguments store_get {key vec} key_eq_dec s k.
Arguments store_set {key vec} s k v.
Arguments td_get {text vec} text_eq_dec d t.
Arguments td_mem {text vec} text_eq_dec d t.
Arguments td_update {text vec} d d2.
Arguments cache_get_list {text key vec} key_eq_dec kg s texts.
Arguments cache_set_list {text key vec} kg s texts vals.
Arguments wrap_begin {text key vec} text_eq_dec key_eq_dec kg s texts.
Arguments wrap_end {text key vec} text_eq_dec key_eq_dec kg s texts cached uncached fresh.
Arguments wrapper {text key vec} text_eq_dec key_eq_dec kg enabled model s texts.
Arguments store_after {text key vec} text_eq_dec key_eq_dec kg model s history.
Arguments w_results {text key vec} r.
Arguments w_store {text key vec} r.
Arguments w_calls {text key vec} r.

(* ---- several indexes alive in one process ----------------------------------------------
   Each BasicEmbeddingsIndex has its own key generator, its own embedding model and a cache
   configuration; EmbeddingsCache.from_config(self.cache_config) resolves the configuration to
   a store: `ix_sid` names that store (two filesystem configurations with the same cache_dir are
   the same store; different cache_dirs are different stores).  A call of index ix reads and
   writes only the store its own configuration names. *)
Section Multi.
  Variables text key vec : Type.
  Variable text_eq_dec : forall a b : text, {a = b} + {a <> b}.
  Variable key_eq_dec : forall a b : key, {a = b} + {a <> b}.

  Record index := mkIndex {
    ix_kg : text -> key;       (* cache_config.key_generator *)
    ix_emb : text -> vec;      (* the index's embedding model *)
    ix_sid : nat               (* the store cache_config.store / store_config resolve to *)
  }.

  Definition stores := nat -> store key vec.

  Definition sset (S : stores) (sid : nat) (s : store key vec) : stores :=
    fun j => if j =? sid then s else S j.

  Definition mcall (S : stores) (ix : index) (texts : list text) : list (option vec) * stores :=
    let r := wrapper text_eq_dec key_eq_dec (ix_kg ix) true (map (ix_emb ix)) (S (ix_sid ix)) texts in
    (w_results r, sset S (ix_sid ix) (w_store r)).

  Fixpoint mrun (S : stores) (calls : list (index * list text)) : stores :=
    match calls with
    | [] => S
    | (ix, texts) :: rest => mrun (snd (mcall S ix texts)) rest
    end.

  Definition no_stores : stores := fun _ => [].
End Multi.

Arguments mkIndex {text key vec} ix_kg ix_emb ix_sid.
Arguments ix_kg {text key vec} i.
Arguments ix_emb {text key vec} i.
Arguments ix_sid {text key vec} i.
Arguments sset {key vec} S sid s.
Arguments mcall {text key vec} text_eq_dec key_eq_dec S ix texts.
Arguments mrun {text key vec} text_eq_dec key_eq_dec S calls.
Arguments no_stores {key vec}.

(* sanity: texts = nat, key = nat, vec = nat, emb t = 10 + t *)
Example wrapper_dups_and_hits :
  let model := map (fun t => 10 + t) in
  let r1 := wrapper Nat.eq_dec Nat.eq_dec (fun t => t) true model [] [3; 1; 3] in
  let r2 := wrapper Nat.eq_dec Nat.eq_dec (fun t => t) true model (w_store r1) [1; 2; 3; 2] in
  w_results r1 = [Some 13; Some 11; Some 13] /\ w_calls r1 = [[3; 1; 3]] /\
  w_results r2 = [Some 11; Some 12; Some 13; Some 12] /\ w_calls r2 = [[2; 2]].
Proof. vm_compute. repeat split. Qed.

(* a key generator that collides (every text has key 0): the second text's vector is
   returned for the first *)
Example wrapper_collision :
  w_results (wrapper Nat.eq_dec Nat.eq_dec (fun _ => 0) true (map (fun t => 10 + t)) [] [1; 2])
  = [Some 12; Some 12].
Proof. vm_compute. reflexivity. Qed.
