(* V1.Slide - transcription of nemoguardrails/colang/v1_0/runtime/sliding.py::slide.

   slide(state, flow_config, head) moves `head` through the "sliding" elements (check, if, jump,
   while, continue, stop, break, set), evaluating expressions in state.context and recording
   `set` results in state.context and state.context_updates.  It returns
     - the head of the first non-sliding element,
     - -(prev_head+1) when the head leaves the element list (head == len or head < 0),
     - None for `stop` and for a failed `check` (every caller then raises TypeError on
       `None >= 0` / `elements[None]`).
   `while True:` has no bound in Python; here the loop takes explicit fuel and running out of
   it is the distinguished result SFuel.

   The `_active_label*` annotations slide() writes into the shared elements are not part of
   the result; `slide_writes` (Interp.v) lists them for the frame statement C14_history_only. *)
From Coq Require Import ZArith List String Bool.
From NG Require Import V1.Expr V1.Elems.
Import ListNotations.
Open Scope Z_scope.

Inductive sres :=
| SOk (head : Z) (c u : ctx)      (* new head, context, context_updates *)
| SNone                           (* Python None *)
| SErr                            (* Python exception (expression error, IndexError) *)
| SFuel.

(* one iteration of the loop body on element `el` at `head` *)
Inductive sstep :=
| StGo (head : Z) (c u : ctx)
| StStay                          (* `else: break` - not a sliding element *)
| StNone
| StErr.

Definition slide_elem (el : elem) (head : Z) (c u : ctx) : sstep :=
  match el with
  | LCheck e n =>
      match eval c e with
      | None => StErr
      | Some v => if truthy v then StGo (head + n) c u else StNone
      end
  | LIf e ne =>
      match eval c e with
      | None => StErr
      | Some v => if truthy v then StGo (head + 1) c u else StGo (head + ne) c u
      end
  | LJump n abs _ => if abs then StGo n c u else StGo (head + n) c u
  | LWhile e n nb =>
      match eval c e with
      | None => StErr
      | Some v => if truthy v then StGo (head + n) c u else StGo (head + nb) c u
      end
  | LContinue n => StGo (head + n) c u
  | LStop => StNone
  | LBreak n => StGo (head + n) c u
  | LSet k e n =>
      match eval c e with
      | None => StErr
      | Some v => StGo (head + n) (assoc_set k v c) (assoc_set k v u)
      end
  | _ => StStay
  end.

Fixpoint slide_loop (fuel : nat) (els : list elem) (head prev : Z) (c u : ctx) : sres :=
  match fuel with
  | O => SFuel
  | S f =>
      if (head =? Z.of_nat (List.length els)) || (head <? 0) then SOk (- (prev + 1)) c u
      else
        match nth_error els (Z.to_nat head) with
        | None => SErr                                  (* head > len: IndexError *)
        | Some el =>
            match slide_elem el head c u with
            | StGo h' c' u' => slide_loop f els h' head c' u'
            | StStay => SOk head c u
            | StNone => SNone
            | StErr => SErr
            end
        end
  end.

Definition slide (fuel : nat) (els : list elem) (head : Z) (c u : ctx) : sres :=
  let prev := if head <? Z.of_nat (List.length els) then head else head - 1 in
  slide_loop fuel els head prev c u.

Open Scope string_scope.
(* if $i == 0: bot a  else: bot b ; then c *)
Example slide_ex :
  let els := [LIf (ECmp CEq (EVar "i") (EInt 0)) 3; LRun "utter" "a" "" None; LJump 2 false None;
              LRun "utter" "b" "" None; LRun "utter" "c" "" None] in
  slide 10 els 0 [("i", VInt 1)] [] = SOk 3 [("i", VInt 1)] [] /\
  slide 10 els 2 [] [] = SOk 4 [] [] /\
  slide 10 els 5 [] [] = SOk (-5) [] [].
Proof. repeat split; reflexivity. Qed.
