(* C12 (Colang 2.x) - model of expansion.expand_elements, as far as closedness is concerned, for
     if / elif / else, while (break / continue),
     match on events in disjunctive normal form (or of and-groups),
     start / await of flows and actions in disjunctive normal form (the real code normalises a
       nested and/or group with normalize_element_groups; the source tree carries the DNF),
     activate of flows (and-groups),
     when / or when / else whose case triggers are an event, flow or action or an and-group of them.
   Every construct is named by its path in the source tree (a list of numbers) and derives its
   labels / scope name / fork uids from that path (the real code draws them from new_var_uuid();
   only their equality pattern matters and that is what the correspondence compares, after
   renaming by first occurrence).  The when-expansion is the REPAIRED one (else group emitted once,
   EndScope on the else path).
   Not modelled (validated per program by the checker closedb instead): when-cases whose trigger
   contains an `or`, send / stop / deactivate on groups, references (`as $ref`) and return-value
   assignments on group members (extra Assignment elements only).  Definitions only. *)
From Coq Require Import List String Ascii Bool Arith.
From NG Require Import V2.ClosedAst V2.Closed.
Import ListNotations.
Open Scope string_scope.
Open Scope list_scope.
Infix "^^" := String.append (at level 60, right associativity).

Inductive atom := AFlow | AAction.         (* what a start / await refers to *)
Inductive member := MEvent | MFlow | MAction.   (* member of the trigger of a when-case *)

Inductive stmt :=
| SPlain                                   (* assignment, send of an internal event, log ... *)
| SBlock                                   (* match of one event / send of an action event *)
| SBreak | SContinue | SReturn | SAbort
| SIf (th el : list stmt)                  (* el = [] : no else branch; elif = an If as the else branch *)
| SWhile (body : list stmt)
| SMatch (ks : list nat)                   (* match: or over and-groups of ks_i >= 1 events *)
| SStart (gs : list (list atom))           (* start: or over and-groups *)
| SAwait (gs : list (list atom))           (* await (or a bare flow call): or over and-groups *)
| SActivate (n : nat)                      (* activate f1 and ... and fn *)
| SWhen (cases : list (list member * list stmt)) (els : option (list stmt)).
                                           (* case trigger: an and-group of events / flows / actions *)

(* ---- names.  A construct is identified by its path in the source tree (list nat); every label,
   scope name and fork uid is the path extended by exactly three numbers (kind, index, sub-kind),
   written as a string with a prefix-free unary code (injective, see ExpandTyping_proofs.enc_inj).
   The real code draws the names from new_var_uuid(). ---- *)
Fixpoint uname (n : nat) : string :=
  match n with O => "u" | S k => String "x"%char (uname k) end.

Fixpoint enc (pi : list nat) : string :=
  match pi with [] => "" | n :: r => uname n ^^ enc r end.

Definition spath := list nat.
Definition nm (p : spath) (a b c : nat) : string := enc (p ++ [a; b; c]).
Arguments nm : simpl never.

(* if *)
Definition if_E (p : spath) := nm p 10 0 0.      (* else body *)
Definition if_D (p : spath) := nm p 10 0 1.      (* end *)
(* while *)
Definition wh_B (p : spath) := nm p 12 0 0.      (* begin = continue target *)
Definition wh_D (p : spath) := nm p 12 0 1.      (* end = break target *)
(* and-group of matches (all must match) *)
Definition gr_K (p : spath) := nm p 14 0 0.      (* fork uid *)
Definition gr_F (p : spath) := nm p 14 0 1.      (* failure label *)
Definition gr_N (p : spath) := nm p 14 0 2.      (* end label *)
Definition gr_G (p : spath) (i : nat) := nm p 14 i 3.   (* label of event i *)
(* or-structure (one branch must succeed); sc = true: the await variant, which opens a scope *)
Definition or_a (sc : bool) : nat := if sc then 17 else 16.
Definition or_K (sc : bool) (p : spath) := nm p (or_a sc) 0 0.      (* fork uid *)
Definition or_F (sc : bool) (p : spath) := nm p (or_a sc) 0 1.      (* failure label *)
Definition or_N (sc : bool) (p : spath) := nm p (or_a sc) 0 2.      (* end label *)
Definition or_S (sc : bool) (p : spath) := nm p (or_a sc) 0 4.      (* scope *)
Definition or_G (sc : bool) (p : spath) (i : nat) := nm p (or_a sc) i 3.   (* label of branch i *)
(* when *)
Definition wn_S (p : spath) := nm p 20 0 0.      (* scope *)
Definition wn_K (p : spath) := nm p 20 0 1.      (* cases fork uid *)
Definition wn_E (p : spath) := nm p 20 0 2.      (* else label *)
Definition wn_T (p : spath) := nm p 20 0 3.      (* else statement label *)
Definition wn_D (p : spath) := nm p 20 0 4.      (* end label *)
(* case i of a when *)
Definition cs_I (p : spath) (i : nat) := nm p 30 i 0.   (* init label *)
Definition cs_F (p : spath) (i : nat) := nm p 30 i 1.   (* failure label *)
Definition cs_K (p : spath) (i : nat) := nm p 30 i 2.   (* groups fork uid *)
Definition cs_G (p : spath) (i : nat) := nm p 30 i 3.   (* group label *)
Definition cs_C (p : spath) (i : nat) := nm p 30 i 4.   (* case label *)

Definition cb_t := option (string * string).   (* (continue label, break label) of the enclosing loop *)

(* ---- starting a flow / an action ---- *)
Definition start_atom (a : atom) : list elem :=
  match a with
  | AFlow => [EPlain "Assignment"; EPlain "SpecOp"; EBlock; EPlain "Assignment"]
      (* $uid = ..; send StartFlow; match FlowStarted (internal); $ref = $event.flow *)
  | AAction => [EPlain "SpecOp"; EBlock]
      (* _new_action_instance; send Start...Action (an action event: the head stops) *)
  end.
Definition starts (g : list atom) : list elem := flat_map start_atom g.

(* ---- and-group of n matches at path p ---- *)
Definition group_labels (p : spath) (n : nat) : list string := map (gr_G p) (seq 0 n).

Definition group_body (en : string) (gs : list string) : list elem :=
  flat_map (fun g => [ELabel g; EBlock; EGoto en false]) gs.

Definition and_group (p : spath) (n : nat) : list elem :=
  let gs := group_labels p n in
  [ECatch (Some (gr_F p)); EFork (gr_K p) gs]
    ++ group_body (gr_N p) gs
    ++ [ELabel (gr_F p); EMerge (gr_K p); ECatch None; EAbort; ELabel (gr_N p); EWait; EMerge (gr_K p); ECatch None].

(* a match on k events that must all arrive: one blocking element, or an and-group named by the
   sub-path [tag; i] (tag 6: branch i of a match/start or-structure, 7: of an await or-structure,
   8: not inside an or-structure, 9: trigger of case i of a when) *)
Definition match_all (p : spath) (tag i k : nat) : list elem :=
  if (k <=? 1)%nat then [EBlock] else and_group (p ++ [tag; i]) k.

(* ---- or-structure over already expanded branch bodies ---- *)
Fixpoint or_branches (sc : bool) (p : spath) (i : nat) (bodies : list (list elem)) : list elem :=
  match bodies with
  | [] => []
  | b :: r => ELabel (or_G sc p i) :: b ++ EGoto (or_N sc p) false :: or_branches sc p (S i) r
  end.

Definition or_tail (sc : bool) (p : spath) : list elem :=
  if sc
  then [ELabel (or_F sc p); EWait; ECatch None; EEnd (or_S sc p); EAbort;
        ELabel (or_N sc p); EMerge (or_K sc p); ECatch None; EEnd (or_S sc p)]
  else [ELabel (or_F sc p); EWait; EMerge (or_K sc p); ECatch None; EAbort;
        ELabel (or_N sc p); EMerge (or_K sc p); ECatch None].

Definition or_struct (sc : bool) (p : spath) (bodies : list (list elem)) : list elem :=
  (if sc then [EBegin (or_S sc p)] else [])
    ++ [ECatch (Some (or_F sc p)); EFork (or_K sc p) (map (or_G sc p) (seq 0 (List.length bodies)))]
    ++ or_branches sc p 0 bodies ++ or_tail sc p.

Fixpoint mapi_from {A B} (f : nat -> A -> B) (i : nat) (l : list A) : list B :=
  match l with [] => [] | x :: r => f i x :: mapi_from f (S i) r end.

Definition x_match (p : spath) (ks : list nat) : list elem :=
  match ks with
  | [k] => match_all p 8 0 k
  | _ => or_struct false p (mapi_from (fun i k => match_all p 6 i k) 0 ks)
  end.

Definition x_start (p : spath) (gs : list (list atom)) : list elem :=
  match gs with
  | [g] => starts g
  | _ => or_struct false p (map starts gs)
  end.

Definition x_await (p : spath) (gs : list (list atom)) : list elem :=
  match gs with
  | [g] => starts g ++ match_all p 8 0 (List.length g)
  | _ => or_struct true p (mapi_from (fun i g => starts g ++ match_all p 7 i (List.length g)) 0 gs)
  end.

Fixpoint x_activate (n : nat) : list elem :=
  match n with O => [] | S m => [EPlain "Assignment"; EPlain "SpecOp"; EBlock] ++ x_activate m end.

(* ---- when ---- *)
Definition member_start (m : member) : list elem :=
  match m with MEvent => [] | MFlow => start_atom AFlow | MAction => start_atom AAction end.
Definition case_pre (tr : list member) : list elem := flat_map member_start tr.

(* one case of a when statement; `body` already expanded *)
Definition when_case (p : spath) (i : nat) (tr : list member) (body : list elem) : list elem :=
  [ELabel (cs_I p i); ECatch (Some (cs_F p i)); EFork (cs_K p i) [cs_G p i]; ELabel (cs_G p i)]
  ++ (case_pre tr ++ match_all p 9 i (List.length tr)) ++
  [EGoto (cs_C p i) false;
   ELabel (cs_C p i); EMerge (wn_K p); ECatch None; EEnd (wn_S p)] ++ body ++
  [EGoto (wn_D p) false; ELabel (cs_F p i); EWait; ECatch None; EGoto (wn_E p) false].

Definition when_tail (p : spath) (els : option (list elem)) : list elem :=
  [ELabel (wn_E p); EWait; EEnd (wn_S p)] ++
  match els with
  | None => [EAbort]
  | Some el => [EGoto (wn_T p) false; ELabel (wn_T p)] ++ el
  end ++ [ELabel (wn_D p)].

Fixpoint xstmt (cb : cb_t) (p : spath) (s : stmt) {struct s} : list elem :=
  let xlist := fix xlist (cb : cb_t) (p : spath) (t i : nat) (ss : list stmt) {struct ss} : list elem :=
    match ss with
    | [] => []
    | s :: r => xstmt cb (p ++ [t; i]) s ++ xlist cb p t (S i) r
    end in
  match s with
  | SPlain => [EPlain "Assignment"]
  | SBlock => [EBlock]
  | SBreak => [EBreak (option_map snd cb)]
  | SContinue => [EContinue (option_map fst cb)]
  | SReturn => [EReturn]
  | SAbort => [EAbort]
  | SIf th el =>
      match el with
      | [] => EGoto (if_D p) true :: xlist cb p 0 0 th ++ [ELabel (if_D p)]
      | _ => EGoto (if_E p) true :: xlist cb p 0 0 th
             ++ [EGoto (if_D p) false; ELabel (if_E p)] ++ xlist cb p 1 0 el ++ [ELabel (if_D p)]
      end
  | SWhile body =>
      ELabel (wh_B p) :: EGoto (wh_D p) true
        :: xlist (Some (wh_B p, wh_D p)) p 2 0 body ++ [EGoto (wh_B p) false; ELabel (wh_D p)]
  | SMatch ks => x_match p ks
  | SStart gs => x_start p gs
  | SAwait gs => x_await p gs
  | SActivate n => x_activate n
  | SWhen cases els =>
      let xcases := fix xcases (i : nat) (cs : list (list member * list stmt)) {struct cs} : list elem :=
        match cs with
        | [] => []
        | (tr, body) :: r => when_case p i tr (xlist cb (p ++ [4; i]) 5 0 body) ++ xcases (S i) r
        end in
      EBegin (wn_S p)
        :: EFork (wn_K p) (map (cs_I p) (seq 0 (List.length cases)))
        :: xcases 0 cases
        ++ when_tail p (match els with None => None | Some el => Some (xlist cb p 3 0 el) end)
  end.

Fixpoint xlist (cb : cb_t) (p : spath) (t i : nat) (ss : list stmt) : list elem :=
  match ss with
  | [] => []
  | s :: r => xstmt cb (p ++ [t; i]) s ++ xlist cb p t (S i) r
  end.

Definition xcases (cb : cb_t) (p : spath) : nat -> list (list member * list stmt) -> list elem :=
  fix xcases (i : nat) (cs : list (list member * list stmt)) {struct cs} : list elem :=
    match cs with
    | [] => []
    | (tr, body) :: r => when_case p i tr (xlist cb (p ++ [4; i]) 5 0 body) ++ xcases (S i) r
    end.

(* well-formed source: break / continue only inside a loop *)
Fixpoint wf_loops (inl : bool) (s : stmt) {struct s} : bool :=
  let wl := fix wl (inl : bool) (ss : list stmt) {struct ss} : bool :=
    match ss with [] => true | s :: r => wf_loops inl s && wl inl r end in
  match s with
  | SBreak | SContinue => inl
  | SIf th el => wl inl th && wl inl el
  | SWhile b => wl true b
  | SWhen cases els =>
      (fix wc (cs : list (list member * list stmt)) : bool :=
         match cs with [] => true | (_, c) :: r => wl inl c && wc r end) cases
      && match els with None => true | Some el => wl inl el end
  | _ => true
  end.

Fixpoint wf_list (inl : bool) (ss : list stmt) : bool :=
  match ss with [] => true | s :: r => wf_loops inl s && wf_list inl r end.

Definition wf_cases (inl : bool) : list (list member * list stmt) -> bool :=
  fix wc (cs : list (list member * list stmt)) : bool :=
    match cs with [] => true | (_, c) :: r => wf_list inl c && wc r end.

(* a flow body: the flow-start match is a blocking element in front *)
Definition expand (ss : list stmt) : list elem := EBlock :: xlist None [] 0 0 ss.

(* ---- sanity: closedness of concrete expansions, by the verified checker ---- *)
Example ex_expand_closed_1 :
  closedb (expand [SWhile [SWhen [([MEvent], [SPlain]); ([MFlow; MEvent], [SBreak])] (Some [SContinue; SPlain]); SPlain];
                   SIf [SMatch [1; 1]] [SMatch [3]]; SMatch [2; 1]; SBlock]) = true.
Proof. vm_compute. reflexivity. Qed.

Example ex_expand_closed_2 :
  closedb (expand [SWhen [([MEvent], [SWhile [SBreak]])] None;
                   SAwait [[AFlow; AAction]; [AFlow]]; SStart [[AFlow]; [AAction; AFlow]]; SActivate 2;
                   SAwait [[AFlow; AFlow; AAction]];
                   SWhen [([MAction], [SReturn]); ([MEvent; MAction; MFlow], [SAbort])] (Some [SWhile [SContinue]])]) = true.
Proof. vm_compute. reflexivity. Qed.
