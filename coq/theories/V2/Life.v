(* V2/Life.v - focused model of the LIFETIME LAYER of the Colang 2 state machine
   (nemoguardrails/colang/v2_x/runtime/statemachine.py: _abort_flow, _finish_flow, the EndScope
   case of slide, _update_action_status_by_event + Action.process_event, and the
   end-of-slide guard of _advance_head_front).

   Definitions only.  The functions are transcriptions, statement by statement, of the Python
   code; Python exceptions are explicit error results; the recursion of _abort_flow over
   child_flow_uids is fuelled and running out of fuel is the distinguished error EFuel.

   What is NOT in this model: heads and the matcher index (cleared / untouched by the
   lifetime layer), contexts, arguments (a restart carries the instance uid, the source
   instance and the `activated` marker only), _log_action_or_intents (flows with meta tags).
   The model is tied to the code at function level by harness/c06.py: every real outermost call
   of these functions is snapshotted before/after and replayed through the functions below. *)
From Coq Require Import ZArith NArith List Bool.
Import ListNotations.
Open Scope N_scope.

Definition uid := N.

Inductive fstatus := FWaiting | FStarting | FStarted | FStopping | FStopped | FFinished.
Inductive astatus := AInit | AStarting | AStarted | AStopping | AFinished.

(* is_listening_flow *)
Definition listening (x : fstatus) : bool :=
  match x with FWaiting | FStarted | FStarting => true | _ => false end.
Definition is_stopping (x : fstatus) : bool :=
  match x with FStopping => true | _ => false end.
(* the Stop guard: status == STARTING or status == STARTED *)
Definition active (x : astatus) : bool :=
  match x with AStarting | AStarted => true | _ => false end.

Record inst := mkInst {
  i_flow : N;                                   (* flow_id, abstracted; "main" is main_id *)
  i_status : fstatus;
  i_parent : option uid;                        (* parent_uid *)
  i_children : list uid;                        (* child_flow_uids (may contain duplicates) *)
  i_actions : list uid;                         (* action_uids *)
  i_scopes : list (N * (list uid * list uid));  (* scopes: name -> (flow uids, action uids) *)
  i_activated : Z;                              (* activated (reference count) *)
  i_nis : bool                                  (* new_instance_started *)
}.

Record act := mkAct { a_status : astatus; a_count : Z (* flow_scope_count *) }.

Definition main_id : N := 0.

(* what the lifetime layer emits, in chronological order *)
Inductive emit :=
| EStop (a : uid)                          (* Stop<Action>(action_uid=a) appended to outgoing_events *)
| EFailed (f : uid)                        (* FlowFailed of instance f pushed (right) on the internal queue *)
| EFinished (f : uid)                      (* FlowFinished of instance f pushed (right) *)
| ERestart (f src : uid) (activated : Z)   (* StartFlow (restart of activated instance f) pushed LEFT,
                                              source_flow_instance_uid = src, "activated" marker *)
| EStarted (f : uid).                      (* FlowStarted of the reference instance f pushed (right) when an
                                              already activated flow is activated once more *)

Record st := mkSt {
  flows : list (uid * inst);
  acts : list (uid * act);
  out : list emit
}.

Inductive err := EFuel | EKeyFlow | EKeyAction | ENotInList | ENoScope.
Inductive res (A : Type) := Ok (a : A) | Err (e : err).
Arguments Ok {A} a.
Arguments Err {A} e.

Definition bind {A B} (r : res A) (k : A -> res B) : res B :=
  match r with Ok a => k a | Err e => Err e end.

(* association maps: lookup = first binding; upd replaces the first binding, never adds *)
Fixpoint get {A} (k : N) (m : list (N * A)) : option A :=
  match m with
  | [] => None
  | (k', v) :: m' => if N.eqb k k' then Some v else get k m'
  end.

Fixpoint upd {A} (k : N) (v : A) (m : list (N * A)) : list (N * A) :=
  match m with
  | [] => []
  | (k', v') :: m' => if N.eqb k k' then (k', v) :: m' else (k', v') :: upd k v m'
  end.

Definition getf (s : st) (x : uid) : option inst := get x (flows s).
Definition geta (s : st) (a : uid) : option act := get a (acts s).
Definition setf (s : st) (x : uid) (i : inst) : st := mkSt (upd x i (flows s)) (acts s) (out s).
Definition seta (s : st) (a : uid) (c : act) : st := mkSt (flows s) (upd a c (acts s)) (out s).
Definition emit1 (s : st) (e : emit) : st := mkSt (flows s) (acts s) (out s ++ [e]).

(* field updates on the instance currently stored (Python mutates the object in place) *)
Definition modf (s : st) (x : uid) (g : inst -> inst) : st :=
  match getf s x with Some i => setf s x (g i) | None => s end.

Definition set_status (v : fstatus) (i : inst) : inst :=
  mkInst (i_flow i) v (i_parent i) (i_children i) (i_actions i) (i_scopes i) (i_activated i) (i_nis i).
Definition set_children (v : list uid) (i : inst) : inst :=
  mkInst (i_flow i) (i_status i) (i_parent i) v (i_actions i) (i_scopes i) (i_activated i) (i_nis i).
Definition set_scopes (v : list (N * (list uid * list uid))) (i : inst) : inst :=
  mkInst (i_flow i) (i_status i) (i_parent i) (i_children i) (i_actions i) v (i_activated i) (i_nis i).
Definition set_actions (v : list uid) (i : inst) : inst :=
  mkInst (i_flow i) (i_status i) (i_parent i) (i_children i) v (i_scopes i) (i_activated i) (i_nis i).
Definition set_parent (v : option uid) (i : inst) : inst :=
  mkInst (i_flow i) (i_status i) v (i_children i) (i_actions i) (i_scopes i) (i_activated i) (i_nis i).
Definition set_activated (v : Z) (i : inst) : inst :=
  mkInst (i_flow i) (i_status i) (i_parent i) (i_children i) (i_actions i) (i_scopes i) v (i_nis i).
Definition set_nis (v : bool) (i : inst) : inst :=
  mkInst (i_flow i) (i_status i) (i_parent i) (i_children i) (i_actions i) (i_scopes i) (i_activated i) v.

(* list.remove(x): first occurrence, ValueError (None) when absent *)
Fixpoint remove1 (x : uid) (l : list uid) : option (list uid) :=
  match l with
  | [] => None
  | y :: l' => if N.eqb x y then Some l'
               else match remove1 x l' with Some r => Some (y :: r) | None => None end
  end.

(* _is_reference_activated_flow: activated > 0 and parent_uid is not None and
   flow_id != state.flow_states[parent_uid].flow_id   (KeyError when the parent is gone) *)
Definition is_ref_activated (s : st) (i : inst) : res bool :=
  if (0 <? i_activated i)%Z then
    match i_parent i with
    | None => Ok false
    | Some p => match getf s p with
                | None => Err EKeyFlow
                | Some pi => Ok (negb (N.eqb (i_flow i) (i_flow pi)))
                end
    end
  else Ok false.

(* _is_child_activated_flow (guards the parent lookup) *)
Definition is_child_activated (s : st) (i : inst) : bool :=
  (0 <? i_activated i)%Z &&
  match i_parent i with
  | None => false
  | Some p => match getf s p with
              | None => false
              | Some pi => N.eqb (i_flow i) (i_flow pi)
              end
  end.

(* the guarded Stop: the three places in the source have exactly this body
     if status == STARTING or status == STARTED:
         flow_scope_count -= 1
         if flow_scope_count == 0: stop_event; status = STOPPING; _generate_umim_event *)
Definition stop_action (s : st) (a : uid) : res st :=
  match geta s a with
  | None => Err EKeyAction
  | Some c =>
    if active (a_status c) then
      let n := (a_count c - 1)%Z in
      if (n =? 0)%Z then Ok (emit1 (seta s a (mkAct AStopping n)) (EStop a))
      else Ok (seta s a (mkAct (a_status c) n))
    else Ok s
  end.

Fixpoint stop_actions (l : list uid) (s : st) : res st :=
  match l with
  | [] => Ok s
  | a :: l' => bind (stop_action s a) (stop_actions l')
  end.

(* "Remove flow uid from parents children list" *)
Definition unlink (s : st) (f : uid) : res st :=
  match getf s f with
  | None => Err EKeyFlow
  | Some i =>
    if (i_activated i =? 0)%Z then
      match i_parent i with
      | None => Ok s
      | Some p =>
        match getf s p with
        | None => Ok s
        | Some pi =>
          match remove1 f (i_children pi) with
          | None => Err ENotInList
          | Some l => Ok (setf s p (set_children l pi))
          end
        end
      end
    else Ok s
  end.

(* "Restart the flow if it is an activated flow" *)
Definition restart (s : st) (f : uid) (d : bool) : res st :=
  match getf s f with
  | None => Err EKeyFlow
  | Some i =>
    if negb d && (0 <? i_activated i)%Z && negb (i_nis i) then
      bind (match i_parent i with
            | None => Ok f
            | Some p => match getf s p with
                        | None => Err EKeyFlow
                        | Some pi => Ok (if N.eqb (i_flow pi) (i_flow i) then p else f)
                        end
            end)
           (fun src => Ok (modf (emit1 s (ERestart f src (i_activated i))) f (set_nis true)))
    else Ok s
  end.

Section Loops.
  (* the recursive call, with smaller fuel *)
  Variable ab : st -> uid -> bool -> res st.

  (* for child_flow_uid in list(child_flow_uids): child = flow_states[uid]   (KeyError)
         if child.flow_id == flow_state.flow_id: _abort_flow(child, True); child.activated = 0 *)
  Fixpoint abort_same (fid : N) (l : list uid) (s : st) : res st :=
    match l with
    | [] => Ok s
    | c :: l' =>
      match getf s c with
      | None => Err EKeyFlow
      | Some ci =>
        if N.eqb (i_flow ci) fid then
          bind (ab s c true) (fun s1 => abort_same fid l' (modf s1 c (set_activated 0%Z)))
        else abort_same fid l' s
      end
    end.

  (* for child_flow_uid in list(child_flow_uids): if uid not in flow_states: continue
         if not _is_child_activated_flow(child): _abort_flow(child, True) *)
  Fixpoint abort_children (l : list uid) (s : st) : res st :=
    match l with
    | [] => Ok s
    | c :: l' =>
      match getf s c with
      | None => abort_children l' s
      | Some ci =>
        if is_child_activated s ci then abort_children l' s
        else bind (ab s c true) (abort_children l')
      end
    end.

  (* the deactivate prologue shared by _abort_flow and _finish_flow; the bool says whether
     the caller continues (false = `return`) *)
  Definition deactivate (s : st) (f : uid) (d : bool) : res (st * bool) :=
    match getf s f with
    | None => Err EKeyFlow
    | Some i =>
      bind (if d then is_ref_activated s i else Ok false) (fun isref =>
        if isref then
          let v := (i_activated i - 1)%Z in
          let s1 := modf s f (set_activated v) in
          if (v =? 0)%Z then bind (abort_same (i_flow i) (i_children i) s1) (fun s2 => Ok (s2, true))
          else Ok (s1, false)
        else Ok (s, true))
    end.

  (* EndScope: for flow_uid in flow_uids: if uid in flow_states and is_listening: _abort_flow(child) *)
  Fixpoint scope_flows (l : list uid) (s : st) : res st :=
    match l with
    | [] => Ok s
    | c :: l' =>
      match getf s c with
      | None => scope_flows l' s
      | Some ci =>
        if listening (i_status ci) then bind (ab s c false) (scope_flows l')
        else scope_flows l' s
      end
    end.
End Loops.

(* what _abort_flow and _finish_flow have in common: the deactivate prologue, the early
   `return` for instances that are not running (`skip` is the status test, which differs), the
   loop over the children and the loop over the actions.  The bool says whether the caller
   goes on with its epilogue (false = the Python function returned). *)
Definition prologue (ab : st -> uid -> bool -> res st) (skip : fstatus -> bool)
           (s : st) (f : uid) (d : bool) : res (st * bool) :=
  bind (deactivate ab s f d) (fun r =>
    if snd r then
      let s1 := fst r in
      match getf s1 f with
      | None => Err EKeyFlow
      | Some i1 =>
        if skip (i_status i1) then Ok (s1, false)
        else
          bind (abort_children ab (i_children i1) s1) (fun s2 =>
          match getf s2 f with
          | None => Err EKeyFlow
          | Some i2 => bind (stop_actions (i_actions i2) s2) (fun s3 => Ok (s3, true))
          end)
      end
    else Ok (fst r, false)).

(* `if not is_listening_flow(flow_state) and flow_state.status != FlowStatus.STOPPING: return` *)
Definition skip_abort (x : fstatus) : bool := negb (listening x) && negb (is_stopping x).
(* `if not is_listening_flow(flow_state): return` *)
Definition skip_finish (x : fstatus) : bool := negb (listening x).

(* rest of _abort_flow: heads cleared; unlink; status STOPPED; FlowFailed; restart *)
Definition epilogue_abort (s3 : st) (f : uid) (d : bool) : res st :=
  bind (unlink s3 f) (fun s4 =>
  restart (emit1 (modf s4 f (set_status FStopped)) (EFailed f)) f d).

(* rest of _finish_flow: heads cleared; main flow: new head, WAITING, return;
   otherwise status FINISHED; unlink; FlowFinished; restart *)
Definition epilogue_finish (s3 : st) (f : uid) (d : bool) : res st :=
  match getf s3 f with
  | None => Err EKeyFlow
  | Some i =>
    if N.eqb (i_flow i) main_id then Ok (modf s3 f (set_status FWaiting))
    else
      bind (unlink (modf s3 f (set_status FFinished)) f) (fun s4 =>
      restart (emit1 s4 (EFinished f)) f d)
  end.

(* _abort_flow(state, flow_state, matching_scores, deactivate_flow) *)
Fixpoint abort (fuel : nat) (s : st) (f : uid) (d : bool) : res st :=
  match fuel with
  | O => Err EFuel
  | S n =>
    bind (prologue (abort n) skip_abort s f d) (fun r =>
      if snd r then epilogue_abort (fst r) f d else Ok (fst r))
  end.

(* _abort_flow with the optional keyword `restart_flow` (default True; a tree that has the
   keyword passes False for an activated flow that fails before it ever waited): only the
   outermost call can carry it, the recursive calls use the default; restart_flow = False
   suppresses the restart like deactivate_flow does, and nothing else. *)
Definition abort_top (r : bool) (fuel : nat) (s : st) (f : uid) (d : bool) : res st :=
  match fuel with
  | O => Err EFuel
  | S n =>
    bind (prologue (abort n) skip_abort s f d) (fun r0 =>
      if snd r0 then epilogue_abort (fst r0) f (d || negb r) else Ok (fst r0))
  end.

(* _finish_flow(state, flow_state, matching_scores, deactivate_flow); every recursive call is
   to _abort_flow *)
Definition finish (fuel : nat) (s : st) (f : uid) (d : bool) : res st :=
  bind (prologue (abort fuel) skip_finish s f d) (fun r =>
    if snd r then epilogue_finish (fst r) f d else Ok (fst r)).

(* the EndScope case of slide *)
Fixpoint pop_scope (name : N) (l : list (N * (list uid * list uid)))
  : option ((list uid * list uid) * list (N * (list uid * list uid))) :=
  match l with
  | [] => None
  | (k, v) :: l' =>
    if N.eqb name k then Some (v, l')
    else match pop_scope name l' with
         | Some (r, rest) => Some (r, (k, v) :: rest)
         | None => None
         end
  end.

(* _release_shared_action(flow_state, action_uid): the flow gives up its share of an action
   that other flows still use - the uid leaves action_uids (first occurrence) and every open
   scope of the flow *)
Definition remove1_opt (x : uid) (l : list uid) : list uid :=
  match remove1 x l with Some r => r | None => l end.

Definition release_shared (f a : uid) (s : st) : st :=
  modf s f (fun i =>
    set_scopes (map (fun sc : N * (list uid * list uid) =>
                       (fst sc, (fst (snd sc), filter (fun x => negb (N.eqb x a)) (snd (snd sc)))))
                    (i_scopes i))
               (set_actions (remove1_opt a (i_actions i)) i)).

(* the Stop guard of the EndScope case; `rel` = the source has the
   `else: _release_shared_action(flow_state, action_uid)` branch (read by the translator) *)
Definition scope_action (rel : bool) (f : uid) (s : st) (a : uid) : res st :=
  match geta s a with
  | None => Err EKeyAction
  | Some c =>
    if active (a_status c) then
      let n := (a_count c - 1)%Z in
      if (n =? 0)%Z then Ok (emit1 (seta s a (mkAct AStopping n)) (EStop a))
      else let s1 := seta s a (mkAct (a_status c) n) in
           Ok (if rel then release_shared f a s1 else s1)
    else Ok s
  end.

Fixpoint scope_actions (rel : bool) (f : uid) (l : list uid) (s : st) : res st :=
  match l with
  | [] => Ok s
  | a :: l' => bind (scope_action rel f s a) (scope_actions rel f l')
  end.

Definition end_scope (rel : bool) (fuel : nat) (s : st) (f : uid) (name : N) : res st :=
  match getf s f with
  | None => Err EKeyFlow
  | Some i =>
    match pop_scope name (i_scopes i) with
    | None => Err ENoScope
    | Some ((fl, al), rest) =>
      bind (scope_flows (abort fuel) fl (modf s f (set_scopes rest))) (scope_actions rel f al)
    end
  end.

(* ------------------------------------------------------------------------------------ *)
(* Starting and activating flows: the START_FLOW branch of
   _process_internal_events_without_default_matchers as far as it concerns the hierarchy and
   `activated`, and _start_flow (the link of the new instance to its parent).

   A StartFlow event, abstracted: flow id, uid of the instance to create, sender
   (source_flow_instance_uid) and the `activated` marker (0 = absent/falsy; `activate` sends
   True = 1, a restart sends the count of the ending instance). *)
Record sfev := mkSfev { sf_flow : N; sf_uid : uid; sf_src : option uid; sf_activated : Z }.

(* _is_done_flow *)
Definition done (x : fstatus) : bool :=
  match x with FStopped | FFinished => true | _ => false end.

(* a freshly created instance: WAITING, not linked yet *)
Definition new_inst (fid : N) : inst := mkInst fid FWaiting None [] [] [] 0%Z false.

(* state.flow_states.update({uid: flow_state}) *)
Definition addf (s : st) (x : uid) (i : inst) : st :=
  match getf s x with
  | Some _ => setf s x i
  | None => mkSt (flows s ++ [(x, i)]) (acts s) (out s)
  end.

Section Start.
  (* `pm u` = the parameters of instance u are exactly those of the event
     (the comparison loop of _get_reference_activated_flow_instance) *)
  Variable pm : uid -> bool.

  (* _get_reference_activated_flow_instance: first instance of the flow, in creation order, that
     is a reference instance (activated, linked to a parent of ANOTHER flow) with these parameters *)
  Fixpoint ref_lookup (s : st) (fid : N) (l : list (uid * inst)) : option uid :=
    match l with
    | [] => None
    | (u, i) :: l' =>
      if N.eqb (i_flow i) fid then
        if (i_activated i =? 0)%Z
           || match i_parent i with
              | None => true
              | Some p => match getf s p with
                          | None => true
                          | Some pi => N.eqb (i_flow i) (i_flow pi)
                          end
              end
        then ref_lookup s fid l'
        else if pm u then Some u else ref_lookup s fid l'
      else ref_lookup s fid l'
    end.

  (* the done-source guards: the sender has ended and is of another flow (a queued start of a
     sender that ended meanwhile), or it is the ended instance of the same flow, the event is a
     restart/activation and the flow was deactivated meanwhile *)
  Definition start_dropped (s : st) (e : sfev) : bool :=
    match sf_src e with
    | None => false
    | Some p =>
      match getf s p with
      | None => false
      | Some si =>
        done (i_status si)
        && (negb (N.eqb (i_flow si) (sf_flow e))
            || (negb (sf_activated e =? 0)%Z && (i_activated si =? 0)%Z))
      end
    end.

  (* START_FLOW branch.  Result: the new state and, when a new instance was created, the
     effective sender (the event's source_flow_instance_uid is REWRITTEN to the reference instance
     for a restart), which _start_flow will use. *)
  Definition start_proc (s : st) (e : sfev) : res (st * option uid) :=
    if N.eqb (sf_flow e) main_id then Ok (s, None)
    else if start_dropped s e then Ok (s, None)
    else
      let started := if (sf_activated e =? 0)%Z then None else ref_lookup s (sf_flow e) (flows s) in
      match sf_src e with
      | None => Err EKeyFlow
      | Some p =>
        match getf s p with
        | None => Err EKeyFlow
        | Some si =>
          let child := N.eqb (sf_flow e) (i_flow si) in
          match started with
          | Some r =>
            if child then Ok (addf s (sf_uid e) (new_inst (sf_flow e)), Some r)
            else
              (* activate a flow that already has been activated: count + 1, the activator gets
                 the reference instance as one more child entry, FlowStarted is sent *)
              let s1 := modf s r (fun i => set_activated (i_activated i + 1)%Z i) in
              let s2 := modf s1 p (fun i => set_children (i_children i ++ [r]) i) in
              Ok (emit1 s2 (EStarted r), None)
          | None => Ok (addf s (sf_uid e) (new_inst (sf_flow e)), Some p)
          end
        end
      end.
End Start.

(* _start_flow(state, flow_state, event_arguments) for a flow other than main: link to the parent,
   take over the `activated` marker of the event *)
Definition start_link (s : st) (x src : uid) (a : Z) : res st :=
  match getf s x with
  | None => Err EKeyFlow
  | Some xi =>
    if N.eqb (i_flow xi) main_id then Ok s
    else
      match getf s src with
      | None => Err EKeyFlow
      | Some _ =>
        let s1 := modf s x (set_parent (Some src)) in
        let s2 := modf s1 src (fun i => set_children (i_children i ++ [x]) i) in
        Ok (modf s2 x (set_activated a))
      end
  end.

(* processing of a StartFlow event: the branch above, then the new instance (waiting at its first
   element) matches the event and _start_flow links it *)
Definition start_flow (pm : uid -> bool) (s : st) (e : sfev) : res st :=
  bind (start_proc pm s e) (fun r =>
    match snd r with
    | None => Ok (fst r)
    | Some src => start_link (fst r) (sf_uid e) src (sf_activated e)
    end).

(* a listening instance moves on (WAITING -> STARTING -> STARTED) *)
Definition advance (s : st) (f : uid) (v : fstatus) : st :=
  match getf s f with
  | Some i => if listening (i_status i) && listening v then setf s f (set_status v i) else s
  | None => s
  end.

(* ------------------------------------------------------------------------------------ *)
(* _clean_up_state (runs at the start of every run_to_completion): ended instances whose last
   status change is older than 5 s (`aged`, the clock is external) and whose count is 0 are
   discarded - with `keep` (read from the source) only if they are not the parent of an instance
   that is running or activated; the discarded uids disappear from every child list and every
   open scope; the action table is rebuilt from the action lists of the remaining instances. *)
Definition memb (x : uid) (l : list uid) : bool := existsb (N.eqb x) l.

Definition needed_parents (s : st) : list uid :=
  flat_map (fun xi : uid * inst =>
              if negb (done (i_status (snd xi))) || negb (i_activated (snd xi) =? 0)%Z
              then match i_parent (snd xi) with Some p => [p] | None => [] end
              else [])
           (flows s).

Definition removable (keep : bool) (aged : uid -> bool) (s : st) (xi : uid * inst) : bool :=
  done (i_status (snd xi)) && aged (fst xi) && (i_activated (snd xi) =? 0)%Z
  && (negb keep || negb (memb (fst xi) (needed_parents s))).

Definition removed_uids (keep : bool) (aged : uid -> bool) (s : st) : list uid :=
  map fst (filter (removable keep aged s) (flows s)).

Definition prune (rem : list uid) (i : inst) : inst :=
  set_scopes (map (fun sc : N * (list uid * list uid) =>
                     (fst sc, (filter (fun x => negb (memb x rem)) (fst (snd sc)), snd (snd sc))))
                  (i_scopes i))
             (set_children (filter (fun x => negb (memb x rem)) (i_children i)) i).

Fixpoint dedup (seen l : list uid) : list uid :=
  match l with
  | [] => []
  | a :: l' => if memb a seen then dedup seen l' else a :: dedup (a :: seen) l'
  end.

Fixpoint lookup_all (m : list (uid * act)) (l : list uid) : res (list (uid * act)) :=
  match l with
  | [] => Ok []
  | a :: l' => match get a m with
               | None => Err EKeyAction
               | Some c => bind (lookup_all m l') (fun r => Ok ((a, c) :: r))
               end
  end.

Definition cleanup (keep : bool) (aged : uid -> bool) (s : st) : res st :=
  let rem := removed_uids keep aged s in
  let fl := map (fun xi : uid * inst => (fst xi, prune rem (snd xi)))
                (filter (fun xi : uid * inst => negb (memb (fst xi) rem)) (flows s)) in
  bind (lookup_all (acts s) (dedup [] (flat_map (fun xi : uid * inst => i_actions (snd xi)) fl)))
       (fun ac => Ok (mkSt fl ac (out s))).

(* _update_action_status_by_event + Action.process_event.  The harness classifies the event
   name with the same substring tests as process_event. *)
Inductive akind := KStarted | KUpdated | KFinished | KStart | KStop | KOther.

Definition process_event (k : akind) (c : act) : act :=
  match k with
  | KStarted => mkAct AStarted (a_count c)
  | KUpdated => c
  | KFinished => mkAct AFinished 0%Z
  | KStart => mkAct AStarting 1%Z
  | KStop => mkAct AStopping (a_count c)
  | KOther => c
  end.

Definition astatus_eqb (x y : astatus) : bool :=
  match x, y with
  | AInit, AInit | AStarting, AStarting | AStarted, AStarted
  | AStopping, AStopping | AFinished, AFinished => true
  | _, _ => false
  end.

(* one visit of (listening flow, action uid in its action_uids) *)
Definition visit (k : akind) (a : uid) (s : st) (a' : uid) : st :=
  if N.eqb a' a then
    match geta s a' with
    | Some c => if astatus_eqb (a_status c) AFinished then s else seta s a' (process_event k c)
    | None => s
    end
  else s.

Definition action_event (k : akind) (a : uid) (s : st) : st :=
  fold_left (fun s1 (xi : uid * inst) =>
               if listening (i_status (snd xi))
               then fold_left (visit k a) (i_actions (snd xi)) s1
               else s1)
            (flows s) s.

(* the end-of-slide decision of _advance_head_front (after `slide` returned):
     if flow_finished or all_heads_are_waiting:
         if status == STARTING: status = STARTED; push FlowStarted
              if flow_finished and activated > 0: flow_finished = False   (head INACTIVE)
   returns (new status, FlowStarted pushed?, flow_finished afterwards) *)
Definition end_of_slide (status : fstatus) (activated : Z) (finished waiting : bool)
  : fstatus * bool * bool :=
  if finished || waiting then
    match status with
    | FStarting =>
      (FStarted, true, if finished && (0 <? activated)%Z then false else finished)
    | _ => (status, false, finished)
    end
  else (status, false, finished).

(* ------------------------------------------------------------------------------------ *)
(* sanity: a 3-level hierarchy main(1) -> p(2) -> c(3); action 10 owned by p, action 11
   shared by p and c (count 2), action 12 owned by c and already finished *)
Definition ex_i (fl : N) (stt : fstatus) (par : option uid) (ch al : list uid) (actv : Z) : inst :=
  mkInst fl stt par ch al [] actv false.

Definition ex_state : st :=
  mkSt [ (1, ex_i 0 FStarted None [2] [] 1%Z);
         (2, ex_i 1 FStarted (Some 1) [3] [10; 11] 0%Z);
         (3, ex_i 2 FStarted (Some 2) [] [11; 12] 0%Z) ]
       [ (10, mkAct AStarted 1%Z); (11, mkAct AStarting 2%Z); (12, mkAct AFinished 0%Z) ]
       [].

Example ex_abort_p :
  abort 3 ex_state 2 false =
  Ok (mkSt [ (1, ex_i 0 FStarted None [] [] 1%Z);
             (2, ex_i 1 FStopped (Some 1) [] [10; 11] 0%Z);
             (3, ex_i 2 FStopped (Some 2) [] [11; 12] 0%Z) ]
           [ (10, mkAct AStopping 0%Z); (11, mkAct AStopping 0%Z); (12, mkAct AFinished 0%Z) ]
           [ EFailed 3; EStop 10; EStop 11; EFailed 2 ]).
Proof. vm_compute. reflexivity. Qed.

Example ex_abort_c_only :
  abort 3 ex_state 3 false =
  Ok (mkSt [ (1, ex_i 0 FStarted None [2] [] 1%Z);
             (2, ex_i 1 FStarted (Some 1) [] [10; 11] 0%Z);
             (3, ex_i 2 FStopped (Some 2) [] [11; 12] 0%Z) ]
           [ (10, mkAct AStarted 1%Z); (11, mkAct AStarting 1%Z); (12, mkAct AFinished 0%Z) ]
           [ EFailed 3 ]).
Proof. vm_compute. reflexivity. Qed.

Example ex_fuel : abort 1 ex_state 2 false = Err EFuel.
Proof. vm_compute. reflexivity. Qed.
