(* Proofs about V2/Conflict.v (model of _resolve_action_conflicts).
   Order: the lexicographic order on score lists; the stable sort; the tie set and the
   picked head; the decisions of one group; grouping by interaction loop; the view of
   `resolve` loop by loop; the C05 statements (re-exported by Props/C05.v).
   Everything holds for an arbitrary argument-dict equality `args_eqb` and arbitrary choice
   functions; sort_reverse / pad_value enter only where stated. *)
From Coq Require Import List String Bool QArith Qpower ZArith Arith Lia Permutation Sorting.Sorted.
From NG Require Import Gen.C05Consts Gen.MatchConsts Val.ScoreQ V2.Conflict.
Import ListNotations.
Open Scope list_scope.
Open Scope nat_scope.

Lemma Qcompare_refl (x : Q) : (x ?= x)%Q = Eq.
Proof. apply Qeq_alt. reflexivity. Qed.

Lemma Qcompare_eq_l (x y z : Q) : (x ?= y)%Q = Eq -> (x ?= z)%Q = (y ?= z)%Q.
Proof. intro H. apply Qeq_alt in H. rewrite H. reflexivity. Qed.

Lemma Qcompare_eq_r (x y z : Q) : (y ?= z)%Q = Eq -> (x ?= y)%Q = (x ?= z)%Q.
Proof. intro H. apply Qeq_alt in H. rewrite H. reflexivity. Qed.

Lemma Qcompare_lt_trans (x y z : Q) : (x ?= y)%Q = Lt -> (y ?= z)%Q = Lt -> (x ?= z)%Q = Lt.
Proof. intros H1 H2. apply Qlt_alt in H1. apply Qlt_alt in H2. apply Qlt_alt. eapply Qlt_trans; eauto. Qed.

Lemma lex_cmp_refl a : lex_cmp a a = Eq.
Proof. induction a as [|x a IH]; simpl; [reflexivity|]. rewrite Qcompare_refl. exact IH. Qed.

Lemma lex_cmp_antisym a : forall b, lex_cmp b a = CompOpp (lex_cmp a b).
Proof.
  induction a as [|x a IH]; intros [|y b]; simpl; try reflexivity.
  rewrite <- (Qcompare_antisym x y).
  destruct (x ?= y)%Q eqn:E; simpl; try reflexivity. apply IH.
Qed.

Lemma lex_cmp_eq_l a : forall b c, lex_cmp a b = Eq -> lex_cmp a c = lex_cmp b c.
Proof.
  induction a as [|x a IH]; intros [|y b] c H; simpl in *; try discriminate; try reflexivity.
  destruct (x ?= y)%Q eqn:E; try discriminate.
  destruct c as [|z c]; [reflexivity|]. simpl.
  rewrite (Qcompare_eq_l _ _ z E). destruct (y ?= z)%Q; try reflexivity. apply IH; exact H.
Qed.

Lemma lex_cmp_eq_sym a b : lex_cmp a b = Eq -> lex_cmp b a = Eq.
Proof. intro H. rewrite lex_cmp_antisym, H. reflexivity. Qed.

Lemma lex_cmp_eq_r a b c : lex_cmp b c = Eq -> lex_cmp a b = lex_cmp a c.
Proof.
  intro H. rewrite (lex_cmp_antisym b a), (lex_cmp_antisym c a).
  f_equal. apply lex_cmp_eq_l. exact H.
Qed.

Lemma lex_cmp_lt_trans a : forall b c, lex_cmp a b = Lt -> lex_cmp b c = Lt -> lex_cmp a c = Lt.
Proof.
  induction a as [|x a IH]; intros [|y b] [|z c] H1 H2; simpl in *; try discriminate; try reflexivity.
  destruct (x ?= y)%Q eqn:E1; try discriminate.
  - rewrite (Qcompare_eq_l _ _ z E1). destruct (y ?= z)%Q; try discriminate; [|reflexivity].
    eapply IH; eauto.
  - destruct (y ?= z)%Q eqn:E2; try discriminate.
    + rewrite <- (Qcompare_eq_r x y z E2), E1. reflexivity.
    + rewrite (Qcompare_lt_trans _ _ _ E1 E2). reflexivity.
Qed.

(* a >= b *)
Definition lex_ge (a b : list Q) : Prop := lex_cmp a b <> Lt.

Lemma lex_ge_refl a : lex_ge a a.
Proof. unfold lex_ge. rewrite lex_cmp_refl. discriminate. Qed.

Lemma lex_ge_trans a b c : lex_ge a b -> lex_ge b c -> lex_ge a c.
Proof.
  unfold lex_ge. intros H1 H2 H3.
  (* c > a *)
  destruct (lex_cmp a b) eqn:E1; [| contradiction |].
  - rewrite (lex_cmp_eq_l _ _ c E1) in H3. contradiction.
  - destruct (lex_cmp b c) eqn:E2; [| contradiction |].
    + rewrite <- (lex_cmp_eq_r a b c E2) in H3. congruence.
    + (* a > b > c, yet a < c *)
      assert (Hba : lex_cmp b a = Lt) by (rewrite lex_cmp_antisym, E1; reflexivity).
      assert (Hcb : lex_cmp c b = Lt) by (rewrite lex_cmp_antisym, E2; reflexivity).
      pose proof (lex_cmp_lt_trans _ _ _ Hcb Hba) as Hca.
      rewrite lex_cmp_antisym, H3 in Hca. discriminate.
Qed.

Lemma lex_ge_total a b : lex_ge a b \/ lex_ge b a.
Proof.
  unfold lex_ge. rewrite (lex_cmp_antisym a b). destruct (lex_cmp a b); simpl; [left|right|left]; discriminate.
Qed.

Lemma scores_eqb_lex a : forall b, scores_eqb a b = true <-> lex_cmp a b = Eq.
Proof.
  induction a as [|x a IH]; intros [|y b]; simpl; split; intro H; try reflexivity; try discriminate.
  - apply andb_true_iff in H. destruct H as [H1 H2]. apply Qeq_bool_iff in H1. apply Qeq_alt in H1.
    rewrite H1. apply IH. exact H2.
  - destruct (x ?= y)%Q eqn:E; try discriminate. apply andb_true_iff. split.
    + apply Qeq_bool_iff. apply Qeq_alt. exact E.
    + apply IH. exact H.
Qed.

Lemma lex_cmp_eq_length a : forall b, lex_cmp a b = Eq -> List.length a = List.length b.
Proof.
  induction a as [|x a IH]; intros [|y b] H; simpl in *; try discriminate; try reflexivity.
  destruct (x ?= y)%Q; try discriminate. f_equal. apply IH. exact H.
Qed.

Lemma lex_cmp_app_eq a : forall b t, lex_cmp a b = Eq -> lex_cmp (a ++ t) (b ++ t) = Eq.
Proof.
  induction a as [|x a IH]; intros [|y b] t H; simpl in *; try discriminate.
  - apply lex_cmp_refl.
  - destruct (x ?= y)%Q; try discriminate. apply IH. exact H.
Qed.

Lemma pad_eq n a b : lex_cmp a b = Eq -> lex_cmp (pad n a) (pad n b) = Eq.
Proof.
  intro H. unfold pad. rewrite (lex_cmp_eq_length _ _ H). apply lex_cmp_app_eq. exact H.
Qed.

(* ---------------------------------------------------------------------------------- *)
(* the padding value: a chain that is a prefix of another chain is never ranked below it,
   as long as the other chain's further scores do not exceed the padding value *)
Lemma lex_cmp_app_prefix a : forall u v, lex_cmp (a ++ u) (a ++ v) = lex_cmp u v.
Proof. induction a as [|x a IH]; intros u v; simpl; [reflexivity|]. rewrite Qcompare_refl. apply IH. Qed.

Lemma repeat_ge_bounded (pv : Q) v :
  Forall (fun x => (x <= pv)%Q) v -> lex_cmp (repeat pv (List.length v)) v <> Lt.
Proof.
  induction v as [|y v IH]; intro HF; simpl; [discriminate|].
  inversion HF as [|? ? Hy HF']; subst.
  destruct (pv ?= y)%Q eqn:E.
  - apply IH; exact HF'.
  - apply Qlt_alt in E. exfalso. apply (Qlt_not_le _ _ E). exact Hy.
  - discriminate.
Qed.

Lemma prefix_chain_not_below n a ext :
  Forall (fun x => (x <= pad_value)%Q) ext -> List.length (a ++ ext) <= n ->
  lex_cmp (pad n a) (pad n (a ++ ext)) <> Lt.
Proof.
  intros HF Hn. unfold pad. rewrite <- app_assoc, lex_cmp_app_prefix.
  rewrite app_length in *.
  set (m := n - (List.length a + List.length ext)).
  replace (n - List.length a) with (List.length (ext ++ repeat pad_value m))
    by (rewrite app_length, repeat_length; unfold m; lia).
  apply repeat_ge_bounded. apply Forall_app. split; [exact HF|].
  apply Forall_forall. intros x Hx. apply repeat_spec in Hx. subst. apply Qle_refl.
Qed.

Section Proofs.
  Variable args : Type.
  Variable args_eqb : args -> args -> bool.
  Notation cand := (cand args).
  Notation decision := (decision args).

  (* ------------------------------------------------------------------ sorting *)
  Lemma stays_before_total a b : stays_before a b = false -> stays_before b a = true.
  Proof.
    unfold stays_before, lex_ltb. rewrite (lex_cmp_antisym a b).
    destruct sort_reverse; destruct (lex_cmp a b); simpl; congruence.
  Qed.

  Lemma stays_before_ge a b :
    stays_before a b = true <-> (if sort_reverse then lex_ge a b else lex_ge b a).
  Proof.
    unfold stays_before, lex_ltb, lex_ge.
    destruct sort_reverse.
    - destruct (lex_cmp a b); simpl; split; congruence.
    - destruct (lex_cmp b a); simpl; split; congruence.
  Qed.

  Lemma stays_before_trans a b c :
    stays_before a b = true -> stays_before b c = true -> stays_before a c = true.
  Proof.
    rewrite !stays_before_ge. destruct sort_reverse; intros H1 H2.
    - eapply lex_ge_trans; eauto.
    - eapply lex_ge_trans; eauto.
  Qed.

  Lemma stays_before_refl a : stays_before a a = true.
  Proof. apply stays_before_ge. destruct sort_reverse; apply lex_ge_refl. Qed.

  Section SortP.
    Variable key : cand -> list Q.
    Definition ord_rel (x y : cand) : Prop := stays_before (key x) (key y) = true.

    Lemma insert_perm x l : Permutation (insert_sorted key x l) (x :: l).
    Proof.
      induction l as [|y l IH]; simpl; [reflexivity|].
      destruct (stays_before (key x) (key y)); [reflexivity|].
      rewrite IH. apply perm_swap.
    Qed.

    Lemma sort_perm l : Permutation (sort_by key l) l.
    Proof.
      induction l as [|x l IH]; simpl; [reflexivity|].
      rewrite insert_perm. constructor. exact IH.
    Qed.

    Lemma insert_sorted_ok x l :
      StronglySorted ord_rel l -> StronglySorted ord_rel (insert_sorted key x l).
    Proof.
      induction l as [|y l IH]; intro HS; simpl.
      - constructor; constructor.
      - inversion HS as [|? ? HS' HF]; subst.
        destruct (stays_before (key x) (key y)) eqn:E.
        + constructor; [exact HS|]. constructor; [exact E|].
          rewrite Forall_forall in *. intros z Hz. eapply stays_before_trans; [exact E|]. apply HF; exact Hz.
        + constructor; [apply IH; exact HS'|].
          rewrite Forall_forall in *. intros z Hz.
          apply (Permutation_in _ (insert_perm x l)) in Hz. destruct Hz as [<-|Hz].
          * apply stays_before_total. exact E.
          * apply HF; exact Hz.
    Qed.

    Lemma sort_sorted l : StronglySorted ord_rel (sort_by key l).
    Proof.
      induction l as [|x l IH]; simpl; [constructor|]. apply insert_sorted_ok. exact IH.
    Qed.

    (* the first element of the sorted list may stay before every element *)
    Lemma sort_head_first l h tl :
      sort_by key l = h :: tl -> forall c, In c l -> ord_rel h c.
    Proof.
      intros E c Hc. pose proof (sort_sorted l) as HS. rewrite E in HS.
      inversion HS as [|? ? _ HF]; subst.
      apply (Permutation_in _ (Permutation_sym (sort_perm l))) in Hc. rewrite E in Hc.
      destruct Hc as [<-|Hc]; [apply stays_before_refl|].
      rewrite Forall_forall in HF. apply HF; exact Hc.
    Qed.
  End SortP.

  Lemma take_while_In {A} (f : A -> bool) l x : In x (take_while f l) -> In x l /\ f x = true.
  Proof.
    induction l as [|y l IH]; simpl; [tauto|].
    destruct (f y) eqn:E; simpl; [|tauto].
    intros [<-|H]; [auto|]. destruct (IH H); auto.
  Qed.

  Lemma ordered_perm (g : list cand) : Permutation (ordered g) g.
  Proof. apply sort_perm. Qed.

  Lemma ordered_nil (g : list cand) : ordered g = [] -> g = [].
  Proof. intro H. apply Permutation_nil. rewrite <- H. apply ordered_perm. Qed.

  Lemma scores_eqb_refl a : scores_eqb a a = true.
  Proof. apply scores_eqb_lex. apply lex_cmp_refl. Qed.

  (* tie set: starts with the first sorted head, lies inside the group, all members carry
     exactly the first head's score list *)
  Lemma tie_set_cons (g : list cand) h0 tl :
    ordered g = h0 :: tl -> exists tl', tie_set g = h0 :: tl'.
  Proof.
    intro E. unfold tie_set. rewrite E. simpl. rewrite scores_eqb_refl. eauto.
  Qed.

  Lemma tie_set_In (g : list cand) h0 tl t :
    ordered g = h0 :: tl -> In t (tie_set g) ->
    In t g /\ scores_eqb (c_scores t) (c_scores h0) = true.
  Proof.
    intros E Ht. unfold tie_set in Ht. rewrite E in Ht. rewrite <- E in Ht.
    apply take_while_In in Ht. destruct Ht as [H1 H2]. split; [|exact H2].
    eapply Permutation_in; [apply ordered_perm|exact H1].
  Qed.

  Lemma winner_some (pk : nat -> nat) (g : list cand) :
    g <> [] -> exists w, winner pk g = Some w.
  Proof.
    intro Hg. unfold winner. destruct (ordered g) eqn:E; [apply ordered_nil in E; contradiction|eauto].
  Qed.

  Lemma winner_in_tie (pk : nat -> nat) (g : list cand) w :
    pick_ok pk -> winner pk g = Some w -> In w (tie_set g).
  Proof.
    intros Hpk Hw. unfold winner in Hw. destruct (ordered g) as [|h0 tl] eqn:E; [discriminate|].
    injection Hw as <-. destruct (tie_set_cons g h0 tl E) as [tl' Ht].
    apply nth_In. apply Hpk. rewrite Ht. simpl. lia.
  Qed.

  Lemma winner_in_group (pk : nat -> nat) (g : list cand) w :
    pick_ok pk -> winner pk g = Some w -> In w g.
  Proof.
    intros Hpk Hw. pose proof (winner_in_tie pk g w Hpk Hw) as Ht.
    unfold winner in Hw. destruct (ordered g) as [|h0 tl] eqn:E; [discriminate|].
    apply (tie_set_In g h0 tl w E Ht).
  Qed.

  (* every member of the tie set is picked by some admissible pick *)
  Lemma tie_member_picked (g : list cand) t :
    In t (tie_set g) -> exists pk, pick_ok pk /\ winner pk g = Some t.
  Proof.
    intro Ht. destruct (In_nth _ _ t Ht) as [i [Hi Hn]].
    exists (fun n => if Nat.eqb n (List.length (tie_set g)) then i else 0). split.
    - intros n Hn0. destruct (Nat.eqb n (List.length (tie_set g))) eqn:E; [|exact Hn0].
      apply Nat.eqb_eq in E. lia.
    - unfold winner. destruct (ordered g) as [|h0 tl] eqn:E.
      + unfold tie_set in Ht. rewrite E in Ht. destruct Ht.
      + rewrite Nat.eqb_refl. f_equal. rewrite <- Hn. apply nth_indep. exact Hi.
  Qed.

  (* the winner's padded key is >= every key of the group, provided the sort is descending *)
  Lemma winner_maximal (pk : nat -> nat) (g : list cand) w :
    sort_reverse = true -> pick_ok pk -> winner pk g = Some w ->
    forall c, In c g -> lex_ge (key_of g w) (key_of g c).
  Proof.
    intros Hrev Hpk Hw c Hc.
    pose proof (winner_in_tie pk g w Hpk Hw) as Ht.
    unfold winner in Hw. destruct (ordered g) as [|h0 tl] eqn:E; [discriminate|].
    destruct (tie_set_In g h0 tl w E Ht) as [_ Heq].
    apply scores_eqb_lex in Heq.
    pose proof (pad_eq (max_len g) _ _ Heq) as Hk.
    pose proof (sort_head_first (key_of g) g h0 tl E c Hc) as Hord.
    unfold ord_rel in Hord. apply stays_before_ge in Hord. rewrite Hrev in Hord.
    unfold lex_ge, key_of in *. rewrite (lex_cmp_eq_l _ _ _ Hk). exact Hord.
  Qed.

  (* ------------------------------------------------------------------ one group *)
  Lemma winner_in_tie' (pk : nat -> nat) (g : list cand) w :
    winner pk g = Some w -> In w (tie_set g).
  Proof.
    intro Hw. unfold winner in Hw. destruct (ordered g) as [|h0 tl] eqn:E; [discriminate|].
    injection Hw as <-. destruct (tie_set_cons g h0 tl E) as [tl' Ht].
    destruct (nth_in_or_default (pk (List.length (tie_set g))) (tie_set g) h0) as [H|H]; [exact H|].
    rewrite H, Ht. left; reflexivity.
  Qed.

  Lemma winner_in_group' (pk : nat -> nat) (g : list cand) w : winner pk g = Some w -> In w g.
  Proof.
    intro Hw. pose proof (winner_in_tie' pk g w Hw) as Ht.
    unfold winner in Hw. destruct (ordered g) as [|h0 tl] eqn:E; [discriminate|].
    apply (tie_set_In g h0 tl w E Ht).
  Qed.

  Definition others (w : cand) (g : list cand) : list cand :=
    filter (fun c => negb (same_head c w)) (ordered g).

  Lemma resolve_group_shape pk g w :
    winner pk g = Some w ->
    resolve_group args args_eqb pk g = (w, Win) :: map (fun c => (c, decide args args_eqb w c)) (others w g).
  Proof. intro H. unfold resolve_group. rewrite H. reflexivity. Qed.

  Lemma resolve_group_nil pk : resolve_group args args_eqb pk [] = [].
  Proof. reflexivity. Qed.

  Lemma decide_not_win w c : is_win (decide args args_eqb w c) = false.
  Proof.
    unfold decide. destruct (is_equal _ _ _ _); [reflexivity|]. destruct (c_catch c); reflexivity.
  Qed.

  Lemma resolve_group_fst_in pk g d : In d (resolve_group args args_eqb pk g) -> In (fst d) g.
  Proof.
    unfold resolve_group. destruct (winner pk g) as [w|] eqn:Hw; [|intros []].
    intros [<-|H]; simpl.
    - eapply winner_in_group'; eauto.
    - apply in_map_iff in H. destruct H as [c [<- Hc]]. simpl.
      unfold others in Hc. apply filter_In in Hc. destruct Hc as [Hc _].
      eapply Permutation_in; [apply ordered_perm|exact Hc].
  Qed.

  Lemma same_head_eq (l : list cand) a b :
    NoDup (map c_head l) -> In a l -> In b l -> same_head a b = true -> a = b.
  Proof.
    intros ND Ha Hb H. apply String.eqb_eq in H.
    induction l as [|x l IH]; [destruct Ha|].
    simpl in ND. inversion ND as [|? ? Hx ND']; subst.
    destruct Ha as [<-|Ha]; destruct Hb as [<-|Hb]; auto.
    - exfalso. apply Hx. rewrite H. apply in_map. exact Hb.
    - exfalso. apply Hx. rewrite <- H. apply in_map. exact Ha.
  Qed.

  Lemma filter_all_true {A} (f : A -> bool) l : (forall x, In x l -> f x = true) -> filter f l = l.
  Proof.
    induction l as [|x l IH]; intro H; simpl; [reflexivity|].
    rewrite (H x (or_introl eq_refl)). f_equal. apply IH. intros y Hy. apply H. right; exact Hy.
  Qed.

  Lemma filter_all_false {A} (f : A -> bool) l : (forall x, In x l -> f x = false) -> filter f l = [].
  Proof.
    induction l as [|x l IH]; intro H; simpl; [reflexivity|].
    rewrite (H x (or_introl eq_refl)). apply IH. intros y Hy. apply H. right; exact Hy.
  Qed.

  Lemma filter_out_perm (l : list cand) w :
    NoDup (map c_head l) -> In w l ->
    Permutation (w :: filter (fun c => negb (same_head c w)) l) l.
  Proof.
    induction l as [|x l IH]; intros ND Hw; [destruct Hw|].
    simpl in ND. inversion ND as [|? ? Hx ND']; subst. simpl.
    destruct Hw as [<-|Hw].
    - unfold same_head at 1. rewrite String.eqb_refl. simpl. constructor.
      rewrite filter_all_true; [reflexivity|].
      intros c Hc. unfold same_head.
      destruct (String.eqb (c_head c) (c_head x)) eqn:E; [|reflexivity].
      apply String.eqb_eq in E. exfalso. apply Hx. rewrite <- E. apply in_map. exact Hc.
    - destruct (same_head x w) eqn:E.
      + exfalso. apply String.eqb_eq in E. apply Hx. rewrite E. apply in_map. exact Hw.
      + simpl. rewrite perm_swap. constructor. apply IH; assumption.
  Qed.

  Lemma ordered_nodup (g : list cand) : NoDup (map c_head g) -> NoDup (map c_head (ordered g)).
  Proof.
    intro H. eapply Permutation_NoDup; [|exact H]. apply Permutation_map. symmetry. apply ordered_perm.
  Qed.

  (* every candidate of the group gets exactly one decision, nobody else gets one *)
  Lemma group_perm pk (g : list cand) :
    NoDup (map c_head g) -> Permutation (map fst (resolve_group args args_eqb pk g)) g.
  Proof.
    intro ND. destruct (winner pk g) as [w|] eqn:Hw.
    - rewrite (resolve_group_shape pk g w Hw). simpl. rewrite map_map. simpl. rewrite map_id.
      unfold others. rewrite filter_out_perm.
      + apply ordered_perm.
      + apply ordered_nodup; exact ND.
      + eapply Permutation_in; [symmetry; apply ordered_perm|]. eapply winner_in_group'; eauto.
    - unfold resolve_group. rewrite Hw. unfold winner in Hw.
      destruct (ordered g) eqn:E; [|discriminate]. apply ordered_nil in E. subst. constructor.
  Qed.

  (* complete description of the decisions of a group *)
  Lemma group_char pk (g : list cand) w :
    NoDup (map c_head g) -> winner pk g = Some w ->
    forall c o, In (c, o) (resolve_group args args_eqb pk g) <->
                In c g /\ o = (if same_head c w then Win else decide args args_eqb w c).
  Proof.
    intros ND Hw c o. rewrite (resolve_group_shape pk g w Hw).
    pose proof (winner_in_group' pk g w Hw) as Hwg.
    split.
    - intros [H|H].
      + injection H as <- <-. split; [exact Hwg|]. unfold same_head. rewrite String.eqb_refl. reflexivity.
      + apply in_map_iff in H. destruct H as [c' [H Hc']]. injection H as <- <-.
        unfold others in Hc'. apply filter_In in Hc'. destruct Hc' as [Hc' Hne].
        split; [eapply Permutation_in; [apply ordered_perm|exact Hc']|].
        apply negb_true_iff in Hne. rewrite Hne. reflexivity.
    - intros [Hc ->]. destruct (same_head c w) eqn:E.
      + left. f_equal. symmetry. eapply same_head_eq; eauto.
      + right. apply in_map_iff. exists c. split; [reflexivity|].
        unfold others. apply filter_In. split.
        * eapply Permutation_in; [symmetry; apply ordered_perm|exact Hc].
        * rewrite E. reflexivity.
  Qed.

  Lemma emitted_map_decide w (l : list cand) :
    emitted (map (fun c => (c, decide args args_eqb w c)) l) = [].
  Proof.
    unfold emitted. induction l as [|c l IH]; simpl; [reflexivity|].
    rewrite decide_not_win. exact IH.
  Qed.

  (* exactly one event is generated per group: the picked head's *)
  Lemma group_emitted pk (g : list cand) w :
    winner pk g = Some w -> emitted (resolve_group args args_eqb pk g) = [c_event w].
  Proof.
    intro Hw. rewrite (resolve_group_shape pk g w Hw).
    change (emitted ((w, Win) :: ?l)) with (c_event w :: emitted l).
    rewrite emitted_map_decide. reflexivity.
  Qed.

  Lemma advancing_In (ds : list decision) h :
    In h (advancing ds) <-> exists c o, In (c, o) ds /\ advances o = true /\ c_head c = h.
  Proof.
    unfold advancing. rewrite in_map_iff. split.
    - intros [[c o] [Hh Hd]]. apply filter_In in Hd. destruct Hd as [Hd Ha]. simpl in *. eauto.
    - intros [c [o [Hd [Ha Hh]]]]. exists (c, o). split; [exact Hh|]. apply filter_In. auto.
  Qed.

  Lemma aborted_In (ds : list decision) f sc :
    In (f, sc) (aborted ds) <-> exists c, In (c, Lose) ds /\ c_flow c = f /\ c_scores c = sc.
  Proof.
    unfold aborted. rewrite in_flat_map. split.
    - intros [[c o] [Hd Hi]]. destruct o; simpl in Hi; try contradiction.
      destruct Hi as [Hi|[]]. injection Hi as <- <-. eauto.
    - intros [c [Hd [<- <-]]]. exists (c, Lose). split; [exact Hd|]. left; reflexivity.
  Qed.

  Lemma jumped_In (ds : list decision) h l :
    In (h, l) (jumped ds) <-> exists c, In (c, Caught l) ds /\ c_head c = h.
  Proof.
    unfold jumped. rewrite in_flat_map. split.
    - intros [[c o] [Hd Hi]]. destruct o; simpl in Hi; try contradiction.
      destruct Hi as [Hi|[]]. injection Hi as <- <-. eauto.
    - intros [c [Hd <-]]. exists (c, Caught l). split; [exact Hd|]. left; reflexivity.
  Qed.

  (* ------------------------------------------------------------------ grouping *)
  (* loop ids in order of first occurrence *)
  Definition loop_order (cands : list cand) : list string :=
    fold_left (fun L c => if existsb (String.eqb (c_loop c)) L then L else L ++ [c_loop c]) cands [].

  Definition group_of (cands : list cand) (l : string) : string * list cand :=
    (l, filter (in_loop l) cands).

  Lemma NoDup_snoc {A} (l : list A) x : NoDup l -> ~ In x l -> NoDup (l ++ [x]).
  Proof.
    intros ND Hx. induction l as [|y l IH]; simpl; [constructor; [intros []|constructor]|].
    inversion ND as [|? ? Hy ND']; subst. constructor.
    - rewrite in_app_iff. simpl. intros [H|[H|[]]]; [contradiction|]. subst. apply Hx. left; reflexivity.
    - apply IH; [exact ND'|]. intro H. apply Hx. right; exact H.
  Qed.

  Lemma existsb_eqb_In x L : existsb (String.eqb x) L = true <-> In x L.
  Proof.
    rewrite existsb_exists. split.
    - intros [y [Hy E]]. apply String.eqb_eq in E. subst. exact Hy.
    - intro H. exists x. split; [exact H|apply String.eqb_refl].
  Qed.

  Lemma insert_group_map (F : string -> list cand) c L :
    NoDup L ->
    insert_group c (map (fun l => (l, F l)) L) =
    if existsb (String.eqb (c_loop c)) L
    then map (fun l => (l, if String.eqb l (c_loop c) then F l ++ [c] else F l)) L
    else map (fun l => (l, F l)) L ++ [(c_loop c, [c])].
  Proof.
    induction L as [|l L IH]; intro ND; simpl; [reflexivity|].
    inversion ND as [|? ? Hl ND']; subst.
    destruct (String.eqb l (c_loop c)) eqn:E.
    - rewrite String.eqb_sym, E. simpl. f_equal.
      apply map_ext_in. intros l' Hl'. destruct (String.eqb l' (c_loop c)) eqn:E'; [|reflexivity].
      apply String.eqb_eq in E, E'. subst. contradiction.
    - rewrite String.eqb_sym, E. simpl. rewrite (IH ND').
      destruct (existsb (String.eqb (c_loop c)) L); reflexivity.
  Qed.

  Lemma group_by_loop_snoc p (c : cand) : group_by_loop (p ++ [c]) = insert_group c (group_by_loop p).
  Proof. unfold group_by_loop. rewrite fold_left_app. reflexivity. Qed.

  Lemma loop_order_snoc p (c : cand) :
    loop_order (p ++ [c]) =
    if existsb (String.eqb (c_loop c)) (loop_order p) then loop_order p else loop_order p ++ [c_loop c].
  Proof. unfold loop_order. rewrite fold_left_app. reflexivity. Qed.

  Lemma loop_order_spec (p : list cand) :
    NoDup (loop_order p) /\ forall l, In l (loop_order p) <-> In l (map c_loop p).
  Proof.
    induction p as [|c p IH] using rev_ind.
    - split; [constructor|]. intro l. simpl. tauto.
    - destruct IH as [ND Hin]. rewrite loop_order_snoc, map_app. simpl.
      destruct (existsb (String.eqb (c_loop c)) (loop_order p)) eqn:E.
      + split; [exact ND|]. intro l. rewrite in_app_iff, <- Hin. simpl.
        apply existsb_eqb_In in E. split; [tauto|]. intros [H|[<-|[]]]; assumption.
      + assert (Hn : ~ In (c_loop c) (loop_order p)).
        { intro H. apply existsb_eqb_In in H. congruence. }
        split.
        * apply NoDup_snoc; assumption.
        * intro l. rewrite !in_app_iff, <- Hin. simpl. tauto.
  Qed.

  Lemma filter_snoc {A} (f : A -> bool) l x : filter f (l ++ [x]) = filter f l ++ (if f x then [x] else []).
  Proof. rewrite filter_app. reflexivity. Qed.

  (* head_groups = one entry per loop id in first-occurrence order, holding the candidates of
     that loop in their original order *)
  Lemma filter_in_loop_snoc l (p : list cand) c :
    filter (in_loop l) (p ++ [c])
    = if String.eqb l (c_loop c) then filter (in_loop l) p ++ [c] else filter (in_loop l) p.
  Proof.
    rewrite filter_snoc. unfold in_loop at 2.
    destruct (String.eqb l (c_loop c)); [reflexivity|apply app_nil_r].
  Qed.

  Lemma group_by_loop_eq (p : list cand) :
    group_by_loop p = map (group_of p) (loop_order p).
  Proof.
    induction p as [|c p IH] using rev_ind; [reflexivity|].
    destruct (loop_order_spec p) as [ND Hin].
    rewrite group_by_loop_snoc, IH. unfold group_of at 1.
    rewrite (insert_group_map (fun l => filter (in_loop l) p) c (loop_order p) ND).
    rewrite loop_order_snoc.
    destruct (existsb (String.eqb (c_loop c)) (loop_order p)) eqn:E.
    - apply map_ext. intro l. unfold group_of. rewrite filter_in_loop_snoc.
      destruct (String.eqb l (c_loop c)); reflexivity.
    - rewrite map_app. simpl. f_equal.
      + apply map_ext_in. intros l Hl. unfold group_of. rewrite filter_in_loop_snoc.
        destruct (String.eqb l (c_loop c)) eqn:E'; [|reflexivity].
        apply String.eqb_eq in E'. subst. apply existsb_eqb_In in Hl. congruence.
      + unfold group_of. rewrite filter_in_loop_snoc. rewrite String.eqb_refl.
        rewrite filter_all_false; [reflexivity|].
        intros x Hx. unfold in_loop. destruct (String.eqb (c_loop c) (c_loop x)) eqn:E'; [|reflexivity].
        apply String.eqb_eq in E'. exfalso.
        assert (H : In (c_loop c) (loop_order p)) by (apply Hin; rewrite E'; apply in_map; exact Hx).
        apply existsb_eqb_In in H. congruence.
  Qed.

  (* ------------------------------------------------------------------ resolve, loop by loop *)
  Lemma filter_in_loop_all l (p : list cand) x : In x (filter (in_loop l) p) -> in_loop l x = true.
  Proof. intro H. apply filter_In in H. tauto. Qed.

  Lemma resolve_group_same_loop pk l (p : list cand) :
    filter (dec_in_loop l) (resolve_group args args_eqb pk (filter (in_loop l) p))
    = resolve_group args args_eqb pk (filter (in_loop l) p).
  Proof.
    apply filter_all_true. intros d Hd. apply resolve_group_fst_in in Hd.
    unfold dec_in_loop. eapply filter_in_loop_all; eauto.
  Qed.

  Lemma resolve_group_other_loop pk l l' (p : list cand) :
    l <> l' ->
    filter (dec_in_loop l) (resolve_group args args_eqb pk (filter (in_loop l') p)) = [].
  Proof.
    intro Hne. apply filter_all_false. intros d Hd. apply resolve_group_fst_in in Hd.
    apply filter_in_loop_all in Hd. unfold dec_in_loop, in_loop in *.
    apply String.eqb_eq in Hd. subst. apply String.eqb_neq. exact Hne.
  Qed.

  Lemma resolve_groups_no_loop pick (p : list cand) l L :
    ~ In l L -> forall k,
    filter (dec_in_loop l) (resolve_groups args args_eqb pick k (map (group_of p) L)) = [].
  Proof.
    induction L as [|l2 L IH]; intros Hl k; [reflexivity|].
    simpl. rewrite filter_app. rewrite resolve_group_other_loop.
    - simpl. apply IH. intro H. apply Hl. right; exact H.
    - intro H. apply Hl. left. symmetry; exact H.
  Qed.

  Lemma resolve_groups_view pick (p : list cand) l L :
    NoDup L -> In l L -> forall k0,
    exists k, filter (dec_in_loop l) (resolve_groups args args_eqb pick k0 (map (group_of p) L))
              = resolve_group args args_eqb (pick k) (filter (in_loop l) p).
  Proof.
    induction L as [|l' L IH]; intros ND Hl k0; [destruct Hl|].
    inversion ND as [|? ? Hl' ND']; subst. simpl. rewrite filter_app.
    destruct Hl as [->|Hl].
    - exists k0. rewrite resolve_group_same_loop.
      rewrite (resolve_groups_no_loop pick p l L Hl'). apply app_nil_r.
    - rewrite resolve_group_other_loop; [|intro H; subst; contradiction].
      simpl. apply IH; assumption.
  Qed.

  Lemma resolve_group_single pk (c : cand) : resolve_group args args_eqb pk [c] = [(c, Win)].
  Proof.
    unfold resolve_group, winner, tie_set, ordered. simpl. rewrite scores_eqb_refl. simpl.
    destruct (pk 1) as [|[|n]]; cbv iota beta; unfold same_head; rewrite String.eqb_refl; reflexivity.
  Qed.

  (* the decisions about the candidates of loop l are those of the group made of exactly the
     candidates of loop l, with the choice function of that group's random.choice call *)
  Theorem resolve_loop_view pick (cands : list cand) l :
    In l (map c_loop cands) ->
    exists k, filter (dec_in_loop l) (resolve args args_eqb pick cands)
              = resolve_group args args_eqb (pick k) (filter (in_loop l) cands).
  Proof.
    intro Hl. destruct cands as [|c1 [|c2 rest]].
    - destruct Hl.
    - exists 0. destruct Hl as [<-|[]]. simpl. unfold dec_in_loop, in_loop. simpl.
      rewrite String.eqb_refl. rewrite resolve_group_single. reflexivity.
    - change (resolve args args_eqb pick (c1 :: c2 :: rest))
        with (resolve_groups args args_eqb pick 0 (group_by_loop (c1 :: c2 :: rest))).
      rewrite group_by_loop_eq.
      destruct (loop_order_spec (c1 :: c2 :: rest)) as [ND Hin].
      apply resolve_groups_view; [exact ND|apply Hin; exact Hl].
  Qed.

  Lemma resolve_multi pick (cands : list cand) :
    2 <= List.length cands ->
    resolve args args_eqb pick cands = resolve_groups args args_eqb pick 0 (map (group_of cands) (loop_order cands)).
  Proof.
    intro H. rewrite <- group_by_loop_eq.
    destruct cands as [|c1 [|c2 rest]]; simpl in H; try lia. reflexivity.
  Qed.

  Lemma resolve_groups_fst_in pick (p : list cand) L : forall k d,
    In d (resolve_groups args args_eqb pick k (map (group_of p) L)) -> In (fst d) p.
  Proof.
    induction L as [|l L IH]; intros k d H; [destruct H|].
    cbn [map resolve_groups group_of] in H. apply in_app_iff in H. destruct H as [H|H]; [|eapply IH; eauto].
    apply resolve_group_fst_in in H. apply filter_In in H. tauto.
  Qed.

  (* heads that are not candidates never appear in the result *)
  Lemma resolve_fst_in pick (cands : list cand) d :
    In d (resolve args args_eqb pick cands) -> In (fst d) cands.
  Proof.
    destruct (le_lt_dec 2 (List.length cands)) as [H2|H2].
    - rewrite (resolve_multi pick cands H2). apply resolve_groups_fst_in.
    - destruct cands as [|c1 [|c2 rest]]; [intros []|intros [<-|[]]; left; reflexivity|simpl in H2; lia].
  Qed.

  (* ------------------------------------------------------------------ every candidate exactly once *)
  Lemma flat_map_filter_cons (c : cand) p L :
    NoDup L -> In (c_loop c) L ->
    Permutation (flat_map (fun l => filter (in_loop l) (c :: p)) L)
                (c :: flat_map (fun l => filter (in_loop l) p) L).
  Proof.
    induction L as [|l L IH]; intros ND Hin; [destruct Hin|].
    inversion ND as [|? ? Hl ND']; subst.
    cbn [flat_map filter]. unfold in_loop at 1.
    destruct (String.eqb l (c_loop c)) eqn:E.
    - apply String.eqb_eq in E. subst l. simpl. constructor. apply Permutation_app_head.
      assert (H : forall L', ~ In (c_loop c) L' ->
                  flat_map (fun l => filter (in_loop l) (c :: p)) L' = flat_map (fun l => filter (in_loop l) p) L').
      { induction L' as [|l' L' IH']; intro Hn; [reflexivity|]. cbn [flat_map filter]. unfold in_loop at 1.
        destruct (String.eqb l' (c_loop c)) eqn:E'.
        - apply String.eqb_eq in E'. exfalso. apply Hn. left; exact E'.
        - f_equal. apply IH'. intro H. apply Hn. right; exact H. }
      rewrite H; [reflexivity|exact Hl].
    - destruct Hin as [Hin|Hin]; [subst; rewrite String.eqb_refl in E; discriminate|].
      rewrite (IH ND' Hin). apply Permutation_sym. apply Permutation_middle.
  Qed.

  Lemma partition_perm (p : list cand) L :
    NoDup L -> (forall c, In c p -> In (c_loop c) L) ->
    Permutation (flat_map (fun l => filter (in_loop l) p) L) p.
  Proof.
    intros ND. induction p as [|c p IH]; intro Hcov.
    - clear ND Hcov. induction L as [|l L IHL]; [apply perm_nil|exact IHL].
    - rewrite flat_map_filter_cons; [|exact ND|apply Hcov; left; reflexivity].
      constructor. apply IH. intros x Hx. apply Hcov. right; exact Hx.
  Qed.

  Lemma resolve_groups_perm pick (p : list cand) :
    NoDup (map c_head p) -> forall L k,
    Permutation (map fst (resolve_groups args args_eqb pick k (map (group_of p) L)))
                (flat_map (fun l => filter (in_loop l) p) L).
  Proof.
    intros ND L. induction L as [|l L IH]; intro k; [constructor|].
    cbn [map resolve_groups group_of flat_map]. rewrite map_app. apply Permutation_app; [|apply IH].
    apply group_perm.
    (* a sublist of a duplicate-free list *)
    clear -ND. induction p as [|c p IHp]; [constructor|].
    simpl in ND. inversion ND as [|? ? Hc ND']; subst. simpl.
    destruct (in_loop l c); [|apply IHp; exact ND'].
    simpl. constructor; [|apply IHp; exact ND'].
    intro H. apply Hc. apply in_map_iff in H. destruct H as [x [Hx Hf]]. apply filter_In in Hf.
    rewrite <- Hx. apply in_map. tauto.
  Qed.

  (* every candidate gets exactly one decision; nothing that is not a candidate gets one *)
  Theorem resolve_perm pick (cands : list cand) :
    NoDup (map c_head cands) -> Permutation (map fst (resolve args args_eqb pick cands)) cands.
  Proof.
    intro ND. destruct (le_lt_dec 2 (List.length cands)) as [H2|H2].
    - rewrite (resolve_multi pick cands H2). rewrite resolve_groups_perm; [|exact ND].
      destruct (loop_order_spec cands) as [NDL Hin].
      apply partition_perm; [exact NDL|]. intros c Hc. apply Hin. apply in_map. exact Hc.
    - destruct cands as [|c1 [|c2 rest]]; [constructor|simpl; repeat constructor|simpl in H2; lia].
  Qed.

  Lemma NoDup_map_inj {A B} (f : A -> B) l x y :
    NoDup (map f l) -> In x l -> In y l -> f x = f y -> x = y.
  Proof.
    induction l as [|a l IH]; intros ND Hx Hy E; [destruct Hx|].
    simpl in ND. inversion ND as [|? ? Ha ND']; subst.
    destruct Hx as [<-|Hx]; destruct Hy as [<-|Hy]; auto.
    - exfalso. apply Ha. rewrite E. apply in_map; exact Hy.
    - exfalso. apply Ha. rewrite <- E. apply in_map; exact Hx.
  Qed.

  (* a head occurs in at most one decision *)
  Lemma decision_unique pick (cands : list cand) c o c' o' :
    NoDup (map c_head cands) ->
    In (c, o) (resolve args args_eqb pick cands) -> In (c', o') (resolve args args_eqb pick cands) ->
    c_head c = c_head c' -> c = c' /\ o = o'.
  Proof.
    intros ND H H' E.
    assert (NDR : NoDup (map (fun d : decision => c_head (fst d)) (resolve args args_eqb pick cands))).
    { rewrite <- (map_map (@fst cand outcome) (@c_head args)). eapply Permutation_NoDup; [|exact ND].
      apply Permutation_map. symmetry. apply resolve_perm. exact ND. }
    pose proof (NoDup_map_inj _ _ _ _ NDR H H' E) as Heq. injection Heq as -> ->. auto.
  Qed.

  (* ------------------------------------------------------------------ the property, loop by loop *)
  Definition loop_cands (cands : list cand) (l : string) : list cand := filter (in_loop l) cands.
  Definition loop_decisions pick (cands : list cand) (l : string) : list decision :=
    filter (dec_in_loop l) (resolve args args_eqb pick cands).

  (* what happens to a head whose action differs from the winner's *)
  Definition loser_outcome (c : cand) : outcome :=
    match c_catch c with [] => Lose | _ :: _ => Caught (last (c_catch c) EmptyString) end.

  (* the head proceeds with its own action statement (started, or shared with the winner) *)
  Definition proceeds (o : outcome) : bool := match o with Win | CoWin _ => true | _ => false end.

  Lemma loop_cands_in cands l c : In c (loop_cands cands l) -> In c cands /\ c_loop c = l.
  Proof.
    unfold loop_cands. intro H. apply filter_In in H. destruct H as [H1 H2].
    split; [exact H1|]. apply String.eqb_eq in H2. auto.
  Qed.

  Lemma loop_cands_nonempty cands l c : In c (loop_cands cands l) -> In l (map c_loop cands).
  Proof. intro H. apply loop_cands_in in H. destruct H as [H <-]. apply in_map. exact H. Qed.

  Lemma loop_view pick cands l c :
    In c (loop_cands cands l) ->
    exists k w, loop_decisions pick cands l = resolve_group args args_eqb (pick k) (loop_cands cands l)
                /\ winner (pick k) (loop_cands cands l) = Some w.
  Proof.
    intro Hc. destruct (resolve_loop_view pick cands l (loop_cands_nonempty _ _ _ Hc)) as [k Hk].
    destruct (winner_some (pick k) (loop_cands cands l)) as [w Hw]; [intro E; rewrite E in Hc; destruct Hc|].
    exists k, w. split; assumption.
  Qed.

  Lemma loop_decisions_in pick cands l d :
    In d (loop_decisions pick cands l) -> In d (resolve args args_eqb pick cands) /\ In (fst d) (loop_cands cands l).
  Proof.
    unfold loop_decisions. intro H. apply filter_In in H. destruct H as [H1 H2]. split; [exact H1|].
    unfold loop_cands. apply filter_In. split; [|exact H2]. eapply resolve_fst_in; eauto.
  Qed.

  Lemma loop_nodup cands l : NoDup (map c_head cands) -> NoDup (map c_head (loop_cands cands l)).
  Proof.
    unfold loop_cands. induction cands as [|c p IHp]; intro ND; [constructor|].
    simpl in ND. inversion ND as [|? ? Hc ND']; subst. simpl.
    destruct (in_loop l c); [|apply IHp; exact ND'].
    simpl. constructor; [|apply IHp; exact ND'].
    intro H. apply Hc. apply in_map_iff in H. destruct H as [x [Hx Hf]]. apply filter_In in Hf.
    rewrite <- Hx. apply in_map. tauto.
  Qed.

  Lemma win_is_winner pk (g : list cand) w w' :
    winner pk g = Some w -> In (w', Win) (resolve_group args args_eqb pk g) -> w' = w.
  Proof.
    intros Hw H. rewrite (resolve_group_shape pk g w Hw) in H. destruct H as [H|H].
    - injection H as ->. reflexivity.
    - apply in_map_iff in H. destruct H as [c [H _]]. injection H as _ H.
      pose proof (decide_not_win w c) as Hn. rewrite H in Hn. discriminate.
  Qed.

  Lemma loop_win_view pick cands l w :
    In (w, Win) (loop_decisions pick cands l) ->
    exists k, loop_decisions pick cands l = resolve_group args args_eqb (pick k) (loop_cands cands l)
              /\ winner (pick k) (loop_cands cands l) = Some w.
  Proof.
    intro H. destruct (loop_decisions_in _ _ _ _ H) as [_ Hg]. simpl in Hg.
    destruct (loop_view pick cands l w Hg) as [k [w' [Hk Hw]]].
    exists k. split; [exact Hk|]. rewrite Hk in H. rewrite (win_is_winner _ _ _ _ Hw H). exact Hw.
  Qed.

  (* C05_exactly_one *)
  Theorem exactly_one pick cands l :
    NoDup (map c_head cands) ->
    2 <= List.length (loop_cands cands l) ->
    (forall x y, In x (loop_cands cands l) -> In y (loop_cands cands l) -> c_head x <> c_head y ->
                 is_equal args args_eqb (c_event x) (c_event y) = false) ->
    exists w, In w (loop_cands cands l)
      /\ emitted (loop_decisions pick cands l) = [c_event w]
      /\ map fst (filter (fun d => proceeds (snd d)) (loop_decisions pick cands l)) = [w]
      /\ (forall c, In c (loop_cands cands l) -> c_head c <> c_head w ->
            In (c, loser_outcome c) (resolve args args_eqb pick cands))
      /\ Permutation (map fst (loop_decisions pick cands l)) (loop_cands cands l).
  Proof.
    intros ND H2 Hdiff.
    destruct (loop_cands cands l) as [|c0 g0] eqn:Eg; [simpl in H2; lia|].
    assert (Hc0 : In c0 (loop_cands cands l)) by (rewrite Eg; left; reflexivity).
    destruct (loop_view pick cands l c0 Hc0) as [k [w [Hk Hw]]].
    rewrite <- Eg in *. clear Eg.
    pose proof (winner_in_group' _ _ _ Hw) as Hwg.
    pose proof (loop_nodup cands l ND) as NDg.
    exists w. split; [exact Hwg|]. split; [rewrite Hk; apply group_emitted; exact Hw|].
    assert (Hlose : forall c, In c (others w (loop_cands cands l)) ->
                              decide args args_eqb w c = loser_outcome c).
    { intros c Hc. unfold others in Hc. apply filter_In in Hc. destruct Hc as [Hc Hne].
      apply (Permutation_in _ (ordered_perm _)) in Hc.
      unfold decide, loser_outcome. rewrite Hdiff; [reflexivity|exact Hwg|exact Hc|].
      intro E. unfold same_head in Hne. rewrite E, String.eqb_refl in Hne. discriminate. }
    split; [|split].
    - rewrite Hk, (resolve_group_shape _ _ _ Hw). cbn [filter snd proceeds map fst]. f_equal.
      rewrite filter_all_false; [reflexivity|].
      intros d Hd. apply in_map_iff in Hd. destruct Hd as [c [<- Hc]]. simpl.
      rewrite (Hlose c Hc). unfold loser_outcome. destruct (c_catch c); reflexivity.
    - intros c Hc Hne.
      assert (Hin : In (c, loser_outcome c) (loop_decisions pick cands l)).
      { rewrite Hk. apply (group_char _ _ _ NDg Hw). split; [exact Hc|].
        unfold same_head. destruct (String.eqb (c_head c) (c_head w)) eqn:E.
        - apply String.eqb_eq in E. contradiction.
        - unfold decide, loser_outcome. rewrite Hdiff; auto. }
      apply loop_decisions_in in Hin. tauto.
    - rewrite Hk. apply group_perm. exact NDg.
  Qed.

  (* C05_winner_maximal *)
  Theorem winner_is_maximal pick cands l w :
    sort_reverse = true -> picks_ok pick ->
    In (w, Win) (loop_decisions pick cands l) ->
    forall c, In c (loop_cands cands l) ->
      lex_cmp (key_of (loop_cands cands l) w) (key_of (loop_cands cands l) c) <> Lt.
  Proof.
    intros Hrev Hpk Hw c Hc. destruct (loop_win_view _ _ _ _ Hw) as [k [_ Hwk]].
    exact (winner_maximal (pick k) _ w Hrev (Hpk k) Hwk c Hc).
  Qed.

  (* C05_any_tie *)
  Theorem any_tie cands l :
    (forall pick w, In (w, Win) (loop_decisions pick cands l) -> In w (tie_set (loop_cands cands l)))
    /\ (forall t, In t (tie_set (loop_cands cands l)) ->
          exists pick, picks_ok pick /\ In (t, Win) (loop_decisions pick cands l))
    /\ (forall t h0, In t (tie_set (loop_cands cands l)) -> hd_error (ordered (loop_cands cands l)) = Some h0 ->
          In t (loop_cands cands l) /\ scores_eqb (c_scores t) (c_scores h0) = true).
  Proof.
    split; [|split].
    - intros pick w Hw. destruct (loop_win_view _ _ _ _ Hw) as [k [_ Hwk]].
      eapply winner_in_tie'; eauto.
    - intros t Ht. destruct (tie_member_picked _ t Ht) as [pk [Hpk Hw]].
      exists (fun _ => pk). split; [intro k; exact Hpk|].
      pose proof (winner_in_group' _ _ _ Hw) as Htg.
      destruct (loop_view (fun _ => pk) cands l t Htg) as [k [w' [Hk Hw']]].
      rewrite Hk. cbv beta in *. rewrite (resolve_group_shape _ _ _ Hw). left; reflexivity.
    - intros t h0 Ht Hh. destruct (ordered (loop_cands cands l)) as [|h tl] eqn:E; [discriminate|].
      injection Hh as ->. eapply tie_set_In; eauto.
  Qed.

  (* C05_same_action_all_advance *)
  Theorem same_action_all_advance pick cands l w c :
    NoDup (map c_head cands) ->
    In (w, Win) (loop_decisions pick cands l) -> In c (loop_cands cands l) -> c_head c <> c_head w ->
    is_equal args args_eqb (c_event w) (c_event c) = true ->
    (exists m, In (c, CoWin m) (resolve args args_eqb pick cands))
    /\ In (c_head c) (advancing (resolve args args_eqb pick cands))
    /\ emitted (loop_decisions pick cands l) = [c_event w]
    /\ (forall o, In (c, o) (resolve args args_eqb pick cands) -> exists m, o = CoWin m).
  Proof.
    intros ND Hw Hc Hne Heq.
    destruct (loop_win_view _ _ _ _ Hw) as [k [Hk Hwk]].
    pose proof (loop_nodup cands l ND) as NDg.
    assert (Hd : exists m, In (c, CoWin m) (loop_decisions pick cands l)).
    { eexists. rewrite Hk. apply (group_char _ _ _ NDg Hwk). split; [exact Hc|].
      unfold same_head. destruct (String.eqb (c_head c) (c_head w)) eqn:E.
      - apply String.eqb_eq in E. contradiction.
      - unfold decide. rewrite Heq. reflexivity. }
    destruct Hd as [m Hd]. apply loop_decisions_in in Hd. destruct Hd as [Hd _].
    split; [eauto|]. split; [|split].
    - apply advancing_In. exists c, (CoWin m). auto.
    - rewrite Hk. apply group_emitted. exact Hwk.
    - intros o Ho. destruct (decision_unique pick cands c o c (CoWin m) ND Ho Hd eq_refl) as [_ ->]. eauto.
  Qed.

  (* C05_losers_fail *)
  Theorem losers_fail pick cands l w c :
    NoDup (map c_head cands) ->
    In (w, Win) (loop_decisions pick cands l) -> In c (loop_cands cands l) -> c_head c <> c_head w ->
    is_equal args args_eqb (c_event w) (c_event c) = false ->
    In (c, loser_outcome c) (resolve args args_eqb pick cands)
    /\ (forall o, In (c, o) (resolve args args_eqb pick cands) -> o = loser_outcome c)
    /\ match c_catch c with
       | [] => In (c_flow c, c_scores c) (aborted (resolve args args_eqb pick cands))
               /\ ~ In (c_head c) (advancing (resolve args args_eqb pick cands))
       | _ :: _ => In (c_head c, last (c_catch c) EmptyString) (jumped (resolve args args_eqb pick cands))
                   /\ In (c_head c) (advancing (resolve args args_eqb pick cands))
       end.
  Proof.
    intros ND Hw Hc Hne Heq.
    destruct (loop_win_view _ _ _ _ Hw) as [k [Hk Hwk]].
    pose proof (loop_nodup cands l ND) as NDg.
    assert (Hd : In (c, loser_outcome c) (loop_decisions pick cands l)).
    { rewrite Hk. apply (group_char _ _ _ NDg Hwk). split; [exact Hc|].
      unfold same_head. destruct (String.eqb (c_head c) (c_head w)) eqn:E.
      - apply String.eqb_eq in E. contradiction.
      - unfold decide, loser_outcome. rewrite Heq. reflexivity. }
    apply loop_decisions_in in Hd. destruct Hd as [Hd _].
    assert (Huniq : forall o, In (c, o) (resolve args args_eqb pick cands) -> o = loser_outcome c).
    { intros o Ho. destruct (decision_unique pick cands c o c _ ND Ho Hd eq_refl) as [_ ->]. reflexivity. }
    split; [exact Hd|]. split; [exact Huniq|].
    unfold loser_outcome in *. destruct (c_catch c) as [|lb rest] eqn:Ec.
    - split.
      + apply aborted_In. exists c. auto.
      + intro Ha. apply advancing_In in Ha. destruct Ha as [c' [o' [Hd' [Hadv Hh]]]].
        destruct (decision_unique pick cands c' o' c Lose ND Hd' Hd Hh) as [_ ->]. discriminate.
    - split.
      + apply jumped_In. exists c. auto.
      + apply advancing_In. eexists c, _. split; [exact Hd|]. auto.
  Qed.

  (* C05_loops_independent *)
  Theorem loops_distribute pick cands :
    2 <= List.length cands ->
    resolve args args_eqb pick cands
    = resolve_groups args args_eqb pick 0
        (map (fun l => (l, loop_cands cands l)) (loop_order cands)).
  Proof. apply resolve_multi. Qed.

  Theorem loops_independent pk cands cands' l :
    loop_cands cands l = loop_cands cands' l ->
    loop_decisions (fun _ => pk) cands l = loop_decisions (fun _ => pk) cands' l.
  Proof.
    intro E. destruct (loop_cands cands l) as [|c0 g0] eqn:Eg.
    - (* no candidate of loop l on either side: no decision *)
      assert (H : forall cs, loop_cands cs l = [] -> loop_decisions (fun _ => pk) cs l = []).
      { intros cs Hcs. destruct (loop_decisions (fun _ => pk) cs l) as [|d ds] eqn:Ed; [reflexivity|].
        assert (Hd : In d (loop_decisions (fun _ => pk) cs l)) by (rewrite Ed; left; reflexivity).
        apply loop_decisions_in in Hd. destruct Hd as [_ Hd]. rewrite Hcs in Hd. destruct Hd. }
      rewrite (H cands Eg), (H cands' (eq_sym E)). reflexivity.
    - assert (Hc : In c0 (loop_cands cands l)) by (rewrite Eg; left; reflexivity).
      assert (Hc' : In c0 (loop_cands cands' l)) by (rewrite <- E; left; reflexivity).
      destruct (loop_view (fun _ => pk) cands l c0 Hc) as [k [w [Hk _]]].
      destruct (loop_view (fun _ => pk) cands' l c0 Hc') as [k' [w' [Hk' _]]].
      rewrite Hk, Hk', Eg, <- E. reflexivity.
  Qed.

  (* flows in pairwise different interaction loops never compete *)
  Lemma filter_single_loop (cands : list cand) c :
    NoDup (map c_loop cands) -> In c cands -> loop_cands cands (c_loop c) = [c].
  Proof.
    unfold loop_cands. induction cands as [|x p IH]; intros ND Hc; [destruct Hc|].
    simpl in ND. inversion ND as [|? ? Hx ND']; subst. simpl. unfold in_loop at 1.
    destruct Hc as [<-|Hc].
    - rewrite String.eqb_refl. f_equal. apply filter_all_false. intros y Hy. unfold in_loop.
      destruct (String.eqb (c_loop x) (c_loop y)) eqn:E; [|reflexivity].
      apply String.eqb_eq in E. exfalso. apply Hx. rewrite E. apply in_map. exact Hy.
    - destruct (String.eqb (c_loop c) (c_loop x)) eqn:E; [|apply IH; assumption].
      apply String.eqb_eq in E. exfalso. apply Hx. rewrite <- E. apply in_map. exact Hc.
  Qed.

  Theorem different_loops_all_win pick cands :
    NoDup (map c_loop cands) ->
    (forall c, In c cands -> In (c, Win) (resolve args args_eqb pick cands))
    /\ (forall d, In d (resolve args args_eqb pick cands) -> snd d = Win).
  Proof.
    intro ND.
    assert (H : forall c, In c cands -> loop_decisions pick cands (c_loop c) = [(c, Win)]).
    { intros c Hc. pose proof (filter_single_loop cands c ND Hc) as Hg.
      assert (Hcg : In c (loop_cands cands (c_loop c))) by (rewrite Hg; left; reflexivity).
      destruct (loop_view pick cands (c_loop c) c Hcg) as [k [w [Hk _]]].
      rewrite Hk, Hg. apply resolve_group_single. }
    split.
    - intros c Hc. assert (Hd : In (c, Win) (loop_decisions pick cands (c_loop c))) by (rewrite (H c Hc); left; reflexivity).
      apply loop_decisions_in in Hd. tauto.
    - intros d Hd. pose proof (resolve_fst_in pick cands d Hd) as Hc.
      assert (Hdl : In d (loop_decisions pick cands (c_loop (fst d)))).
      { unfold loop_decisions. apply filter_In. split; [exact Hd|]. unfold dec_in_loop, in_loop. apply String.eqb_refl. }
      rewrite (H _ Hc) in Hdl. destruct Hdl as [<-|[]]. reflexivity.
  Qed.

  (* the single-candidate shortcut agrees with the general rule *)
  Theorem shortcut_consistent pick (c : cand) :
    resolve args args_eqb pick [c] = resolve_groups args args_eqb pick 0 (group_by_loop [c]).
  Proof.
    unfold resolve, group_by_loop. cbn [fold_left insert_group resolve_groups].
    rewrite resolve_group_single. reflexivity.
  Qed.
End Proofs.


(* ---------------------------------------------------------------------------------- *)
(* specificity: the score of the match on the triggering event decides first *)
Lemma lex_cmp_first_lt (x y : Q) a b n m :
  (x < y)%Q -> lex_cmp (pad n (x :: a)) (pad m (y :: b)) = Lt.
Proof.
  intro H. unfold pad. rewrite <- !app_comm_cons. cbn [lex_cmp]. rewrite (proj1 (Qlt_alt x y) H). reflexivity.
Qed.

Lemma factor_power_decreasing (k1 k2 : Z) :
  (0 <= k1 < k2)%Z -> (factor ^ k2 < factor ^ k1)%Q.
Proof.
  intros [H0 H]. replace k2 with (k1 + Z.of_nat (Z.to_nat (k2 - k1 - 1)) + 1)%Z by lia.
  induction (Z.to_nat (k2 - k1 - 1)) as [|n IH].
  - simpl. rewrite Z.add_0_r. apply Qpower_strict_decreasing; [reflexivity|reflexivity|exact H0].
  - eapply Qlt_trans; [|exact IH].
    replace (k1 + Z.of_nat (S n) + 1)%Z with ((k1 + Z.of_nat n + 1) + 1)%Z by lia.
    apply Qpower_strict_decreasing; [reflexivity|reflexivity|lia].
Qed.

Lemma score_fewer_unmentioned_greater (p : Q) (k1 k2 : Z) :
  (0 < p)%Q -> (0 <= k1 < k2)%Z -> (p * factor ^ k2 < p * factor ^ k1)%Q.
Proof.
  intros Hp Hk. apply Qmult_lt_l; [exact Hp|]. apply factor_power_decreasing. exact Hk.
Qed.

Section Specificity.
  Variable args : Type.
  Variable args_eqb : args -> args -> bool.

  (* a candidate whose first score is strictly below another candidate's of the same loop is
     never the picked head *)
  Theorem less_specific_never_wins pick (cands : list (cand args)) l c c' x a y b :
    sort_reverse = true -> picks_ok pick ->
    In c (loop_cands args cands l) -> In c' (loop_cands args cands l) ->
    c_scores c = x :: a -> c_scores c' = y :: b -> (x < y)%Q ->
    ~ In (c, Win) (loop_decisions args args_eqb pick cands l).
  Proof.
    intros Hrev Hpk Hc Hc' Ex Ey Hlt Hw.
    apply (winner_is_maximal args args_eqb pick cands l c Hrev Hpk Hw c' Hc').
    unfold key_of. rewrite Ex, Ey. apply lex_cmp_first_lt. exact Hlt.
  Qed.

  (* ... in particular with scores priority * factor^(unmentioned parameters) *)
  Theorem more_unmentioned_never_wins pick (cands : list (cand args)) l c c' p k k' a b :
    sort_reverse = true -> picks_ok pick ->
    In c (loop_cands args cands l) -> In c' (loop_cands args cands l) ->
    (0 < p)%Q -> (0 <= k' < k)%Z ->
    c_scores c = (p * factor ^ k)%Q :: a -> c_scores c' = (p * factor ^ k')%Q :: b ->
    ~ In (c, Win) (loop_decisions args args_eqb pick cands l).
  Proof.
    intros Hrev Hpk Hc Hc' Hp Hk Ex Ey.
    eapply less_specific_never_wins; eauto. apply score_fewer_unmentioned_greater; assumption.
  Qed.
End Specificity.

(* ---------------------------------------------------------------------------------- *)
(* Sanity (depends on the generated constants, hence here and not in Conflict.v): the example of docs/colang_2/language_reference/more-on-flows.rst
   ("Flow Conflict Resolution Prioritization"): chains 1.0 -> 1.0 -> 1.0 and 0.9 -> 1.0 -> 1.0,
   different actions: the first chain wins, the second flow is aborted. *)
Module Sanity.
  Open Scope string_scope.
  Definition ev (s : string) : event string := {| ev_name := "StartUtteranceBotAction"; ev_args := s |}.
  Definition mk (h l : string) (sc : list Q) (s : string) : cand string :=
    {| c_head := h; c_flow := "f" ++ h; c_loop := l; c_scores := sc; c_event := ev s;
       c_action := None; c_catch := [] |}.
  Definition pick0 : nat -> nat -> nat := fun _ _ => 0.

  Definition doc_cands := [mk "b" "main" [9#10; 1; 1]%Q "Sure"; mk "a" "main" [1; 1; 1]%Q "Hello"].
  Example doc_example :
    result_of (resolve string String.eqb pick0 doc_cands)
    = {| r_advancing := ["a"]; r_emitted := [ev "Hello"]; r_aborted := [("fb", [9#10; 1; 1]%Q)];
         r_jumped := []; r_merged := [] |}.
  Proof. vm_compute. reflexivity. Qed.

  (* shorter list padded with 1.0 wins against an equal prefix followed by a lower score;
     two loops never compete; identical actions co-win and are emitted once *)
  Definition cands2 :=
    [mk "1" "L1" [9#10]%Q "A"; mk "2" "L1" [9#10; 9#10]%Q "B"; mk "3" "L2" [1#2]%Q "C"; mk "4" "L1" [81#100]%Q "A"].
  Example padding_loops_cowin :
    result_of (resolve string String.eqb pick0 cands2)
    = {| r_advancing := ["1"; "4"; "3"]; r_emitted := [ev "A"; ev "C"];
         r_aborted := [("f2", [9#10; 9#10]%Q)]; r_jumped := []; r_merged := [] |}.
  Proof. vm_compute. reflexivity. Qed.
End Sanity.

(* ---------------------------------------------------------------------------------- *)
(* Non-vacuity: one concrete state in which the hypotheses of every statement above hold,
   and the regression witness for the tie-set quirk. *)
Module Examples.
  Open Scope string_scope.
  Definition ev (s : string) : event string := {| ev_name := "StartUtteranceBotAction"; ev_args := s |}.
  Definition mk (h l : string) (sc : list Q) (s : string) (au : option string) (ct : list string) : cand string :=
    {| c_head := h; c_flow := "F" ++ h; c_loop := l; c_scores := sc; c_event := ev s;
       c_action := au; c_catch := ct |}.
  Notation R := (resolve string String.eqb).

  (* loop "main": c1, c2 tie exactly at [0.81]; c3 has the same action as c1 but a lower score;
     c4 is less specific, other action; c5 less specific, other action, inside an or-group.
     loop "L2": c6, c7 different actions, c6 more specific. *)
  Definition c1 := mk "1" "main" [81#100]%Q "A" (Some "a1") [].
  Definition c2 := mk "2" "main" [81#100]%Q "B" (Some "a2") [].
  Definition c3 := mk "3" "main" [729#1000]%Q "A" (Some "a3") [].
  Definition c4 := mk "4" "main" [729#1000; 1]%Q "C" None [].
  Definition c5 := mk "5" "main" [9#20]%Q "D" None ["outer"; "inner"].
  Definition c6 := mk "6" "L2" [1]%Q "A" None [].
  Definition c7 := mk "7" "L2" [9#10]%Q "B" None [].
  Definition cs := [c4; c1; c6; c5; c2; c7; c3].
  Definition pickA : nat -> nat -> nat := fun _ _ => 0.   (* picks c1 *)
  Definition pickB : nat -> nat -> nat := fun _ _ => 1.   (* picks c2 in "main" *)

  Example cs_wellformed : NoDup (map c_head cs) /\ 2 <= List.length (loop_cands string cs "L2")
                          /\ 2 <= List.length (loop_cands string cs "main").
  Proof.
    split; [|split; vm_compute; repeat constructor].
    repeat constructor; simpl; intuition discriminate.
  Qed.

  Example cs_result_pickA :
    result_of (R pickA cs)
    = {| r_advancing := ["1"; "3"; "5"; "6"]; r_emitted := [ev "A"; ev "A"];
         r_aborted := [("F2", [81#100]%Q); ("F4", [729#1000; 1]%Q); ("F7", [9#10]%Q)];
         r_jumped := [("5", "inner")]; r_merged := [("F3", "a3", "a1")] |}.
  Proof. vm_compute. reflexivity. Qed.

  Example cs_result_pickB :
    result_of (R pickB cs)
    = {| r_advancing := ["2"; "5"; "6"]; r_emitted := [ev "B"; ev "A"];
         r_aborted := [("F1", [81#100]%Q); ("F4", [729#1000; 1]%Q); ("F3", [729#1000]%Q); ("F7", [9#10]%Q)];
         r_jumped := [("5", "inner")]; r_merged := [] |}.
  Proof. vm_compute. reflexivity. Qed.

  (* hypotheses of exactly_one: loop "L2" has two candidates with different actions *)
  Example exactly_one_inhabited :
    forall x y, In x (loop_cands string cs "L2") -> In y (loop_cands string cs "L2") -> c_head x <> c_head y ->
                is_equal string String.eqb (c_event x) (c_event y) = false.
  Proof.
    change (loop_cands string cs "L2") with [c6; c7].
    intros x y [<-|[<-|[]]] [<-|[<-|[]]] H; try reflexivity; exfalso; apply H; reflexivity.
  Qed.

  (* hypotheses of winner_is_maximal / same_action_all_advance / losers_fail *)
  Example winner_inhabited :
    In (c1, Win) (loop_decisions string String.eqb pickA cs "main")
    /\ In (c2, Win) (loop_decisions string String.eqb pickB cs "main")
    /\ tie_set (loop_cands string cs "main") = [c1; c2].
  Proof. vm_compute. auto 10. Qed.

  Example same_action_inhabited :
    In c3 (loop_cands string cs "main") /\ c_head c3 <> c_head c1
    /\ is_equal string String.eqb (c_event c1) (c_event c3) = true.
  Proof. split; [vm_compute; auto 10|]. split; [intro H; vm_compute in H; discriminate H|reflexivity]. Qed.

  Example losers_inhabited :
    In c4 (loop_cands string cs "main") /\ is_equal string String.eqb (c_event c1) (c_event c4) = false
    /\ c_catch c4 = []
    /\ In c5 (loop_cands string cs "main") /\ is_equal string String.eqb (c_event c1) (c_event c5) = false
    /\ c_catch c5 <> [].
  Proof. vm_compute. intuition discriminate. Qed.

  (* hypotheses of more_unmentioned_never_wins: c1 = 1 * factor^2, c3 = 1 * factor^3, same loop *)
  Example specificity_inhabited :
    c_scores c1 = [(1 * factor ^ 2)%Q] /\ c_scores c3 = [(1 * factor ^ 3)%Q]
    /\ In c1 (loop_cands string cs "main") /\ In c3 (loop_cands string cs "main") /\ (0 <= 2 < 3)%Z.
  Proof. vm_compute. intuition discriminate. Qed.

  (* loops_independent: dropping or changing the candidates of other loops does not change "main" *)
  Example independent_inhabited :
    loop_cands string cs "main" = loop_cands string [c4; c1; c5; c2; c3; mk "9" "L3" [1]%Q "A" None []] "main"
    /\ cs <> [c4; c1; c5; c2; c3; mk "9" "L3" [1]%Q "A" None []].
  Proof. split; [reflexivity|discriminate]. Qed.

  (* The tie set is a PREFIX of the sorted list compared on UNPADDED score lists: a head whose
     score list is exactly the best one, but which sits behind a head with an equal PADDED key
     (here [0.81; 1.0] against [0.81]), is never picked - whatever random.choice returns. *)
  Definition t1 := mk "1" "main" [81#100]%Q "A" None [].
  Definition t2 := mk "2" "main" [81#100; 1]%Q "B" None [].
  Definition t3 := mk "3" "main" [81#100]%Q "C" None [].

  Lemma equal_scores_never_picked :
    scores_eqb (c_scores t3) (c_scores t1) = true
    /\ lex_cmp (key_of [t1; t2; t3] t3) (key_of [t1; t2; t3] t1) = Eq
    /\ forall pick, In (t1, Win) (R pick [t1; t2; t3]) /\ ~ In (t3, Win) (R pick [t1; t2; t3]).
  Proof.
    split; [reflexivity|]. split; [reflexivity|].
    intro pick.
    assert (G : forall pk, resolve_group string String.eqb pk [t1; t2; t3] = [(t1, Win); (t2, Lose); (t3, Lose)]).
    { intro pk. unfold resolve_group, winner.
      change (ordered [t1; t2; t3]) with [t1; t2; t3].
      change (tie_set [t1; t2; t3]) with [t1].
      destruct (pk (List.length [t1])) as [|[|n]]; reflexivity. }
    assert (E : R pick [t1; t2; t3] = [(t1, Win); (t2, Lose); (t3, Lose)]).
    { change (R pick [t1; t2; t3]) with ((resolve_group string String.eqb (pick 0) [t1; t2; t3] ++ [])%list).
      rewrite G. reflexivity. }
    rewrite E. split; [left; reflexivity|].
    intros [H|[H|[H|[]]]]; discriminate.
  Qed.

  Lemma every_equal_score_head_can_win_refuted :
    exists (cands : list (cand string)) t1 t3,
      In t1 cands /\ In t3 cands
      /\ scores_eqb (c_scores t3) (c_scores t1) = true
      /\ lex_cmp (key_of cands t3) (key_of cands t1) = Eq
      /\ forall pick, In (t1, Win) (resolve string String.eqb pick cands)
                      /\ ~ In (t3, Win) (resolve string String.eqb pick cands).
  Proof.
    exists [t1; t2; t3], t1, t3.
    split; [left; reflexivity|]. split; [right; right; left; reflexivity|].
    exact equal_scores_never_picked.
  Qed.
End Examples.
