"""Shared machinery of the /verif checks: Coq build + assumption audit, in-assistant model
evaluation (generated Cases files, vm_compute), evidence, known findings, replay files.

Every check follows the protocol of DESIGN.md section 2.3.
"""
from __future__ import annotations

import fcntl
import hashlib
import json
import os
import re
import shutil
import subprocess
import sys
import time
from concurrent.futures import ThreadPoolExecutor

VERIF = os.path.dirname(os.path.dirname(os.path.abspath(__file__)))
REPO = os.environ.get("VERIF_REPO", "/repo")
COQ = os.path.join(VERIF, "coq")
THEORIES = os.path.join(COQ, "theories")
BUILD = os.path.join(VERIF, "build")
EVIDENCE = os.path.join(VERIF, "evidence")
REPLAYS = os.path.join(EVIDENCE, "replays")
PY = "/venv/bin/python"
NPROC = int(os.environ.get("VERIF_JOBS", "16"))

if VERIF not in sys.path:
    sys.path.insert(0, VERIF)

# axioms of the standard library a property may depend on, if it lists them (DESIGN section 6)
STDLIB_AXIOMS_ALLOWED = {
    "functional_extensionality_dep",
    "FunctionalExtensionality.functional_extensionality_dep",
    "Eqdep.Eq_rect_eq.eq_rect_eq",
    "Coq.Logic.Eqdep.Eq_rect_eq.eq_rect_eq",
    "proof_irrelevance",
    "ProofIrrelevance.proof_irrelevance",
    "Classical_Prop.classic",
    "classic",
    "JMeq_eq",
    "JMeq.JMeq_eq",
}


def sh(cmd, timeout=900, cwd=None, env=None, input=None):
    """Run a command; returns (rc, stdout+stderr). rc=124 on timeout."""
    e = dict(os.environ)
    if env:
        e.update(env)
    try:
        p = subprocess.run(
            cmd,
            cwd=cwd,
            env=e,
            input=input,
            stdout=subprocess.PIPE,
            stderr=subprocess.STDOUT,
            timeout=timeout,
            shell=isinstance(cmd, str),
            text=True,
            errors="replace",
        )
        return p.returncode, p.stdout
    except subprocess.TimeoutExpired as ex:
        out = ex.stdout or ""
        if isinstance(out, bytes):
            out = out.decode("utf-8", "replace")
        return 124, out + "\n[timeout]"


def impl_env():
    """Environment for running the real implementation."""
    guard = {"NEMO_GUARDRAILS_VERIF": "1"}
    return {
        "PYTHONPATH": REPO + os.pathsep + VERIF,
        "PYTHONHASHSEED": "0",
        "TOKENIZERS_PARALLELISM": "false",
        **guard,
    }


# --------------------------------------------------------------------------------------
# Coq build


class BuildLock:
    def __enter__(self):
        os.makedirs(BUILD, exist_ok=True)
        self.f = open(os.path.join(BUILD, ".lock"), "w")
        fcntl.flock(self.f, fcntl.LOCK_EX)
        return self

    def __exit__(self, *a):
        fcntl.flock(self.f, fcntl.LOCK_UN)
        self.f.close()


def all_theory_files():
    out = []
    for root, _dirs, files in os.walk(THEORIES):
        for fn in files:
            if fn.endswith(".v"):
                out.append(os.path.relpath(os.path.join(root, fn), COQ))
    return sorted(out)


def write_coqproject():
    """(Re)generate _CoqProject + Makefile when the file set changed."""
    files = all_theory_files()
    text = "-Q theories NG\n-arg -w -arg -notation-overridden,-deprecated-hint-without-locality,-deprecated-instance-without-locality\n" + "\n".join(files) + "\n"
    cp = os.path.join(COQ, "_CoqProject")
    old = open(cp).read() if os.path.exists(cp) else None
    if old != text or not os.path.exists(os.path.join(COQ, "Makefile")):
        with open(cp, "w") as f:
            f.write(text)
        rc, out = sh(["coq_makefile", "-f", "_CoqProject", "-o", "Makefile"], cwd=COQ, timeout=120)
        if rc != 0:
            raise RuntimeError("coq_makefile failed: " + out)
        dep = os.path.join(COQ, ".Makefile.d")
        if os.path.exists(dep):
            os.remove(dep)


def regen(gen_names):
    from translator import gen

    return gen.regen(gen_names)


def coq_make(targets, timeout=1500):
    """make the given .vo targets (paths relative to coq/). Returns (ok, log)."""
    write_coqproject()
    rc, out = sh(["make", "-j", str(NPROC)] + list(targets), cwd=COQ, timeout=timeout)
    return rc == 0, out


_COMMENT_RE = re.compile(r"\(\*.*?\*\)", re.S)


def strip_comments(text):
    # nested comments: strip repeatedly from the innermost
    prev = None
    inner = re.compile(r"\(\*(?:(?!\(\*|\*\)).)*\*\)", re.S)
    while prev != text:
        prev = text
        text = inner.sub(" ", text)
    return text


_FORBIDDEN = [
    (re.compile(r"(?<![\w.])Axiom\b"), "Axiom"),
    (re.compile(r"(?<![\w.])Axioms\b"), "Axioms"),
    (re.compile(r"(?<![\w.])Parameter\b"), "Parameter"),
    (re.compile(r"(?<![\w.])Parameters\b"), "Parameters"),
    (re.compile(r"(?<![\w.])Conjecture\b"), "Conjecture"),
    (re.compile(r"(?<![\w.])Admitted\b"), "Admitted"),
    (re.compile(r"(?<![\w.'])admit\b"), "admit"),
    (re.compile(r"(?<![\w.])give_up\b"), "give_up"),
    (re.compile(r"Admit\s+Obligations"), "Admit Obligations"),
    (re.compile(r"Unset\s+Guard\s+Checking"), "Unset Guard Checking"),
    (re.compile(r"Unset\s+Positivity\s+Checking"), "Unset Positivity Checking"),
    (re.compile(r"Unset\s+Universe\s+Checking"), "Unset Universe Checking"),
    (re.compile(r"bypass_check"), "bypass_check"),
    (re.compile(r"native_compute"), "native_compute"),
]
_SECTION_RE = re.compile(r"(?<![\w.])(Section|End|Module\s+Type|Module|Variable|Variables|Hypothesis|Hypotheses|Context)\b")


def decl_scan(relfiles):
    """Declaration-level scan of the given .v files (relative to coq/). Returns a list of problems."""
    problems = []
    for rel in relfiles:
        path = os.path.join(COQ, rel)
        text = strip_comments(open(path, encoding="utf-8").read())
        # drop string literals
        text_ns = re.sub(r'"(?:[^"]|"")*"', '""', text)
        for rx, name in _FORBIDDEN:
            for m in rx.finditer(text_ns):
                line = text_ns.count("\n", 0, m.start()) + 1
                problems.append(f"{rel}:{line}: forbidden `{name}`")
        # Variable/Hypothesis/Context outside a Section
        depth = 0
        for m in _SECTION_RE.finditer(text_ns):
            w = m.group(1)
            if w == "Section":
                depth += 1
            elif w == "End":
                if depth > 0:
                    depth -= 1
            elif w.startswith("Module"):
                pass
            else:
                if depth == 0:
                    line = text_ns.count("\n", 0, m.start()) + 1
                    problems.append(f"{rel}:{line}: `{w}` outside a Section")
    cp = os.path.join(COQ, "_CoqProject")
    if os.path.exists(cp):
        t = open(cp).read()
        for bad in ("-type-in-type", "-impredicative-set", "-noinit", "-vos", "-vok"):
            if bad in t:
                problems.append(f"_CoqProject: forbidden flag {bad}")
    return problems


def closure(prop_rel):
    """Transitive closure of our own .v files that prop_rel depends on (relative to coq/)."""
    write_coqproject()
    seen = []
    todo = [prop_rel]
    cache = {}
    while todo:
        f = todo.pop()
        if f in seen:
            continue
        seen.append(f)
        rc, out = sh(["coqdep", "-Q", "theories", "NG", f], cwd=COQ, timeout=60)
        if rc != 0:
            raise RuntimeError("coqdep failed: " + out)
        # "<f>.vo ...: f.v dep1.vo dep2.vo"
        for line in out.splitlines():
            if ":" not in line:
                continue
            lhs, rhs = line.split(":", 1)
            if not lhs.strip().startswith(f[:-2] + ".vo"):
                continue
            for tok in rhs.split():
                if tok.endswith(".vo") and tok.startswith("theories/"):
                    todo.append(tok[:-3] + ".v")
    return sorted(seen)


_STMT_RE = re.compile(r"(?<![\w.])(Theorem|Lemma|Corollary|Proposition|Fact|Remark|Example|Goal)\b")


def count_obligations(relfiles):
    n = 0
    for rel in relfiles:
        text = strip_comments(open(os.path.join(COQ, rel), encoding="utf-8").read())
        n += len(_STMT_RE.findall(text))
    return n


def audit_assumptions(prop_rel, timeout=600):
    """Compile Props/Cxx.v again with coqc capturing Print Assumptions output.
    Returns (ok, theorems: {name: [axioms]}, log)."""
    out_vo = os.path.join(BUILD, "audit", os.path.basename(prop_rel)[:-2] + ".vo")
    os.makedirs(os.path.dirname(out_vo), exist_ok=True)
    rc, out = sh(
        ["coqc", "-Q", "theories", "NG", "-w", "-notation-overridden", "-o", out_vo, prop_rel],
        cwd=COQ,
        timeout=timeout,
    )
    if rc != 0:
        return False, {}, out
    # order of `Print Assumptions X.` commands in the file
    text = strip_comments(open(os.path.join(COQ, prop_rel), encoding="utf-8").read())
    names = re.findall(r"Print\s+Assumptions\s+([\w.']+)\s*\.", text)
    thm_names = re.findall(r"(?<![\w.])(?:Theorem|Corollary|Lemma)\s+([\w']+)", text)
    # parse output blocks
    blocks = []
    cur = None
    for line in out.splitlines():
        if line.startswith("Closed under the global context"):
            blocks.append([])
            cur = None
        elif line.startswith("Axioms:"):
            cur = []
            blocks.append(cur)
        elif cur is not None:
            m = re.match(r"^([\w.']+)\s*:", line)
            if m:
                cur.append(m.group(1))
            elif line and not line.startswith(" "):
                cur = None
    ok = len(blocks) == len(names) and set(thm_names) <= set(names) and len(names) > 0
    return ok, dict(zip(names, blocks)), out


def build_and_audit(pid, gen_names, prop_rel=None, allowed_axioms=()):
    """Steps 1-2 of the protocol. Returns dict(ok, broken=[obligation names], info=...)."""
    prop_rel = prop_rel or f"theories/Props/{pid}.v"
    res = {"ok": True, "broken": [], "axioms": [], "obligations": 0, "files": [], "log": ""}
    t0 = time.time()
    with BuildLock():
        g = regen(gen_names)
        for name, err in g.items():
            if err:
                res["ok"] = False
                res["broken"].append(f"translator:{name}")
                res["log"] += f"\n[translator {name}] {err}"
        if not res["ok"]:
            return res
        try:
            res["files"] = closure(prop_rel)
            res["obligations"] = count_obligations(res["files"])
        except Exception as e:  # e.g. a Gen file that could not be generated
            res["log"] += f"\n[closure] {e}"
        ok, log = coq_make([prop_rel[:-2] + ".vo"])
        if not ok:
            res["ok"] = False
            res["discharged"] = count_obligations(
                [f for f in res["files"] if os.path.exists(os.path.join(COQ, f[:-2] + ".vo"))
                 and os.path.getmtime(os.path.join(COQ, f[:-2] + ".vo")) >= os.path.getmtime(os.path.join(COQ, f))])
            res["log"] += log[-6000:]
            # name the file that failed
            m = re.findall(r'File "\./([^"]+)", line (\d+)', log)
            failing = sorted({f for f, _ in m}) or [prop_rel]
            for f in failing:
                res["broken"].append(f"coq:{f}")
            return res
        files = closure(prop_rel)
        res["files"] = files
        probs = decl_scan(files)
        if probs:
            res["ok"] = False
            res["broken"] += [f"decl-scan:{p}" for p in probs]
            return res
        ok, thms, log = audit_assumptions(prop_rel)
        if not ok:
            res["ok"] = False
            res["broken"].append(f"audit:{prop_rel}")
            res["log"] += log[-3000:]
            return res
        axioms = sorted({a for axs in thms.values() for a in axs})
        res["theorems"] = thms
        res["axioms"] = axioms
        for a in axioms:
            short = a.split(".")[-1]
            if a not in allowed_axioms and short not in allowed_axioms:
                res["ok"] = False
                res["broken"].append(f"axiom:{a}")
        res["obligations"] = count_obligations(files)
    res["build_s"] = round(time.time() - t0, 1)
    return res


def coqchk(pid, files, timeout=1800):
    """Thorough tier: independent re-check of the property's closure."""
    mods = []
    for f in files:
        mods.append("NG." + f[len("theories/"):-2].replace("/", "."))
    rc, out = sh(["coqchk", "-silent", "-o", "-Q", "theories", "NG"] + mods, cwd=COQ, timeout=timeout)
    return rc == 0, out


# --------------------------------------------------------------------------------------
# In-assistant evaluation of the model on generated cases


def coq_string(s: str) -> str:
    """Coq string literal for a str whose characters are all < 256 (bytes semantics)."""
    out = []
    for ch in s:
        o = ord(ch)
        if o > 255:
            raise ValueError("coq_string: code point > 255")
        out.append('""' if ch == '"' else ch)
    return '"' + "".join(out) + '"'


def coq_Z(z: int) -> str:
    return f"({z})%Z" if z < 0 else f"{z}%Z"


def coq_list(items) -> str:
    return "[" + "; ".join(items) + "]"


def coq_bool(b) -> str:
    return "true" if b else "false"


def coq_option(x) -> str:
    return "None" if x is None else f"(Some {x})"


def run_cases(tag, preamble, case_terms, fn, shard=300, timeout=900):
    """Evaluate `fn case` (a Coq function returning bool) on every case term inside Coq.

    Writes build/cases/<tag>/Cases_<i>.v with
        Definition cases := [...]. Eval vm_compute in (map fn cases).
    and parses the printed bool list.  Returns (list_of_bools, error_or_None).
    """
    d = os.path.join(BUILD, "cases", tag)
    shutil.rmtree(d, ignore_errors=True)
    os.makedirs(d)
    shards = [case_terms[i : i + shard] for i in range(0, len(case_terms), shard)]
    paths = []
    for i, sh_cases in enumerate(shards):
        p = os.path.join(d, f"Cases_{i}.v")
        with open(p, "w", encoding="latin-1") as f:
            f.write(preamble + "\n")
            f.write("Definition cases := [\n  " + ";\n  ".join(sh_cases) + "\n].\n")
            f.write(f"Eval vm_compute in (List.map ({fn}) cases).\n")
        paths.append(p)

    def one(p):
        return sh(
            ["coqc", "-Q", os.path.join(COQ, "theories"), "NG", "-w", "-notation-overridden", "-o", p[:-2] + ".vo", p],
            cwd=d,
            timeout=timeout,
        )

    results = []
    with ThreadPoolExecutor(max_workers=NPROC) as ex:
        outs = list(ex.map(one, paths))
    for (rc, out), sh_cases, p in zip(outs, shards, paths):
        if rc != 0:
            return results, f"coqc failed on {p}: {out[-2000:]}"
        m = re.search(r"=\s*\[(.*?)\]\s*:\s*list bool", out, re.S)
        if not m:
            if re.search(r"=\s*nil\s*:\s*list bool", out) or re.search(r"=\s*\[\s*\]\s*:", out):
                bools = []
            else:
                return results, f"cannot parse coqc output of {p}: {out[-2000:]}"
        else:
            bools = [t.strip() == "true" for t in m.group(1).split(";") if t.strip()]
        if len(bools) != len(sh_cases):
            return results, f"{p}: {len(bools)} results for {len(sh_cases)} cases"
        results += bools
    return results, None


def eval_term(tag, preamble, term, timeout=300):
    """Evaluate one Coq term with vm_compute and return Coq's printed answer (for replay files)."""
    d = os.path.join(BUILD, "cases", tag)
    os.makedirs(d, exist_ok=True)
    p = os.path.join(d, "Eval_one.v")
    with open(p, "w", encoding="latin-1") as f:
        f.write(preamble + "\n")
        f.write(f"Eval vm_compute in ({term}).\n")
    rc, out = sh(
        ["coqc", "-Q", os.path.join(COQ, "theories"), "NG", "-w", "-notation-overridden", "-o", p[:-2] + ".vo", p],
        cwd=d,
        timeout=timeout,
    )
    return out.strip()


# --------------------------------------------------------------------------------------
# Known findings, replays, evidence


def load_known_findings():
    """KNOWN_FINDINGS.txt lines:
         known: property=C18 sig=<signature> <free text>
         fixed: property=C04 <commit> <what failed>
    Only `known:` lines suppress anything."""
    path = os.path.join(VERIF, "KNOWN_FINDINGS.txt")
    known = {}
    if not os.path.exists(path):
        return known
    for line in open(path, encoding="utf-8"):
        line = line.strip()
        if not line.startswith("known:"):
            continue
        m = re.match(r"known:\s+property=(\S+)\s+sig=(\S+)\s*(.*)$", line)
        if m:
            known.setdefault(m.group(1), {})[m.group(2)] = m.group(3)
    return known


def write_replay(pid, payload):
    os.makedirs(REPLAYS, exist_ok=True)
    blob = json.dumps(payload, sort_keys=True, default=str, indent=1)
    h = hashlib.sha1(blob.encode()).hexdigest()[:12]
    path = os.path.join(REPLAYS, f"{pid}-{h}.json")
    with open(path, "w") as f:
        f.write(blob)
    return path


class Finding:
    """A concrete violation of the property text observed on the implementation."""

    def __init__(self, sig, what, replay):
        self.sig = sig  # canonical signature (defect class)
        self.what = what  # one line
        self.replay = replay  # JSON-able payload


class Outcome:
    def __init__(self, pid, tier, seed):
        self.pid = pid
        self.tier = tier
        self.seed = seed
        self.t0 = time.time()
        self.findings = []  # Finding
        self.broken = []  # obligations / correspondences that no longer check
        self.coverage = {}
        self.assumptions = []
        self.notes = []

    def add_broken(self, name, detail=""):
        self.broken.append({"obligation": name, "detail": detail[-4000:] if detail else ""})


def finish(out: Outcome, level="proof"):
    """Print KNOWN-FINDING / VIOLATION lines, write evidence, return exit code."""
    known = load_known_findings().get(out.pid, {})
    violations = 0
    seen_sigs = set()
    for f in out.findings:
        if f.sig in seen_sigs:
            continue
        seen_sigs.add(f.sig)
        if f.sig in known:
            print(f"KNOWN-FINDING: property={out.pid} {f.sig} {f.what}")
            continue
        payload = {"property": out.pid, "signature": f.sig, "what": f.what, "replay": f.replay,
                   "replay_cmd": f"./check {out.pid} --replay <this file>"}
        path = write_replay(out.pid, payload)
        print(f"VIOLATION property={out.pid} replay={path}")
        violations += 1
    if out.broken and violations == 0:
        # something no longer checks and no unlisted failing input was found
        unlisted_only = True
        payload = {"property": out.pid, "no_failing_input_found": True, "broken": out.broken,
                   "known_findings_seen": sorted(seen_sigs)}
        path = write_replay(out.pid, payload)
        print(f"VIOLATION property={out.pid} replay={path} no-failing-input-found")
        violations += 1
    cov = dict(out.coverage)
    ev = {
        "property_id": out.pid,
        "tier": out.tier,
        "seed": out.seed,
        "level": level,
        "coverage": cov,
        "assumptions": out.assumptions,
        "wall_s": round(time.time() - out.t0, 2),
        "violations": violations,
        "notes": out.notes,
        "broken": out.broken,
        "known_findings_reported": sorted(s for s in seen_sigs if s in known),
    }
    os.makedirs(EVIDENCE, exist_ok=True)
    with open(os.path.join(EVIDENCE, f"{out.pid}.json"), "w") as f:
        json.dump(ev, f, indent=1, sort_keys=True, default=str)
    return 1 if violations else 0


def canon_hash(obj) -> str:
    return hashlib.sha1(json.dumps(obj, sort_keys=True, default=str).encode()).hexdigest()


def proof_coverage(out: Outcome, b, checker_cmd):
    """Fill the proof-level keys of coverage from a build_and_audit result."""
    n = b.get("obligations", 0)
    out.coverage.update(
        {
            "obligations": n,
            "discharged": n if b["ok"] else b.get("discharged", 0),
            "checker_cmd": checker_cmd,
            "trusted_base": ["coqc 8.16.1 kernel + vm_compute"] + [f"axiom:{a}" for a in b.get("axioms", [])],
            "coq_files": b.get("files", []),
            "print_assumptions": b.get("theorems", {}),
            "build_s": b.get("build_s"),
        }
    )
