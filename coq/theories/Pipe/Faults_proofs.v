(* Pipe/Faults_proofs.v - containment, fail-closed and no-poison theorems of Pipe/Faults.v. *)
From Coq Require Import String List Bool Arith Lia.
From NG Require Import Gen.C03Consts Pipe.Faults.
Import ListNotations.
Open Scope string_scope.
Open Scope list_scope.

(* ---------------------------------------------------------------------------------------- *)
(* the history as the flows see it *)

Definition actual (rh : list hev) : option (list hev) := actual_rev (rev rh) [].

Definition step_hist (e : hev) (a : list hev) : option (list hev) :=
  match e with HHide => drop_turn a | _ => Some (e :: a) end.

Lemma actual_rev_app : forall l e acc,
  actual_rev (l ++ [e]) acc = match actual_rev l acc with Some a => step_hist e a | None => None end.
Proof.
  induction l as [|x l IH]; intros e acc.
  - destruct e; cbn; try reflexivity. destruct (drop_turn acc); reflexivity.
  - cbn [app actual_rev].
    destruct x; try apply IH.
    destruct (drop_turn acc); [apply IH|reflexivity].
Qed.

Lemma actual_push : forall e rh,
  actual (e :: rh) = match actual rh with Some a => step_hist e a | None => None end.
Proof. intros e rh. unfold actual. cbn [rev]. apply actual_rev_app. Qed.

Lemma flow_ctx_actual : forall rh, flow_ctx rh = option_map ctx_of_rev (actual rh).
Proof. reflexivity. Qed.

Fixpoint no_user (l : list hev) : Prop :=
  match l with [] => True | HUser :: _ => False | _ :: r => no_user r end.

Lemma drop_turn_frame : forall evs a0, no_user evs -> drop_turn (evs ++ HUser :: a0) = Some a0.
Proof.
  induction evs as [|e evs IH]; intros a0 H; [reflexivity|].
  destruct e; cbn in *; try contradiction; apply IH; exact H.
Qed.

Lemma ctx_of_rev_other : forall l, ctx_of_rev (HOther :: l) = ctx_of_rev l.
Proof. reflexivity. Qed.
Lemma ctx_of_rev_user : forall l, ctx_of_rev (HUser :: l) = ctx_of_rev l.
Proof. reflexivity. Qed.

(* ---------------------------------------------------------------------------------------- *)
(* Colang 1.0 *)

Definition ie_reply : tres := TReply ie_utterances.

Section V1P.
  Variables (reraises honours : bool).
  Variable (sc : script).
  Variables (user_text llm_text : nat -> string) (refusal : string).
  Variable (cfg : vcfg).
  Variable (t : nat).

  Hypothesis H_rr : reraises = false.
  Hypothesis H_hon : honours = true.
  Hypothesis H_status : String.eqb dispatch_failed_status v1_failed_status_test = true.
  Hypothesis H_hide : ie_has_hide = true.

  Notation call_action := (call_action reraises honours sc t).
  Notation refuse := (refuse reraises honours sc refusal cfg t).
  Notation run_rails := (run_rails reraises honours sc refusal cfg t).

  (* inside a turn that started from the flows' history a0 *)
  Definition good (a0 : list hev) (s : tstate) : Prop :=
    exists evs, actual (t_rh s) = Some (evs ++ HUser :: a0) /\ no_user evs /\
                c_skip (ctx_of_rev (evs ++ HUser :: a0)) = false.

  Lemma good_push_other : forall a0 s, good a0 s -> good a0 (push HOther s).
  Proof.
    intros a0 s (evs & Ha & Hn & Hs). exists (HOther :: evs).
    unfold push. cbn [t_rh]. rewrite actual_push, Ha. cbn [step_hist app].
    repeat split; assumption.
  Qed.

  Lemma action_ctx_good : forall a0 s evs,
    actual (t_rh s) = Some (evs ++ HUser :: a0) ->
    action_ctx honours (t_rh s) = Some (ctx_of_rev (evs ++ HUser :: a0)).
  Proof. intros a0 s evs Ha. unfold action_ctx. rewrite H_hon, flow_ctx_actual, Ha. reflexivity. Qed.

  (* after an action result was recorded under $allowed the flows read exactly that value *)
  Lemma emit_allowed_good : forall a0 s v,
    good a0 s ->
    exists s', emit_allowed honours v s = Some s' /\ good a0 s' /\
               t_calls s' = t_calls s /\ t_llm s' = t_llm s /\ t_ret_occ s' = t_ret_occ s /\
               option_map c_allowed (flow_ctx (t_rh s')) = Some v.
  Proof.
    intros a0 s v (evs & Ha & Hn & Hs). unfold emit_allowed.
    rewrite (action_ctx_good a0 s evs Ha).
    destruct (v1_context_update_only_on_change && opt_bool_eqb (c_allowed (ctx_of_rev (evs ++ HUser :: a0))) v) eqn:E.
    - exists s. split; [reflexivity|]. split; [exists evs; repeat split; assumption|].
      repeat split; try reflexivity.
      rewrite flow_ctx_actual, Ha. cbn [option_map].
      apply andb_true_iff in E. destruct E as [_ E].
      destruct (c_allowed (ctx_of_rev (evs ++ HUser :: a0))) as [x|], v as [y|]; cbn in E; try discriminate; [|reflexivity].
      apply Bool.eqb_prop in E. subst. reflexivity.
    - exists (push (HAllowed v) s). split; [reflexivity|].
      split.
      { exists (HAllowed v :: evs). unfold push. cbn [t_rh]. rewrite actual_push, Ha. cbn [step_hist app].
        repeat split; [exact Hn|]. cbn [ctx_of_rev c_skip]. exact Hs. }
      repeat split; try reflexivity.
      unfold push. cbn [t_rh]. rewrite flow_ctx_actual, actual_push, Ha. reflexivity.
  Qed.

  Definition bool_of (o : outcome) : option bool :=
    match o with OAccept => Some true | OReject => Some false | ORaise => None end.

  Lemma runtime_result_spec : forall o,
    runtime_result v1_failed_status_test (execute_action reraises o) =
    match o with OAccept => AValue (Some true) | OReject => AValue (Some false) | ORaise => AInternalError end.
  Proof.
    intros o. rewrite H_rr. destruct o; unfold execute_action, runtime_result; cbv beta iota;
      [reflexivity|reflexivity|rewrite H_status; reflexivity].
  Qed.

  (* the state after a turn was hidden: the flows' history is the one before the turn *)
  Definition hidden (a0 : list hev) (s : tstate) : Prop := actual (t_rh s) = Some a0.

  Lemma call_action_spec : forall a0 st occ text keyed s,
    good a0 s ->
    match sc t st occ with
    | ORaise => exists s', call_action st occ text keyed s = Finished ie_reply s' /\ hidden a0 s' /\
                           t_calls s' = t_calls s ++ [(st, text)] /\ t_llm s' = t_llm s
    | o => exists s', call_action st occ text keyed s = Continue (bool_of o) s' /\ good a0 s' /\
                      t_calls s' = t_calls s ++ [(st, text)] /\ t_llm s' = t_llm s /\ t_ret_occ s' = t_ret_occ s /\
                      (keyed = true -> option_map c_allowed (flow_ctx (t_rh s')) = Some (bool_of o))
    end.
  Proof.
    intros a0 st occ text keyed s Hg.
    unfold Faults.call_action. rewrite runtime_result_spec.
    set (s0 := mkT (t_rh s) (t_calls s ++ [(st, text)]) (t_llm s) (t_ret_occ s)).
    assert (Hg0 : good a0 s0) by exact Hg.
    assert (Hval : forall b, exists s',
               (if keyed then match emit_allowed honours (Some b) s0 with
                              | Some s' => Continue (Some b) (push HOther s') | None => Finished TUnmodelled s0 end
                else Continue (Some b) (push HOther s0)) = Continue (Some b) s' /\ good a0 s' /\
               t_calls s' = t_calls s ++ [(st, text)] /\ t_llm s' = t_llm s /\ t_ret_occ s' = t_ret_occ s /\
               (keyed = true -> option_map c_allowed (flow_ctx (t_rh s')) = Some (Some b))).
    { intros b. destruct keyed.
      - destruct (emit_allowed_good a0 s0 (Some b) Hg0) as (s' & He & Hg' & Hc & Hl & Hr & Hf).
        rewrite He. exists (push HOther s'). split; [reflexivity|]. split; [apply good_push_other; exact Hg'|].
        repeat split; try assumption.
        intros _. unfold push. cbn [t_rh]. rewrite flow_ctx_actual, actual_push.
        rewrite flow_ctx_actual in Hf. destruct (actual (t_rh s')); [exact Hf|discriminate].
      - exists (push HOther s0). split; [reflexivity|]. split; [apply good_push_other; exact Hg0|].
        repeat split; try reflexivity. intros H. discriminate. }
    destruct (sc t st occ).
    - apply Hval.
    - apply Hval.
    - rewrite H_hide.
      assert (Hs1 : exists s1, (if keyed then emit_allowed honours None s0 else Some s0) = Some s1 /\ good a0 s1 /\
                               t_calls s1 = t_calls s ++ [(st, text)] /\ t_llm s1 = t_llm s).
      { destruct keyed.
        - destruct (emit_allowed_good a0 s0 None Hg0) as (s' & He & Hg' & Hc & Hl & _).
          exists s'. repeat split; assumption.
        - exists s0. repeat split; [exact Hg0]. }
      destruct Hs1 as (s1 & He & (evs & Ha & Hn & Hs) & Hc & Hl). rewrite He.
      exists (push HHide (push HOther s1)). split; [reflexivity|].
      split.
      { unfold hidden, push. cbn [t_rh]. rewrite !actual_push, Ha. cbn [step_hist].
        apply (drop_turn_frame (HOther :: evs) a0). exact Hn. }
      split; assumption.
  Qed.

  (* ---- the history-free specification of one turn ---- *)
  Definition calls_t := list (site * option string).

  Definition spec_ret (calls : calls_t) (occ : nat) : bool * calls_t * nat :=
    if has_ret cfg
    then (match sc t SRet occ with ORaise => true | _ => false end, calls ++ [(SRet, None)], S occ)
    else (false, calls, occ).

  Definition spec_refuse (calls : calls_t) (occ : nat) : tres * calls_t :=
    let '(raised, calls, _) := spec_ret calls occ in
    if raised then (ie_reply, calls) else (TReply [refusal], calls).

  Fixpoint spec_rails (mk : nat -> site) (k n : nat) (text : string) (calls : calls_t) (occ : nat)
           (cont : calls_t -> tres * calls_t * nat) (nllm : nat) : tres * calls_t * nat :=
    match n with
    | O => cont calls
    | S n' =>
      let calls := calls ++ [(mk k, Some text)] in
      match sc t (mk k) 0 with
      | ORaise => (ie_reply, calls, nllm)
      | OReject => let '(r, c) := spec_refuse calls occ in (r, c, nllm)
      | OAccept => spec_rails mk (S k) n' text calls occ cont nllm
      end
    end.

  Definition spec_dialog (calls : calls_t) : tres * calls_t * nat :=
    let calls := calls ++ [(SDialog, None)] in
    match sc t SDialog 0 with
    | ORaise => (ie_reply, calls, 1)
    | _ =>
      let '(raised, calls, occ) := spec_ret calls 0 in
      if raised then (ie_reply, calls, 1)
      else spec_rails SOut 0 (n_out cfg) (llm_text t) calls occ (fun calls => (TReply [llm_text t], calls, 2)) 2
    end.

  Definition spec_turn : tres * calls_t * nat :=
    spec_rails SIn 0 (n_in cfg) (user_text t) [] 0 spec_dialog 0.

  (* what a finished (part of a) turn leaves behind *)
  Definition post (a0 : list hev) (x : tres * tstate) (y : tres * calls_t * nat) : Prop :=
    fst x = fst (fst y) /\ t_calls (snd x) = snd (fst y) /\ t_llm (snd x) = snd y /\
    (hidden a0 (snd x) \/ good a0 (snd x)).

  Lemma emit_skip_true_good : forall a0 s,
    good a0 s ->
    exists evs, emit_skip honours true s = Some (push (HSkip true) s) /\
                actual (t_rh s) = Some (evs ++ HUser :: a0) /\ no_user evs.
  Proof.
    intros a0 s (evs & Ha & Hn & Hs). exists evs. unfold emit_skip.
    rewrite (action_ctx_good a0 s evs Ha), Hs. cbn [Bool.eqb]. rewrite andb_false_r.
    repeat split; assumption.
  Qed.

  Lemma retrieval_spec : forall a0 s,
    good a0 s ->
    let '(raised, calls, occ) := spec_ret (t_calls s) (t_ret_occ s) in
    if raised
    then exists s', retrieval reraises honours sc cfg t s = Finished ie_reply s' /\ hidden a0 s' /\
                    t_calls s' = calls /\ t_llm s' = t_llm s
    else exists v s', retrieval reraises honours sc cfg t s = Continue v s' /\ good a0 s' /\
                      t_calls s' = calls /\ t_llm s' = t_llm s /\ t_ret_occ s' = occ.
  Proof.
    intros a0 s Hg. unfold spec_ret, retrieval.
    destruct (has_ret cfg).
    - pose proof (call_action_spec a0 SRet (t_ret_occ s) None false s Hg) as H.
      destruct (sc t SRet (t_ret_occ s)).
      + destruct H as (s' & Hc & Hg' & Hcalls & Hl & Hr & _). rewrite Hc.
        eexists _, _. split; [reflexivity|]. cbn [t_rh t_calls t_llm t_ret_occ].
        split; [exact Hg'|]. repeat split; try assumption. rewrite Hr. reflexivity.
      + destruct H as (s' & Hc & Hg' & Hcalls & Hl & Hr & _). rewrite Hc.
        eexists _, _. split; [reflexivity|]. cbn [t_rh t_calls t_llm t_ret_occ].
        split; [exact Hg'|]. repeat split; try assumption. rewrite Hr. reflexivity.
      + destruct H as (s' & Hc & Hh & Hcalls & Hl). rewrite Hc.
        exists s'. repeat split; assumption.
    - exists None, s. repeat split; try reflexivity. exact Hg.
  Qed.

  Lemma refuse_spec : forall a0 s nllm,
    good a0 s -> t_llm s = nllm ->
    post a0 (refuse s) (let '(r, c) := spec_refuse (t_calls s) (t_ret_occ s) in (r, c, nllm)).
  Proof.
    intros a0 s nllm Hg Hl. unfold Faults.refuse, spec_refuse.
    pose proof (retrieval_spec a0 s Hg) as H.
    destruct (spec_ret (t_calls s) (t_ret_occ s)) as [[raised calls] occ].
    destruct raised.
    - destruct H as (s' & Hr & Hh & Hc & Hl'). rewrite Hr.
      unfold post. cbn [fst snd]. repeat split; [exact Hc|congruence|left; exact Hh].
    - destruct H as (v & s' & Hr & Hg' & Hc & Hl' & _). rewrite Hr.
      destruct (emit_skip_true_good a0 s' Hg') as (evs & He & Ha & Hn). rewrite He.
      unfold push at 1. cbn [t_rh]. rewrite flow_ctx_actual, actual_push, Ha. cbn [step_hist option_map ctx_of_rev c_skip].
      unfold post. cbn [fst snd]. unfold push. cbn [t_calls t_llm t_rh].
      repeat split; [exact Hc|congruence|].
      right. exists (HSkip false :: HSkip true :: evs). cbn [t_rh].
      rewrite !actual_push, Ha. cbn [step_hist app]. repeat split; [exact Hn].
  Qed.

  Lemma flow_allows_after : forall s b,
    option_map c_allowed (flow_ctx (t_rh s)) = Some b ->
    flow_allows s = Some (match b with Some true => true | _ => false end).
  Proof.
    intros s b H. unfold flow_allows. destruct (flow_ctx (t_rh s)) as [c|]; [|discriminate].
    cbn in H. inversion H. reflexivity.
  Qed.

  Lemma run_rails_spec : forall a0 mk text spec_cont cont nllm n k s,
    good a0 s -> t_llm s = nllm ->
    (forall s', good a0 s' -> t_llm s' = nllm -> t_ret_occ s' = t_ret_occ s ->
                post a0 (cont s') (spec_cont (t_calls s'))) ->
    post a0 (run_rails mk k n text s cont) (spec_rails mk k n text (t_calls s) (t_ret_occ s) spec_cont nllm).
  Proof.
    intros a0 mk text spec_cont cont nllm.
    induction n as [|n IH]; intros k s Hg Hl Hcont.
    - cbn [Faults.run_rails spec_rails]. apply Hcont; [exact Hg|exact Hl|reflexivity].
    - cbn [Faults.run_rails spec_rails].
      pose proof (call_action_spec a0 (mk k) 0 (Some text) true s Hg) as H.
      destruct (sc t (mk k) 0) eqn:Eo.
      + destruct H as (s' & Hc & Hg' & Hcalls & Hl' & Hr & Hf). rewrite Hc.
        rewrite (flow_allows_after s' _ (Hf eq_refl)). cbn [bool_of].
        rewrite <- Hcalls, <- Hr. apply IH; [exact Hg'|congruence|].
        intros s'' Hg'' Hl'' Hr''. apply Hcont; [exact Hg''|exact Hl''|congruence].
      + destruct H as (s' & Hc & Hg' & Hcalls & Hl' & Hr & Hf). rewrite Hc.
        rewrite (flow_allows_after s' _ (Hf eq_refl)). cbn [bool_of].
        rewrite <- Hcalls, <- Hr. apply refuse_spec; [exact Hg'|congruence].
      + destruct H as (s' & Hc & Hh & Hcalls & Hl'). rewrite Hc.
        unfold post. cbn [fst snd]. repeat split; [exact Hcalls|congruence|left; exact Hh].
  Qed.

  Lemma good_add_llm : forall a0 s, good a0 s -> good a0 (add_llm s).
  Proof. intros a0 s H. exact H. Qed.

  Lemma process_bot_message_spec : forall a0 s,
    good a0 s -> t_llm s = 2 ->
    post a0 (process_bot_message reraises honours sc refusal cfg t (llm_text t) s)
         (spec_rails SOut 0 (n_out cfg) (llm_text t) (t_calls s) (t_ret_occ s)
                     (fun calls => (TReply [llm_text t], calls, 2)) 2).
  Proof.
    intros a0 s Hg Hl. unfold process_bot_message.
    destruct Hg as (evs & Ha & Hn & Hs).
    rewrite flow_ctx_actual, Ha. cbn [option_map]. rewrite Hs.
    apply run_rails_spec; [exists evs; repeat split; assumption|exact Hl|].
    intros s' Hg' Hl' _. unfold post. cbn [fst snd]. repeat split; [exact Hl'|right; exact Hg'].
  Qed.

  Lemma dialog_spec : forall a0 s,
    good a0 s -> t_llm s = 0 -> t_ret_occ s = 0 ->
    post a0 (dialog reraises honours sc llm_text refusal cfg t s) (spec_dialog (t_calls s)).
  Proof.
    intros a0 s Hg Hl Hocc. unfold dialog, spec_dialog.
    pose proof (call_action_spec a0 SDialog 0 None false (add_llm s) (good_add_llm a0 s Hg)) as H.
    assert (Hd : forall o, o <> ORaise ->
               (exists s', Faults.call_action reraises honours sc t SDialog 0 None false (add_llm s) = Continue (bool_of o) s' /\
                           good a0 s' /\ t_calls s' = t_calls (add_llm s) ++ [(SDialog, None)] /\
                           t_llm s' = t_llm (add_llm s) /\ t_ret_occ s' = t_ret_occ (add_llm s) /\
                           (false = true -> option_map c_allowed (flow_ctx (t_rh s')) = Some (bool_of o))) ->
               post a0 (match Faults.call_action reraises honours sc t SDialog 0 None false (add_llm s) with
                        | Finished r s' => (r, s')
                        | Continue _ s1 =>
                          match retrieval reraises honours sc cfg t s1 with
                          | Finished r s' => (r, s')
                          | Continue _ s2 => process_bot_message reraises honours sc refusal cfg t (llm_text t) (add_llm s2)
                          end
                        end)
                    (let '(raised, calls, occ) := spec_ret (t_calls s ++ [(SDialog, None)]) 0 in
                     if raised then (ie_reply, calls, 1)
                     else spec_rails SOut 0 (n_out cfg) (llm_text t) calls occ (fun calls => (TReply [llm_text t], calls, 2)) 2)).
    { intros o _ (s1 & Hc & Hg1 & Hcalls & Hl1 & Hr1 & _). rewrite Hc.
      pose proof (retrieval_spec a0 s1 Hg1) as HR.
      cbn [add_llm t_calls t_llm t_ret_occ] in Hcalls, Hl1, Hr1.
      rewrite Hcalls, Hr1, Hocc in HR.
      destruct (spec_ret (t_calls s ++ [(SDialog, None)]) 0) as [[raised calls] occ].
      destruct raised.
      - destruct HR as (s' & Hr & Hh & Hc' & Hl'). rewrite Hr.
        unfold post. cbn [fst snd]. repeat split; [exact Hc'|rewrite Hl', Hl1, Hl; reflexivity|left; exact Hh].
      - destruct HR as (v & s2 & Hr & Hg2 & Hc2 & Hl2 & Ho2). rewrite Hr.
        rewrite <- Hc2, <- Ho2.
        apply (process_bot_message_spec a0 (add_llm s2)); [apply good_add_llm; exact Hg2|].
        cbn [add_llm t_llm]. rewrite Hl2, Hl1, Hl. reflexivity. }
    destruct (sc t SDialog 0) eqn:Eo.
    - apply (Hd OAccept); [discriminate|exact H].
    - apply (Hd OReject); [discriminate|exact H].
    - destruct H as (s' & Hc & Hh & Hcalls & Hl'). rewrite Hc.
      unfold post. cbn [fst snd add_llm t_calls t_llm] in *. repeat split; [exact Hcalls|rewrite Hl', Hl; reflexivity|left; exact Hh].
  Qed.

  (* the gate invariant at a turn boundary: the flows' history exists and $skip_output_rails is off *)
  Definition inv (rh : list hev) : Prop :=
    exists a, actual rh = Some a /\ c_skip (ctx_of_rev a) = false.

  Theorem turn_v1_spec : forall rh,
    inv rh ->
    let x := turn_v1 reraises honours sc user_text llm_text refusal cfg t rh in
    (fst x, t_calls (snd x), t_llm (snd x)) = spec_turn /\ inv (t_rh (snd x)).
  Proof.
    intros rh (a0 & Ha & Hs) x. subst x. unfold turn_v1.
    set (s := mkT (HUser :: rh) [] 0 0).
    assert (Hg : good a0 s).
    { exists []. cbn [t_rh s app]. rewrite actual_push, Ha. cbn [step_hist]. repeat split. exact Hs. }
    pose proof (run_rails_spec a0 SIn (user_text t) spec_dialog
                               (dialog reraises honours sc llm_text refusal cfg t) 0 (n_in cfg) 0 s Hg eq_refl) as H.
    change (t_calls s) with (@nil (site * option string)) in H. change (t_ret_occ s) with 0 in H.
    change (spec_rails SIn 0 (n_in cfg) (user_text t) [] 0 spec_dialog 0) with spec_turn in H.
    destruct H as (H1 & H2 & H3 & H4).
    { intros s' Hg' Hl' Ho'. apply dialog_spec; [exact Hg'|exact Hl'|exact Ho']. }
    split.
    - destruct spec_turn as [[r c] l]. cbn [fst snd] in H1, H2, H3. rewrite H1, H2, H3. reflexivity.
    - destruct H4 as [Hh|(evs & Ha' & Hn & Hs')].
      + exists a0. split; [exact Hh|exact Hs].
      + eexists. split; [exact Ha'|exact Hs'].
  Qed.
End V1P.

(* ---------------------------------------------------------------------------------------- *)
(* consequences for conversations (Colang 1.0) *)

Section V1Conv.
  Variable (sc : script).
  Variables (user_text llm_text : nat -> string) (refusal : string).
  Variable (cfg : vcfg).
  Hypothesis H_status : String.eqb dispatch_failed_status v1_failed_status_test = true.
  Hypothesis H_hide : ie_has_hide = true.

  Notation spec t := (spec_turn sc user_text llm_text refusal cfg t).

  Definition obs_of (x : tres * calls_t * nat) : obs := mkObs (fst (fst x)) (snd (fst x)) (snd x).

  Lemma spec_refuse_reply : forall t calls occ,
    fst (spec_refuse sc refusal cfg t calls occ) = ie_reply \/ fst (spec_refuse sc refusal cfg t calls occ) = TReply [refusal].
  Proof.
    intros t calls occ. unfold spec_refuse, spec_ret.
    destruct (has_ret cfg); [destruct (sc t SRet occ)|]; cbn; auto.
  Qed.

  (* one category of rails: either every rail accepted and the continuation runs, or the first rail
     that did not accept decides: a raise gives the internal-error message, a rejection the refusal
     (or the internal-error message if the retrieval action raises while the refusal is produced) *)
  Lemma spec_rails_cases : forall t mk text cont nllm n k calls occ,
    (exists calls', spec_rails sc refusal cfg t mk k n text calls occ cont nllm = cont calls' /\
                    forall j, k <= j < k + n -> sc t (mk j) 0 = OAccept) \/
    (exists j, k <= j < k + n /\ (forall i, k <= i < j -> sc t (mk i) 0 = OAccept) /\
               ((sc t (mk j) 0 = ORaise /\
                 fst (fst (spec_rails sc refusal cfg t mk k n text calls occ cont nllm)) = ie_reply) \/
                (sc t (mk j) 0 = OReject /\
                 (fst (fst (spec_rails sc refusal cfg t mk k n text calls occ cont nllm)) = ie_reply \/
                  fst (fst (spec_rails sc refusal cfg t mk k n text calls occ cont nllm)) = TReply [refusal])))).
  Proof.
    intros t mk text cont nllm. induction n as [|n IH]; intros k calls occ.
    - left. exists calls. split; [reflexivity|]. intros j Hj. lia.
    - cbn [spec_rails]. destruct (sc t (mk k) 0) eqn:E.
      + destruct (IH (S k) (calls ++ [(mk k, Some text)]) occ) as [(c' & Hc & Hall)|(j & Hj & Hpre & Hcase)].
        * left. exists c'. split; [exact Hc|]. intros j Hj.
          destruct (Nat.eq_dec j k) as [->|Hne]; [exact E|apply Hall; lia].
        * right. exists j. split; [lia|]. split.
          { intros i Hi. destruct (Nat.eq_dec i k) as [->|Hne]; [exact E|apply Hpre; lia]. }
          exact Hcase.
      + right. exists k. split; [lia|]. split; [intros i Hi; lia|]. right. split; [exact E|].
        pose proof (spec_refuse_reply t (calls ++ [(mk k, Some text)]) occ) as H.
        destruct (spec_refuse sc refusal cfg t (calls ++ [(mk k, Some text)]) occ) as [r c]. cbn [fst] in *. exact H.
      + right. exists k. split; [lia|]. split; [intros i Hi; lia|]. left. split; [exact E|reflexivity].
  Qed.

  (* every turn yields a reply: the internal-error message, the refusal, or the LLM text *)
  Lemma spec_turn_reply : forall t,
    fst (fst (spec t)) = ie_reply \/ fst (fst (spec t)) = TReply [refusal] \/ fst (fst (spec t)) = TReply [llm_text t].
  Proof.
    intros t. unfold spec_turn.
    destruct (spec_rails_cases t SIn (user_text t) (spec_dialog sc llm_text refusal cfg t) 0 (n_in cfg) 0 [] 0)
      as [(c' & Hc & _)|(j & _ & _ & [[_ H]|[_ [H|H]]])]; try (rewrite H; auto; fail).
    rewrite Hc. unfold spec_dialog.
    destruct (sc t SDialog 0); try (left; reflexivity);
      (destruct (spec_ret sc cfg t (c' ++ [(SDialog, None)]) 0) as [[raised calls] occ];
       destruct raised; [left; reflexivity|];
       destruct (spec_rails_cases t SOut (llm_text t) (fun calls => (TReply [llm_text t], calls, 2)) 2 (n_out cfg) 0 calls occ)
         as [(c2 & Hc2 & _)|(j & _ & _ & [[_ H]|[_ [H|H]]])]; try (rewrite H; auto; fail);
       rewrite Hc2; right; right; reflexivity).
  Qed.

  (* fail closed: the LLM text is the reply only if every input rail and every output rail was
     consulted and accepted (and nothing else raised) *)
  Theorem spec_turn_llm_only_if_all_accept : forall t,
    TReply [llm_text t] <> ie_reply -> llm_text t <> refusal ->
    fst (fst (spec t)) = TReply [llm_text t] ->
    (forall k, k < n_in cfg -> sc t (SIn k) 0 = OAccept) /\ (forall k, k < n_out cfg -> sc t (SOut k) 0 = OAccept).
  Proof.
    intros t Hne1 Hne2 H. unfold spec_turn in H.
    assert (Hnr : TReply [llm_text t] <> TReply [refusal]) by (intros X; inversion X; contradiction).
    destruct (spec_rails_cases t SIn (user_text t) (spec_dialog sc llm_text refusal cfg t) 0 (n_in cfg) 0 [] 0)
      as [(c' & Hc & Hall)|(j & _ & _ & [[_ H']|[_ [H'|H']]])]; try (rewrite H' in H; congruence).
    split; [intros k Hk; apply Hall; lia|].
    rewrite Hc in H. unfold spec_dialog in H.
    destruct (sc t SDialog 0); try (cbn [fst] in H; congruence);
      (destruct (spec_ret sc cfg t (c' ++ [(SDialog, None)]) 0) as [[raised calls] occ];
       destruct raised; [cbn [fst] in H; congruence|];
       destruct (spec_rails_cases t SOut (llm_text t) (fun calls => (TReply [llm_text t], calls, 2)) 2 (n_out cfg) 0 calls occ)
         as [(c2 & Hc2 & Hall2)|(j & _ & _ & [[_ H']|[_ [H'|H']]])]; try (rewrite H' in H; congruence);
       intros k Hk; apply Hall2; lia).
  Qed.

  (* a raising rail action: the reply is the fixed internal-error message *)
  Theorem spec_turn_input_rail_raises : forall t k,
    k < n_in cfg -> (forall i, i < k -> sc t (SIn i) 0 = OAccept) -> sc t (SIn k) 0 = ORaise ->
    fst (fst (spec t)) = ie_reply.
  Proof.
    intros t k Hk Hpre Hr. unfold spec_turn.
    destruct (spec_rails_cases t SIn (user_text t) (spec_dialog sc llm_text refusal cfg t) 0 (n_in cfg) 0 [] 0)
      as [(c' & _ & Hall)|(j & Hj & Hpj & Hcase)].
    - rewrite Hall in Hr; [discriminate|lia].
    - destruct (Nat.lt_trichotomy j k) as [Hlt|[->|Hgt]].
      + destruct Hcase as [[Hx _]|[Hx _]]; rewrite Hpre in Hx; try discriminate; exact Hlt.
      + destruct Hcase as [[_ H]|[Hx _]]; [exact H|congruence].
      + rewrite Hpj in Hr; [discriminate|lia].
  Qed.

  Lemma inv_nil : inv [].
  Proof. exists []. split; reflexivity. Qed.

  (* no poison: whatever happened before, every turn is the turn of a fresh conversation *)
  Theorem conv_v1_memoryless : forall n t rh,
    inv rh ->
    fst (conv_v1 false true sc user_text llm_text refusal cfg t n rh) = map (fun i => obs_of (spec i)) (seq t n)
    /\ inv (snd (conv_v1 false true sc user_text llm_text refusal cfg t n rh)).
  Proof.
    induction n as [|n IH]; intros t rh Hinv; [split; [reflexivity|exact Hinv]|].
    cbn [conv_v1 seq map].
    pose proof (turn_v1_spec false true sc user_text llm_text refusal cfg t eq_refl eq_refl H_status H_hide rh Hinv) as H.
    cbv zeta in H. destruct H as (Hs & Hi).
    destruct (turn_v1 false true sc user_text llm_text refusal cfg t rh) as [r s]. cbn [fst snd] in Hs, Hi.
    assert (Hr : r = fst (fst (spec t))) by (rewrite <- Hs; reflexivity).
    assert (Hc : t_calls s = snd (fst (spec t))) by (rewrite <- Hs; reflexivity).
    assert (Hl : t_llm s = snd (spec t)) by (rewrite <- Hs; reflexivity).
    destruct (IH (S t) (t_rh s) Hi) as (IH1 & IH2).
    destruct (conv_v1 false true sc user_text llm_text refusal cfg (S t) n (t_rh s)) as [os rh'].
    cbn [fst snd] in IH1, IH2.
    destruct (spec_turn_reply t) as [Hx|[Hx|Hx]]; rewrite Hx in Hr; subst r; cbn [fst snd];
      (split; [|exact IH2]); unfold obs_of; rewrite Hx, <- Hc, <- Hl, IH1; reflexivity.
  Qed.
End V1Conv.

(* ---------------------------------------------------------------------------------------- *)
(* generate returns: no exceptional outcome when the dispatcher does not re-raise *)

Section Returns.
  Variables (honours : bool) (sc : script).
  Variables (user_text llm_text : nat -> string) (refusal : string) (cfg : vcfg).

  Definition no_escape (x : tres * tstate) : Prop := fst x <> TEscapes.

  Lemma call_action_no_escape : forall t st occ text keyed s s',
    call_action false honours sc t st occ text keyed s <> Finished TEscapes s'.
  Proof.
    intros t st occ text keyed s s'. unfold call_action.
    destruct (sc t st occ); unfold execute_action, runtime_result; cbv beta iota.
    - destruct keyed; [destruct (emit_allowed _ _ _)|]; discriminate.
    - destruct keyed; [destruct (emit_allowed _ _ _)|]; discriminate.
    - destruct (String.eqb dispatch_failed_status v1_failed_status_test).
      + destruct (if keyed then _ else _); [destruct ie_has_hide|]; discriminate.
      + destruct keyed; [destruct (emit_allowed _ _ _)|]; discriminate.
  Qed.

  Lemma retrieval_no_escape : forall t s s', retrieval false honours sc cfg t s <> Finished TEscapes s'.
  Proof.
    intros t s s'. unfold retrieval. destruct (has_ret cfg); [|discriminate].
    destruct (call_action false honours sc t SRet (t_ret_occ s) None false s) eqn:E; [discriminate|].
    intros H. inversion H; subst. exact (call_action_no_escape _ _ _ _ _ _ _ E).
  Qed.

  Lemma refuse_no_escape : forall t s, no_escape (refuse false honours sc refusal cfg t s).
  Proof.
    intros t s. unfold no_escape, refuse.
    destruct (retrieval false honours sc cfg t s) eqn:E.
    - destruct (emit_skip honours true s0); [|cbn; discriminate].
      destruct (flow_ctx (t_rh t0)); [destruct (c_skip c)|]; cbn; discriminate.
    - cbn. intros H. subst. exact (retrieval_no_escape _ _ _ E).
  Qed.

  Lemma run_rails_no_escape : forall t mk text cont n k s,
    (forall s', no_escape (cont s')) ->
    no_escape (run_rails false honours sc refusal cfg t mk k n text s cont).
  Proof.
    intros t mk text cont. induction n as [|n IH]; intros k s Hc; cbn [run_rails]; [apply Hc|].
    destruct (call_action false honours sc t (mk k) 0 (Some text) true s) eqn:E.
    - destruct (flow_allows s0) as [[|]|]; [apply IH; exact Hc|apply refuse_no_escape|unfold no_escape; cbn; discriminate].
    - unfold no_escape. cbn. intros H. subst. exact (call_action_no_escape _ _ _ _ _ _ _ E).
  Qed.

  Theorem turn_v1_returns : forall t rh,
    fst (turn_v1 false honours sc user_text llm_text refusal cfg t rh) <> TEscapes.
  Proof.
    intros t rh. unfold turn_v1. apply run_rails_no_escape. intros s'.
    unfold no_escape, dialog.
    destruct (call_action false honours sc t SDialog 0 None false (add_llm s')) eqn:E.
    - destruct (retrieval false honours sc cfg t s) eqn:E2.
      + unfold process_bot_message. destruct (flow_ctx _); [|cbn; discriminate].
        destruct (c_skip c); [cbn; discriminate|].
        apply run_rails_no_escape. intros s''. unfold no_escape. cbn. discriminate.
      + cbn. intros H. subst. exact (retrieval_no_escape _ _ _ E2).
    - cbn. intros H. subst. exact (call_action_no_escape _ _ _ _ _ _ _ E).
  Qed.

  Theorem conv_v1_returns : forall n t rh,
    Forall (fun o => o_res o <> TEscapes) (fst (conv_v1 false honours sc user_text llm_text refusal cfg t n rh)).
  Proof.
    induction n as [|n IH]; intros t rh; cbn [conv_v1]; [constructor|].
    pose proof (turn_v1_returns t rh) as H.
    destruct (turn_v1 false honours sc user_text llm_text refusal cfg t rh) as [r s]. cbn [fst] in H.
    destruct r.
    - specialize (IH (S t) (t_rh s)).
      destruct (conv_v1 false honours sc user_text llm_text refusal cfg (S t) n (t_rh s)) as [os rh'].
      cbn [fst] in *. constructor; [cbn; discriminate|exact IH].
    - contradiction.
    - cbn. constructor; [cbn; discriminate|constructor].
  Qed.
End Returns.

(* ---------------------------------------------------------------------------------------- *)
(* Colang 2.x *)

Section V2P.
  Variables (reset contained : bool) (sc : script).
  Variables (user_text llm_text : nat -> string) (refusal : string) (cfg : vcfg).

  Definition v2val (o : outcome) : option bool :=
    match o with OAccept => Some true | OReject => Some false | ORaise => None end.

  Lemma v2_value_spec : forall t st occ, v2_value false sc t st occ = Some (v2val (sc t st occ)).
  Proof.
    intros t st occ. unfold v2_value, execute_action, runtime_result.
    destruct (sc t st occ); cbv beta iota; try reflexivity;
      destruct (String.eqb dispatch_failed_status v2_failed_status_test); reflexivity.
  Qed.

  Lemma allows_v2val : forall o, allows (v2val o) = true <-> o = OAccept.
  Proof. destruct o; cbn; split; intros H; try reflexivity; discriminate. Qed.

  Lemma rails2_cases : forall t mk text n k calls,
    (exists calls', rails2 false sc t mk k n text calls = (Some true, calls') /\
                    forall j, k <= j < k + n -> sc t (mk j) 0 = OAccept) \/
    (exists calls' j, rails2 false sc t mk k n text calls = (Some false, calls') /\
                      k <= j < k + n /\ sc t (mk j) 0 <> OAccept).
  Proof.
    intros t mk text. induction n as [|n IH]; intros k calls.
    - left. exists calls. split; [reflexivity|]. intros j Hj. lia.
    - cbn [rails2]. rewrite v2_value_spec.
      destruct (allows (v2val (sc t (mk k) 0))) eqn:E.
      + apply allows_v2val in E.
        destruct (IH (S k) (calls ++ [(mk k, text)])) as [(c' & Hc & Hall)|(c' & j & Hc & Hj & Hn)].
        * left. exists c'. split; [exact Hc|]. intros j Hj.
          destruct (Nat.eq_dec j k) as [->|Hne]; [exact E|apply Hall; lia].
        * right. exists c', j. split; [exact Hc|]. split; [lia|exact Hn].
      + right. exists (calls ++ [(mk k, text)]), k. split; [reflexivity|]. split; [lia|].
        intros H. apply allows_v2val in H. congruence.
  Qed.

  Definition clean : v2state := mkS2 false false.

  (* one turn from a clean state: generate returns a reply, the state is clean again, and the LLM
     text is the reply only if every input and every output rail accepted *)
  Theorem turn_v2_clean : forall t,
    reset = true -> (contained = true \/ sc t SDialog 0 <> ORaise) ->
    let x := turn_v2 false reset contained sc user_text llm_text refusal cfg t clean in
    snd (fst x) = clean /\
    (fst (fst x) = TReply [refusal] \/ fst (fst x) = TReply [llm_text t] \/ fst (fst x) = TReply []) /\
    (llm_text t <> refusal -> fst (fst x) = TReply [llm_text t] ->
     (forall k, k < n_in cfg -> sc t (SIn k) 0 = OAccept) /\ (forall k, k < n_out cfg -> sc t (SOut k) 0 = OAccept)) /\
    (fst (fst x) = TReply [] -> sc t SDialog 0 = ORaise).
  Proof.
    intros t Hreset Hd x. subst x. unfold turn_v2. change (dead clean) with false. cbv iota.
    assert (Hsay : forall text calls,
               (text = None -> contained = true) ->
               let y := say false reset contained sc refusal cfg t text clean calls in
               snd (fst y) = clean /\
               (fst (fst y) = TReply [refusal] \/
                (fst (fst y) = TReply (match text with Some s => [s] | None => [] end) /\
                 forall k, k < n_out cfg -> sc t (SOut k) 0 = OAccept))).
    { intros text calls Hc y. subst y. unfold say. change (oip clean) with false. change (dead clean) with false. cbv iota.
      destruct (rails2_cases t SOut text (n_out cfg) 0 calls) as [(c' & Hr & Hall)|(c' & j & Hr & _ & _)]; rewrite Hr.
      - destruct text as [s|]; cbn [fst snd].
        + split; [reflexivity|]. right. split; [reflexivity|]. intros k Hk. apply Hall. lia.
        + rewrite (Hc eq_refl). cbn [negb]. split; [reflexivity|]. right. split; [reflexivity|]. intros k Hk. apply Hall. lia.
      - cbn [fst snd]. rewrite Hreset. cbn [negb]. split; [reflexivity|]. left. reflexivity. }
    destruct (rails2_cases t SIn (Some (user_text t)) (n_in cfg) 0 []) as [(c' & Hr & Hall)|(c' & j & Hr & _ & _)]; rewrite Hr.
    - assert (Hret : (if has_ret cfg then v2_value false sc t SRet 0 else Some None) <> None).
      { destruct (has_ret cfg); [rewrite v2_value_spec|]; discriminate. }
      destruct (if has_ret cfg then v2_value false sc t SRet 0 else Some None) eqn:Er; [|contradiction].
      destruct (sc t SDialog 0) eqn:Eg.
      + destruct (Hsay (Some (llm_text t)) ((if has_ret cfg then c' ++ [(SRet, None)] else c') ++ [(SDialog, None)])) as (H1 & H2);
          [discriminate|].
        split; [exact H1|]. split; [destruct H2 as [H2|[H2 _]]; rewrite H2; auto|].
        split; [|intros H; destruct H2 as [H2|[H2 _]]; rewrite H2 in H; discriminate].
        intros Hne H. destruct H2 as [H2|[_ H2]]; [rewrite H2 in H; inversion H as [Hx]; symmetry in Hx; contradiction|].
        split; [intros k Hk; apply Hall; lia|exact H2].
      + destruct (Hsay (Some (llm_text t)) ((if has_ret cfg then c' ++ [(SRet, None)] else c') ++ [(SDialog, None)])) as (H1 & H2);
          [discriminate|].
        split; [exact H1|]. split; [destruct H2 as [H2|[H2 _]]; rewrite H2; auto|].
        split; [|intros H; destruct H2 as [H2|[H2 _]]; rewrite H2 in H; discriminate].
        intros Hne H. destruct H2 as [H2|[_ H2]]; [rewrite H2 in H; inversion H as [Hx]; symmetry in Hx; contradiction|].
        split; [intros k Hk; apply Hall; lia|exact H2].
      + destruct Hd as [Hd|Hd]; [|congruence].
        destruct (Hsay None ((if has_ret cfg then c' ++ [(SRet, None)] else c') ++ [(SDialog, None)])) as (H1 & H2);
          [intros _; exact Hd|].
        split; [exact H1|]. split; [destruct H2 as [H2|[H2 _]]; rewrite H2; auto|].
        split; [|intros _; reflexivity].
        intros Hne H. destruct H2 as [H2|[H2 _]]; rewrite H2 in H; [inversion H as [Hx]; symmetry in Hx; contradiction|discriminate].
    - destruct (Hsay (Some refusal) c') as (H1 & H2); [discriminate|].
      split; [exact H1|]. split; [destruct H2 as [H2|[H2 _]]; rewrite H2; auto|].
      split; [|intros H; destruct H2 as [H2|[H2 _]]; rewrite H2 in H; discriminate].
      intros Hne H. destruct H2 as [H2|[H2 _]]; rewrite H2 in H; inversion H as [Hx]; symmetry in Hx; contradiction.
  Qed.

  (* no poison: after any number of turns with any faults the state is clean, every turn replied *)
  Theorem conv_v2_clean : forall n t,
    reset = true -> (contained = true \/ forall i, sc i SDialog 0 <> ORaise) ->
    snd (conv_v2 false reset contained sc user_text llm_text refusal cfg t n clean) = clean /\
    List.length (fst (conv_v2 false reset contained sc user_text llm_text refusal cfg t n clean)) = n /\
    Forall (fun o => exists us, o_res o = TReply us)
           (fst (conv_v2 false reset contained sc user_text llm_text refusal cfg t n clean)).
  Proof.
    induction n as [|n IH]; intros t Hr Hd; cbn [conv_v2]; [repeat split; constructor|].
    assert (Hd' : contained = true \/ sc t SDialog 0 <> ORaise) by (destruct Hd as [Hd|Hd]; [left; exact Hd|right; apply Hd]).
    pose proof (turn_v2_clean t Hr Hd') as H. cbv zeta in H. destruct H as (H1 & H2 & _).
    destruct (turn_v2 false reset contained sc user_text llm_text refusal cfg t clean) as [[r st'] calls].
    cbn [fst snd] in H1, H2. subst st'.
    destruct (IH (S t) Hr Hd) as (I1 & I2 & I3).
    destruct (conv_v2 false reset contained sc user_text llm_text refusal cfg (S t) n clean) as [os st''].
    cbn [fst snd] in I1, I2, I3.
    destruct H2 as [ -> | [ -> | -> ] ]; cbn [fst snd List.length];
      (split; [exact I1|]; split; [rewrite I2; reflexivity|]; constructor; [eexists; reflexivity|exact I3]).
  Qed.

  Theorem turn_v2_returns : forall t st,
    fst (fst (turn_v2 false reset contained sc user_text llm_text refusal cfg t st)) <> TEscapes.
  Proof.
    intros t st. unfold turn_v2.
    assert (Hsay : forall text st calls, fst (fst (say false reset contained sc refusal cfg t text st calls)) <> TEscapes).
    { intros text st0 calls. unfold say. destruct (oip st0).
      - destruct text; cbn; discriminate.
      - destruct (rails2_cases t SOut text (n_out cfg) 0 calls) as [(c' & Hr & _)|(c' & j & Hr & _)]; rewrite Hr;
          [destruct text|]; cbn; discriminate. }
    destruct (dead st); [cbn; discriminate|].
    destruct (rails2_cases t SIn (Some (user_text t)) (n_in cfg) 0 []) as [(c' & Hr & _)|(c' & j & Hr & _)]; rewrite Hr;
      [|apply Hsay].
    destruct (has_ret cfg); [rewrite v2_value_spec|]; (destruct (sc t SDialog 0); apply Hsay).
  Qed.
End V2P.

(* ---------------------------------------------------------------------------------------- *)
(* the statements are FALSE of the code as it was: witnesses (regression documentation) *)

Definition sc_stale : script :=
  fun t s o => match t, s with
               | 1, SIn 0 => OReject | 1, SRet => ORaise
               | 2, SIn 0 => OReject
               | _, _ => OAccept end.

(* compute_context over ALL events (honours = false): the input rail rejects in turn 2 and the LLM text is returned *)
Lemma v1_stale_context_witness :
  sc_stale 2 (SIn 0) 0 = OReject /\
  nth_error (map o_res (fst (conv_v1 false false sc_stale (fun _ => "user") (fun _ => "LLM") "REFUSED" (mkV 2 2 true) 0 3 [])))
            2 = Some (TReply ["LLM"]).
Proof. vm_compute. split; reflexivity. Qed.

Definition sc_outblock : script :=
  fun t s o => match t, s with 0, SOut 0 => ORaise | 1, SOut 0 => OReject | _, _ => OAccept end.

(* guardrails.co without the reset on failure: after turn 0 no output rail is ever called again *)
Lemma v2_flag_witness :
  sc_outblock 1 (SOut 0) 0 = OReject /\
  nth_error (fst (conv_v2 false false true sc_outblock (fun _ => "user") (fun _ => "LLM") "REFUSED" (mkV 2 2 true) 0 2 (mkS2 false false)))
            1 = Some (mkObs (TReply ["LLM"]) [(SIn 0, Some "user"); (SIn 1, Some "user"); (SRet, None); (SDialog, None)] 0).
Proof. vm_compute. split; reflexivity. Qed.

Definition sc_gen : script := fun t s o => match t, s with 0, SDialog => ORaise | _, _ => OAccept end.

(* action-event errors not contained: a raising dialog action silences the conversation *)
Lemma v2_dialog_witness :
  nth_error (fst (conv_v2 false true false sc_gen (fun _ => "user") (fun _ => "LLM") "REFUSED" (mkV 2 2 true) 0 2 (mkS2 false false)))
            1 = Some (mkObs (TReply []) [] 0).
Proof. vm_compute. reflexivity. Qed.

(* non-vacuity: a conversation with faults at every kind of site, under the repaired flags *)
Definition sc_mixed : script :=
  fun t s o => match t, s with
               | 0, SIn 1 => ORaise | 1, SOut 0 => ORaise | 2, SDialog => ORaise | 3, SRet => ORaise
               | 4, SIn 0 => OReject
               | _, _ => OAccept end.

Example conv_v1_mixed :
  map o_res (fst (conv_v1 false true sc_mixed (fun _ => "user") (fun _ => "LLM") "REFUSED" (mkV 2 2 true) 0 6 []))
  = [TReply ie_utterances; TReply ie_utterances; TReply ie_utterances; TReply ie_utterances; TReply ["REFUSED"]; TReply ["LLM"]].
Proof. vm_compute. reflexivity. Qed.

Example conv_v2_mixed :
  map o_res (fst (conv_v2 false true true sc_mixed (fun _ => "user") (fun _ => "LLM") "REFUSED" (mkV 2 2 true) 0 6 (mkS2 false false)))
  = [TReply ["REFUSED"]; TReply ["REFUSED"]; TReply []; TReply ["LLM"]; TReply ["REFUSED"]; TReply ["LLM"]].
Proof. vm_compute. reflexivity. Qed.

(* sanity examples of the model (kept here so that Pipe/Faults.v builds whatever the source says) *)
Example v1_input_fault :
  fst (conv_v1 false true (fun t s o => match t, s with 0, SIn 1 => ORaise | _, _ => OAccept end)
               ex_user ex_llm "REFUSED" ex_cfg 0 2 [])
  = [mkObs (TReply [v1_internal_error_message]) [(SIn 0, Some "user"); (SIn 1, Some "user")] 0;
     mkObs (TReply ["LLM"]) [(SIn 0, Some "user"); (SIn 1, Some "user"); (SDialog, None); (SRet, None);
                             (SOut 0, Some "LLM"); (SOut 1, Some "LLM")] 2].
Proof. vm_compute. reflexivity. Qed.

(* the shipped compute_context (honours = false): a dialog fault in turn 0 makes every later turn a refusal *)
Example v1_stale_refusal :
  map o_res (fst (conv_v1 false false (fun t s o => match t, s with 0, SDialog => ORaise | _, _ => OAccept end)
                          ex_user ex_llm "REFUSED" ex_cfg 0 2 []))
  = [TReply [v1_internal_error_message]; TReply ["REFUSED"]].
Proof. vm_compute. reflexivity. Qed.
