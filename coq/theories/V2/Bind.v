(* C08 - parameter binding, return values and per-instance contexts of Colang 2 flow calls.

   Transcription (definitions only) of
     nemoguardrails/colang/v2_x/runtime/statemachine.py
        create_flow_instance   (named arguments, `$i` positional overrides in `arguments`,
                                defaults evaluated in the EMPTY context, return-member defaults)
        _start_flow            (positional -> context; the surplus check exactly as written:
                                it enumerates `flow_state.arguments`, which already holds the
                                `$i` keys appended by create_flow_instance)
        slide: Assignment / Return / Global cases, _get_eval_context
        slide: send StartFlow (reserved keys added to the event arguments)
     nemoguardrails/colang/v2_x/runtime/flows.py      FlowState.finished_event/_create_out_event
     nemoguardrails/colang/v2_x/lang/transformer.py   call arguments -> {"$0":e0,..,name:e}
     nemoguardrails/colang/v2_x/lang/expansion.py     `$x = await f(..)` ->
                                start f(..) as $ref ; match $ref.Finished() as $ev ;
                                $x = $ev.arguments.return_value

   A Python dict is an association list in insertion order (assignment to an existing key
   keeps its position).  Values are Val.Value.value.  Expression evaluation is a Section
   function [eval : ctx -> expr -> value] (eval_expression with the variable bindings of the
   given context); expressions that raise are outside the model.
   Aliasing of a context between two instances (StartFlow(context=$self.context)) is
   modelled with an explicit heap of cells: an instance owns a cell index, two instances
   that share a context own the same cell. *)
From Coq Require Import ZArith List String Ascii Bool Decimal DecimalNat DecimalString.
From NG Require Import Val.Value.
Import ListNotations.
Open Scope string_scope.

(* ---------------------------------------------------------------------------------- *)
(* insertion-ordered dicts                                                             *)

Section Assoc.
  Context {A : Type}.

  Fixpoint aget (k : string) (d : list (string * A)) : option A :=
    match d with
    | [] => None
    | (k', v) :: r => if String.eqb k k' then Some v else aget k r
    end.

  (* d[k] = v *)
  Fixpoint aset (k : string) (v : A) (d : list (string * A)) : list (string * A) :=
    match d with
    | [] => [(k, v)]
    | (k', v') :: r => if String.eqb k k' then (k', v) :: r else (k', v') :: aset k v r
    end.

  Definition ahas (k : string) (d : list (string * A)) : bool :=
    match aget k d with Some _ => true | None => false end.

  (* d.update(e) *)
  Definition aupdate (d e : list (string * A)) : list (string * A) :=
    fold_left (fun acc kv => aset (fst kv) (snd kv) acc) e d.
End Assoc.

Definition ctx := list (string * value).

(* dict.get(k, None) *)
Definition getN (k : string) (c : ctx) : value :=
  match aget k c with Some v => v | None => VNone end.

Definition mem (k : string) (l : list string) : bool := existsb (String.eqb k) l.

Fixpoint nodupb (l : list string) : bool :=
  match l with
  | [] => true
  | x :: r => negb (mem x r) && nodupb r
  end.

(* f"${idx}" *)
Definition pos_key (i : nat) : string :=
  String "$"%char (NilEmpty.string_of_uint (Nat.to_uint i)).

(* identifiers never start with `$` (var_name tokens have the `$` stripped by the transformer) *)
Definition plain (s : string) : bool :=
  match s with
  | String c _ => negb (Ascii.eqb c "$"%char)
  | EmptyString => true
  end.

(* keys of the StartFlow event that the runtime itself writes *)
Definition reserved_keys : list string :=
  ["flow_id"; "flow_instance_uid"; "activated"; "source_flow_instance_uid"; "source_head_uid";
   "flow_hierarchy_position"; "context"].

Fixpoint prefixb (p s : string) : bool :=
  match p with
  | EmptyString => true
  | String c p' => match s with
                   | EmptyString => false
                   | String d s' => Ascii.eqb c d && prefixb p' s'
                   end
  end.

Fixpoint dropn (n : nat) (s : string) : string :=
  match n, s with
  | O, _ => s
  | S n', String _ s' => dropn n' s'
  | S _, EmptyString => EmptyString
  end.

Definition global_key (x : string) : string := "_global_" ++ x.
Definition is_global_key (k : string) : bool := prefixb "_global_" k.

(* ---------------------------------------------------------------------------------- *)

Section Binding.
  Variable expr : Type.
  (* eval_expression(e, context) *)
  Variable eval : ctx -> expr -> value.

  (* FlowParamDef / FlowReturnMemberDef *)
  Record param := mkParam { p_name : string; p_default : option expr }.

  (* eval_expression(default_value_expr, {}) if default_value_expr else None *)
  Definition default_val (d : option expr) : value :=
    match d with Some e => eval [] e | None => VNone end.

  (* ---- create_flow_instance ---- *)

  (* "Add all the flow parameters" *)
  Fixpoint cfi_named (ps : list param) (ev : ctx) (args c : ctx) : ctx * ctx :=
    match ps with
    | [] => (args, c)
    | p :: ps' =>
        let v := match aget (p_name p) ev with
                 | Some v => v
                 | None => default_val (p_default p)
                 end in
        cfi_named ps' ev (aset (p_name p) v args) (aset (p_name p) v c)
    end.

  (* "Add the positional flow parameter identifiers" (context is NOT touched here) *)
  Fixpoint cfi_pos (ps : list param) (idx : nat) (ev args : ctx) : ctx :=
    match ps with
    | [] => args
    | p :: ps' =>
        let args' := match aget (pos_key idx) ev with
                     | Some v => aset (pos_key idx) v (aset (p_name p) v args)
                     | None => args
                     end in
        cfi_pos ps' (S idx) ev args'
    end.

  (* "Add all flow return members" *)
  Fixpoint cfi_ret (rs : list param) (c : ctx) : ctx :=
    match rs with
    | [] => c
    | r :: rs' => cfi_ret rs' (aset (p_name r) (default_val (p_default r)) c)
    end.

  Inductive cfi_res :=
  | CfiSharedWithParams              (* ColangRuntimeError: Context cannot be shared to flows with parameters *)
  | CfiOk (args c : ctx).

  (* [shared] = Some c0 when "context" is in event_arguments (c0 = current content of the
     shared dict; the aliasing itself is the machine's business), None otherwise *)
  Definition create_flow_instance (ps rs : list param) (ev : ctx) (shared : option ctx) : cfi_res :=
    match shared, ps with
    | Some _, _ :: _ => CfiSharedWithParams
    | _, _ =>
        let c0 := match shared with Some c => c | None => [] end in
        let '(args, c) := cfi_named ps ev [] c0 in
        CfiOk (cfi_pos ps 0 ev args) (cfi_ret rs c)
    end.

  (* ---- _start_flow (non-main flows) ----
        last_idx = -1
        for idx, arg in enumerate(flow_state.arguments):
            pos_arg = f"${idx}"; last_idx = idx
            if pos_arg in event_arguments: flow_state.context[arg] = event_arguments[pos_arg]
            else: break
        if f"${last_idx+1}" in event_arguments: raise ColangRuntimeError
     [next] is last_idx+1. *)
  Fixpoint sf_loop (ks : list string) (idx : nat) (ev c : ctx) (next : nat) : ctx * nat :=
    match ks with
    | [] => (c, next)
    | a :: r =>
        match aget (pos_key idx) ev with
        | Some v => sf_loop r (S idx) ev (aset a v c) (S idx)
        | None => (c, S idx)
        end
    end.

  Definition start_flow (args ev c : ctx) : option ctx :=
    let '(c', next) := sf_loop (map fst args) 0 ev c 0 in
    if ahas (pos_key next) ev then None else Some c'.

  Inductive bound :=
  | BSharedWithParams
  | BTooMany                         (* ColangRuntimeError: To many parameters provided in start of flow *)
  | Bound (args c : ctx).

  Definition bind_in (ps rs : list param) (ev : ctx) (shared : option ctx) : bound :=
    match create_flow_instance ps rs ev shared with
    | CfiSharedWithParams => BSharedWithParams
    | CfiOk args c =>
        match start_flow args ev c with
        | None => BTooMany
        | Some c' => Bound args c'
        end
    end.

  (* the ordinary call: a fresh, empty context *)
  Definition bind (ps rs : list param) (ev : ctx) : bound := bind_in ps rs ev None.

  (* ---- what the specification says, on an evaluated argument dict ---- *)

  (* the positional keys present are exactly $0 .. $(k-1) (what the transformer produces) *)
  Definition pos_contig (ev : ctx) (k : nat) : Prop := forall i, ahas (pos_key i) ev = (i <? k)%nat.

  (* positional argument i if given, else the named argument, else the declared default, else None *)
  Definition ev_value (ev : ctx) (i : nat) (p : param) : value :=
    match aget (pos_key i) ev with
    | Some v => v
    | None => match aget (p_name p) ev with
              | Some v => v
              | None => default_val (p_default p)
              end
    end.

  (* ---- call syntax -> Spec.arguments (transformer.py) ----
     simple_arguments loop (`f 1 $a=2 3`): positional arguments are numbered in order of
     appearance wherever they stand; __parse_classical_arguments (`f(1, a=2)`) is the same
     loop but rejects a positional argument after a named one at parse time. *)
  Inductive arg := APos (e : expr) | ANamed (n : string) (e : expr).

  Fixpoint parse_args (l : list arg) (idx : nat) (acc : list (string * expr)) : list (string * expr) :=
    match l with
    | [] => acc
    | APos e :: r => parse_args r (S idx) (aset (pos_key idx) e acc)
    | ANamed n e :: r => parse_args r idx (aset n e acc)
    end.

  (* _evaluate_arguments *)
  Definition eval_args (c : ctx) (d : list (string * expr)) : ctx :=
    map (fun ke => (fst ke, eval c (snd ke))) d.

  (* values the runtime writes itself *)
  Record reserved := mkReserved {
    r_flow_id : value; r_instance_uid : value; r_source_uid : value; r_head_uid : value; r_hier : value }.

  (* _expand_start_element/_expand_activate_element: spec.arguments.update({flow_id, flow_instance_uid
     [, activated]}); slide(send): event.arguments.update({source_flow_instance_uid, source_head_uid});
     .update({flow_hierarchy_position}) *)
  Definition start_event_args (R : reserved) (activated : bool) (evargs : ctx) : ctx :=
    let a1 := aset "flow_instance_uid" (r_instance_uid R) (aset "flow_id" (r_flow_id R) evargs) in
    let a2 := if activated then aset "activated" (VBool true) a1 else a1 in
    aset "flow_hierarchy_position" (r_hier R)
      (aset "source_head_uid" (r_head_uid R) (aset "source_flow_instance_uid" (r_source_uid R) a2)).

  (* FlowState.start_event, used by _finish_flow/_abort_flow to RESTART an activated flow:
        arguments = {flow_instance_uid, flow_id, source_flow_instance_uid, source_head_uid,
                     flow_hierarchy_position, activated}
        arguments.update(self.arguments)
        event.arguments.update({"source_flow_instance_uid": ...})
     i.e. the successor instance is started from the predecessor's `arguments` (the parameter
     values bound at ITS start and the `$i` keys), not from its context. *)
  Definition restart_event_args (R : reserved) (activated : value) (args : ctx) : ctx :=
    aset "source_flow_instance_uid" (r_source_uid R)
      (aupdate [("flow_instance_uid", r_instance_uid R); ("flow_id", r_flow_id R);
                ("source_flow_instance_uid", r_source_uid R); ("source_head_uid", r_head_uid R);
                ("flow_hierarchy_position", r_hier R); ("activated", activated)] args).

  (* the arguments of the caller's `match FlowStarted(...)`.
     [with_args] = true: the source passes the complete call-argument dict (flow_id,
     flow_instance_uid AND every call argument; without `activated` and without the keys slide
     adds); false: exactly {flow_id, flow_instance_uid}.  Which one the current source does is
     read by translator/gen_c08.py (Gen/C08Consts.v).  [evargs] are the call arguments as
     evaluated WHEN THE EVENT ARRIVES (get_event_from_element evaluates a match pattern at
     matching time), which need not be the values sent with StartFlow. *)
  Definition started_pattern (with_args : bool) (R : reserved) (evargs : ctx) : ctx :=
    if with_args
    then aset "flow_instance_uid" (r_instance_uid R) (aset "flow_id" (r_flow_id R) evargs)
    else [("flow_id", r_flow_id R); ("flow_instance_uid", r_instance_uid R)].

  (* FlowState._create_out_event *)
  Definition out_event_args (uid flow_id : value) (args : ctx) (extra : ctx) : ctx :=
    aupdate (aupdate [("source_flow_instance_uid", uid); ("flow_instance_uid", uid); ("flow_id", flow_id)] args) extra.

  Definition started_args (uid flow_id : value) (args : ctx) : ctx := out_event_args uid flow_id args [].

  (* FlowState.finished_event *)
  Definition finished_args (uid flow_id : value) (args c : ctx) : ctx :=
    out_event_args uid flow_id args
      (match aget "_return_value" c with Some v => [("return_value", v)] | None => [] end).

  (* _create_event_reference: new_event.arguments.update(event.arguments) *)
  Definition event_ref_args (pattern event : ctx) : ctx := aupdate pattern event.

  (* what the specification says parameter number i receives *)
  Fixpoint pos_exprs (l : list arg) : list expr :=
    match l with
    | [] => []
    | APos e :: r => e :: pos_exprs r
    | ANamed _ _ :: r => pos_exprs r
    end.

  Fixpoint named_names (l : list arg) : list string :=
    match l with
    | [] => []
    | APos _ :: r => named_names r
    | ANamed n _ :: r => n :: named_names r
    end.

  (* the (last) named argument called n *)
  Fixpoint named_expr (n : string) (l : list arg) : option expr :=
    match l with
    | [] => None
    | APos _ :: r => named_expr n r
    | ANamed m e :: r =>
        match named_expr n r with
        | Some e' => Some e'
        | None => if String.eqb n m then Some e else None
        end
    end.

  Definition spec_value (cc : ctx) (l : list arg) (i : nat) (p : param) : value :=
    match nth_error (pos_exprs l) i with
    | Some e => eval cc e
    | None => match named_expr (p_name p) l with
              | Some e => eval cc e
              | None => default_val (p_default p)
              end
    end.

  (* no parameter bound both positionally and by name; no more positional arguments than
     parameters *)
  Definition well_formed_call (ps : list param) (l : list arg) : bool :=
    (List.length (pos_exprs l) <=? List.length ps)%nat
    && forallb (fun p => negb (mem (p_name p) (named_names l))) (firstn (List.length (pos_exprs l)) ps).

  (* what the grammar guarantees about a call: argument names are identifiers *)
  Definition syntactic_call (l : list arg) : bool := forallb plain (named_names l).

  (* a signature: distinct identifier names, none of them a key the runtime writes itself,
     return members distinct from the parameters *)
  Definition wf_signature (ps rs : list param) : bool :=
    nodupb (map p_name ps)
    && forallb (fun p => plain (p_name p) && negb (mem (p_name p) reserved_keys)) ps
    && forallb (fun r => negb (mem (p_name r) (map p_name ps))) rs.

  (* ---- per-instance contexts ---- *)

  Record mstate := mkM {
    m_cell : nat -> option nat;      (* FlowState.context of instance uid = heap cell *)
    m_heap : nat -> ctx;
    m_args : nat -> ctx;             (* FlowState.arguments *)
    m_gctx : ctx;                    (* State.context *)
    m_next : nat                     (* next fresh cell *)
  }.

  Definition upd {B} (f : nat -> B) (k : nat) (v : B) : nat -> B :=
    fun k' => if Nat.eqb k' k then v else f k'.

  Definition ctx_of (st : mstate) (i : nat) : ctx :=
    match m_cell st i with Some c => m_heap st c | None => [] end.

  (* initial state: the main instance 0 with an empty context *)
  Definition m_init : mstate :=
    mkM (fun i => if Nat.eqb i 0 then Some 0 else None)%nat (fun _ => []) (fun _ => []) [] 1.

  Inductive err := EKey | ETooMany | ESharedWithParams | ENoReturnValue.
  Inductive res (T : Type) := Ok (x : T) | Err (e : err).
  Arguments Ok {T} x.
  Arguments Err {T} e.

  (* _get_eval_context: a copy of the instance context in which every `_global_x` key is
     linked to state.context[x] (KeyError if absent) *)
  Fixpoint link_globals (g c : ctx) : option ctx :=
    match c with
    | [] => Some []
    | (k, v) :: r =>
        match link_globals g r with
        | None => None
        | Some r' =>
            if is_global_key k then
              match aget (dropn 8 k) g with
              | Some gv => Some ((k, gv) :: r')
              | None => None
              end
            else Some ((k, v) :: r')
        end
    end.

  Definition eval_ctx (st : mstate) (i : nat) : option ctx :=
    match m_cell st i with
    | None => None
    | Some c => link_globals (m_gctx st) (m_heap st c)
    end.

  (* Assignment: `if f"_global_{key}" in flow_state.context: state.context[key] = v
                  else: flow_state.context[key] = v` *)
  Definition assign_val (st : mstate) (i : nat) (k : string) (v : value) : res mstate :=
    match m_cell st i with
    | None => Err EKey
    | Some c =>
        if ahas (global_key k) (m_heap st c)
        then Ok (mkM (m_cell st) (m_heap st) (m_args st) (aset k v (m_gctx st)) (m_next st))
        else Ok (mkM (m_cell st) (upd (m_heap st) c (aset k v (m_heap st c))) (m_args st) (m_gctx st) (m_next st))
    end.

  Inductive op :=
  | OAssign (i : nat) (k : string) (e : expr)
  | OGlobal (i : nat) (x : string)
  | OStart (caller callee : nat) (ps rs : list param) (R : reserved) (activated : bool) (d : list (string * expr))
  | OStartShared (caller callee : nat) (rs : list param)     (* send StartFlow(.., context=$self.context) *)
  | OReturn (i : nat) (e : option expr)
  | OAwaitAssign (caller callee : nat) (uid flow_id : value) (x : string).

  Definition step (st : mstate) (o : op) : res mstate :=
    match o with
    | OAssign i k e =>
        match eval_ctx st i with
        | None => Err EKey
        | Some ec => assign_val st i k (eval ec e)
        end
    | OGlobal i x =>
        (* flow_state.context[f"_global_{x}"] = None; if x not in state.context: state.context[x] = None *)
        match m_cell st i with
        | None => Err EKey
        | Some c =>
            Ok (mkM (m_cell st) (upd (m_heap st) c (aset (global_key x) VNone (m_heap st c))) (m_args st)
                    (if ahas x (m_gctx st) then m_gctx st else aset x VNone (m_gctx st)) (m_next st))
        end
    | OStart caller callee ps rs R act d =>
        match eval_ctx st caller with
        | None => Err EKey
        | Some ec =>
            match bind ps rs (start_event_args R act (eval_args ec d)) with
            | BSharedWithParams => Err ESharedWithParams
            | BTooMany => Err ETooMany
            | Bound a c =>
                Ok (mkM (upd (m_cell st) callee (Some (m_next st))) (upd (m_heap st) (m_next st) c)
                        (upd (m_args st) callee a) (m_gctx st) (S (m_next st)))
            end
        end
    | OStartShared caller callee rs =>
        match m_cell st caller with
        | None => Err EKey
        | Some c =>
            Ok (mkM (upd (m_cell st) callee (Some c)) (upd (m_heap st) c (cfi_ret rs (m_heap st c)))
                    (upd (m_args st) callee []) (m_gctx st) (m_next st))
        end
    | OReturn i e =>
        match m_cell st i, eval_ctx st i with
        | Some c, Some ec =>
            let v := match e with Some e => eval ec e | None => VNone end in
            Ok (mkM (m_cell st) (upd (m_heap st) c (aset "_return_value" v (m_heap st c))) (m_args st) (m_gctx st) (m_next st))
        | _, _ => Err EKey
        end
    | OAwaitAssign caller callee uid fid x =>
        (* the matched FlowFinished event of the callee; the reference merges the match
           pattern (the callee's own finished_event at that moment) with the event *)
        let fin := finished_args uid fid (m_args st callee) (ctx_of st callee) in
        match aget "return_value" (event_ref_args fin fin) with
        | None => Err ENoReturnValue        (* `.arguments.return_value` raises: the caller fails *)
        | Some v => assign_val st caller x v
        end
    end.

  Fixpoint run (st : mstate) (os : list op) : res mstate :=
    match os with
    | [] => Ok st
    | o :: r => match step st o with Ok st' => run st' r | Err e => Err e end
    end.

  (* ---- _get_reference_activated_flow_instance ----
     `activate f(..)` of a flow that already has activated instances: is there a reference
     instance "with exactly the same parameters"?  Transcription of the per-parameter test

        val = activated_flow.arguments[arg.name]                         (KeyError if absent)
        matched  = arg.name in event.arguments and val == event.arguments[arg.name]
        matched |= f"${idx}" in event.arguments and val == event.arguments[f"${idx}"]
        matched |= (arg.name not in event.arguments and f"${idx}" not in event.arguments
                    and arg.default_value_expr is not None
                    and val == eval_expression(arg.default_value_expr, {}))
        if not matched: matching_parameters = False; break

     [veq] is Python's `==` on values (True == 1 == 1.0, dicts unordered, ...). *)
  Variable veq : value -> value -> bool.

  Definition param_matched (ev : ctx) (val : value) (idx : nat) (p : param) : bool :=
    (match aget (p_name p) ev with Some v => veq val v | None => false end)
    || (match aget (pos_key idx) ev with Some v => veq val v | None => false end)
    || (negb (ahas (p_name p) ev) && negb (ahas (pos_key idx) ev)
        && match p_default p with Some e => veq val (eval [] e) | None => false end).

  (* None = KeyError *)
  Fixpoint params_match (ps : list param) (idx : nat) (ev act : ctx) : option bool :=
    match ps with
    | [] => Some true
    | p :: r =>
        match aget (p_name p) act with
        | None => None
        | Some val => if param_matched ev val idx p then params_match r (S idx) ev act else Some false
        end
    end.

  (* state.flow_id_states[flow_id] in order: is the instance a reference instance
     (activated > 0, parent alive and of another flow), and its `arguments` *)
  Fixpoint find_reference (ps : list param) (ev : ctx) (insts : list (bool * ctx)) (i : nat) : option (option nat) :=
    match insts with
    | [] => Some None
    | (is_ref, act) :: r =>
        if negb is_ref then find_reference ps ev r (S i) else
        match params_match ps 0 ev act with
        | None => None
        | Some true => Some (Some i)
        | Some false => find_reference ps ev r (S i)
        end
    end.

  Definition is_shared_start (o : op) : bool :=
    match o with OStartShared _ _ _ => true | _ => false end.
End Binding.

Arguments Ok {T} x.
Arguments Err {T} e.
Arguments mkParam {expr} _ _.
Arguments p_name {expr} _.
Arguments p_default {expr} _.
Arguments APos {expr} _.
Arguments ANamed {expr} _ _.

(* sanity *)
Example pos_key_12 : pos_key 12 = "$12".
Proof. reflexivity. Qed.
