(* C17 - taint theorems over Pipe/Taint.v *)
From Coq Require Import NArith List Bool String Lia.
From NG Require Import Svc.TextPost Pipe.Taint.
Import ListNotations.
Open Scope string_scope.
Open Scope list_scope.

Lemma programs_clean_app : forall a b, programs_clean a -> programs_clean b -> programs_clean (a ++ b).
Proof.
  intros a b Ha Hb e t I E. apply in_app_or in I. destruct I as [I|I]; [eapply Ha|eapply Hb]; eauto.
Qed.

Lemma programs_clean_one_config : forall e m, programs_clean [(e, mk m Config)].
Proof. intros e m e' t I _. destruct I as [I|[]]. inversion I; subst. reflexivity. Qed.

Lemma programs_clean_cons_config : forall e m tr, programs_clean tr -> programs_clean ((e, mk m Config) :: tr).
Proof. intros e m tr H. apply (programs_clean_app [(e, mk m Config)] tr); [apply programs_clean_one_config|exact H]. Qed.

Lemma programs_clean_lookup : forall t, programs_clean [(Lookup, t)].
Proof. intros t e t' I E. destruct I as [I|[]]. inversion I; subst. destruct E; discriminate. Qed.

Section T.
  Variable llm : nat -> text.
  Variable render : text -> (text -> text) -> text.
  Variable prompt_template : nat -> text.
  Variable predefined : text -> option text.
  Variable ctx : text -> option text.
  Variable data_env : list tv -> text -> text.

  Let call' := call llm render prompt_template data_env.
  Let bot_message' := bot_message llm render prompt_template predefined ctx data_env.

  Lemma call_clean : forall k h, programs_clean (snd (call' k h)) /\ fst (call' k h) = mk (llm k) FromLLM.
  Proof. intros k h. split; [apply programs_clean_one_config|reflexivity]. Qed.

  (* the bot-message step: no evaluator interprets an LLM text; an LLM-produced utterance is the
     post-processed completion itself *)
  Lemma bot_message_taint : forall k h bi m tr,
    bot_message' k h bi = Ok (m, tr) ->
    programs_clean tr /\
    (tg m = FromLLM -> bot_message_post (llm k) = Ok (txt m)) /\
    (tg m = Config -> exists tpl, predefined (txt bi) = Some tpl /\ txt m = render tpl (data_env h)).
  Proof.
    intros k h bi m tr H. unfold bot_message', bot_message in H.
    destruct (bot_message_source _ _ (txt bi)) as [src|e]; [|discriminate]. cbn [bind] in H.
    destruct src as [|v|].
    - destruct (predefined (txt bi)) as [tpl|] eqn:P; [|discriminate]. inversion H; subst. clear H.
      split; [apply programs_clean_one_config|]. split; [discriminate|]. intros _. exists tpl. split; reflexivity.
    - destruct (ctx v) as [val|]; [|discriminate]. inversion H; subst. clear H.
      split; [apply programs_clean_lookup|]. split; discriminate.
    - unfold call in H. cbv beta iota zeta in H. cbn [txt] in H.
      destruct (bot_message_post (llm k)) as [mm|e] eqn:B; cbn [bind] in H; [|discriminate H].
      inversion H; subst. clear H. split; [apply programs_clean_one_config|]. split; [reflexivity|discriminate].
  Qed.

  Lemma turn_dialog_taint : forall h m tr,
    turn_dialog llm render prompt_template predefined ctx data_env h = Ok (m, tr) ->
    programs_clean tr /\ (tg m = FromLLM -> bot_message_post (llm 2) = Ok (txt m)).
  Proof.
    intros h m tr H. unfold turn_dialog, call in H. cbv beta iota zeta in H. cbn [txt] in H.
    destruct (user_intent_post (llm 0)) as [ui|e]; cbn [bind] in H; [|discriminate H].
    destruct (next_step_post (llm 1)) as [bi|e]; cbn [bind] in H; [|discriminate H].
    match type of H with context [bind ?X _] =>
      destruct X as [[m' t3]|e] eqn:B; cbn [bind fst snd] in H; [|discriminate H] end.
    inversion H; subst. clear H.
    destruct (bot_message_taint _ _ _ _ _ B) as [C [L _]].
    split; [|exact L].
    apply programs_clean_cons_config. apply programs_clean_cons_config. exact C.
  Qed.

  Lemma turn_general_taint : forall h m tr,
    turn_general llm render prompt_template data_env h = Ok (m, tr) ->
    programs_clean tr /\ general_post (llm 0) = Ok (txt m).
  Proof.
    intros h m tr H. unfold turn_general, call in H. cbv beta iota zeta in H. cbn [txt] in H.
    destruct (general_post (llm 0)) as [g|e] eqn:G; cbn [bind] in H; [|discriminate H]. inversion H; subst.
    split; [apply programs_clean_one_config|reflexivity].
  Qed.

  Lemma turn_single_call_taint : forall h m tr,
    turn_single_call llm render prompt_template data_env h = Ok (m, tr) ->
    programs_clean tr /\ exists ui bi, single_call_post (llm 0) = Ok (ui, bi, txt m).
  Proof.
    intros h m tr H. unfold turn_single_call, call in H. cbv beta iota zeta in H. cbn [txt] in H.
    destruct (single_call_post (llm 0)) as [[[ui bi] bm]|e] eqn:G; cbn [bind snd] in H; [|discriminate H].
    inversion H; subst. split; [apply programs_clean_one_config|]. exists ui, bi. reflexivity.
  Qed.
End T.

(* non-vacuity: a turn whose three completions are hostile template text ends with that text *)
Example taint_example :
  let llm := fun k : nat => match k with
                            | 0%nat => s2t "  ask x"
                            | 1%nat => s2t "bot inform y"
                            | _ => s2t "  ""{{ 7*191 }} $secret"""
                            end in
  exists tr, turn_dialog llm (fun t _ => t) (fun _ => s2t "tpl") (fun _ => None) (fun _ => None) (fun _ t => t) []
             = Ok (mk (s2t "{{ 7*191 }} $secret") FromLLM, tr).
Proof. eexists. vm_compute. reflexivity. Qed.

(* ---------------------------------------------------------------- multi-turn *)

(* with a single rendering pass, over ANY number of turns and whatever the LLM and the user wrote
   in earlier turns, every text interpreted as a template is configuration *)
Lemma conversation_taint : forall llm render pt denv passes users k0 h h' tr,
  (passes <= 1)%nat ->
  conversation llm render pt denv passes k0 h users = Ok (h', tr) ->
  programs_clean tr.
Proof.
  intros llm render pt denv passes users. induction users as [|u rest IH]; intros k0 h h' tr P H.
  - simpl in H. inversion H. intros e t I. destruct I.
  - cbn [conversation] in H. unfold call_p in H. cbv beta iota zeta in H. cbn [txt] in H.
    destruct (general_post (llm k0)) as [m|e]; cbn [bind] in H; [|discriminate H].
    match type of H with context [bind ?X _] => destruct X as [[h2 t2]|e] eqn:R; cbn [bind fst snd] in H; [|discriminate H] end.
    inversion H; subst. clear H.
    assert (A : match passes with S (S _) => False | _ => True end).
    { destruct passes as [|[|p]]; [exact I|exact I|lia]. }
    destruct passes as [|[|p]]; try destruct A; simpl;
      apply programs_clean_cons_config; eapply IH; eauto.
Qed.

(* a second pass interprets LLM-produced text of an earlier turn: two turns suffice *)
Lemma conversation_two_passes_refuted :
  exists llm users h' tr e t,
    conversation llm (fun t _ => t) (fun _ => s2t "tpl") (fun _ t => t) 2 0 [] users = Ok (h', tr) /\
    In (e, t) tr /\ e = Render /\ tg t = FromLLM.
Proof.
  exists (fun _ => s2t "{{ 7*191 }}"), [s2t "hi"; s2t "more"].
  eexists. eexists. exists Render. exists (mk (s2t "tpl") FromLLM).
  split; [vm_compute; reflexivity|]. split; [|split; reflexivity].
  simpl. auto.
Qed.
