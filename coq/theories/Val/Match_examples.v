(* Non-vacuity examples and the refutation witness for the source WITHOUT the set length
   guard (statemachine.py before the fix: commit recorded in KNOWN_FINDINGS.txt). *)
From Coq Require Import ZArith List String Bool.
From NG Require Import Gen.MatchConsts Val.Value Val.Match Val.MatchSpec Val.Match_proofs Val.MatchRun.
Import ListNotations.
Open Scope string_scope.
Open Scope Z_scope.

(* pre-fix matcher: set pattern LARGER than the received set matches with factor^-1 > 1 *)
Example set_guard_missing_refuted :
  score re_search_c str_of_c true true false
        (VSet [VRegex "a"; VRegex "."]) (VSet [VStr "a"]) = RYes (-1).
Proof. vm_compute. reflexivity. Qed.

Example set_guard_missing_not_documented :
  ~ Matches re_search_c str_of_c (VSet [VRegex "a"; VRegex "."]) (VSet [VStr "a"]).
Proof. intro H. inversion H as [| | | | | | | | | |? ? Hl Hf| ]; subst. simpl in Hl. inversion Hl. inversion H1. Qed.

(* with the guard the same pair does not match *)
Example set_guard_present :
  score re_search_c str_of_c true true true
        (VSet [VRegex "a"; VRegex "."]) (VSet [VStr "a"]) = RNo.
Proof. vm_compute. reflexivity. Qed.

(* a non-trivial nested match: hypotheses of the theorems are inhabited *)
Example nested_match :
  score re_search_c str_of_c true true true
        (VDict [("text", VRegex "^hi"); ("tags", VList [VStr "a"; VStr "c"]); ("n", VCmp OpGt (NInt 2))])
        (VDict [("n", VInt 5); ("text", VStr "hi there"); ("tags", VList [VStr "a"; VStr "b"; VStr "c"]); ("extra", VNone)])
  = RYes 2.
Proof. vm_compute. reflexivity. Qed.

(* a hand-built plain Event of an action-event name skips the instance rule *)
Example plain_event_skips_instance_rule :
  event_score re_search_c str_of_c true true true (fun _ => None)
    {| e_name := "XActionFinished"; e_args := []; e_kind := KPlain |}
    {| e_name := "XActionFinished"; e_args := []; e_kind := KAction (Some "a1") |} = EYes 0.
Proof. vm_compute. reflexivity. Qed.

Example action_instance_mismatch :
  event_score re_search_c str_of_c true true true (fun _ => None)
    {| e_name := "XActionFinished"; e_args := []; e_kind := KAction (Some "a2") |}
    {| e_name := "XActionFinished"; e_args := []; e_kind := KAction (Some "a1") |} = ENo.
Proof. vm_compute. reflexivity. Qed.

Lemma set_guard_missing_witness :
  exists re_search str_of p v k,
    score re_search str_of true true false p v = RYes k /\ (k < 0)%Z /\ ~ Matches re_search str_of p v.
Proof.
  exists re_search_c, str_of_c, (VSet [VRegex "a"; VRegex "."]), (VSet [VStr "a"]), (-1).
  split; [exact set_guard_missing_refuted|]. split; [reflexivity | exact set_guard_missing_not_documented].
Qed.
